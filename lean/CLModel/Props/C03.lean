/-
C03 — Comparison reports exactly the missing, obsolete and changed strings.
Property theorems only (helper lemmas live in CLModel/Proofs/C03*.lean; the specification
vocabulary `lastEnt`, `classOf`, `isCls`, `wordsOf`, `noFilter`, `distinct`, `Report.missingKeys`,
`Report.obsoleteKeys` is defined at the top of CLModel/Proofs/C03.lean).

Reading guide.  `ref`, `l10n` are the entity lists `p.parse()` returns for the two files (junk
included), `R = ref.map key`, `L = l10n.map key`.  `lastEnt es k` is the last entity with key `k`
(what `KeyedTuple.__getitem__` returns, C20).  `classOf ref l10n k` classifies a key:
  in R only: `refJunk` if that entity is junk, else `missing`;  in L only: `l10nJunk` / `obsolete`;
  in both:   `binding` if `isinstance(k, str) and keyRE.search(k)`, else `unchanged` if
             `refent.equals(l10nent)`, else `changed`.
`compareEntities ref l10n noFilter = .ok r`: the loop of `ContentComparer.compare` ran with one
observer that filters nothing; `r.updates` are the `updateStats` calls, `r.notes` the details.
"Distinct keys" are given as any duplicate-free list with the same members (`distinct R` is one).
-/
import CLModel.Compare.Content
import CLModel.Compare.Session
import CLModel.Compare.FluentEnt
import CLModel.Proofs.C03
import CLModel.Proofs.C03Sess
import CLModel.Proofs.C03SessCmp
import CLModel.Proofs.C03Ftl
import CLModel.Proofs.C03Val
import CLModel.Proofs.C03Hist
namespace C03
open Cmp AR

/-- `ContentComparer.compare`'s loop never raises, whatever the two entity lists and the filter are:
    every `ref_entities[entity_id]` / `l10n_entities[entity_id]` it evaluates succeeds. -/
theorem compare_total (ref l10n : List Ent) (v : Key → Verdict) :
    ∃ r, compareEntities ref l10n v = .ok r :=
  ⟨_, compare_eq ref l10n v⟩

/-- `observers.updateStats(l10n, stats)` is called exactly once per comparison. -/
theorem stats_once (ref l10n : List Ent) (v : Key → Verdict) (r : Report)
    (h : compareEntities ref l10n v = .ok r) : r.updates.length = 1 := by
  rw [compare_eq] at h
  cases h
  rfl

/-- What the classes mean, in terms of the two files. -/
theorem class_rules (ref l10n : List Ent) (k : Key) :
    (classOf ref l10n k = .missing ↔ ∃ a, lastEnt ref k = some a ∧ a.junk = false ∧ lastEnt l10n k = none) ∧
    (classOf ref l10n k = .obsolete ↔ ∃ b, lastEnt l10n k = some b ∧ b.junk = false ∧ lastEnt ref k = none) ∧
    (∀ a b, lastEnt ref k = some a → lastEnt l10n k = some b →
      classOf ref l10n k = (if keyMatch k then .binding else if a.cls == b.cls then .unchanged else .changed)) ∧
    (lastEnt ref k = none ↔ k ∉ ref.map (·.key)) ∧ (lastEnt l10n k = none ↔ k ∉ l10n.map (·.key)) :=
  ⟨classOf_missing ref l10n k, classOf_obsolete ref l10n k, fun a b ha hb => classOf_shared ref l10n k a b ha hb,
    lastEnt_none ref k, lastEnt_none l10n k⟩

/-- All files (duplicate keys allowed), nothing filtered: the `missingEntity` notifications list every
    distinct reference key of class `missing` exactly once and nothing else; `missing` is their number,
    `missing_w` the sum of the reference word counts over them. -/
theorem missing_set (ref l10n : List Ent) (DR : List Key) (hn : DR.Nodup)
    (hm : ∀ k, k ∈ DR ↔ k ∈ ref.map (·.key)) (r : Report)
    (h : compareEntities ref l10n noFilter = .ok r) :
    ∃ s : Stats, r.updates = [s.toDict] ∧ r.missingKeys.Nodup ∧
      r.missingKeys.Perm (DR.filter (isCls ref l10n .missing)) ∧
      s.missing = r.missingKeys.length ∧ s.missing_w = (r.missingKeys.map (wordsOf ref)).sum := by
  obtain ⟨s, notes, h1, hmk, _, hc, hw, _⟩ := compare_noFilter ref l10n
  rw [h1] at h; cases h
  refine ⟨s, rfl, ?_, ?_, ?_, ?_⟩
  · rw [hmk]; exact (diffKeys_nodup ref l10n).filter _
  · rw [hmk]; exact diff_filter_ref ref l10n .missing (.inl rfl) DR hn hm
  · rw [hmk]; exact hc
  · rw [hmk]; exact hw

/-- Duplicate-free files, nothing filtered: the missing strings are reported exactly as the non-junk
    reference entities whose key is absent from the localization, in the order of the reference file. -/
theorem missing_exact (ref l10n : List Ent) (hr : (ref.map (·.key)).Nodup) (hl : (l10n.map (·.key)).Nodup)
    (r : Report) (h : compareEntities ref l10n noFilter = .ok r) :
    r.missingKeys = (ref.filter (fun e => !e.junk && !(l10n.map (·.key)).contains e.key)).map (·.key) := by
  obtain ⟨s, notes, h1, hmk, _⟩ := compare_noFilter ref l10n
  rw [h1] at h; cases h
  rw [hmk]
  have h2 : (diffKeys ref l10n).filter (isCls ref l10n .missing)
      = ((diffKeys ref l10n).filter (fun k => (ref.map (·.key)).contains k)).filter (isCls ref l10n .missing) := by
    rw [List.filter_filter]
    apply List.filter_congr
    intro k _
    cases hk : isCls ref l10n .missing k
    · rfl
    · have := mem_ref_of_class ref l10n k .missing (.inl rfl) (by simpa [isCls] using hk)
      simp [this]
  rw [h2, diffKeys_filter_ref ref l10n hr hl, List.filter_map]
  congr 1
  apply List.filter_congr
  intro e he
  exact isCls_missing_of_nodup ref l10n hr e he

/-- All files, nothing filtered: the `obsoleteEntity` notifications list every distinct localization key
    of class `obsolete` exactly once and nothing else; `obsolete` is their number. -/
theorem obsolete_set (ref l10n : List Ent) (DL : List Key) (hn : DL.Nodup)
    (hm : ∀ k, k ∈ DL ↔ k ∈ l10n.map (·.key)) (r : Report)
    (h : compareEntities ref l10n noFilter = .ok r) :
    ∃ s : Stats, r.updates = [s.toDict] ∧ r.obsoleteKeys.Nodup ∧
      r.obsoleteKeys.Perm (DL.filter (isCls ref l10n .obsolete)) ∧ s.obsolete = r.obsoleteKeys.length := by
  obtain ⟨s, notes, h1, _, hok, _, _, _, hc, _⟩ := compare_noFilter ref l10n
  rw [h1] at h; cases h
  refine ⟨s, rfl, ?_, ?_, ?_⟩
  · rw [hok]; exact (diffKeys_nodup ref l10n).filter _
  · rw [hok]; exact diff_filter_l10n ref l10n .obsolete (.inl rfl) DL hn hm
  · rw [hok]; exact hc

/-- Duplicate-free localization, nothing filtered: the obsolete strings are exactly (as a set, each once)
    the non-junk localized entities whose key is absent from the reference. -/
theorem obsolete_exact (ref l10n : List Ent) (hl : (l10n.map (·.key)).Nodup)
    (r : Report) (h : compareEntities ref l10n noFilter = .ok r) :
    r.obsoleteKeys.Perm ((l10n.filter (fun e => !e.junk && !(ref.map (·.key)).contains e.key)).map (·.key)) := by
  obtain ⟨s, _, _, hp, _⟩ := obsolete_set ref l10n (l10n.map (·.key)) hl (fun _ => Iff.rfl) r h
  refine hp.trans ?_
  rw [List.filter_map]
  apply List.Perm.of_eq
  congr 1
  apply List.filter_congr
  intro e he
  exact isCls_obsolete_of_nodup ref l10n hl e he

/-- Nothing filtered: every shared key (DS: the distinct keys present in both files) is counted in exactly
    one of `keys` / `unchanged` / `changed`, namely the one `classOf` names (key binding by name, else by
    `equals` of the last entities); the word counters are the reference word sums over the same sets. -/
theorem shared_once (ref l10n : List Ent) (DS : List Key) (hn : DS.Nodup)
    (hm : ∀ k, k ∈ DS ↔ (k ∈ ref.map (·.key) ∧ k ∈ l10n.map (·.key))) (r : Report)
    (h : compareEntities ref l10n noFilter = .ok r) :
    ∃ s : Stats, r.updates = [s.toDict] ∧
      s.keys = (DS.filter (isCls ref l10n .binding)).length ∧
      s.unchanged = (DS.filter (isCls ref l10n .unchanged)).length ∧
      s.changed = (DS.filter (isCls ref l10n .changed)).length ∧
      s.unchanged_w = ((DS.filter (isCls ref l10n .unchanged)).map (wordsOf ref)).sum ∧
      s.changed_w = ((DS.filter (isCls ref l10n .changed)).map (wordsOf ref)).sum ∧
      s.keys + s.unchanged + s.changed = DS.length ∧
      (∀ k ∈ DS, classOf ref l10n k = .binding ∨ classOf ref l10n k = .unchanged ∨ classOf ref l10n k = .changed) := by
  obtain ⟨s, notes, h1, _, _, _, _, _, _, hch, hchw, hun, hunw, hk⟩ := compare_noFilter ref l10n
  rw [h1] at h; cases h
  have hperm : ∀ c, (c = Cls.binding ∨ c = Cls.unchanged ∨ c = Cls.changed) →
      ((diffKeys ref l10n).filter (isCls ref l10n c)).Perm (DS.filter (isCls ref l10n c)) := by
    intro c hc
    apply filter_perm_of _ _ _ (diffKeys_nodup ref l10n) hn
    intro k hk
    have hk' : classOf ref l10n k = c := by simpa [isCls] using hk
    have hR := mem_ref_of_class ref l10n k c (by rcases hc with rfl | rfl | rfl <;> simp) hk'
    have hL := mem_l10n_of_class ref l10n k c (by rcases hc with rfl | rfl | rfl <;> simp) hk'
    rw [mem_diffKeys, hm]
    exact ⟨fun _ => ⟨hR, hL⟩, fun _ => .inl hR⟩
  have hcls : ∀ k ∈ DS, classOf ref l10n k = .binding ∨ classOf ref l10n k = .unchanged ∨ classOf ref l10n k = .changed := by
    intro k hk
    obtain ⟨hR, hL⟩ := (hm k).1 hk
    cases hA : lastEnt ref k with
    | none => exact absurd hR ((lastEnt_none ref k).1 hA)
    | some a =>
      cases hB : lastEnt l10n k with
      | none => exact absurd hL ((lastEnt_none l10n k).1 hB)
      | some b =>
        rw [classOf_shared ref l10n k a b hA hB]
        (repeat' split) <;> simp
  have e1 := (hperm .binding (.inl rfl)).length_eq
  have e2 := (hperm .unchanged (.inr (.inl rfl))).length_eq
  have e3 := (hperm .changed (.inr (.inr rfl))).length_eq
  have p3 := part3 DS (classOf ref l10n) hcls
  refine ⟨s, rfl, hk.trans e1, hun.trans e2, hch.trans e3, ?_, ?_, ?_, hcls⟩
  · rw [hunw]; exact ((hperm .unchanged (.inr (.inl rfl))).map _).sum_nat
  · rw [hchw]; exact ((hperm .changed (.inr (.inr rfl))).map _).sum_nat
  · rw [hk, hun, hch, e1, e2, e3]; exact p3

/-- Nothing filtered: `missing + changed + unchanged + keys` is the number of distinct reference keys
    except those of class `refJunk` (unshared reference junk); nothing is merely reported. -/
theorem counts_partition (ref l10n : List Ent) (DR : List Key) (hn : DR.Nodup)
    (hm : ∀ k, k ∈ DR ↔ k ∈ ref.map (·.key)) (r : Report)
    (h : compareEntities ref l10n noFilter = .ok r) :
    ∃ s : Stats, r.updates = [s.toDict] ∧
      s.missing + s.changed + s.unchanged + s.keys = (DR.filter (fun k => !isCls ref l10n .refJunk k)).length ∧
      s.report = 0 := by
  obtain ⟨s, notes, h1, _, _, hmi, _, hrep, _, hch, _, hun, _, hk⟩ := compare_noFilter ref l10n
  rw [h1] at h; cases h
  refine ⟨s, rfl, ?_, hrep⟩
  have e0 := (diff_filter_ref ref l10n .missing (.inl rfl) DR hn hm).length_eq
  have e1 := (diff_filter_ref ref l10n .changed (.inr (.inr (.inr (.inr rfl)))) DR hn hm).length_eq
  have e2 := (diff_filter_ref ref l10n .unchanged (.inr (.inr (.inr (.inl rfl)))) DR hn hm).length_eq
  have e3 := (diff_filter_ref ref l10n .binding (.inr (.inr (.inl rfl))) DR hn hm).length_eq
  have p4 := part4 DR (classOf ref l10n) (fun k hk => classOf_of_ref ref l10n k ((hm k).1 hk))
  rw [hmi, hch, hun, hk, e0, e1, e2, e3]
  exact p4

/-- Duplicate-free reference whose junk is not shared with the localization, nothing filtered:
    `missing + changed + unchanged + keys` = number of (non-junk) reference strings. -/
theorem counts_partition_nodup (ref l10n : List Ent) (hr : (ref.map (·.key)).Nodup)
    (hj : ∀ e ∈ ref, e.junk = true → e.key ∉ l10n.map (·.key)) (r : Report)
    (h : compareEntities ref l10n noFilter = .ok r) :
    ∃ s : Stats, r.updates = [s.toDict] ∧
      s.missing + s.changed + s.unchanged + s.keys = (ref.filter (fun e => !e.junk)).length := by
  obtain ⟨s, hs, hsum, _⟩ := counts_partition ref l10n (ref.map (·.key)) hr (fun _ => Iff.rfl) r h
  refine ⟨s, hs, ?_⟩
  rw [hsum, List.filter_map, List.length_map]
  congr 1
  apply List.filter_congr
  intro e he
  simp only [Function.comp, isCls_refJunk_of_nodup ref l10n hr e he]
  cases hje : e.junk
  · rfl
  · have := hj e he hje
    have hc : (l10n.map (·.key)).contains e.key = false := by
      rw [← Bool.not_eq_true, List.contains_iff_mem]; exact this
    rw [hc]; rfl

/-- Nothing filtered: `missing_w + changed_w + unchanged_w` is the sum of the reference word counts over the
    distinct reference keys that are missing, changed or unchanged (i.e. all but key bindings and unshared junk). -/
theorem words_partition (ref l10n : List Ent) (DR : List Key) (hn : DR.Nodup)
    (hm : ∀ k, k ∈ DR ↔ k ∈ ref.map (·.key)) (r : Report)
    (h : compareEntities ref l10n noFilter = .ok r) :
    ∃ s : Stats, r.updates = [s.toDict] ∧
      s.missing_w + s.changed_w + s.unchanged_w =
        ((DR.filter (fun k => isCls ref l10n .missing k || isCls ref l10n .changed k || isCls ref l10n .unchanged k)).map
          (wordsOf ref)).sum := by
  obtain ⟨s, notes, h1, _, _, _, hmw, _, _, _, hchw, _, hunw, _⟩ := compare_noFilter ref l10n
  rw [h1] at h; cases h
  refine ⟨s, rfl, ?_⟩
  have e0 := ((diff_filter_ref ref l10n .missing (.inl rfl) DR hn hm).map (wordsOf ref)).sum_nat
  have e1 := ((diff_filter_ref ref l10n .changed (.inr (.inr (.inr (.inr rfl)))) DR hn hm).map (wordsOf ref)).sum_nat
  have e2 := ((diff_filter_ref ref l10n .unchanged (.inr (.inr (.inr (.inl rfl)))) DR hn hm).map (wordsOf ref)).sum_nat
  rw [hmw, hchw, hunw, e0, e1, e2]
  exact part3w DR (classOf ref l10n) (wordsOf ref)

/-- `ContentComparer.add` (missing file, not filtered out): one `missingFile` notification, then `missing` =
    number of non-junk reference entities (duplicates counted) and `missing_w` = the sum of their word counts,
    pushed in two `updateStats` calls; a file the filter ignores pushes nothing. -/
theorem missing_file (ref : List Ent) :
    addMissing ref .error =
      { updates := [[("missing", (ref.filter (fun e => !e.junk)).length)],
                    [("missing_w", ((ref.filter (fun e => !e.junk)).map (·.words)).sum)]],
        notes := [.missingFile .error] } ∧
    addMissing ref .ignore = { updates := [], notes := [] } := by
  constructor
  · simp [addMissing, foldl_words]
  · rfl

/-- gettext keys are `(msgid, msgctxt)` tuples: they are never key bindings, a shared gettext string is
    always classified by `equals`. -/
theorem po_keys_never_bindings (ref l10n : List Ent) (msgid : List Nat) (ctxt : Option (List Nat)) :
    keyMatch (.tup msgid ctxt) = false ∧ classOf ref l10n (.tup msgid ctxt) ≠ .binding := by
  refine ⟨rfl, ?_⟩
  unfold classOf
  cases lastEnt ref (.tup msgid ctxt) <;> cases lastEnt l10n (.tup msgid ctxt) <;> simp [keyMatch] <;>
    (repeat' split) <;> simp

/-- `distinct` provides the duplicate-free key lists the theorems above quantify over -/
theorem distinct_ok (ks : List Key) : (distinct ks).Nodup ∧ (∀ k, k ∈ distinct ks ↔ k ∈ ks) ∧
    (ks.Nodup → distinct ks = ks) :=
  ⟨distinct_nodup ks, mem_distinct ks, distinct_of_nodup ks⟩

/-! ### non-vacuity -/

/-- "a", "bkey", "c", "d", "e" and two junk keys -/
def exRef : List Ent :=
  [⟨.str [97], false, 1, 1, 0⟩, ⟨.str [98, 107, 101, 121], false, 2, 2, 0⟩, ⟨.str [99], false, 3, 3, 0⟩,
   ⟨.str [100], false, 4, 4, 0⟩, ⟨.str [95, 49], true, 0, 0, 7⟩]

def exL10n : List Ent :=
  [⟨.str [101], false, 1, 6, 0⟩, ⟨.str [99], false, 1, 5, 0⟩, ⟨.str [97], false, 1, 1, 0⟩,
   ⟨.str [98, 107, 101, 121], false, 1, 9, 0⟩, ⟨.str [95, 50], true, 0, 0, 8⟩]

/-- the model on a reordered localization with one string of every class: "d" missing (4 words), "e" obsolete,
    "a" unchanged, "c" changed (3 words), "bkey" a key binding, junk on both sides -/
example : ∃ (s : Stats) (notes : List Note), compareEntities exRef exL10n noFilter = .ok { updates := [s.toDict], notes := notes } ∧
    s = { missing := 1, missing_w := 4, report := 0, obsolete := 1, changed := 1, changed_w := 3,
          unchanged := 1, unchanged_w := 1, keys := 1 } ∧
    notes = [.obsoleteEntity (.str [101]), .error (.junk 8), .missingEntity (.str [100]), .warning .refJunk] := by
  refine ⟨_, _, compare_eq _ _ _, ?_, ?_⟩
  · simp only [diffKeys]
    rw [AR.addRemove_eq_spec _ _ (by decide) (by decide)]
    decide
  · simp only [diffKeys]
    rw [AR.addRemove_eq_spec _ _ (by decide) (by decide)]
    decide

/-- the hypotheses of the duplicate-free theorems hold for this pair, and `missing_exact` yields ["d"] -/
example : ∀ r, compareEntities exRef exL10n noFilter = .ok r → r.missingKeys = [.str [100]] := by
  intro r h
  rw [missing_exact exRef exL10n (by decide) (by decide) r h]
  decide

example : (exRef.map (·.key)).Nodup ∧ (exL10n.map (·.key)).Nodup ∧
    (∀ e ∈ exRef, e.junk = true → e.key ∉ exL10n.map (·.key)) ∧ (exRef.filter (fun e => !e.junk)).length = 4 := by
  decide

/-- a gettext pair: the shared tuple key is classified by `equals`, never as a key binding -/
example : classOf [⟨.tup [107, 101, 121] none, false, 1, 1, 0⟩] [⟨.tup [107, 101, 121] none, false, 1, 2, 0⟩]
    (.tup [107, 101, 121] none) = .changed ∧ keyMatch (.str [107, 101, 121]) = true := by decide

/-! ### negation witnesses: what the duplicate-free hypotheses exclude

With a duplicated reference key the loop still reports the key once (`missing_set`), so the list of
`missingEntity` notifications cannot be the entity-by-entity list of `missing_exact`; the same for
`obsolete_exact`.  `counts_partition_nodup` needs "reference junk is not shared": a junk key that also
occurs in the localization is counted as a changed string. -/

example : ∀ r, compareEntities [⟨.str [97], false, 1, 1, 0⟩, ⟨.str [98], false, 1, 2, 0⟩, ⟨.str [97], false, 1, 3, 0⟩] []
      noFilter = .ok r →
    r.missingKeys ≠ [.str [97], .str [98], .str [97]] := by
  intro r h e
  obtain ⟨_, _, hn, _⟩ := missing_set _ _ _ (distinct_nodup _) (mem_distinct _) r h
  rw [e] at hn
  revert hn
  decide

example : ∀ r, compareEntities [] [⟨.str [97], false, 1, 1, 0⟩, ⟨.str [97], false, 1, 3, 0⟩] noFilter = .ok r →
    r.obsoleteKeys ≠ [.str [97], .str [97]] := by
  intro r h e
  obtain ⟨_, _, hn, _⟩ := obsolete_set _ _ _ (distinct_nodup _) (mem_distinct _) r h
  rw [e] at hn
  revert hn
  decide

example : ∃ (s : Stats) (notes : List Note), compareEntities [⟨.str [120], true, 0, 0, 1⟩] [⟨.str [120], false, 1, 1, 0⟩] noFilter
      = .ok { updates := [s.toDict], notes := notes } ∧
    s.missing + s.changed + s.unchanged + s.keys = 1 ∧
    ([⟨.str [120], true, 0, 0, 1⟩] : List Ent).filter (fun e => !e.junk) = [] := by
  refine ⟨_, _, compare_eq _ _ _, ?_, by decide⟩
  simp only [diffKeys]
  rw [AR.addRemove_eq_spec _ _ (by decide) (by decide)]
  decide

/-! ## Round 4

### (A) ONE comparer, a sequence of jobs — `compareProjects` drives one `ContentComparer` through the files of all locales

`Sess.run ext l0 jobs` (CLModel/Compare/Session.lean; `ext` = the external library functions of the pipeline model of C05,
`Pipe.Ext`, which only `text` jobs on DTD texts consult — every theorem holds FOR ALL `ext`): the jobs (`compare` / `add` / `remove` of a reference `File` and a localized
`File`) run one after the other on the same `ObserverList` `l0` (the list's own `Observer` state plus the project observers).
`getCount s L key` is `s.get(L, {}).get(key, 0)` of a summary.  `C03S.Tr l l' evs`: the `notify` / `updateStats` calls `evs`
lead from `l` to `l'`.  `C03S.touches L j`: one of the job's two files has locale `L`. -/

open ObsM in
/-- A job none of whose files has locale `L` leaves `summary[L]` alone — in the list's own summary and in the summary of
    every project observer, for all eleven counters.  (With the per-locale dicts of `Observer.__init__` shared between the
    locales this is false: every job would move the counters of every locale.) -/
theorem job_leaves_other_locales_alone (ext : Pipe.Ext) (l l' : ObsList) (j : Sess.Job) (o : Merge.Outcome)
    (hown : l.own.filter = none)
    (h : Sess.runJob ext l j = .ok (l', o)) (L : Option Sess.Text) (hL : C03S.touches L j = false) :
    (∀ key, getCount l'.own.summary L key = getCount l.own.summary L key) ∧
      All₂ (fun ob ob' => ∀ key, getCount ob'.summary L key = getCount ob.summary L key) l.observers l'.observers := by
  obtain ⟨evs, t, on⟩ := C03S.runJob_tr ext l l' j o h
  have hz := C03S.on_not_touching on hL
  refine ⟨?_, ?_⟩
  · intro key
    rw [(C03S.tr_own t hown).1 L key, C03S.countSpec_other_locale _ L key evs hz]; rfl
  · refine All₂.imp ?_ (C03S.tr_observers t hown)
    intro ob ob' hob key
    rw [hob.1 L key, C03S.countSpec_other_locale _ L key evs hz]; rfl

open ObsM in
/-- After ANY sequence of jobs on one comparer, `summary[L][key]` — of the list and of every project observer — is what it was
    before plus the sum, over the jobs that touch locale `L` ONLY, of what that job's own notifications and stats count for
    (`countSpec`: one per non-ignored error / warning notification of the locale, plus the non-ignored stats values); the jobs
    are blocks `trs` of one history, each block about its job's own two files. -/
theorem session_summary_is_locale_sum (ext : Pipe.Ext) (l0 l' : ObsList) (jobs : List Sess.Job) (os : List Merge.Outcome)
    (hown : l0.own.filter = none) (h : Sess.run ext l0 jobs = .ok (l', os)) :
    ∃ trs : List (List Ev), All₂ (fun j evs => C03S.On (C03S.jobFiles j) evs) jobs trs ∧ C03S.Tr l0 l' trs.flatten ∧
      (∀ L key, getCount l'.own.summary L key = getCount l0.own.summary L key +
        (((jobs.zip trs).filter (fun p => C03S.touches L p.1)).map (fun p => countSpec (ignList l0.filters) L key p.2)).sum) ∧
      All₂ (fun ob ob' => ∀ L key, getCount ob'.summary L key = getCount ob.summary L key +
        (((jobs.zip trs).filter (fun p => C03S.touches L p.1)).map (fun p => countSpec (ignObs ob.filter) L key p.2)).sum)
        l0.observers l'.observers := by
  obtain ⟨trs, hall, t⟩ := C03S.run_tr ext jobs l0 l' os h
  refine ⟨trs, hall, t, ?_, ?_⟩
  · intro L key
    rw [(C03S.tr_own t hown).1 L key, C03S.sum_flatten, C03S.sum_touching _ L key jobs trs hall]
  · refine All₂.imp ?_ (C03S.tr_observers t hown)
    intro ob ob' hob L key
    rw [hob.1 L key, C03S.sum_flatten, C03S.sum_touching _ L key jobs trs hall]

open ObsM in
/-- What ONE comparison adds, whatever the observers have accumulated before: the job's block is notifications about the
    localized file followed by one stats event; the stats are those of `compareEntities` (every theorem above applies to them)
    under the verdicts `ObserverList.notify` returns for the project observers' filters; and the nine string counters of
    `summary[locale of the localized file]` grow by exactly these stats, those of every other locale by nothing. -/
theorem compare_job_adds_its_counts (file : File) (j : Sess.EntJob) (l l' : ObsList) (hown : l.own.filter = none)
    (h : Sess.compareEnts file j l = .ok l') :
    ∃ (s : Stats) (notes : List Note),
      compareEntities j.ref j.l10n (C03S.verdictOf l.filters file) = .ok { updates := [s.toDict], notes := notes } ∧
      ∀ L key, key ≠ .errors → key ≠ .warnings →
        getCount l'.own.summary L key = getCount l.own.summary L key + (if file.locale = L then C03S.statOf s key else 0) := by
  obtain ⟨evs, s, notes, t, hn, hc⟩ := C03S.compareEnts_refines file j l l' hown h
  refine ⟨s, notes, hc, ?_⟩
  intro L key hk1 hk2
  rw [(C03S.tr_own t hown).1 L key, C03S.block_count l.filters file evs hn s L key hk1 hk2]

/-- With project observers that filter nothing (at least one), the verdict is "error" for every key: the job's stats are
    those of `compareEntities … noFilter`, the object of `missing_set`, `obsolete_set`, `shared_once`, `counts_partition`. -/
theorem unfiltered_job_is_plain_comparison (F : List (Option ObsM.Filter)) (file : ObsM.File) (hne : F ≠ [])
    (hall : ∀ x ∈ F, x = none) : C03S.verdictOf F file = noFilter :=
  C03S.verdictOf_unfiltered F file hne hall

/-- non-vacuity: two locales through one comparer with one unfiltered project observer — a missing file of `de` (3 strings,
    5 words), then one of `fr` (1 string, 2 words): the run returns, and each locale's summary — of the list and of the
    project observer — holds its own numbers only.  (Entity-level jobs: no external function is consulted; `default` is the
    `Pipe.Ext` of the driver operations that send no table.) -/
example : (match Sess.run default (ObsM.ObsList.init 0 [ObsM.Obs.init 0 none])
      [.add ⟨[97], none, none⟩ ⟨[100, 101, 47, 97], none, some [100, 101]⟩ false
          (.ents 6 [⟨.str [97], false, 2, 1, 0⟩, ⟨.str [98], false, 2, 2, 0⟩, ⟨.str [99], false, 1, 3, 0⟩]),
       .add ⟨[97], none, none⟩ ⟨[102, 114, 47, 97], none, some [102, 114]⟩ false (.ents 6 [⟨.str [97], false, 2, 1, 0⟩])] with
    | .ok (l', _) =>
      (l'.own :: l'.observers).all (fun o =>
        ObsM.getCount o.summary (some [100, 101]) .missing == 3 && ObsM.getCount o.summary (some [102, 114]) .missing == 1 &&
        ObsM.getCount o.summary (some [100, 101]) .missing_w == 5 && ObsM.getCount o.summary (some [102, 114]) .missing_w == 2)
    | .error _ => false) = true := by decide +kernel

/-! ### (B) Fluent: `FluentEntity.equals`, `FluentAttribute.equals`, `count_words` on the fluent.syntax AST

`FtlC.equals self other` = `self.entry.equals(other.entry, ignored_fields)`, `FtlC.countWords` = `count_words()`
(CLModel/Compare/FluentEnt.lean).  `C03F.erase…` rewrite every span start of an AST to 0; `C03F.sameEq a b` is `equals`
between two messages or two terms (what the loop evaluates: the two entities have the same key). -/

/-- `equals` compares the id, the span-erased value and — unless `self` is a term — the span-erased attributes in order;
    nothing else (no span, no comment, not even the class of `other`). -/
theorem fluent_equals_is_erased_equality (self other : Ftl.Entry) : FtlC.equals self other = true ↔
    FtlC.entId self = FtlC.entId other ∧
      (FtlC.entValue self).map C03F.erasePattern = (FtlC.entValue other).map C03F.erasePattern ∧
      (FtlC.isTerm self = true ∨ C03F.eraseAttrs (FtlC.entAttrs self) = C03F.eraseAttrs (FtlC.entAttrs other)) :=
  C03F.equals_iff self other

/-- `FluentAttribute.equals`: same name and span-erased pattern. -/
theorem fluent_attribute_equals (a b : Ftl.Attribute) : FtlC.eqAttr a b = true ↔ C03F.eraseAttr a = C03F.eraseAttr b :=
  C03F.eqAttr_iff a b

/-- Between entries of the same class `equals` is an equivalence relation. -/
theorem fluent_equals_equivalence :
    (∀ a, C03F.sameEq a a = true) ∧ (∀ a b, C03F.sameEq a b = C03F.sameEq b a) ∧
      (∀ a b c, C03F.sameEq a b = true → C03F.sameEq b c = true → C03F.sameEq a c = true) :=
  ⟨C03F.sameEq_refl, C03F.sameEq_symm, C03F.sameEq_trans⟩

/-- Spans, comments (and with them indentation and blank lines, which only move spans) are invisible: an entry `equals` its
    span-erased form, has the same word count, `equals a b` can be computed on the span-erased forms, and the entity lists
    of a file do not depend on the comments. -/
theorem fluent_equals_ignores_spans_and_comments :
    (∀ e, C03F.sameEq e (C03F.eraseEntry e) = true) ∧
    (∀ a b, C03F.sameEq a b = C03F.sameEq (C03F.eraseEntry a) (C03F.eraseEntry b)) ∧
    (∀ e, FtlC.countWords (C03F.eraseEntry e) = FtlC.countWords e) ∧
    (∀ items reps, FtlC.toEnts (items.map C03F.dropComment) reps = FtlC.toEnts items reps) := by
  refine ⟨C03F.sameEq_erase, ?_, C03F.countWords_erase, C03F.toEnts_comments⟩
  intro a b
  have ha := C03F.sameEq_erase a
  have hb := C03F.sameEq_erase b
  cases h : C03F.sameEq a b
  · cases h2 : C03F.sameEq (C03F.eraseEntry a) (C03F.eraseEntry b)
    · rfl
    · have := C03F.sameEq_trans a _ b (C03F.sameEq_trans a _ _ ha h2) (by rw [C03F.sameEq_symm]; exact hb)
      rw [h] at this; cases this
  · exact (C03F.sameEq_trans _ b _ (C03F.sameEq_trans _ a b (by rw [C03F.sameEq_symm]; exact ha) h) hb).symm

/-- Word counts as the code defines them: a select expression counts the text of ALL its variants and nothing of its
    selector; a pattern is the sum of its elements, a text element its white-space separated words, literals and references
    nothing; a message counts value and attributes, a term its value only. -/
theorem fluent_word_counts :
    (∀ sel vs, FtlC.wExpr (.select sel vs) = (vs.map (fun v => FtlC.wPattern (C03F.variantValue v))).sum) ∧
    (∀ st els, FtlC.wPattern (.mk st els) = (els.map FtlC.wElem).sum) ∧
    (∀ v, FtlC.wElem (.text v) = splitCount v) ∧
    (∀ v, FtlC.wExpr (.strLit v) = 0) ∧ (∀ v, FtlC.wExpr (.numLit v) = 0) ∧ (∀ v, FtlC.wExpr (.varRef v) = 0) ∧
    (∀ s i a, FtlC.wExpr (.msgRef s i a) = 0) ∧
    (∀ m : Ftl.Message, FtlC.countWords (.message m) =
      (match m.value with | some p => FtlC.wPattern p | none => 0) + (m.attributes.map (fun a => FtlC.wPattern a.value)).sum) ∧
    (∀ t : Ftl.Term, FtlC.countWords (.term t) = FtlC.wPattern t.value) := by
  refine ⟨?_, ?_, ?_, ?_, ?_, ?_, ?_, ?_, ?_⟩
  · intro sel vs; simp [FtlC.wExpr, C03F.wVariants_sum]
  · intro st els; simp [FtlC.wPattern, C03F.wElems_sum]
  · intro v; simp [FtlC.wElem]
  · intro v; simp [FtlC.wExpr]
  · intro v; simp [FtlC.wExpr]
  · intro v; simp [FtlC.wExpr]
  · intro s i a; simp [FtlC.wExpr]
  · intro m
    obtain ⟨st, id, v, as⟩ := m
    cases v <;> simp [FtlC.countWords, C03F.wAttrs_sum]
  · intro t; simp [FtlC.countWords]

/-- changed ⇔ ¬equals: in the entity lists the loop gets for two Fluent files, a reference entity and a localized entity carry
    the same class number iff `equals` holds between them (and the word count is `count_words` of the AST) — so `class_rules`
    reads: a shared key that is no key binding is `unchanged` iff the localized entry `equals` the reference entry. -/
theorem fluent_classes_are_equals (ref l10n : List FtlC.Item) (i j : Nat) (k1 k2 : Key) (c1 c2 : Option Ftl.Str)
    (e1 e2 : Ftl.Entry) (h1 : ref[i]? = some (.ent k1 c1 e1)) (h2 : l10n[j]? = some (.ent k2 c2 e2)) :
    ∃ a b, (FtlC.toEnts ref []).1[i]? = some a ∧ (FtlC.toEnts l10n (FtlC.toEnts ref []).2).1[j]? = some b ∧
      a.key = k1 ∧ b.key = k2 ∧ a.junk = false ∧ b.junk = false ∧ a.words = FtlC.countWords e1 ∧
      b.words = FtlC.countWords e2 ∧ ((a.cls == b.cls) = C03F.sameEq e1 e2) :=
  C03F.fluent_cls ref l10n i j k1 k2 c1 c2 e1 e2 h1 h2

/-- unchanged + changed + missing word sums add up for Fluent files as for any other (instance of `words_partition`). -/
theorem fluent_words_partition (ref l10n : List FtlC.Item) (DR : List Key) (hn : DR.Nodup)
    (hm : ∀ k, k ∈ DR ↔ k ∈ (FtlC.toEnts ref []).1.map (·.key)) (r : Report)
    (h : FtlC.compareFluent ref l10n noFilter = .ok r) :
    ∃ s : Stats, r.updates = [s.toDict] ∧
      s.missing_w + s.changed_w + s.unchanged_w =
        ((DR.filter (fun k => isCls (FtlC.toEnts ref []).1 (FtlC.toEnts l10n (FtlC.toEnts ref []).2).1 .missing k ||
            isCls (FtlC.toEnts ref []).1 (FtlC.toEnts l10n (FtlC.toEnts ref []).2).1 .changed k ||
            isCls (FtlC.toEnts ref []).1 (FtlC.toEnts l10n (FtlC.toEnts ref []).2).1 .unchanged k)).map
          (wordsOf (FtlC.toEnts ref []).1)).sum :=
  words_partition _ _ DR hn hm r h

/-- `key = { $n -> [one] One thing *[other] { $n } things here }`: four words (all variants, no selector), whatever the spans -/
example : FtlC.countWords (.message (Ftl.Message.mk 7 [107]
      (some (.mk 4 [.placeable (.select (.varRef [110])
        [.mk (.ident 9 [111, 110, 101]) (.mk 15 [.text [79, 110, 101, 32, 116, 104, 105, 110, 103]]) false,
         .mk (.ident 30 [111, 116, 104, 101, 114]) (.mk 38 [.placeable (.varRef [110]), .text [32, 116, 104, 105, 110, 103, 115, 32, 104, 101, 114, 101]]) true])]))
      [])) = 4 := by decide

/-- negation witness for "same class": across classes `equals` is not symmetric — a term ignores the attributes of the other
    entry, a message does not (never evaluated by the comparer: a term's key starts with "-"). -/
example : FtlC.equals (.term (Ftl.Term.mk 0 [97] (.mk 0 [.text [120]]) []))
      (.message (Ftl.Message.mk 0 [97] (some (.mk 0 [.text [120]])) [⟨0, [116], .mk 0 [.text [121]]⟩])) = true ∧
    FtlC.equals (.message (Ftl.Message.mk 0 [97] (some (.mk 0 [.text [120]])) [⟨0, [116], .mk 0 [.text [121]]⟩]))
      (.term (Ftl.Term.mk 0 [97] (.mk 0 [.text [120]]) [])) = false := by
  simp [FtlC.equals, FtlC.entId, FtlC.entValue, FtlC.entAttrs, FtlC.isTerm, FtlC.eqOptPattern, FtlC.eqPattern, FtlC.eqElems,
    FtlC.eqElem, FtlC.eqAttrs]

/-! ### (C) `Entry.equals` compares `val` (the unescaped value), never `raw_val` -/

/-- The `equal` branch of the composed comparison (Compare/Pipeline.lean, parser + value semantics of C02), for every
    entity class whose `equals` is `Entry.equals` (`env.cls ≠ .fluent`: ini, inc, po, properties, DTD, Android —
    `FluentEntity.equals` compares the ASTs instead, `fluent_equals_is_erased_equality`; negation witness below): a shared
    key that is no key binding is counted `unchanged` iff key and VALUE of the two entities agree, else `changed`; the raw
    texts are not looked at, and the words are `count_words()` of the reference — which, for every entity the regex parsers
    build (`Pipe.mkEnt`, any format, any external functions `ext`), are the words of its VALUE.
    (Before the pipeline covered Fluent the model had no entity class and no `words` field: the statement read
    `countWords refent.val` for every `env`; the second conjunct says this is what `refent.words` is.) -/
theorem unchanged_by_value_not_raw (env : Pipe.Env) (hcls : env.cls ≠ .fluent) (ref l10n : List Pipe.PEnt)
    (st st' : Pipe.LoopSt) (k : Key)
    (refent l10nent : Pipe.PEnt) (hr : Pipe.lookup ref k = .ok refent) (hl : Pipe.lookup l10n k = .ok l10nent)
    (hk : keyMatch k = false) (h : Pipe.step env ref l10n st (.equal, k) = .ok st') :
    st'.stats = (if refent.key == l10nent.key && refent.val == l10nent.val then
        { st.stats with unchanged := st.stats.unchanged + 1, unchanged_w := st.stats.unchanged_w + refent.words }
      else { st.stats with changed := st.stats.changed + 1, changed_w := st.stats.changed_w + refent.words }) ∧
    (∀ (ext : Pipe.Ext) (fmt : P.Fmt) (s : Array Nat) (he : Hist.Ent), Pipe.mkEnt ext fmt s he = .ok refent →
      refent.junk = false → refent.words = countWords refent.val) :=
  ⟨C03V.equal_step_by_val env hcls ref l10n st st' k refent l10nent hr hl hk h,
   fun ext fmt s he hm hj => (PipeBridge.mkEnt_words ext fmt s he refent hm).1 hj⟩

/-- non-vacuity of the second conjunct: the entity the parser model builds for `k = two words` counts 2 words -/
example : (match Pipe.parseFile default .properties #[107, 32, 61, 32, 116, 119, 111, 32, 119, 111, 114, 100, 115] 0 with
    | .ok (es, _) => es.map (fun e => (e.junk, e.words, countWords e.val))
    | .error _ => []) = [(false, 2, 2)] := by decide +kernel

/-- NEGATION WITNESS for `env.cls ≠ .fluent`: two Fluent entities `a = x⏎ .t = y` and `a = x⏎ .t = z` have the same key and
    the same `val` ("x") but their ASTs differ in an attribute (`equals` classes 0 and 1): the loop counts `changed` -/
example :
    let ast (c : Nat) : Ftl.Entry := .message (Ftl.Message.mk 0 [97] (some (.mk 4 [.text [120]])) [⟨8, [116], .mk 13 [.text [c]]⟩])
    let ent (c eqc : Nat) : Pipe.PEnt :=
      { entry := Pipe.noSpan .entity, junk := false, key := .str [97], val := [120], raw := [120],
        all := [97, 32, 61, 32, 120, 10, 32, 32, 46, 116, 32, 61, 32, c], comment := none, words := 2, ftl := some (ast c, eqc) }
    (match Pipe.step (Pipe.ftlEnv (Pipe.fileNamed Pipe.ftlFileName) false #[]) [ent 121 0] [ent 122 1] { obs := Pipe.stdObs }
        (.equal, .str [97]) with
     | .ok st' => (ent 121 0).key == (ent 122 1).key && (ent 121 0).val == (ent 122 1).val &&
         st'.stats.changed == 1 && st'.stats.unchanged == 0 && st'.stats.changed_w == 2
     | .error _ => false) = true := by decide +kernel

/-- `.properties`: the value is the documented unescape of the raw text (`C02.props_unescape_is_spec`), so two entities whose
    raw texts differ but unescape to the same text have the same `val` — and are `unchanged` by the theorem above.
    (`ext`: the external functions of the pipeline model, which `.properties` never consults — for all of them.) -/
theorem properties_same_unescape_same_value (ext : Pipe.Ext) (s1 s2 : Array Nat) (h1 h2 : Hist.Ent) (a b : Pipe.PEnt)
    (ha : Pipe.mkEnt ext P.Fmt.properties s1 h1 = .ok a) (hb : Pipe.mkEnt ext P.Fmt.properties s2 h2 = .ok b)
    (ja : a.junk = false)
    (jb : b.junk = false) (hv : P.propsUnescapeSpec a.raw = P.propsUnescapeSpec b.raw) :
    a.val = b.val ∧ a.val = P.propsUnescapeSpec a.raw :=
  ⟨C03V.props_same_value ext s1 s2 h1 h2 a b ha hb ja jb hv, C03V.mkEnt_props_val ext s1 h1 a ha ja⟩

/-- `café` and `café`; `two \⏎   words` (line continuation) and `two words`: different raw texts, one value -/
example : P.propsUnescapeSpec [99, 97, 102, 92, 117, 48, 48, 101, 57] = P.propsUnescapeSpec [99, 97, 102, 233] ∧
    P.propsUnescapeSpec [116, 119, 111, 32, 92, 10, 32, 32, 32, 119, 111, 114, 100, 115]
      = P.propsUnescapeSpec [116, 119, 111, 32, 119, 111, 114, 100, 115] := by
  constructor <;>
    exact Option.some.inj (((P.propsVal_eq_spec _).symm.trans (by decide)).trans (P.propsVal_eq_spec _))

/-! ### (D) duplicated keys -/

/-- A reference with duplicated keys and a localization with the IDENTICAL key sequence (a verbatim copy, or any re-valuing
    of it): nothing is missing or obsolete, and `changed + unchanged + keys` is the number of DISTINCT reference keys —
    a key that occurs twice is one string. -/
theorem duplicates_same_key_sequence (ref l10n : List Ent) (hk : ref.map (·.key) = l10n.map (·.key)) (r : Report)
    (h : compareEntities ref l10n noFilter = .ok r) :
    ∃ s : Stats, r.updates = [s.toDict] ∧ r.missingKeys = [] ∧ r.obsoleteKeys = [] ∧ s.missing = 0 ∧ s.obsolete = 0 ∧
      s.missing + s.changed + s.unchanged + s.keys = (distinct (ref.map (·.key))).length := by
  obtain ⟨s, hs, hmn, hmp, hmc, _⟩ := missing_set ref l10n _ (distinct_nodup _) (mem_distinct _) r h
  obtain ⟨s2, hs2, hon, hop, hoc⟩ := obsolete_set ref l10n _ (distinct_nodup _) (mem_distinct _) r h
  obtain ⟨s3, hs3, _, _, _, _, _, hsum, _⟩ := shared_once ref l10n (distinct (ref.map (·.key))) (distinct_nodup _)
    (fun k => by rw [mem_distinct, ← hk]; simp) r h
  have e2 : s2 = s := C03S.toDict_inj (by rw [hs] at hs2; simpa using hs2.symm)
  have e3 : s3 = s := C03S.toDict_inj (by rw [hs] at hs3; simpa using hs3.symm)
  rw [e2] at hoc
  rw [e3] at hsum
  have hm0 : (distinct (ref.map (·.key))).filter (isCls ref l10n .missing) = [] := by
    rw [List.filter_eq_nil_iff]
    intro k hkm hc
    have hc' : classOf ref l10n k = .missing := by simpa [isCls] using hc
    obtain ⟨a, _, _, hn⟩ := (classOf_missing ref l10n k).1 hc'
    have : k ∈ ref.map (·.key) := (mem_distinct _ k).1 hkm
    rw [hk] at this
    exact (lastEnt_none l10n k).1 hn this
  have ho0 : (distinct (l10n.map (·.key))).filter (isCls ref l10n .obsolete) = [] := by
    rw [List.filter_eq_nil_iff]
    intro k hkm hc
    have hc' : classOf ref l10n k = .obsolete := by simpa [isCls] using hc
    obtain ⟨a, _, _, hn⟩ := (classOf_obsolete ref l10n k).1 hc'
    have : k ∈ l10n.map (·.key) := (mem_distinct _ k).1 hkm
    rw [← hk] at this
    exact (lastEnt_none ref k).1 hn this
  rw [hm0] at hmp
  rw [ho0] at hop
  have hmk : r.missingKeys = [] := List.Perm.eq_nil hmp
  have hok : r.obsoleteKeys = [] := List.Perm.eq_nil hop
  refine ⟨s, hs, hmk, hok, by rw [hmc, hmk]; rfl, by rw [hoc, hok]; rfl, ?_⟩
  have : s.missing = 0 := by rw [hmc, hmk]; rfl
  omega

/-- `[a, b, a]` against a copy with the same key sequence: two strings, not three -/
example : ∀ r, compareEntities [⟨.str [97], false, 1, 1, 0⟩, ⟨.str [98], false, 1, 2, 0⟩, ⟨.str [97], false, 1, 3, 0⟩]
      [⟨.str [97], false, 1, 1, 0⟩, ⟨.str [98], false, 1, 2, 0⟩, ⟨.str [97], false, 1, 3, 0⟩] noFilter = .ok r →
    ∃ s : Stats, r.updates = [s.toDict] ∧ s.missing + s.changed + s.unchanged + s.keys = 2 := by
  intro r h
  obtain ⟨s, hs, _, _, _, _, hsum⟩ := duplicates_same_key_sequence _ _ (by decide) r h
  exact ⟨s, hs, by rw [hsum]; decide⟩

/-! ### (F) round 5: ONE PROCESS — a job's report is independent of every earlier job, of any format, on any comparer

`Sess.Proc` = the interpreter: the live `ContentComparer`s (each one its `ObserverList`) and the process-wide memo — a state
component WITHOUT content, because at the pinned commit no class attribute, module global or cache is read or written by
`compare` / `add` / `remove` (`Entry.count_words`, `val`, `equals` are recomputed from the entity, `AddRemove` is created per
comparison).  `Sess.Proc.step ext p c j` = the call `j` on comparer `c`; `Sess.Proc.run` = a history of such calls.
`C03H.Same a b` = the two observer lists were configured alike (same filters), whatever they have accumulated. -/

open ObsM in
/-- HISTORY FREEDOM.  Let `q` be the process after ANY history of calls (of files of any formats, on any comparers) from `p`.
    The same call `j` on comparer `c` in `p` and in `q`, when both return:
    * decides the same about the merge file,
    * is the SAME block `evs` of notifications (category, file, data — i.e. the same missing / obsolete strings, warnings and
      errors, in the same order) and `updateStats` pushes (the same nine counters and word sums) towards the observers,
    * so what it adds to every counter of every locale — of the list and of each project observer — is the same
      (`new₁ + old₀ = new₀ + old₁`), and
    * the process-wide memo is what it was (there is nothing in it to consult).
    False for a code base in which `count_words` / `val` / `equals` / the diff consult a table filled by earlier calls. -/
theorem job_result_history_free (ext : Pipe.Ext) (p q : Sess.Proc) (hist : List (Nat × Sess.Job)) (outs : List Merge.Outcome)
    (hrun : Sess.Proc.run ext p hist = .ok (q, outs)) (c : Nat) (j : Sess.Job) (p' q' : Sess.Proc) (o o' : Merge.Outcome)
    (h0 : Sess.Proc.step ext p c j = .ok (p', o)) (h1 : Sess.Proc.step ext q c j = .ok (q', o')) :
    o' = o ∧ q.memo = p.memo ∧ q'.memo = p'.memo ∧
    ∃ (l0 l0' l1 l1' : ObsList) (evs : List Ev),
      p.comparers[c]? = some l0 ∧ p'.comparers[c]? = some l0' ∧ q.comparers[c]? = some l1 ∧ q'.comparers[c]? = some l1' ∧
      C03S.Tr l0 l0' evs ∧ C03S.Tr l1 l1' evs ∧
      (l0.own.filter = none →
        (∀ L key, getCount l1'.own.summary L key + getCount l0.own.summary L key =
                  getCount l0'.own.summary L key + getCount l1.own.summary L key) ∧
        (∀ (i : Nat) (x0 x0' x1 x1' : Obs), l0.observers[i]? = some x0 → l0'.observers[i]? = some x0' → l1.observers[i]? = some x1 →
          l1'.observers[i]? = some x1' → ∀ L key,
            getCount x1'.summary L key + getCount x0.summary L key = getCount x0'.summary L key + getCount x1.summary L key)) := by
  obtain ⟨hm, hf⟩ := C03H.run_frame ext hist hrun
  obtain ⟨ho, l0, l0', l1, l1', e1, e2, e3, e4, j0, j1, hs⟩ := C03H.step_sim ext (hf c) h0 h1
  have hab : C03H.Same l0 l1 := by
    have := hf c
    unfold C03H.SameAt at this
    simpa [e1, e3] using this
  have m0 := (C03H.step_frame ext h0).1
  have m1 := (C03H.step_frame ext h1).1
  obtain ⟨hsame, evs, t0, t1⟩ := hs
  refine ⟨ho, hm, by rw [m1, m0, hm], l0, l0', l1, l1', evs, e1, e2, e3, e4, t0, t1, ?_⟩
  intro hown
  have hs' : C03H.Sim l0 l0' l1 l1' := ⟨hsame, evs, t0, t1⟩
  refine ⟨?_, ?_⟩
  · intro L key
    have := C03H.sim_counts hab hs' hown L key
    omega
  · intro i x0 x0' x1 x1' a1 a2 a3 a4 L key
    have := C03H.sim_observer_counts hab hs' hown i x0 x0' x1 x1' a1 a2 a3 a4 L key
    omega

open ObsM in
/-- The form the harness tests (cross-format histories against a fresh worker process): in a process that started FRESH
    (`cfgs` = quiet level and project filters of each comparer), after any history, a call adds to every counter of the list
    exactly what the same call reports as the FIRST call of a fresh process with the same comparers. -/
theorem job_counts_as_in_fresh_process (ext : Pipe.Ext) (cfgs : List (Nat × List (Option Filter))) (q : Sess.Proc)
    (hist : List (Nat × Sess.Job)) (outs : List Merge.Outcome) (hrun : Sess.Proc.run ext (Sess.Proc.fresh cfgs) hist = .ok (q, outs))
    (c : Nat) (j : Sess.Job) (p' q' : Sess.Proc) (o o' : Merge.Outcome)
    (h0 : Sess.Proc.step ext (Sess.Proc.fresh cfgs) c j = .ok (p', o)) (h1 : Sess.Proc.step ext q c j = .ok (q', o')) :
    o' = o ∧ ∃ (lf l1 l1' : ObsList), p'.comparers[c]? = some lf ∧ q.comparers[c]? = some l1 ∧ q'.comparers[c]? = some l1' ∧
      ∀ L key, getCount l1'.own.summary L key = getCount l1.own.summary L key + getCount lf.own.summary L key := by
  obtain ⟨ho, _, _, l0, l0', l1, l1', evs, e1, e2, e3, e4, _, _, hc⟩ := job_result_history_free ext _ q hist outs hrun c j p' q' o o' h0 h1
  refine ⟨ho, l0', l1, l1', e2, e3, e4, ?_⟩
  simp only [Sess.Proc.fresh, List.getElem?_map] at e1
  cases hcfg : cfgs[c]? with
  | none => rw [hcfg] at e1; cases e1
  | some cfg =>
    rw [hcfg] at e1
    simp only [Option.map_some, Option.some.injEq] at e1
    subst e1
    intro L key
    have := (hc rfl).1 L key
    have hz : getCount (ObsList.init cfg.1 (cfg.2.map (Obs.init cfg.1))).own.summary L key = 0 := rfl
    rw [hz] at this
    omega

/-- non-vacuity: a process with two comparers; a `.properties`-like missing file on comparer 0, a DTD-like one on comparer 1,
    then the first job again on comparer 0: the third call adds what the first added (3 strings, 5 words), the memo is `empty`. -/
example : (match Sess.Proc.run default (Sess.Proc.fresh [(0, [none]), (0, [none])])
      [(0, .add ⟨[97], none, none⟩ ⟨[100, 101, 47, 97], none, some [100, 101]⟩ false
          (.ents 6 [⟨.str [97], false, 2, 1, 0⟩, ⟨.str [98], false, 2, 2, 0⟩, ⟨.str [99], false, 1, 3, 0⟩])),
       (1, .add ⟨[98], none, none⟩ ⟨[100, 101, 47, 98], none, some [100, 101]⟩ false (.ents 6 [⟨.str [97], false, 3, 1, 0⟩])),
       (0, .add ⟨[97], none, none⟩ ⟨[100, 101, 47, 97], none, some [100, 101]⟩ false
          (.ents 6 [⟨.str [97], false, 2, 1, 0⟩, ⟨.str [98], false, 2, 2, 0⟩, ⟨.str [99], false, 1, 3, 0⟩]))] with
    | .ok (p, _) =>
      p.memo == .empty &&
      (p.comparers.map (fun l => (ObsM.getCount l.own.summary (some [100, 101]) .missing,
                                   ObsM.getCount l.own.summary (some [100, 101]) .missing_w))) == [(6, 10), (1, 3)]
    | .error _ => false) = true := by decide +kernel

/-- why "both calls return" (`h0`, `h1`) are hypotheses: whether `Tree.__getitem__` raises depends on the details tree.  From a
    degenerate tree (a branch with an empty key — not reachable from `Proc.fresh`, C10's `Obs.run_ok`) the call raises
    `UnboundLocalError`, from the fresh state with the same configuration it returns. -/
example :
    let f : ObsM.File := ⟨[100, 101, 47, 97], none, some [100, 101]⟩
    let l0 := ObsM.ObsList.init 0 [ObsM.Obs.init 0 none]
    let l1 : ObsM.ObsList := { l0 with own := { l0.own with details := .node [([], TreeM.Tree.empty)] none } }
    (l0.filters = l1.filters ∧ l0.own.filter = l1.own.filter) ∧
    (match Sess.runJob default l0 (.remove f f false), Sess.runJob default l1 (.remove f f false) with
      | .ok _, .error _ => true
      | _, _ => false) = true := by
  refine ⟨⟨rfl, rfl⟩, ?_⟩
  decide +kernel

/-! ### (E) `KeyedTuple.__contains__` / `__getitem__` for every kind of argument -/

/-- `x in entities` is true exactly for a key of some entity and for the tuple's own entity objects (ints, foreign objects and
    unhashable values are not `in` it); `entities[key]` returns the LAST entity with that key, and a key that is not there is a
    `TypeError` (it falls through to `tuple.__getitem__`). -/
theorem keyed_probe_spec (es : List Ent) :
    (∀ k, Sess.keyedContainsProbe es (.key k) = true ↔ k ∈ es.map (·.key)) ∧
    (∀ i, Sess.keyedContainsProbe es (.item i) = true ↔ i < es.length) ∧
    (∀ i, Sess.keyedContainsProbe es (.index i) = false) ∧ Sess.keyedContainsProbe es .unhashable = false ∧
    (∀ k, k ∈ es.map (·.key) → ∃ i e, Sess.keyedGetProbe es (.key k) = .item i ∧ es[i]? = some e ∧ lastEnt es k = some e) ∧
    (∀ k, k ∉ es.map (·.key) → Sess.keyedGetProbe es (.key k) = .typeError) := by
  refine ⟨?_, ?_, fun _ => rfl, rfl, ?_, ?_⟩
  · intro k
    simp [Sess.keyedContainsProbe, AR.keyedContains_eq]
  · intro i; simp [Sess.keyedContainsProbe]
  · intro k hk
    have hl := lookup_eq es k
    unfold lookup at hl
    unfold Sess.keyedGetProbe
    cases hi : AR.keyedIndex (es.map (·.key)) k with
    | none =>
      rw [hi] at hl
      cases hle : lastEnt es k with
      | none => exact absurd hk ((lastEnt_none es k).1 hle)
      | some e => rw [hle] at hl; cases hl
    | some i =>
      rw [hi] at hl
      simp only at hl
      cases he : es[i]? with
      | none =>
        rw [he] at hl
        cases hle : lastEnt es k <;> rw [hle] at hl <;> cases hl
      | some e =>
        rw [he] at hl
        have hlt : i < es.length := by
          rcases List.getElem?_eq_some_iff.1 he with ⟨h, _⟩; exact h
        cases hle : lastEnt es k with
        | none => rw [hle] at hl; cases hl
        | some e' =>
          rw [hle] at hl
          simp only [Except.ok.injEq] at hl
          subst hl
          exact ⟨i, e, by simp [hi, hlt], he, rfl⟩
  · intro k hk
    have : (es.map (·.key)).contains k = false := by simpa using hk
    simp only [Sess.keyedGetProbe, AR.keyedIndex_eq, this]
    rfl

end C03

/-
C19 — Lint flags every duplicate, every unparsed region and every changed ID.
Property theorems only (helper lemmas live in CLModel/Proofs/C19.lean).

Reading guide.  `f : FileIn` is one parsed source file: `f.cur` is what `parser.parse()` returned
(entities and junk, in file order, duplicates included), `f.ref` the parsed reference file
(`none` when no reference path was given or the path is not a file), `e.checks` the tuples
`checker.check(e, e)` yields for the entity `e` (a parameter: the checkers are modelled elsewhere),
`e.eq` the class of the value under `equals`.  `lintFile f` is `L10nLinter.lint_file` (results
without `path`), `f.entityResults e` what `EntityLinter.lint_entity(e)` yields, `lint files` is
`L10nLinter.lint`.  `Except.error` = the Python code raises.
-/
import CLModel.Lint.Linter
import CLModel.Proofs.C19
namespace C19
open Lint Gen.Tables

/-- "error", "warning" and the message texts, as the property words them -/
def sError : Text := [101, 114, 114, 111, 114]
def sWarning : Text := [119, 97, 114, 110, 105, 110, 103]
/-- "Duplicate string with ID: " -/
def sDuplicate : Text := [68, 117, 112, 108, 105, 99, 97, 116, 101, 32, 115, 116, 114, 105, 110, 103, 32, 119, 105, 116, 104, 32, 73, 68, 58, 32]
/-- "Changes to string require a new ID: " -/
def sChanged : Text := [67, 104, 97, 110, 103, 101, 115, 32, 116, 111, 32, 115, 116, 114, 105, 110, 103, 32, 114, 101, 113, 117, 105, 114, 101, 32, 97, 32, 110, 101, 119, 32, 73, 68, 58, 32]

/-! ### shape of the three results the linter builds itself
(the literals are regenerated from lint/linter.py on every run; these equalities fail to check when they change) -/

/-- The duplicate result is an *error* located at the entity (`position()`), message
    "Duplicate string with ID: <key>". -/
theorem dup_result_shape (lines : List Nat) (e : Ent) :
    dupResult lines e =
      { lineno := (position lines e 0).1, column := (position lines e 0).2, level := sError, message := sDuplicate ++ e.key } := by
  rfl

/-- The changed-ID result is a *warning* located at the entity, message "Changes to string require a new ID: <key>". -/
theorem changed_result_shape (lines : List Nat) (e : Ent) :
    changedResult lines e =
      { lineno := (position lines e 0).1, column := (position lines e 0).2, level := sWarning, message := sChanged ++ e.key } := by
  simp [changedResult, sWarning, sChanged, lintChangedLevel, lintChangedPrefix, lintChangedSuffix]

/-- The junk result is an *error* located at the start of the unparsed region; its message is
    `Junk.error_message()` (content, start and end position). -/
theorem junk_result_shape (contents : Array Nat) (lines : List Nat) (e : Ent) :
    junkResult contents lines e =
      { lineno := (position lines e 0).1, column := (position lines e 0).2, level := sError,
        message := errorMessage contents lines e } := by
  rfl

/-! ### positions -/

/-- `Context.linecol` is the 1-based line and column: for an offset inside the text the line is one more than the
    number of newlines before the offset, the column one more than the number of characters since the last newline. -/
theorem linecol_spec (t : List Nat) (pos : Nat) (h : pos ≤ t.length) :
    linecol (lineEnds t) (pos : Int) =
      (((1 + (t.take pos).count 10 : Nat) : Int), ((1 + ((t.take pos).reverse.takeWhile ne10).length : Nat) : Int)) :=
  linecol_eq t pos h

/-- "at the position of the entity": for every class with spans (everything but Android) the duplicate, changed-ID and
    junk results sit at the line/column of the first character of the entity's / unparsed region's span. -/
theorem position_spec (f : FileIn) (e : Ent) (hm : e.mode ≠ .node) (hs : e.s ≤ f.contents.size) :
    position f.lines e 0 =
      (((1 + (f.contents.toList.take e.s).count 10 : Nat) : Int),
       ((1 + ((f.contents.toList.take e.s).reverse.takeWhile ne10).length : Nat) : Int)) := by
  have h := linecol_eq f.contents.toList e.s (by simpa using hs)
  unfold position FileIn.lines
  cases hmode : e.mode <;> simp_all

/-- Android objects have no spans: their position is `(0, offset)`. -/
theorem position_node (lines : List Nat) (e : Ent) (hm : e.mode = .node) (off : Int) : position lines e off = (0, off) := by
  simp [position, hm]

/-! ### the file is linted element by element -/

/-- `lint_file` returns exactly the concatenation, in file order, of what `lint_entity` yields for each
    element of the parsed file; it raises iff `lint_entity` raises for some element. -/
theorem lint_file_concat (f : FileIn) (rs : List Result) :
    lintFile f = .ok rs ↔
      ∃ rss, All2 (fun e r => f.entityResults e = .ok r) f.cur rss ∧ rs = rss.flatten :=
  lintFile_spec f rs

/-- Closed form per occurrence of an entity: the duplicate error (iff the key is counted more than once in the
    whole file), then the changed-ID warning (iff the key is in the reference and the value differs from the LAST
    reference entity with that key), then the resolved results of the format checks — nothing else. -/
theorem lint_entity_spec (f : FileIn) (e : Ent) (he : e.kind = .entity) (r : List Result) :
    f.entityResults e = .ok r ↔
      ∃ cs, lintValue f.lines e = .ok cs ∧
        r = (if keyCount f.cur e.key > 1 then [dupResult f.lines e] else []) ++
            (if changed f.reference e then [changedResult f.lines e] else []) ++ cs :=
  lintEntity_entity _ _ _ _ e he r

/-! ### lint_duplicates -/

/-- `lint_full_entity` never raises, and its result contains the duplicate error for this occurrence
    iff the occurrence's key occurs more than once in the file. -/
theorem lint_duplicates (f : FileIn) (e : Ent) :
    ∃ r, lintFullEntity f.lines f.cur f.reference e = .ok r ∧
      (dupResult f.lines e ∈ r ↔ keyCount f.cur e.key > 1) := by
  refine ⟨_, lintFullEntity_eq _ _ _ _, ?_⟩
  have hne : changedResult f.lines e ≠ dupResult f.lines e := by
    intro h
    have := congrArg Result.level h
    revert this
    simp only [changedResult, dupResult]
    decide
  by_cases hc : keyCount f.cur e.key > 1 <;> by_cases hd : changed f.reference e = true <;>
    simp [hc, hd, Ne.symm hne]

/-- File level: every occurrence of a key that occurs more than once gets its duplicate error. -/
theorem lint_duplicates_reported (f : FileIn) (rs : List Result) (h : lintFile f = .ok rs)
    (e : Ent) (hm : e ∈ f.cur) (he : e.kind = .entity) (hc : keyCount f.cur e.key > 1) :
    dupResult f.lines e ∈ rs := by
  obtain ⟨rss, hall, rfl⟩ := (lintFile_spec f rs).1 h
  obtain ⟨r, hr, hres⟩ := hall.mem_left hm
  obtain ⟨cs, _, rfl⟩ := (lint_entity_spec f e he r).1 hres
  rw [List.mem_flatten]
  exact ⟨_, hr, by simp [hc]⟩

/-! ### lint_junk -/

/-- Each junk element yields exactly one result — the error carrying `error_message()` at the start of
    the unparsed region — and nothing else (no duplicate, changed-ID or check results). -/
theorem lint_junk (f : FileIn) (e : Ent) (he : e.kind = .junk) :
    f.entityResults e = .ok [junkResult f.contents f.lines e] :=
  lintEntity_junk _ _ _ _ e he

/-- File level: the junk error of every junk element is among the results. -/
theorem lint_junk_reported (f : FileIn) (rs : List Result) (h : lintFile f = .ok rs)
    (e : Ent) (hm : e ∈ f.cur) (he : e.kind = .junk) : junkResult f.contents f.lines e ∈ rs := by
  obtain ⟨rss, hall, rfl⟩ := (lintFile_spec f rs).1 h
  obtain ⟨r, hr, hres⟩ := hall.mem_left hm
  rw [lint_junk f e he] at hres
  cases hres
  rw [List.mem_flatten]
  exact ⟨_, hr, by simp⟩

/-! ### lint_checks -/

/-- The results for an entity end with one result per tuple of `checker.check(e, e)`, in order, with the
    tuple's level and message and the position resolved by the entity (`checkResult`). -/
theorem lint_checks (f : FileIn) (e : Ent) (he : e.kind = .entity) (r : List Result)
    (hr : f.entityResults e = .ok r) :
    ∃ pre cs, r = pre ++ cs ∧
      All2 (fun c x => checkResult f.lines e c = .ok x ∧ x.level = c.level ∧ x.message = c.msg) e.checks cs := by
  obtain ⟨cs, hcs, rfl⟩ := (lint_entity_spec f e he r).1 hr
  refine ⟨_, cs, rfl, ?_⟩
  exact ((lintValueGo_spec f.lines e e.checks cs).1 hcs).imp (fun hx => ⟨hx, checkResult_level_msg hx⟩)

/-- File level: every check tuple of every entity shows up among the results with its level and message. -/
theorem lint_checks_reported (f : FileIn) (rs : List Result) (h : lintFile f = .ok rs)
    (e : Ent) (hm : e ∈ f.cur) (he : e.kind = .entity) (c : Check) (hc : c ∈ e.checks) :
    ∃ x ∈ rs, checkResult f.lines e c = .ok x ∧ x.level = c.level ∧ x.message = c.msg := by
  obtain ⟨rss, hall, rfl⟩ := (lintFile_spec f rs).1 h
  obtain ⟨r, hr, hres⟩ := hall.mem_left hm
  obtain ⟨pre, cs, rfl, hcs⟩ := lint_checks f e he r hres
  obtain ⟨x, hx, hR⟩ := hcs.mem_left hc
  exact ⟨x, List.mem_flatten.2 ⟨_, hr, List.mem_append_right _ hx⟩, hR⟩

/-! ### lint_changed -/

/-- "last entity of the reference with the key": it has the key, and no later reference entity has it. -/
theorem last_with_key_spec (ref : List RefEnt) (k : Text) (x : RefEnt) :
    lastWithKey ref k = some x ↔
      ∃ pre post, ref = pre ++ x :: post ∧ x.key = k ∧ ∀ y ∈ post, y.key ≠ k := by
  rw [lastWithKey, List.find?_eq_some_iff_append]
  constructor
  · rintro ⟨hk, as, bs, hrev, hall⟩
    refine ⟨bs.reverse, as.reverse, ?_, by simpa using hk, ?_⟩
    · have := congrArg List.reverse hrev
      simpa using this
    · intro y hy
      have := hall y (by simpa using hy)
      simpa using this
  · rintro ⟨pre, post, rfl, hk, hall⟩
    refine ⟨by simpa using hk, post.reverse, pre.reverse, by simp, ?_⟩
    intro y hy
    have := hall y (by simpa using hy)
    simpa using this

/-- no reference entity has the key ⇔ there is no last one -/
theorem last_with_key_none (ref : List RefEnt) (k : Text) :
    lastWithKey ref k = none ↔ ∀ y ∈ ref, y.key ≠ k := by
  rw [lastWithKey, List.find?_eq_none]
  simp

/-- `lint_full_entity` never raises, and its result contains the changed-ID warning for this occurrence iff
    the key is present in the reference too and the value differs from the last reference entity with that key
    (same key is automatic: that is how the reference entity is found). -/
theorem lint_changed (f : FileIn) (e : Ent) :
    ∃ r, lintFullEntity f.lines f.cur f.reference e = .ok r ∧
      (changedResult f.lines e ∈ r ↔ ∃ x, lastWithKey f.reference e.key = some x ∧ x.eq ≠ e.eq) := by
  refine ⟨_, lintFullEntity_eq _ _ _ _, ?_⟩
  have hne : changedResult f.lines e ≠ dupResult f.lines e := by
    intro h
    have := congrArg Result.level h
    revert this
    simp only [changedResult, dupResult]
    decide
  have hch : changed f.reference e = true ↔ ∃ x, lastWithKey f.reference e.key = some x ∧ x.eq ≠ e.eq := by
    unfold changed
    cases lastWithKey f.reference e.key with
    | none => simp
    | some x => simp
  rw [← hch]
  by_cases hc : keyCount f.cur e.key > 1 <;> by_cases hd : changed f.reference e = true <;>
    simp [hc, hd, hne]

/-- Without a reference file (no path given, or the path is not a file) there is no changed-ID warning. -/
theorem lint_changed_no_reference (f : FileIn) (e : Ent) (h : f.ref = none) : changed f.reference e = false := by
  simp [changed, FileIn.reference, h, lastWithKey]

/-- File level: the warning of every changed occurrence is among the results. -/
theorem lint_changed_reported (f : FileIn) (rs : List Result) (h : lintFile f = .ok rs)
    (e : Ent) (hm : e ∈ f.cur) (he : e.kind = .entity) (x : RefEnt)
    (hx : lastWithKey f.reference e.key = some x) (hd : x.eq ≠ e.eq) :
    changedResult f.lines e ∈ rs := by
  obtain ⟨rss, hall, rfl⟩ := (lintFile_spec f rs).1 h
  obtain ⟨r, hr, hres⟩ := hall.mem_left hm
  obtain ⟨cs, _, rfl⟩ := (lint_entity_spec f e he r).1 hres
  have : changed f.reference e = true := by simp [changed, hx, hd]
  rw [List.mem_flatten]
  exact ⟨_, hr, by simp [this]⟩

/-! ### lint_clean -/

/-- A file of entities only (no junk) with pairwise distinct keys, no check results, whose every key that
    is also in the reference has the value of the (last) reference entity: no results at all. -/
theorem lint_clean (f : FileIn) (hent : ∀ e ∈ f.cur, e.kind = .entity ∧ e.checks = [])
    (hn : (f.cur.map (·.key)).Nodup)
    (hsame : ∀ e ∈ f.cur, ∀ x, lastWithKey f.reference e.key = some x → x.eq = e.eq) :
    lintFile f = .ok [] := by
  rw [lintFile_spec]
  refine ⟨f.cur.map (fun _ => []), ?_, by simp⟩
  have key : ∀ l : List Ent, (∀ e ∈ l, e ∈ f.cur) →
      All2 (fun e r => f.entityResults e = .ok r) l (l.map (fun _ => [])) := by
    intro l
    induction l with
    | nil => intro _; trivial
    | cons e l ih =>
      intro hl
      refine ⟨?_, ih (fun x hx => hl x (List.mem_cons_of_mem _ hx))⟩
      have hm := hl e List.mem_cons_self
      obtain ⟨he, hc⟩ := hent e hm
      show f.entityResults e = .ok []
      rw [lint_entity_spec f e he]
      refine ⟨[], by simp [lintValue, hc, lintValueGo], ?_⟩
      have hk : keyCount f.cur e.key = 1 := by
        rw [keyCount, List.Nodup.count hn]
        simp only [List.mem_map, ite_eq_left_iff, not_exists, not_and]
        intro h
        exact (h e hm rfl).elim
      have hch : changed f.reference e = false := by
        unfold changed
        cases hx : lastWithKey f.reference e.key with
        | none => rfl
        | some x => simp [hsame e hm x hx]
      simp [hk, hch]
  exact key f.cur (fun _ h => h)

/-- the reference view of a current entity -/
def toRef (e : Ent) : RefEnt := { key := e.key, eq := e.eq }

/-- In particular: unique, well-formed (no junk, no check results) and identical to its reference ⇒ `[]`;
    the same without a reference. -/
theorem lint_clean_identical (f : FileIn) (hent : ∀ e ∈ f.cur, e.kind = .entity ∧ e.checks = [])
    (hn : (f.cur.map (·.key)).Nodup) (href : f.ref = some (f.cur.map toRef) ∨ f.ref = none) :
    lintFile f = .ok [] := by
  apply lint_clean f hent hn
  intro e hm x hx
  rcases href with href | href
  · have hx' : lastWithKey (f.cur.map toRef) e.key = some x := by simpa [FileIn.reference, href] using hx
    obtain ⟨hk, hmem⟩ := lastWithKey_key hx'
    obtain ⟨e', he', rfl⟩ := List.mem_map.1 hmem
    have : e' = e := by
      have hk' : e'.key = e.key := hk
      exact nodup_map_inj hn he' hm hk'
    subst this
    rfl
  · simp [FileIn.reference, href, lastWithKey] at hx

/-! ### when does linting raise -/

/-- the position of a check tuple can be resolved by the entity's class -/
def fits (e : Ent) (c : Check) : Prop :=
  match c.pos, e.mode with
  | .entity _, _ => True
  | .value _, .ctx => e.vs.isSome
  | .value _, .dtd => e.vs.isSome
  | .value _, _ => True
  | .lineCol _ _, .dtd => e.vs.isSome
  | .lineCol _ _, _ => False

theorem checkResult_ok_of_fits (lines : List Nat) (e : Ent) (c : Check) (h : fits e c) :
    ∃ r, checkResult lines e c = .ok r := by
  unfold fits at h
  unfold checkResult
  cases hp : c.pos with
  | entity off => simp
  | value off =>
    rw [hp] at h
    cases hm : e.mode <;> rw [hm] at h <;> simp only [valuePosition, hm] <;> try simp
    all_goals
      cases hv : e.vs with
      | none => simp [hv] at h
      | some ab => simp [baseValuePosition, hv]
  | lineCol l cc =>
    rw [hp] at h
    cases hm : e.mode <;> rw [hm] at h <;> try exact h.elim
    cases hv : e.vs with
    | none => simp [hv] at h
    | some ab =>
      simp only [valuePosition, hm, baseValuePosition, hv]
      by_cases h1 : l == 1 <;> simp [h1]

/-- Linting a file does not raise when every check position suits its entity (ints for every class, tuples for DTD
    entities only, a value span where the base `value_position` asserts one): the only `raise` paths of the model are
    `value_position`'s assertion and a tuple handed to a non-DTD entity; the reference lookup never fails. -/
theorem lint_total (f : FileIn) (h : ∀ e ∈ f.cur, e.kind = .entity → ∀ c ∈ e.checks, fits e c) :
    ∃ rs, lintFile f = .ok rs := by
  have key : ∀ l : List Ent, (∀ e ∈ l, e ∈ f.cur) →
      ∃ rss, All2 (fun e r => f.entityResults e = .ok r) l rss := by
    intro l
    induction l with
    | nil => intro _; exact ⟨[], trivial⟩
    | cons e l ih =>
      intro hl
      obtain ⟨rss, hrss⟩ := ih (fun x hx => hl x (List.mem_cons_of_mem _ hx))
      have hm := hl e List.mem_cons_self
      cases hk : e.kind with
      | junk => exact ⟨_ :: rss, lint_junk f e hk, hrss⟩
      | entity =>
        have hv : ∃ cs, lintValue f.lines e = .ok cs := by
          have hf := h e hm hk
          unfold lintValue
          generalize e.checks = cl at hf
          induction cl with
          | nil => exact ⟨[], rfl⟩
          | cons c cl ihc =>
            obtain ⟨r, hr⟩ := checkResult_ok_of_fits f.lines e c (hf c List.mem_cons_self)
            obtain ⟨cs, hcs⟩ := ihc (fun c' hc' => hf c' (List.mem_cons_of_mem _ hc'))
            exact ⟨r :: cs, by simp [lintValueGo, hr, hcs]⟩
        obtain ⟨cs, hcs⟩ := hv
        exact ⟨_ :: rss, (lint_entity_spec f e hk _).2 ⟨cs, hcs, rfl⟩, hrss⟩
  obtain ⟨rss, hrss⟩ := key f.cur (fun _ h => h)
  exact ⟨_, (lintFile_spec f _).2 ⟨rss, hrss, rfl⟩⟩

/-! ### lint_skips_unknown -/

/-- A path for which `getParser` finds no parser contributes nothing: the file is skipped wherever it stands
    in the list (it is not even read: the model does not look at its contents). -/
theorem lint_skips_unknown (pre post : List FileIn) (f : FileIn) (h : hasParser f.path = false) :
    lint (pre ++ f :: post) = lint (pre ++ post) := by
  induction pre with
  | nil => simp [lint, h]
  | cons g pre ih =>
    simp only [List.cons_append, lint]
    rw [ih]

/-- every result of `lint` belongs to a listed file that has a parser, and is a result of linting that file -/
theorem lint_results_from_parsed_files (files : List FileIn) (rs : List (Text × Result)) (h : lint files = .ok rs) :
    ∀ p ∈ rs, ∃ f ∈ files, f.path = p.1 ∧ hasParser f.path = true ∧ ∃ frs, lintFile f = .ok frs ∧ p.2 ∈ frs := by
  induction files generalizing rs with
  | nil => simp only [lint] at h; cases h; intro p hp; cases hp
  | cons g files ih =>
    simp only [lint] at h
    by_cases hg : hasParser g.path = true
    · simp only [hg, Bool.not_true, Bool.false_eq_true, if_false] at h
      split at h
      · cases h
      · rename_i a ha
        split at h
        · cases h
        · rename_i b hb
          cases h
          intro p hp
          rcases List.mem_append.1 hp with hp | hp
          · obtain ⟨r, hr, rfl⟩ := List.mem_map.1 hp
            exact ⟨g, List.mem_cons_self, rfl, hg, a, ha, hr⟩
          · obtain ⟨f', hf', rest⟩ := ih b hb p hp
            exact ⟨f', List.mem_cons_of_mem _ hf', rest⟩
    · have hg' : hasParser g.path = false := by simpa using hg
      simp only [hg', Bool.not_false, if_true] at h
      intro p hp
      obtain ⟨f', hf', rest⟩ := ih rs h p hp
      exact ⟨f', List.mem_cons_of_mem _ hf', rest⟩

/-! ### non-vacuity and concrete instances -/

/-- "a.txt", "a.properties.bak", "strings" have no parser; "x/a.properties", "strings-de.xml", "a.pot" have one -/
example : hasParser [97, 46, 116, 120, 116] = false := by decide
example : hasParser [97, 46, 112, 114, 111, 112, 101, 114, 116, 105, 101, 115, 46, 98, 97, 107] = false := by decide
example : hasParser [120, 47, 97, 46, 112, 114, 111, 112, 101, 114, 116, 105, 101, 115] = true := by decide
example : getParserName [97, 46, 112, 111, 116] = some [80, 111, 80, 97, 114, 115, 101, 114] := by decide

/-- contents "k = a\nbad\nk = b\nj = c\n": k twice (lines 1 and 3), junk on line 2, reference [k ↦ class 7, k ↦ class 2, j ↦ class 3];
    occurrences of k have classes 1 and 2: the first is changed (last reference k has class 2), the second is not. -/
def demo : FileIn :=
  { path := [97, 46, 105, 110, 105]
    contents := #[107, 32, 61, 32, 97, 10, 98, 97, 100, 10, 107, 32, 61, 32, 98, 10, 106, 32, 61, 32, 99, 10]
    cur := [ { kind := .entity, key := [107], eq := 1, mode := .ctx, s := 0, e := 5, vs := some (4, 5),
               checks := [{ level := sWarning, pos := .value 1, msg := [120] }] },
             { kind := .junk, key := [95], eq := 0, mode := .ctx, s := 6, e := 10 },
             { kind := .entity, key := [107], eq := 2, mode := .ctx, s := 10, e := 15, vs := some (14, 15) },
             { kind := .entity, key := [106], eq := 3, mode := .ctx, s := 16, e := 21, vs := some (20, 21) } ]
    ref := some [⟨[107], 7⟩, ⟨[107], 2⟩, ⟨[106], 3⟩] }

example : (lintFile demo).toOption.map (fun rs => rs.map (fun r => (r.lineno, r.column, r.level == sError))) =
    some [(1, 1, true), (1, 1, false), (1, 6, false), (2, 1, true), (3, 1, true)] := by decide

/-- "a\nb": offset 2 is line 2 column 1, offset 1 (the newline itself) is still line 1 column 2 -/
example : linecol (lineEnds [97, 10, 98]) 2 = (2, 1) ∧ linecol (lineEnds [97, 10, 98]) 1 = (1, 2) := by decide

/-- the hypotheses of `lint_clean_identical` are satisfiable by a non-trivial file -/
def cleanDemo : FileIn :=
  { path := []
    contents := #[]
    cur := [ { kind := .entity, key := [1], eq := 1, mode := .ctx, s := 0, e := 0 },
             { kind := .entity, key := [2], eq := 2, mode := .ctx, s := 0, e := 0 } ]
    ref := some [⟨[1], 1⟩, ⟨[2], 2⟩] }

example : (∀ e ∈ cleanDemo.cur, e.kind = .entity ∧ e.checks = []) ∧ (cleanDemo.cur.map (·.key)).Nodup ∧
    cleanDemo.ref = some (cleanDemo.cur.map toRef) ∧ lintFile cleanDemo = .ok [] := by
  refine ⟨?_, by decide, by decide, rfl⟩
  intro e he
  simp only [cleanDemo, List.mem_cons, List.not_mem_nil, or_false] at he
  rcases he with rfl | rfl <;> exact ⟨rfl, rfl⟩

/-! negation witnesses -/

/-- `lint_clean` needs distinct keys: the same entity twice is reported twice -/
def dupDemo : FileIn :=
  { path := []
    contents := #[]
    cur := [ { kind := .entity, key := [1], eq := 1, mode := .ctx, s := 0, e := 0 },
             { kind := .entity, key := [1], eq := 1, mode := .ctx, s := 0, e := 0 } ]
    ref := none }

example : (lintFile dupDemo).toOption.map List.length = some 2 := by decide

/-- `lint_total` needs `fits`: a (line, col) tuple handed to a non-DTD entity raises (TypeError in Python),
    an int value position on a base entity without a value span trips the assertion -/
def tupleDemo : FileIn :=
  { path := []
    contents := #[]
    cur := [ { kind := .entity, key := [1], eq := 1, mode := .ctx, s := 0, e := 0, vs := some (0, 0)
               checks := [{ level := sError, pos := .lineCol 0 0, msg := [] }] } ]
    ref := none }

def noSpanDemo : FileIn :=
  { path := []
    contents := #[]
    cur := [ { kind := .entity, key := [1], eq := 1, mode := .ctx, s := 0, e := 0, vs := none
               checks := [{ level := sError, pos := .value 0, msg := [] }] } ]
    ref := none }

example : lintFile tupleDemo = .error "TypeError" := rfl
example : lintFile noSpanDemo = .error "AssertionError" := rfl

end C19

/-
C19 — Lint flags every duplicate, every unparsed region and every changed ID.
Property theorems only (helper lemmas live in CLModel/Proofs/C19.lean).

Reading guide.  `f : FileIn` is one parsed source file: `f.cur` is what `parser.parse()` returned
(entities and junk, in file order, duplicates included), `f.ref` the parsed reference file
(`none` when no reference path was given or the path is not a file), `e.checks` the tuples
`checker.check(e, e)` yields for the entity `e` (a parameter: the checkers are modelled elsewhere),
`e.eq` the class of the value under `equals`.  `lintFile f` is `L10nLinter.lint_file` (results
without `path`), `f.entityResults e` what `EntityLinter.lint_entity(e)` yields, `lint files` is
`L10nLinter.lint`.  `Except.error` = the Python code raises.
-/
import CLModel.Lint.Linter
import CLModel.Lint.Run
import CLModel.Lint.Util
import CLModel.Lint.Cli
import CLModel.Lint.Keyed
import CLModel.Proofs.C19
import CLModel.Proofs.C19Run
import CLModel.Proofs.C19Util
namespace C19
open Lint Gen.Tables

/-- "error", "warning" and the message texts, as the property words them -/
def sError : Text := [101, 114, 114, 111, 114]
def sWarning : Text := [119, 97, 114, 110, 105, 110, 103]
/-- "Duplicate string with ID: " -/
def sDuplicate : Text := [68, 117, 112, 108, 105, 99, 97, 116, 101, 32, 115, 116, 114, 105, 110, 103, 32, 119, 105, 116, 104, 32, 73, 68, 58, 32]
/-- "Changes to string require a new ID: " -/
def sChanged : Text := [67, 104, 97, 110, 103, 101, 115, 32, 116, 111, 32, 115, 116, 114, 105, 110, 103, 32, 114, 101, 113, 117, 105, 114, 101, 32, 97, 32, 110, 101, 119, 32, 73, 68, 58, 32]

/-! ### shape of the three results the linter builds itself
(the literals are regenerated from lint/linter.py on every run; these equalities fail to check when they change) -/

/-- The duplicate result is an *error* located at the entity (`position()`), message
    "Duplicate string with ID: <key>". -/
theorem dup_result_shape (lines : List Nat) (e : Ent) :
    dupResult lines e =
      { lineno := (position lines e 0).1, column := (position lines e 0).2, level := sError, message := sDuplicate ++ e.key } := by
  rfl

/-- The changed-ID result is a *warning* located at the entity, message "Changes to string require a new ID: <key>". -/
theorem changed_result_shape (lines : List Nat) (e : Ent) :
    changedResult lines e =
      { lineno := (position lines e 0).1, column := (position lines e 0).2, level := sWarning, message := sChanged ++ e.key } := by
  simp [changedResult, sWarning, sChanged, lintChangedLevel, lintChangedPrefix, lintChangedSuffix]

/-- The junk result is an *error* located at the start of the unparsed region; its message is
    `Junk.error_message()` (content, start and end position). -/
theorem junk_result_shape (contents : Array Nat) (lines : List Nat) (e : Ent) :
    junkResult contents lines e =
      { lineno := (position lines e 0).1, column := (position lines e 0).2, level := sError,
        message := errorMessage contents lines e } := by
  rfl

/-! ### positions -/

/-- `Context.linecol` is the 1-based line and column: for an offset inside the text the line is one more than the
    number of newlines before the offset, the column one more than the number of characters since the last newline. -/
theorem linecol_spec (t : List Nat) (pos : Nat) (h : pos ≤ t.length) :
    linecol (lineEnds t) (pos : Int) =
      (((1 + (t.take pos).count 10 : Nat) : Int), ((1 + ((t.take pos).reverse.takeWhile ne10).length : Nat) : Int)) :=
  linecol_eq t pos h

/-- "at the position of the entity": for every class with spans (everything but Android) the duplicate, changed-ID and
    junk results sit at the line/column of the first character of the entity's / unparsed region's span. -/
theorem position_spec (f : FileIn) (e : Ent) (hm : e.mode ≠ .node) (hs : e.s ≤ f.contents.size) :
    position f.lines e 0 =
      (((1 + (f.contents.toList.take e.s).count 10 : Nat) : Int),
       ((1 + ((f.contents.toList.take e.s).reverse.takeWhile ne10).length : Nat) : Int)) := by
  have h := linecol_eq f.contents.toList e.s (by simpa using hs)
  unfold position FileIn.lines
  cases hmode : e.mode <;> simp_all

/-- Android objects have no spans: their position is `(0, offset)`. -/
theorem position_node (lines : List Nat) (e : Ent) (hm : e.mode = .node) (off : Int) : position lines e off = (0, off) := by
  simp [position, hm]

/-! ### the file is linted element by element -/

/-- `lint_file` returns exactly the concatenation, in file order, of what `lint_entity` yields for each
    element of the parsed file; it raises iff `lint_entity` raises for some element. -/
theorem lint_file_concat (f : FileIn) (rs : List Result) :
    lintFile f = .ok rs ↔
      ∃ rss, All2 (fun e r => f.entityResults e = .ok r) f.cur rss ∧ rs = rss.flatten :=
  lintFile_spec f rs

/-- Closed form per occurrence of an entity: the duplicate error (iff the key is counted more than once in the
    whole file), then the changed-ID warning (iff the key is in the reference and the value differs from the LAST
    reference entity with that key), then the resolved results of the format checks — nothing else. -/
theorem lint_entity_spec (f : FileIn) (e : Ent) (he : e.kind = .entity) (r : List Result) :
    f.entityResults e = .ok r ↔
      ∃ cs, lintValue f.lines e = .ok cs ∧
        r = (if keyCount f.cur e.key > 1 then [dupResult f.lines e] else []) ++
            (if changed f.reference e then [changedResult f.lines e] else []) ++ cs :=
  lintEntity_entity _ _ _ _ e he r

/-! ### lint_duplicates -/

/-- `lint_full_entity` never raises, and its result contains the duplicate error for this occurrence
    iff the occurrence's key occurs more than once in the file. -/
theorem lint_duplicates (f : FileIn) (e : Ent) :
    ∃ r, lintFullEntity f.lines f.cur f.reference e = .ok r ∧
      (dupResult f.lines e ∈ r ↔ keyCount f.cur e.key > 1) := by
  refine ⟨_, lintFullEntity_eq _ _ _ _, ?_⟩
  have hne : changedResult f.lines e ≠ dupResult f.lines e := by
    intro h
    have := congrArg Result.level h
    revert this
    simp only [changedResult, dupResult]
    decide
  by_cases hc : keyCount f.cur e.key > 1 <;> by_cases hd : changed f.reference e = true <;>
    simp [hc, hd, Ne.symm hne]

/-- File level: every occurrence of a key that occurs more than once gets its duplicate error. -/
theorem lint_duplicates_reported (f : FileIn) (rs : List Result) (h : lintFile f = .ok rs)
    (e : Ent) (hm : e ∈ f.cur) (he : e.kind = .entity) (hc : keyCount f.cur e.key > 1) :
    dupResult f.lines e ∈ rs := by
  obtain ⟨rss, hall, rfl⟩ := (lintFile_spec f rs).1 h
  obtain ⟨r, hr, hres⟩ := hall.mem_left hm
  obtain ⟨cs, _, rfl⟩ := (lint_entity_spec f e he r).1 hres
  rw [List.mem_flatten]
  exact ⟨_, hr, by simp [hc]⟩

/-! ### lint_junk -/

/-- Each junk element yields exactly one result — the error carrying `error_message()` at the start of
    the unparsed region — and nothing else (no duplicate, changed-ID or check results). -/
theorem lint_junk (f : FileIn) (e : Ent) (he : e.kind = .junk) :
    f.entityResults e = .ok [junkResult f.contents f.lines e] :=
  lintEntity_junk _ _ _ _ e he

/-- File level: the junk error of every junk element is among the results. -/
theorem lint_junk_reported (f : FileIn) (rs : List Result) (h : lintFile f = .ok rs)
    (e : Ent) (hm : e ∈ f.cur) (he : e.kind = .junk) : junkResult f.contents f.lines e ∈ rs := by
  obtain ⟨rss, hall, rfl⟩ := (lintFile_spec f rs).1 h
  obtain ⟨r, hr, hres⟩ := hall.mem_left hm
  rw [lint_junk f e he] at hres
  cases hres
  rw [List.mem_flatten]
  exact ⟨_, hr, by simp⟩

/-! ### lint_checks -/

/-- The results for an entity end with one result per tuple of `checker.check(e, e)`, in order, with the
    tuple's level and message and the position resolved by the entity (`checkResult`). -/
theorem lint_checks (f : FileIn) (e : Ent) (he : e.kind = .entity) (r : List Result)
    (hr : f.entityResults e = .ok r) :
    ∃ pre cs, r = pre ++ cs ∧
      All2 (fun c x => checkResult f.lines e c = .ok x ∧ x.level = c.level ∧ x.message = c.msg) e.checks cs := by
  obtain ⟨cs, hcs, rfl⟩ := (lint_entity_spec f e he r).1 hr
  refine ⟨_, cs, rfl, ?_⟩
  exact ((lintValueGo_spec f.lines e e.checks cs).1 hcs).imp (fun hx => ⟨hx, checkResult_level_msg hx⟩)

/-- File level: every check tuple of every entity shows up among the results with its level and message. -/
theorem lint_checks_reported (f : FileIn) (rs : List Result) (h : lintFile f = .ok rs)
    (e : Ent) (hm : e ∈ f.cur) (he : e.kind = .entity) (c : Check) (hc : c ∈ e.checks) :
    ∃ x ∈ rs, checkResult f.lines e c = .ok x ∧ x.level = c.level ∧ x.message = c.msg := by
  obtain ⟨rss, hall, rfl⟩ := (lintFile_spec f rs).1 h
  obtain ⟨r, hr, hres⟩ := hall.mem_left hm
  obtain ⟨pre, cs, rfl, hcs⟩ := lint_checks f e he r hres
  obtain ⟨x, hx, hR⟩ := hcs.mem_left hc
  exact ⟨x, List.mem_flatten.2 ⟨_, hr, List.mem_append_right _ hx⟩, hR⟩

/-! ### lint_changed -/

/-- "last entity of the reference with the key": it has the key, and no later reference entity has it. -/
theorem last_with_key_spec (ref : List RefEnt) (k : Text) (x : RefEnt) :
    lastWithKey ref k = some x ↔
      ∃ pre post, ref = pre ++ x :: post ∧ x.key = k ∧ ∀ y ∈ post, y.key ≠ k := by
  rw [lastWithKey, List.find?_eq_some_iff_append]
  constructor
  · rintro ⟨hk, as, bs, hrev, hall⟩
    refine ⟨bs.reverse, as.reverse, ?_, by simpa using hk, ?_⟩
    · have := congrArg List.reverse hrev
      simpa using this
    · intro y hy
      have := hall y (by simpa using hy)
      simpa using this
  · rintro ⟨pre, post, rfl, hk, hall⟩
    refine ⟨by simpa using hk, post.reverse, pre.reverse, by simp, ?_⟩
    intro y hy
    have := hall y (by simpa using hy)
    simpa using this

/-- no reference entity has the key ⇔ there is no last one -/
theorem last_with_key_none (ref : List RefEnt) (k : Text) :
    lastWithKey ref k = none ↔ ∀ y ∈ ref, y.key ≠ k := by
  rw [lastWithKey, List.find?_eq_none]
  simp

/-- `lint_full_entity` never raises, and its result contains the changed-ID warning for this occurrence iff
    the key is present in the reference too and the value differs from the last reference entity with that key
    (same key is automatic: that is how the reference entity is found). -/
theorem lint_changed (f : FileIn) (e : Ent) :
    ∃ r, lintFullEntity f.lines f.cur f.reference e = .ok r ∧
      (changedResult f.lines e ∈ r ↔ ∃ x, lastWithKey f.reference e.key = some x ∧ x.eq ≠ e.eq) := by
  refine ⟨_, lintFullEntity_eq _ _ _ _, ?_⟩
  have hne : changedResult f.lines e ≠ dupResult f.lines e := by
    intro h
    have := congrArg Result.level h
    revert this
    simp only [changedResult, dupResult]
    decide
  have hch : changed f.reference e = true ↔ ∃ x, lastWithKey f.reference e.key = some x ∧ x.eq ≠ e.eq := by
    unfold changed
    cases lastWithKey f.reference e.key with
    | none => simp
    | some x => simp
  rw [← hch]
  by_cases hc : keyCount f.cur e.key > 1 <;> by_cases hd : changed f.reference e = true <;>
    simp [hc, hd, hne]

/-- Without a reference file (no path given, or the path is not a file) there is no changed-ID warning. -/
theorem lint_changed_no_reference (f : FileIn) (e : Ent) (h : f.ref = none) : changed f.reference e = false := by
  simp [changed, FileIn.reference, h, lastWithKey]

/-- File level: the warning of every changed occurrence is among the results. -/
theorem lint_changed_reported (f : FileIn) (rs : List Result) (h : lintFile f = .ok rs)
    (e : Ent) (hm : e ∈ f.cur) (he : e.kind = .entity) (x : RefEnt)
    (hx : lastWithKey f.reference e.key = some x) (hd : x.eq ≠ e.eq) :
    changedResult f.lines e ∈ rs := by
  obtain ⟨rss, hall, rfl⟩ := (lintFile_spec f rs).1 h
  obtain ⟨r, hr, hres⟩ := hall.mem_left hm
  obtain ⟨cs, _, rfl⟩ := (lint_entity_spec f e he r).1 hres
  have : changed f.reference e = true := by simp [changed, hx, hd]
  rw [List.mem_flatten]
  exact ⟨_, hr, by simp [this]⟩

/-! ### lint_clean -/

/-- A file of entities only (no junk) with pairwise distinct keys, no check results, whose every key that
    is also in the reference has the value of the (last) reference entity: no results at all. -/
theorem lint_clean (f : FileIn) (hent : ∀ e ∈ f.cur, e.kind = .entity ∧ e.checks = [])
    (hn : (f.cur.map (·.key)).Nodup)
    (hsame : ∀ e ∈ f.cur, ∀ x, lastWithKey f.reference e.key = some x → x.eq = e.eq) :
    lintFile f = .ok [] := by
  rw [lintFile_spec]
  refine ⟨f.cur.map (fun _ => []), ?_, by simp⟩
  have key : ∀ l : List Ent, (∀ e ∈ l, e ∈ f.cur) →
      All2 (fun e r => f.entityResults e = .ok r) l (l.map (fun _ => [])) := by
    intro l
    induction l with
    | nil => intro _; trivial
    | cons e l ih =>
      intro hl
      refine ⟨?_, ih (fun x hx => hl x (List.mem_cons_of_mem _ hx))⟩
      have hm := hl e List.mem_cons_self
      obtain ⟨he, hc⟩ := hent e hm
      show f.entityResults e = .ok []
      rw [lint_entity_spec f e he]
      refine ⟨[], by simp [lintValue, hc, lintValueGo], ?_⟩
      have hk : keyCount f.cur e.key = 1 := by
        rw [keyCount, List.Nodup.count hn]
        simp only [List.mem_map, ite_eq_left_iff, not_exists, not_and]
        intro h
        exact (h e hm rfl).elim
      have hch : changed f.reference e = false := by
        unfold changed
        cases hx : lastWithKey f.reference e.key with
        | none => rfl
        | some x => simp [hsame e hm x hx]
      simp [hk, hch]
  exact key f.cur (fun _ h => h)

/-- the reference view of a current entity -/
def toRef (e : Ent) : RefEnt := { key := e.key, eq := e.eq }

/-- In particular: unique, well-formed (no junk, no check results) and identical to its reference ⇒ `[]`;
    the same without a reference. -/
theorem lint_clean_identical (f : FileIn) (hent : ∀ e ∈ f.cur, e.kind = .entity ∧ e.checks = [])
    (hn : (f.cur.map (·.key)).Nodup) (href : f.ref = some (f.cur.map toRef) ∨ f.ref = none) :
    lintFile f = .ok [] := by
  apply lint_clean f hent hn
  intro e hm x hx
  rcases href with href | href
  · have hx' : lastWithKey (f.cur.map toRef) e.key = some x := by simpa [FileIn.reference, href] using hx
    obtain ⟨hk, hmem⟩ := lastWithKey_key hx'
    obtain ⟨e', he', rfl⟩ := List.mem_map.1 hmem
    have : e' = e := by
      have hk' : e'.key = e.key := hk
      exact nodup_map_inj hn he' hm hk'
    subst this
    rfl
  · simp [FileIn.reference, href, lastWithKey] at hx

/-! ### when does linting raise -/

/-- the position of a check tuple can be resolved by the entity's class -/
def fits (e : Ent) (c : Check) : Prop :=
  match c.pos, e.mode with
  | .entity _, _ => True
  | .value _, .ctx => e.vs.isSome
  | .value _, .dtd => e.vs.isSome
  | .value _, _ => True
  | .lineCol _ _, .dtd => e.vs.isSome
  | .lineCol _ _, _ => False

theorem checkResult_ok_of_fits (lines : List Nat) (e : Ent) (c : Check) (h : fits e c) :
    ∃ r, checkResult lines e c = .ok r := by
  unfold fits at h
  unfold checkResult
  cases hp : c.pos with
  | entity off => simp
  | value off =>
    rw [hp] at h
    cases hm : e.mode <;> rw [hm] at h <;> simp only [valuePosition, hm] <;> try simp
    all_goals
      cases hv : e.vs with
      | none => simp [hv] at h
      | some ab => simp [baseValuePosition, hv]
  | lineCol l cc =>
    rw [hp] at h
    cases hm : e.mode <;> rw [hm] at h <;> try exact h.elim
    cases hv : e.vs with
    | none => simp [hv] at h
    | some ab =>
      simp only [valuePosition, hm, baseValuePosition, hv]
      by_cases h1 : l == 1 <;> simp [h1]

/-- Linting a file does not raise when every check position suits its entity (ints for every class, tuples for DTD
    entities only, a value span where the base `value_position` asserts one): the only `raise` paths of the model are
    `value_position`'s assertion and a tuple handed to a non-DTD entity; the reference lookup never fails. -/
theorem lint_total (f : FileIn) (h : ∀ e ∈ f.cur, e.kind = .entity → ∀ c ∈ e.checks, fits e c) :
    ∃ rs, lintFile f = .ok rs := by
  have key : ∀ l : List Ent, (∀ e ∈ l, e ∈ f.cur) →
      ∃ rss, All2 (fun e r => f.entityResults e = .ok r) l rss := by
    intro l
    induction l with
    | nil => intro _; exact ⟨[], trivial⟩
    | cons e l ih =>
      intro hl
      obtain ⟨rss, hrss⟩ := ih (fun x hx => hl x (List.mem_cons_of_mem _ hx))
      have hm := hl e List.mem_cons_self
      cases hk : e.kind with
      | junk => exact ⟨_ :: rss, lint_junk f e hk, hrss⟩
      | entity =>
        have hv : ∃ cs, lintValue f.lines e = .ok cs := by
          have hf := h e hm hk
          unfold lintValue
          generalize e.checks = cl at hf
          induction cl with
          | nil => exact ⟨[], rfl⟩
          | cons c cl ihc =>
            obtain ⟨r, hr⟩ := checkResult_ok_of_fits f.lines e c (hf c List.mem_cons_self)
            obtain ⟨cs, hcs⟩ := ihc (fun c' hc' => hf c' (List.mem_cons_of_mem _ hc'))
            exact ⟨r :: cs, by simp [lintValueGo, hr, hcs]⟩
        obtain ⟨cs, hcs⟩ := hv
        exact ⟨_ :: rss, (lint_entity_spec f e hk _).2 ⟨cs, hcs, rfl⟩, hrss⟩
  obtain ⟨rss, hrss⟩ := key f.cur (fun _ h => h)
  exact ⟨_, (lintFile_spec f _).2 ⟨rss, hrss, rfl⟩⟩

/-! ### lint_skips_unknown -/

/-- A path for which `getParser` finds no parser contributes nothing: the file is skipped wherever it stands
    in the list (it is not even read: the model does not look at its contents). -/
theorem lint_skips_unknown (pre post : List FileIn) (f : FileIn) (h : hasParser f.path = false) :
    lint (pre ++ f :: post) = lint (pre ++ post) := by
  induction pre with
  | nil => simp [lint, h]
  | cons g pre ih =>
    simp only [List.cons_append, lint]
    rw [ih]

/-- every result of `lint` belongs to a listed file that has a parser, and is a result of linting that file -/
theorem lint_results_from_parsed_files (files : List FileIn) (rs : List (Text × Result)) (h : lint files = .ok rs) :
    ∀ p ∈ rs, ∃ f ∈ files, f.path = p.1 ∧ hasParser f.path = true ∧ ∃ frs, lintFile f = .ok frs ∧ p.2 ∈ frs := by
  induction files generalizing rs with
  | nil => simp only [lint] at h; cases h; intro p hp; cases hp
  | cons g files ih =>
    simp only [lint] at h
    by_cases hg : hasParser g.path = true
    · simp only [hg, Bool.not_true, Bool.false_eq_true, if_false] at h
      split at h
      · cases h
      · rename_i a ha
        split at h
        · cases h
        · rename_i b hb
          cases h
          intro p hp
          rcases List.mem_append.1 hp with hp | hp
          · obtain ⟨r, hr, rfl⟩ := List.mem_map.1 hp
            exact ⟨g, List.mem_cons_self, rfl, hg, a, ha, hr⟩
          · obtain ⟨f', hf', rest⟩ := ih b hb p hp
            exact ⟨f', List.mem_cons_of_mem _ hf', rest⟩
    · have hg' : hasParser g.path = false := by simpa using hg
      simp only [hg', Bool.not_false, if_true] at h
      intro p hp
      obtain ⟨f', hf', rest⟩ := ih rs h p hp
      exact ⟨f', List.mem_cons_of_mem _ hf', rest⟩

/-! ### non-vacuity and concrete instances -/

/-- "a.txt", "a.properties.bak", "strings" have no parser; "x/a.properties", "strings-de.xml", "a.pot" have one -/
example : hasParser [97, 46, 116, 120, 116] = false := by decide
example : hasParser [97, 46, 112, 114, 111, 112, 101, 114, 116, 105, 101, 115, 46, 98, 97, 107] = false := by decide
example : hasParser [120, 47, 97, 46, 112, 114, 111, 112, 101, 114, 116, 105, 101, 115] = true := by decide
example : getParserName [97, 46, 112, 111, 116] = some [80, 111, 80, 97, 114, 115, 101, 114] := by decide

/-- contents "k = a\nbad\nk = b\nj = c\n": k twice (lines 1 and 3), junk on line 2, reference [k ↦ class 7, k ↦ class 2, j ↦ class 3];
    occurrences of k have classes 1 and 2: the first is changed (last reference k has class 2), the second is not. -/
def demo : FileIn :=
  { path := [97, 46, 105, 110, 105]
    contents := #[107, 32, 61, 32, 97, 10, 98, 97, 100, 10, 107, 32, 61, 32, 98, 10, 106, 32, 61, 32, 99, 10]
    cur := [ { kind := .entity, key := [107], eq := 1, mode := .ctx, s := 0, e := 5, vs := some (4, 5),
               checks := [{ level := sWarning, pos := .value 1, msg := [120] }] },
             { kind := .junk, key := [95], eq := 0, mode := .ctx, s := 6, e := 10 },
             { kind := .entity, key := [107], eq := 2, mode := .ctx, s := 10, e := 15, vs := some (14, 15) },
             { kind := .entity, key := [106], eq := 3, mode := .ctx, s := 16, e := 21, vs := some (20, 21) } ]
    ref := some [⟨[107], 7⟩, ⟨[107], 2⟩, ⟨[106], 3⟩] }

example : (lintFile demo).toOption.map (fun rs => rs.map (fun r => (r.lineno, r.column, r.level == sError))) =
    some [(1, 1, true), (1, 1, false), (1, 6, false), (2, 1, true), (3, 1, true)] := by decide

/-- "a\nb": offset 2 is line 2 column 1, offset 1 (the newline itself) is still line 1 column 2 -/
example : linecol (lineEnds [97, 10, 98]) 2 = (2, 1) ∧ linecol (lineEnds [97, 10, 98]) 1 = (1, 2) := by decide

/-- the hypotheses of `lint_clean_identical` are satisfiable by a non-trivial file -/
def cleanDemo : FileIn :=
  { path := []
    contents := #[]
    cur := [ { kind := .entity, key := [1], eq := 1, mode := .ctx, s := 0, e := 0 },
             { kind := .entity, key := [2], eq := 2, mode := .ctx, s := 0, e := 0 } ]
    ref := some [⟨[1], 1⟩, ⟨[2], 2⟩] }

example : (∀ e ∈ cleanDemo.cur, e.kind = .entity ∧ e.checks = []) ∧ (cleanDemo.cur.map (·.key)).Nodup ∧
    cleanDemo.ref = some (cleanDemo.cur.map toRef) ∧ lintFile cleanDemo = .ok [] := by
  refine ⟨?_, by decide, by decide, rfl⟩
  intro e he
  simp only [cleanDemo, List.mem_cons, List.not_mem_nil, or_false] at he
  rcases he with rfl | rfl <;> exact ⟨rfl, rfl⟩

/-! negation witnesses -/

/-- `lint_clean` needs distinct keys: the same entity twice is reported twice -/
def dupDemo : FileIn :=
  { path := []
    contents := #[]
    cur := [ { kind := .entity, key := [1], eq := 1, mode := .ctx, s := 0, e := 0 },
             { kind := .entity, key := [1], eq := 1, mode := .ctx, s := 0, e := 0 } ]
    ref := none }

example : (lintFile dupDemo).toOption.map List.length = some 2 := by decide

/-- `lint_total` needs `fits`: a (line, col) tuple handed to a non-DTD entity raises (TypeError in Python),
    an int value position on a base entity without a value span trips the assertion -/
def tupleDemo : FileIn :=
  { path := []
    contents := #[]
    cur := [ { kind := .entity, key := [1], eq := 1, mode := .ctx, s := 0, e := 0, vs := some (0, 0)
               checks := [{ level := sError, pos := .lineCol 0 0, msg := [] }] } ]
    ref := none }

def noSpanDemo : FileIn :=
  { path := []
    contents := #[]
    cur := [ { kind := .entity, key := [1], eq := 1, mode := .ctx, s := 0, e := 0, vs := none
               checks := [{ level := sError, pos := .value 0, msg := [] }] } ]
    ref := none }

example : lintFile tupleDemo = .error "TypeError" := rfl
example : lintFile noSpanDemo = .error "AssertionError" := rfl


/-! ## Round 4

### one run over several files (`L10nLinter.lint(files, get_reference_and_tests)`)

`fileResults f` is what ONE file contributes (nothing without a parser, else `lint_file`'s results with the path);
`lintRun` is the loop with its state (`RunState`: the `results` list and the paths the callable was asked). -/

/-- `lint` over a file list = the concatenation, in list order, of what every file yields on its own;
    it raises iff linting one of the files raises. -/
theorem lint_concat (files : List FileIn) (rs : List PResult) :
    lint files = .ok rs ↔
      ∃ rss, All2 (fun f r => fileResults f = .ok r) files rss ∧ rs = rss.flatten :=
  C19Run.lint_spec files rs

/-- splitting the file list splits the results (the first failing file decides about the exception) -/
theorem lint_append (a b : List FileIn) :
    lint (a ++ b) =
      (match lint a with
       | .error x => .error x
       | .ok ra =>
         match lint b with
         | .error x => .error x
         | .ok rb => .ok (ra ++ rb)) :=
  C19Run.lint_append a b

/-- The state of a run is exactly: the results of `lint`, and one question to `get_reference_and_tests` per file
    that has a parser, in list order.  Nothing else is carried from one file to the next. -/
theorem lint_run_state (files : List FileIn) :
    lintRun files =
      (match lint files with
       | .error x => .error x
       | .ok rs => .ok { results := rs, asked := (files.filter (fun f => hasParser f.path)).map (·.path) }) := by
  unfold lintRun
  rw [C19Run.lintLoop_spec]
  cases lint files <;> simp [RunState.init]

/-- Independence: what a run reports for a path is what the file with that path yields on its own — whatever
    the other files of the run are and wherever the file stands (paths pairwise distinct). -/
theorem lint_file_independent (files : List FileIn) (rs : List PResult) (h : lint files = .ok rs)
    (hn : (files.map (·.path)).Nodup) (f : FileIn) (hf : f ∈ files) :
    fileResults f = .ok (rs.filter (fun p => p.1 == f.path)) :=
  C19Run.lint_filter_path h hn hf

/-- … in particular two runs that both contain the file report the same for it -/
theorem lint_file_same_in_every_run (l₁ l₂ : List FileIn) (r₁ r₂ : List PResult)
    (h₁ : lint l₁ = .ok r₁) (h₂ : lint l₂ = .ok r₂)
    (n₁ : (l₁.map (·.path)).Nodup) (n₂ : (l₂.map (·.path)).Nodup) (f : FileIn) (m₁ : f ∈ l₁) (m₂ : f ∈ l₂) :
    r₁.filter (fun p => p.1 == f.path) = r₂.filter (fun p => p.1 == f.path) := by
  have a := lint_file_independent l₁ r₁ h₁ n₁ f m₁
  have b := lint_file_independent l₂ r₂ h₂ n₂ f m₂
  exact Except.ok.inj (a.symm.trans b)

/-- reordering the files only reorders the results -/
theorem lint_order (l₁ l₂ : List FileIn) (hp : l₁.Perm l₂) (rs : List PResult) (h : lint l₁ = .ok rs) :
    ∃ rs', lint l₂ = .ok rs' ∧ rs.Perm rs' :=
  C19Run.lint_perm hp rs h

/-! ### occurrences of one key -/

/-- Per-occurrence independence: what `lint_entity` yields for an element depends on the contents (positions), on the
    multiset of keys of the file and on the reference — not on the VALUES of the other elements, in particular not on
    whether other occurrences of the same key are changed. -/
theorem lint_occurrence_independent (f g : FileIn) (e : Ent) (hc : f.contents = g.contents)
    (hk : f.cur.map (·.key) = g.cur.map (·.key)) (hr : f.ref = g.ref) :
    f.entityResults e = g.entityResults e := by
  unfold FileIn.entityResults FileIn.lines FileIn.reference lintEntity lintFullEntity keyCount
  rw [hc, hk, hr]

/-- three occurrences of `k` on lines 1, 2, 3 with value classes 1, 2, 1 against a reference whose last `k` has class 1:
    three duplicate errors, each on ITS line, and the changed-ID warning for the second occurrence only;
    with the reference class 2 it is the first and the third that are changed -/
def occDemo (refEq : Nat) : FileIn :=
  { path := [97, 46, 105, 110, 105]
    contents := #[107, 61, 97, 10, 107, 61, 98, 10, 107, 61, 97, 10]
    cur := [ { kind := .entity, key := [107], eq := 1, mode := .ctx, s := 0, e := 3, vs := some (2, 3) },
             { kind := .entity, key := [107], eq := 2, mode := .ctx, s := 4, e := 7, vs := some (6, 7) },
             { kind := .entity, key := [107], eq := 1, mode := .ctx, s := 8, e := 11, vs := some (10, 11) } ]
    ref := some [⟨[107], 9⟩, ⟨[107], refEq⟩] }

example : (lintFile (occDemo 1)).toOption.map (fun rs => rs.map (fun r => (r.lineno, r.column, r.level == sError))) =
    some [(1, 1, true), (2, 1, true), (2, 1, false), (3, 1, true)] := by decide

example : (lintFile (occDemo 2)).toOption.map (fun rs => rs.map (fun r => (r.lineno, r.column, r.level == sError))) =
    some [(1, 1, true), (1, 1, false), (2, 1, true), (3, 1, true), (3, 1, false)] := by decide

/-! ### lint/util.py -/

open LintUtil in
/-- `default_reference_and_tests`: no reference, no tests, for every path -/
theorem default_reference (path : Text) : defaultGet path = (none, none) := rfl

open LintUtil in
/-- `mirror_reference_and_tests`: an entry WITHOUT a reference is skipped without shifting the others — removing it
    from the configuration (wherever it stands) changes no answer. -/
theorem mirror_skips_entries_without_reference (locale : Option Text) (exclude : Option Files)
    (pre post : List Rule) (r : Rule) (h : r.reference = none) (root path : Text) :
    mirrorGet (.mk locale (pre ++ r :: post) exclude) root path = mirrorGet (.mk locale (pre ++ post) exclude) root path :=
  C19Util.mirrorGo_insert root path pre post r h

open LintUtil in
/-- … so the answers are those of the configuration restricted to its entries that have a reference -/
theorem mirror_only_reference_entries (files : Files) (root path : Text) :
    mirrorGet files root path =
      mirrorGet (.mk files.locale (files.matchers.filter (fun r => r.reference.isSome)) files.exclude) root path :=
  C19Util.mirrorGo_filter root path files.matchers

open LintUtil in
/-- Every path covered by an entry with a reference gets exactly THAT entry's reference matcher re-rooted at the
    reference project, and that entry's tests: the first entry (in `ProjectFiles.matchers` order) whose reference
    matcher matches decides; entries before it that have no reference or do not match are passed over. -/
theorem mirror_first_covering_entry (files : Files) (root path : Text) (pre post : List Rule) (r : Rule)
    (m : PM.Matcher) (d : PM.GroupDict) (hm : files.matchers = pre ++ r :: post)
    (hpre : ∀ x ∈ pre, C19Util.Skipped path x) (hr : r.reference = some m) (hmatch : m.match path = .ok (some d)) :
    mirrorGet files root path =
      (match m.sub (reroot m root) path with
       | .error e => .error e
       | .ok ref => .ok (ref, r.test)) := by
  unfold mirrorGet
  rw [hm, C19Util.mirrorGo_skip_prefix root path pre _ hpre]
  exact C19Util.mirrorGo_hit root path r post m d hr hmatch

open LintUtil in
/-- a path that no entry with a reference covers has no reference and no tests -/
theorem mirror_no_covering_entry (files : Files) (root path : Text)
    (h : ∀ x ∈ files.matchers, C19Util.Skipped path x) : mirrorGet files root path = .ok (none, none) :=
  C19Util.mirrorGo_none root path files.matchers h

open LintUtil PM in
/-- "re-rooted": the reference path is the expansion of the entry's reference pattern with the groups captured from
    the linted path — the SAME body under the root of the reference project instead of the project's own root
    (`ref = root ++ body`; the root is dropped only when the pattern's first segment is an absolute path). -/
theorem mirror_reference_rerooted (m : Matcher) (root path ref : List Nat)
    (h : m.sub (reroot m root) path = .ok (some ref)) :
    ∃ d body, m.match path = .ok (some d) ∧
      expandTop { m.pattern with root := none } (subEnv d m.env) = .ok body ∧ (ref = root ++ body ∨ ref = body) := by
  rw [C19Util.sub_eq] at h
  cases hm : m.match path with
  | error e => rw [hm] at h; cases h
  | ok od =>
    rw [hm] at h
    cases od with
    | none => cases h
    | some d =>
      simp only at h
      cases he : expandTop (reroot m root).pattern (subEnv d (reroot m root).env) with
      | error e => rw [he] at h; cases h
      | ok t =>
        rw [he] at h
        cases h
        obtain ⟨body, hb, hor⟩ := C19Util.expandTop_rooted m.pattern root (subEnv d m.env) ref he
        exact ⟨d, body, rfl, hb, hor⟩

open LintUtil in
/-- `l10n_base_reference_and_tests`: `(None, None)` iff `ProjectFiles.match` finds nothing, else the l10n path (the
    first member of the tuple) and the tests of the matching entry -/
theorem l10n_base_reference (files : Files) (path : Text) :
    l10nBaseGet files path =
      (match files.matchPath path with
       | .error e => .error e
       | .ok none => .ok (none, none)
       | .ok (some r) => .ok (some r.l10n, r.tests)) := rfl

open LintUtil in
/-- `ProjectFiles.match` (the l10n-base callable): an entry without a reference whose l10n matcher does not apply to the
    path (validation mode, or it does not match) is skipped without shifting the others — removing it changes no answer. -/
theorem l10n_base_skips_entries_without_reference (b : Bool) (excl : List Nat → Except PM.PyErr Bool) (path : List Nat)
    (pre post : List Rule) (r : Rule) (h : r.reference = none) (hl : b = false ∨ r.l10n.match path = .ok none) :
    matchRules b excl path (pre ++ r :: post) = matchRules b excl path (pre ++ post) :=
  C19Util.matchRules_insert b excl path pre post r h hl

namespace UtilDemo
open LintUtil PM

/-- `a/*`, `b/*`, `l/*` rooted at `/p/` -/
def mA : Matcher := { pattern := { nodes := [.lit [97, 47], .star 1, .lit []], root := some [47, 112, 47], prefixLen := 1 }, env := [] }
def mB : Matcher := { pattern := { nodes := [.lit [98, 47], .star 1, .lit []], root := some [47, 112, 47], prefixLen := 1 }, env := [] }
def mL : Matcher := { pattern := { nodes := [.lit [108, 47], .star 1, .lit []], root := some [47, 112, 47], prefixLen := 1 }, env := [] }

/-- three entries: `b/*` with test "t", an l10n-only entry, `a/*` without tests -/
def files : Files :=
  .mk none [ { l10n := mL, reference := some mB, test := some [[116]] }, { l10n := mL }, { l10n := mL, reference := some mA, test := some [] } ] none

/-- `/p/a/x` → `/q/a/x` (third entry, the l10n-only entry in between shifts nothing), `/p/b/x` → `/q/b/x` with the
    first entry's tests, `/p/l/x` is covered by no reference -/
example : (mirrorGet files [47, 113, 47] [47, 112, 47, 97, 47, 120]).toOption = some (some [47, 113, 47, 97, 47, 120], some []) := by
  decide +kernel
example : (mirrorGet files [47, 113, 47] [47, 112, 47, 98, 47, 120]).toOption = some (some [47, 113, 47, 98, 47, 120], some [[116]]) := by
  decide +kernel
example : (mirrorGet files [47, 113, 47] [47, 112, 47, 108, 47, 120]).toOption = some (none, none) := by decide +kernel

end UtilDemo

/-! ### checks.getChecker -/

/-- `a.dtd` and `a.ftl.dtd` get a DTDChecker (DTD is tried before Fluent), `a.ini` the base Checker -/
example : getCheckerCls [97, 46, 100, 116, 100] = .dtd ∧ getCheckerCls [97, 46, 102, 116, 108, 46, 100, 116, 100] = .dtd ∧
    getCheckerCls [97, 46, 105, 110, 105] = .base := by decide +kernel

/-- the generated table names all five classes, and only `DTDChecker` needs `set_reference(current)` -/
theorem checker_needs_reference (c : CheckerCls) :
    c.name.isSome = true ∧ (c.needsReference = some true ↔ c = .dtd) ∧ (c.needsReference = some false ↔ c ≠ .dtd) := by
  cases c <;> decide

/-! ### lint/cli.py main: exit status and printed lines -/

open LintCli in
/-- exit status 0 ⇔ there are no results, or `-W` is not given and every result is a warning -/
theorem exit_status_zero_iff (rs : List PResult) (w : Bool) :
    exitCode rs w = 0 ↔ rs = [] ∨ (w = false ∧ ∀ r ∈ rs, r.2.level = sWarning) :=
  C19Util.exitCode_zero_iff rs w

open LintCli in
/-- exit status 1 ⇔ there is a result and (`-W` is given or some result is not a warning); there is no other status -/
theorem exit_status_one_iff (rs : List PResult) (w : Bool) :
    exitCode rs w = 1 ↔ rs ≠ [] ∧ (w = true ∨ ∃ r ∈ rs, r.2.level ≠ sWarning) :=
  C19Util.exitCode_one_iff rs w

open LintCli in
theorem exit_status_le_one (rs : List PResult) (w : Bool) : exitCode rs w ≤ 1 := C19Util.exitCode_le_one rs w

open LintCli in
/-- errors present ⇒ exit status 1, with or without `-W` -/
theorem exit_status_error (rs : List PResult) (w : Bool) (h : ∃ r ∈ rs, r.2.level = sError) : exitCode rs w = 1 := by
  obtain ⟨r, hr, hl⟩ := h
  rw [exit_status_one_iff]
  refine ⟨fun e => (by rw [e] at hr; cases hr), Or.inr ⟨r, hr, ?_⟩⟩
  rw [hl]
  decide

open LintCli in
/-- one line per result, in the order of the results; a line is `<path> (<line>:<column>): <message>` -/
theorem printed_lines (rel : Text → Text) (rs : List PResult) :
    (printed rel rs).length = rs.length ∧
      ∀ i (h : i < rs.length), (printed rel rs)[i]? =
        some (rel rs[i].1 ++ [32, 40] ++ showInt rs[i].2.lineno ++ [58] ++ showInt rs[i].2.column ++ [41, 58, 32] ++ rs[i].2.message) := by
  refine ⟨by simp [printed], ?_⟩
  intro i h
  simp [printed, h, printLine, interleave, lintCliFormatParts]

open LintCli in
/-- `main` ends in the usage error (exit status 2) exactly when `--l10n-reference` is given and does not name an
    existing directory -/
theorem main_usage_iff (inp : MainIn) :
    (∃ _h : True, main inp = .usage) ↔ truthy inp.l10nReference = true ∧ (inp.splitLocale = [] ∨ inp.isdir = false) := by
  unfold main
  constructor
  · rintro ⟨_, h⟩
    by_cases hc : (truthy inp.l10nReference && (inp.splitLocale.isEmpty || !inp.isdir)) = true
    · simp only [Bool.and_eq_true, Bool.or_eq_true, List.isEmpty_iff, Bool.not_eq_eq_eq_not, Bool.not_true] at hc
      exact hc
    · simp only [hc, Bool.false_eq_true, if_false] at h
      split at h <;> cases h
  · rintro ⟨h1, h2⟩
    refine ⟨trivial, ?_⟩
    have : (truthy inp.l10nReference && (inp.splitLocale.isEmpty || !inp.isdir)) = true := by
      simp only [Bool.and_eq_true, Bool.or_eq_true, List.isEmpty_iff, Bool.not_eq_eq_eq_not, Bool.not_true]
      exact ⟨h1, h2⟩
    simp [this]

open LintCli in
/-- The command composed: when `main` ends normally, its results are those of ONE linter run over the reference files
    that have a parser, each against the reference its `get_reference_and_tests` resolved, and the return value is
    the exit status of these results. -/
theorem main_results (inp : MainIn) (rv : Nat) (tr : List (Text × LintUtil.RefTests)) (rs : List PResult)
    (h : main inp = .done rv tr rs) :
    rv = exitCode rs inp.w ∧ ∃ fis, resolve inp inp.linted = .ok (fis, tr) ∧ lint fis = .ok rs := by
  unfold main at h
  split at h
  · cases h
  · split at h
    · cases h
    · rename_i results tr' hrun
      cases h
      exact ⟨rfl, C19Util.runFiles_eq_lint inp inp.linted _ _ hrun⟩

open LintCli in
/-- End to end: a duplicated ID in any linted file makes the command exit with status 1 (with or without `-W`,
    whatever the references are). -/
theorem main_duplicate_exits_one (inp : MainIn) (rv : Nat) (tr : List (Text × LintUtil.RefTests)) (rs : List PResult)
    (h : main inp = .done rv tr rs) (f : Linted) (hf : f ∈ inp.linted) (hp : hasParser f.path = true)
    (e : Ent) (he : e ∈ f.cur) (hk : e.kind = .entity) (hc : keyCount f.cur e.key > 1) : rv = 1 := by
  obtain ⟨hrv, fis, hres, hlint⟩ := main_results inp rv tr rs h
  obtain ⟨fi, hfi, hpath, _, hcur⟩ := C19Util.exists_resolved inp inp.linted fis tr hres f hf hp
  obtain ⟨rss, hall, rfl⟩ := (lint_concat fis rs).1 hlint
  obtain ⟨a, ha, hfa⟩ := hall.mem_left hfi
  have hp' : hasParser fi.path = true := by rw [hpath]; exact hp
  unfold fileResults at hfa
  simp only [hp', Bool.not_true, Bool.false_eq_true, if_false] at hfa
  cases hl : lintFile fi with
  | error x => rw [hl] at hfa; cases hfa
  | ok frs =>
    rw [hl] at hfa
    cases hfa
    have hd := lint_duplicates_reported fi frs hl e (by rw [hcur]; exact he) hk (by rw [hcur]; exact hc)
    rw [hrv]
    apply exit_status_error
    refine ⟨(fi.path, dupResult fi.lines e), List.mem_flatten.2 ⟨_, ha, List.mem_map.2 ⟨_, hd, rfl⟩⟩, ?_⟩
    rfl

open LintCli in
/-- End to end: an unparsed region in any linted file makes the command exit with status 1. -/
theorem main_junk_exits_one (inp : MainIn) (rv : Nat) (tr : List (Text × LintUtil.RefTests)) (rs : List PResult)
    (h : main inp = .done rv tr rs) (f : Linted) (hf : f ∈ inp.linted) (hp : hasParser f.path = true)
    (e : Ent) (he : e ∈ f.cur) (hk : e.kind = .junk) : rv = 1 := by
  obtain ⟨hrv, fis, hres, hlint⟩ := main_results inp rv tr rs h
  obtain ⟨fi, hfi, hpath, _, hcur⟩ := C19Util.exists_resolved inp inp.linted fis tr hres f hf hp
  obtain ⟨rss, hall, rfl⟩ := (lint_concat fis rs).1 hlint
  obtain ⟨a, ha, hfa⟩ := hall.mem_left hfi
  have hp' : hasParser fi.path = true := by rw [hpath]; exact hp
  unfold fileResults at hfa
  simp only [hp', Bool.not_true, Bool.false_eq_true, if_false] at hfa
  cases hl : lintFile fi with
  | error x => rw [hl] at hfa; cases hfa
  | ok frs =>
    rw [hl] at hfa
    cases hfa
    have hd := lint_junk_reported fi frs hl e (by rw [hcur]; exact he) hk
    rw [hrv]
    apply exit_status_error
    refine ⟨(fi.path, junkResult fi.contents fi.lines e), List.mem_flatten.2 ⟨_, ha, List.mem_map.2 ⟨_, hd, rfl⟩⟩, ?_⟩
    rfl

open LintCli in
/-- warnings only: the exit status is 1 exactly with `-W` -/
theorem exit_status_warnings_only (rs : List PResult) (w : Bool) (hne : rs ≠ [])
    (hall : ∀ r ∈ rs, r.2.level = sWarning) : exitCode rs w = if w then 1 else 0 := by
  cases w with
  | false => simp only [Bool.false_eq_true, if_false]; exact (exit_status_zero_iff rs false).2 (Or.inr ⟨rfl, hall⟩)
  | true => simp only [if_true]; exact (exit_status_one_iff rs true).2 ⟨hne, Or.inl rfl⟩

/-! ### KeyedTuple with its fall-backs -/

open LintKeyed in
/-- `key in kt` for a key-like value: some item has that key -/
theorem keyed_contains_key (items : Items) (k : Nat) :
    contains items (.key k) = true ↔ ∃ it ∈ items, it.1 = k := by
  have key : (items.map (·.1)).contains k = true ↔ ∃ it ∈ items, it.1 = k := by
    simp only [List.contains_eq_mem, List.mem_map, decide_eq_true_eq]
  rw [← key]
  simp only [contains, AR.keyedContains_eq]
  cases (items.map (·.1)).contains k <;> simp

open LintKeyed in
/-- the fall-back to `tuple.__contains__`: an entity OBJECT is found among the items; an unhashable value never is -/
theorem keyed_contains_fallback (items : Items) (i : Nat) :
    (contains items (.item i) = true ↔ ∃ it ∈ items, it.2 = i) ∧ contains items .unhashable = false := by
  refine ⟨?_, rfl⟩
  simp [contains]

open LintKeyed in
/-- `kt[key]` is the LAST item with the key; for a key no item has the swallowed `KeyError` ends in `TypeError` -/
theorem keyed_getitem_key (items : Items) (k : Nat) :
    getItem items (.key k) =
      (match items.reverse.find? (fun it => it.1 == k) with
       | some x => .ok x
       | none => .error "TypeError") :=
  C19Keyed.getItem_key items k

/-! ### non-vacuity of the round-4 statements -/

/-- two files in one run (the demo file under two names) and a file without a parser in between: the results are the
    concatenation, and `get_reference_and_tests` is asked about the two parsed files only -/
example :
    (lintRun [demo, { demo with path := [97, 46, 116, 120, 116] }, { demo with path := [98, 46, 105, 110, 105] }]).toOption.map
      (fun st => (st.results.map (fun r => (r.1, r.2.lineno)), st.asked)) =
    some ([([97, 46, 105, 110, 105], 1), ([97, 46, 105, 110, 105], 1), ([97, 46, 105, 110, 105], 1), ([97, 46, 105, 110, 105], 2),
           ([97, 46, 105, 110, 105], 3), ([98, 46, 105, 110, 105], 1), ([98, 46, 105, 110, 105], 1), ([98, 46, 105, 110, 105], 1),
           ([98, 46, 105, 110, 105], 2), ([98, 46, 105, 110, 105], 3)],
          [[97, 46, 105, 110, 105], [98, 46, 105, 110, 105]]) := by decide

/-- exit statuses: no result 0; a warning 0 without -W and 1 with it; an error 1 -/
example : LintCli.exitCode [] true = 0 ∧
    LintCli.exitCode [([], { lineno := 1, column := 1, level := sWarning, message := [] })] false = 0 ∧
    LintCli.exitCode [([], { lineno := 1, column := 1, level := sWarning, message := [] })] true = 1 ∧
    LintCli.exitCode [([], { lineno := 1, column := 1, level := sWarning, message := [] }),
                      ([], { lineno := 1, column := 1, level := sError, message := [] })] false = 1 := by decide

/-- "a (3:1): m" -/
example : LintCli.printLine [97] { lineno := 3, column := 1, level := sError, message := [109] } =
    [97, 32, 40, 51, 58, 49, 41, 58, 32, 109] := by decide

end C19

/-
C17 — Reported line and column numbers point at the right character.
Property theorems only (helper lemmas and the reference definitions `cursor`, `IsLineStart`, `offsetOf`,
`lexLtI` live in CLModel/Proofs/C17*.lean).  All statements quantify over every text `s` (array of code
points) and every offset; no length bound.

`linecol`, `position`, `valuePosition`, `dtdValuePositionTuple`, `fluentValuePosition`,
`junkMessagePositions`, `resolveCheckPos` are the transliterations in CLModel/Parser/Position.lean.
-/
import CLModel.Parser.Position
import CLModel.Proofs.C17
namespace C17
open P Pos

/-! ### the offset → (line, column) map -/

/-- `Parser.Context.linecol(p)` never raises for `p ≥ 0` and is exactly the text-editor cursor: start at
    (1, 1), a newline moves to column 1 of the next line, every other character one column to the right
    (`cursor` reads the text once, character by character; it shares nothing with the regex + bisect code). -/
theorem linecol_cursor (s : Array Nat) (p : Nat) :
    linecol s (p : Int) = some (castLC (cursor s p)) :=
  linecol_nat s p

/-- Declarative form: the line is 1 + the number of newlines before `p`; the column is 1 + the distance from
    the start `b` of that line, where `b` is characterised by `IsLineStart` (≤ p, at the start of the text or
    just after a newline, no newline in `[b, p)`), which determines it uniquely (`linecol_lineStart_unique`). -/
theorem linecol_spec (s : Array Nat) (p : Nat) :
    ∃ b, IsLineStart s.toList p b ∧
      linecol s (p : Int) = some (((1 + (s.toList.take p).count 10 : Nat) : Int), ((p - b + 1 : Nat) : Int)) := by
  obtain ⟨b, hb, hc⟩ := cursor_spec s p
  exact ⟨b, hb, by rw [linecol_nat, hc]; rfl⟩

theorem linecol_lineStart_unique (s : Array Nat) (p b b' : Nat)
    (h : IsLineStart s.toList p b) (h' : IsLineStart s.toList p b') : b = b' :=
  IsLineStart_unique _ _ _ _ h h'

/-- Step rule: offset 0 is (1, 1); the offset after a newline is column 1 of the next line; the offset after
    any other character is one column further on the same line. -/
theorem linecol_zero_succ (s : Array Nat) :
    linecol s 0 = some (1, 1) ∧
    ∀ p : Nat, linecol s ((p + 1 : Nat) : Int) =
      some (castLC (if s[p]? = some 10 then ((cursor s p).1 + 1, 1) else ((cursor s p).1, (cursor s p).2 + 1))) := by
  refine ⟨by simpa [cursor, walkLC, castLC] using linecol_nat s 0, ?_⟩
  intro p
  rw [linecol_nat, cursor_succ]

/-- The offset is recovered from the reported pair: line `l` starts one past the `(l-1)`-th newline
    (`lineStartOfLine`), and the offset is that start plus `c - 1`.  So the pair identifies exactly the
    character at the offset it was computed from. -/
theorem linecol_inverse (s : Array Nat) (p l c : Nat) (h : linecol s (p : Int) = some ((l : Int), (c : Int))) :
    offsetOf s (l, c) = some p := by
  rw [linecol_nat] at h
  have h' : cursor s p = (l, c) := castLC_inj (Option.some.inj h)
  rw [← h']; exact offsetOf_cursor s p

/-- different offsets never get the same (line, column) -/
theorem linecol_injective (s : Array Nat) (p q : Nat) (h : linecol s (p : Int) = linecol s (q : Int)) : p = q := by
  rw [linecol_nat, linecol_nat] at h
  have h' : cursor s p = cursor s q := castLC_inj (Option.some.inj h)
  have hp := offsetOf_cursor s p
  rw [h', offsetOf_cursor] at hp
  exact (Option.some.inj hp).symm

/-- line and column are 1-based for every offset ≥ 0 -/
theorem linecol_one_based (s : Array Nat) (p : Nat) (lc : Int × Int) (h : linecol s (p : Int) = some lc) :
    1 ≤ lc.1 ∧ 1 ≤ lc.2 := by
  rw [linecol_nat] at h
  have := Option.some.inj h
  subst this
  have := cursor_one_based s p
  unfold castLC; simp; omega

/-- strictly increasing in the offset (lexicographically) -/
theorem linecol_monotone (s : Array Nat) (p q : Nat) (hpq : p < q) (a b : Int × Int)
    (ha : linecol s (p : Int) = some a) (hb : linecol s (q : Int) = some b) : lexLtI a b := by
  rw [linecol_nat] at ha hb
  have ha := Option.some.inj ha
  have hb := Option.some.inj hb
  subst ha; subst hb
  have := cursor_strictMono s p q hpq
  unfold lexLt at this; unfold lexLtI castLC; simp; omega

/-- Excluded point of `linecol_one_based`: a negative offset (a `(-1, -1)` span of an unmatched regex group,
    e.g. `value_position()` of `#define k` without a value) is reported as line 1, column `offset + 1 ≤ 0`. -/
theorem linecol_negative (s : Array Nat) (x : Int) (hx : x < 0) : linecol s x = some (1, x + 1) :=
  linecol_neg s x hx

/-! ### positions of entries -/

/-- `Entry.position(offset)` / `Junk.position(offset)`: the cursor position of `span[0] + offset`;
    a negative offset means the end of the span. -/
theorem position_spec (s : Array Nat) (e : Entry) (off : Int) :
    position s e off =
      if off < 0 then some (castLC (cursor s e.e)) else some (castLC (cursor s (e.s + off.toNat))) := by
  unfold position
  split
  · exact linecol_nat s e.e
  · rename_i h
    rw [linecol_of_nonneg s _ (by omega)]
    congr 3; omega

/-- `Entry.value_position(offset)` for a value span inside the text (`0 ≤ vs`, `0 ≤ ve`) -/
theorem value_position_spec (s : Array Nat) (vs ve : Nat) (off : Int) :
    valuePosition s (some ((vs : Int), (ve : Int))) off =
      if off < 0 then some (castLC (cursor s ve)) else some (castLC (cursor s (vs + off.toNat))) := by
  unfold valuePosition
  simp only
  split
  · exact linecol_nat s ve
  · rename_i h
    rw [linecol_of_nonneg s _ (by omega)]
    congr 3; omega

/-- `value_position` of an entry whose `val_span` is `None` (comments) fails its assertion -/
theorem value_position_none (s : Array Nat) (off : Int) : valuePosition s none off = none := rfl

/-- The start of an entry, of its value, and any offset inside it are reported with the pair that identifies
    exactly that character: the offset is recovered from the reported pair. -/
theorem position_identifies (s : Array Nat) (e : Entry) (off : Nat) (l c : Nat)
    (h : position s e (off : Int) = some ((l : Int), (c : Int))) : offsetOf s (l, c) = some (e.s + off) := by
  unfold position at h
  simp only [show ¬ ((off : Int) < 0) by omega, if_false] at h
  exact linecol_inverse s (e.s + off) l c (by simpa using h)

/-- `Junk.error_message()`: "from line %d column %d to line %d column %d" are the cursor positions of the
    start and of the end of the junk span, in this order. -/
theorem junk_message_positions (s : Array Nat) (e : Entry) :
    junkMessagePositions s e =
      some (((cursor s e.s).1 : Int), ((cursor s e.s).2 : Int), ((cursor s e.e).1 : Int), ((cursor s e.e).2 : Int)) := by
  unfold junkMessagePositions
  rw [position_spec, position_spec]
  simp [castLC]

/-! ### Fluent: offsets are relative to the start of the entry -/

/-- `FluentEntity.value_position(offset)` with an offset is `position(offset)`: FluentChecker's offsets count
    from the start of the entry, not of the value. -/
theorem fluent_value_position (s : Array Nat) (e : Entry) (off : Int) :
    fluentValuePosition s e (some off) = position s e off := rfl

/-- Without an offset: the start of the value when there is one.  Needs the value to start inside the
    entry (`e.s ≤ vs`, contract of fluent.syntax); see `fluent_value_position_default_excluded`. -/
theorem fluent_value_position_default (s : Array Nat) (e : Entry) (hk : e.kind = .entity) (vs : Nat)
    (hv : e.vs = (vs : Int)) (hle : e.s ≤ vs) :
    fluentValuePosition s e none = some (castLC (cursor s vs)) := by
  unfold fluentValuePosition valSpan
  simp only [hk, hv]
  simp only [show ¬ ((vs : Int) < 0) by omega, decide_false, Bool.and_false, Bool.false_eq_true, if_false,
    Option.isSome_some, if_true]
  rw [position_spec]
  simp only [show ¬ ((vs : Int) - (e.s : Int) < 0) by omega, if_false]
  congr 3; omega

/-- … and the end of the id when the message has no value (`vs = -1`). -/
theorem fluent_value_position_novalue (s : Array Nat) (e : Entry) (hk : e.kind = .entity) (ke : Nat)
    (hv : e.vs = -1) (hke : e.ke = (ke : Int)) (hle : e.s ≤ ke) :
    fluentValuePosition s e none = some (castLC (cursor s ke)) := by
  unfold fluentValuePosition valSpan
  simp only [hk, hv, hke]
  simp only [show ((-1 : Int) < 0) by omega, decide_true, Bool.and_true, if_true, Option.isSome_none,
    Bool.false_eq_true, if_false]
  rw [position_spec]
  simp only [show ¬ ((ke : Int) - (e.s : Int) < 0) by omega, if_false]
  congr 3; omega

/-- Excluded point: a value that started *before* its entry would be reported at the END of the entry
    (the difference is negative, and a negative offset means "end"). -/
theorem fluent_value_position_default_excluded (s : Array Nat) (e : Entry) (hk : e.kind = .entity) (vs : Nat)
    (hv : e.vs = (vs : Int)) (hlt : vs < e.s) :
    fluentValuePosition s e none = some (castLC (cursor s e.e)) := by
  unfold fluentValuePosition valSpan
  simp only [hk, hv]
  simp only [show ¬ ((vs : Int) < 0) by omega, decide_false, Bool.and_false, Bool.false_eq_true, if_false,
    Option.isSome_some, if_true]
  rw [position_spec]
  simp only [show ((vs : Int) - (e.s : Int) < 0) by omega, if_true]

/-! ### DTD: (line, column) pairs of the XML parser relative to the value

Full statement wanted: for every pair `(lp, cp)` (1-based line `lp` of the value, 0-based column `cp` in that
line, as DTDChecker derives them from expat) `value_position((lp, cp))` is the cursor position of the value
character it denotes.  Proved for the first line (`dtd_tuple_position_partial`).  It is FALSE for `lp ≥ 2`
(column one too small, `dtd_tuple_later_line_off_by_one`) and for `lp = 0` (`dtd_tuple_line_zero`), both by
the code's own arithmetic; what expat reports for a given XML error is external. -/

/-- first line of the value: `(1, cp)` with no newline among the first `cp` value characters is reported at the
    cursor position of the value's `cp`-th character -/
theorem dtd_tuple_position_partial (s : Array Nat) (vs ve cp : Nat)
    (hnl : ∀ j, j < cp → s[vs + j]? ≠ some 10) :
    dtdValuePositionTuple s (some ((vs : Int), (ve : Int))) 1 (cp : Int) = linecol s ((vs + cp : Nat) : Int) := by
  unfold dtdValuePositionTuple
  rw [value_position_spec]
  simp only [show ¬ ((0 : Int) < 0) by omega, if_false, Int.toNat_zero, Nat.add_zero]
  rw [linecol_nat]
  unfold cursor
  have hno := walkLC_no_nl (s.toList.drop vs) cp (walkLC s.toList vs 1 1).1 (walkLC s.toList vs 1 1).2
    (by intro j hj
        have := hnl j hj
        simpa [List.getElem?_drop] using this)
  rw [walkLC_add s.toList vs cp 1 1, hno]
  simp [castLC]

/-- Later lines: if line `lp ≥ 2` of the value starts `o` characters into the value and the pair denotes the
    character `cp` columns into that line, the code reports the right line but a column ONE TOO SMALL
    (`col = col_pos` keeps expat's 0-based column): with `cp = 0` it reports column 0. -/
theorem dtd_tuple_later_line_off_by_one (s : Array Nat) (vs ve lp o cp : Nat) (hlp : 2 ≤ lp)
    (ho : lineStartOfLine (s.toList.drop vs) (lp - 1) = some o)
    (hnl : ∀ j, j < cp → s[vs + o + j]? ≠ some 10) :
    ∃ l c : Nat, linecol s ((vs + o + cp : Nat) : Int) = some ((l : Int), ((c + 1 : Nat) : Int)) ∧
      dtdValuePositionTuple s (some ((vs : Int), (ve : Int))) (lp : Int) (cp : Int) = some ((l : Int), (c : Int)) := by
  unfold dtdValuePositionTuple
  rw [value_position_spec]
  simp only [show ¬ ((0 : Int) < 0) by omega, if_false, Int.toNat_zero, Nat.add_zero]
  have hne : ¬ ((lp : Int) == 1) = true := by simp; omega
  simp only [castLC, hne]
  refine ⟨(cursor s vs).1 + (lp - 1), cp, ?_, ?_⟩
  · rw [linecol_nat]
    unfold cursor
    have h1 := walkLC_add s.toList vs (o + cp) 1 1
    have h2 := walkLC_add (s.toList.drop vs) o cp (walkLC s.toList vs 1 1).1 (walkLC s.toList vs 1 1).2
    have h3 := walkLC_lineStartOfLine (s.toList.drop vs) (lp - 1) o (walkLC s.toList vs 1 1).1
      (walkLC s.toList vs 1 1).2 (by omega) ho
    have h4 := walkLC_no_nl ((s.toList.drop vs).drop o) cp ((walkLC s.toList vs 1 1).1 + (lp - 1)) 1
      (by intro j hj
          have := hnl j hj
          simpa [List.getElem?_drop, Nat.add_assoc] using this)
    rw [Nat.add_assoc, h1, h2, h3, h4]
    simp [castLC]; omega
  · simp; omega

/-- Line 0 (DTDChecker's `(0, 0)` for its warnings, and `(0, c)` for errors in the DOCTYPE line): the
    reported line is the one BEFORE the line on which the value starts, the column is `c` unchanged. -/
theorem dtd_tuple_line_zero (s : Array Nat) (vs ve : Nat) (c : Int) :
    dtdValuePositionTuple s (some ((vs : Int), (ve : Int))) 0 c = some (((cursor s vs).1 : Int) - 1, c) := by
  unfold dtdValuePositionTuple
  rw [value_position_spec]
  simp [castLC]
  omega

/-! ### positions attached to check messages stay inside [start of the entity, end of the file]

Full statement wanted: for every checker result the resolved position lies between `position()` of the entity
and `linecol(len(text))`.  The checkers are not modelled (the harness checks the claim on the real ones);
proved here: it holds whenever the checker's offset stays inside what it indexes. -/

/-- `EntityPos(n)`: in range when `span[0] + n` does not pass the end of the text -/
theorem check_pos_in_range_entity (s : Array Nat) (cls : EntCls) (e : Entry) (n : Nat) (h : e.s + n ≤ s.size) :
    ∃ a b c, position s e 0 = some a ∧ resolveCheckPos s cls e (.entityPos (n : Int)) = some b ∧
      linecol s (s.size : Int) = some c ∧ lexLeI a b ∧ lexLeI b c := by
  refine ⟨_, _, _, by rw [position_spec]; simp; rfl, by show position s e (n : Int) = _; rw [position_spec]; simp; rfl,
    linecol_nat s s.size, cursor_mono s _ _ (by omega), cursor_mono s _ _ (by simpa using h)⟩

/-- plain `int` offset `n` into the value (properties, DTD): in range when the value starts inside the entity
    and `val_span[0] + n` does not pass the end of the text -/
theorem check_pos_in_range_value (s : Array Nat) (cls : EntCls) (hc : cls ≠ .fluent) (e : Entry) (vs n : Nat)
    (hk : e.kind = .entity) (hv : e.vs = (vs : Int)) (hve : 0 ≤ e.ve) (h1 : e.s ≤ vs) (h2 : vs + n ≤ s.size) :
    ∃ a b c, position s e 0 = some a ∧ resolveCheckPos s cls e (.offset (n : Int)) = some b ∧
      linecol s (s.size : Int) = some c ∧ lexLeI a b ∧ lexLeI b c := by
  obtain ⟨ve, hve'⟩ := Int.eq_ofNat_of_zero_le hve
  have hr : resolveCheckPos s cls e (.offset (n : Int)) = some (castLC (cursor s (vs + n))) := by
    unfold resolveCheckPos
    cases cls with
    | fluent => exact absurd rfl hc
    | plain => simp only [valSpan, hk, hv, hve']; rw [Bool.false_and]; simp only [Bool.false_eq_true, if_false]
               rw [value_position_spec]; simp only [show ¬ ((n : Int) < 0) by omega, if_false]; simp
    | dtd => simp only [valSpan, hk, hv, hve']; rw [Bool.false_and]; simp only [Bool.false_eq_true, if_false]
             rw [value_position_spec]; simp only [show ¬ ((n : Int) < 0) by omega, if_false]; simp
  refine ⟨_, _, _, by rw [position_spec]; simp; rfl, hr, linecol_nat s s.size,
    cursor_mono s _ _ (by omega), cursor_mono s _ _ h2⟩

/-- Fluent: plain offsets count from the start of the entry -/
theorem check_pos_in_range_fluent (s : Array Nat) (e : Entry) (n : Nat) (h : e.s + n ≤ s.size) :
    ∃ a b c, position s e 0 = some a ∧ resolveCheckPos s .fluent e (.offset (n : Int)) = some b ∧
      linecol s (s.size : Int) = some c ∧ lexLeI a b ∧ lexLeI b c := by
  refine ⟨_, _, _, by rw [position_spec]; simp; rfl,
    by show fluentValuePosition s e (some (n : Int)) = _; rw [fluent_value_position, position_spec]; simp; rfl,
    linecol_nat s s.size, cursor_mono s _ _ (by omega), cursor_mono s _ _ (by simpa using h)⟩

/-! ### non-vacuity and negation witnesses (the model itself, evaluated by the kernel) -/

/-- "a\nbc\n": offset 3 is the `c` in line 2, column 2; offset 5 = end of file is line 3, column 1 -/
example : linecol #[97, 10, 98, 99, 10] 3 = some (2, 2) ∧ linecol #[97, 10, 98, 99, 10] 5 = some (3, 1) ∧
    linecol #[97, 10, 98, 99, 10] 2 = some (2, 1) ∧ linecol #[97, 10, 98, 99, 10] 1 = some (1, 2) := by decide

example : cursor #[97, 10, 98, 99, 10] 3 = (2, 2) ∧ offsetOf #[97, 10, 98, 99, 10] (2, 2) = some 3 ∧
    IsLineStart [97, 10, 98, 99, 10] 3 2 := by
  refine ⟨by decide, by decide, by decide, Or.inr (by decide), ?_⟩
  intro j h1 h2
  have : j = 2 := by omega
  subst this; decide

/-- junk "??" on the second line of "a=1\n??": "from line 2 column 1 to line 2 column 3" -/
example : junkMessagePositions #[97, 61, 49, 10, 63, 63] { kind := .junk, full := 4, s := 4, e := 6 }
    = some (2, 1, 2, 3) := by decide

/-- negative offset: `(1, 0)`, not 1-based (hypothesis `p ≥ 0` of `linecol_one_based` is needed) -/
example : linecol #[97, 10, 98] (-1) = some (1, 0) := by decide

/-- DTD `<!ENTITY a "x\ny">` (value = "x\ny" at 12..15): the pair (2, 0) denotes the `y` = offset 14 = (2, 1),
    the code reports (2, 0) -/
example :
    let s : Array Nat := #[60, 33, 69, 78, 84, 73, 84, 89, 32, 97, 32, 34, 120, 10, 121, 34, 62]
    linecol s 14 = some (2, 1) ∧ dtdValuePositionTuple s (some (12, 15)) 2 0 = some (2, 0) ∧
    dtdValuePositionTuple s (some (12, 15)) 1 1 = linecol s 13 ∧
    -- DTDChecker's (0, 0): line 0, before the entity that starts at (1, 1)
    dtdValuePositionTuple s (some (12, 15)) 0 0 = some (0, 0) ∧
    position s { kind := .entity, full := 0, s := 0, e := 17 } 0 = some (1, 1) := by decide

/-- `EntityPos` beyond the text (hypothesis of `check_pos_in_range_entity` violated): "# c\nk=�", the
    checker's offset 6 counts from the start of the pre-comment, the code adds it to the start of the key (4) -/
example :
    let s : Array Nat := #[35, 32, 99, 10, 107, 61, 65533]
    resolveCheckPos s .plain { kind := .entity, full := 0, s := 4, e := 7, vs := 6, ve := 7, pc := some (0, 3) }
      (.entityPos 6) = some (2, 7) ∧ linecol s 7 = some (2, 4) := by decide

end C17

/-
C17 — Reported line and column numbers point at the right character.
Property theorems only (helper lemmas and the reference definitions `cursor`, `IsLineStart`, `offsetOf`,
`lexLtI` live in CLModel/Proofs/C17*.lean).  All statements quantify over every text `s` (array of code
points) and every offset; no length bound.

`linecol`, `position`, `valuePosition`, `dtdValuePositionTuple`, `fluentValuePosition`,
`junkMessagePositions`, `resolveCheckPos` are the transliterations in CLModel/Parser/Position.lean.
-/
import CLModel.Parser.Position
import CLModel.Parser.PositionCache
import CLModel.Proofs.C17
import CLModel.Proofs.C17Formula
import CLModel.Proofs.C17Lint
import CLModel.Proofs.C17Checkers
import CLModel.Proofs.C17Dtd
import CLModel.Proofs.C17Resolve
import CLModel.Proofs.C17PipeLint
import CLModel.Proofs.C17PipeCmp
import CLModel.Proofs.C08Basic
namespace C17
open P Pos
open C17P (nlEndBefore numLines lineLen Target LintWhy DetailWhy junkText EntFacts PropsPosOK DtdPosKind)

/-! ### the offset → (line, column) map -/

/-- `Parser.Context.linecol(p)` never raises for `p ≥ 0` and is exactly the text-editor cursor: start at
    (1, 1), a newline moves to column 1 of the next line, every other character one column to the right
    (`cursor` reads the text once, character by character; it shares nothing with the regex + bisect code). -/
theorem linecol_cursor (s : Array Nat) (p : Nat) :
    linecol s (p : Int) = some (castLC (cursor s p)) :=
  linecol_nat s p

/-- **The specification of `linecol`** (round 4: explicit, no existential).  For EVERY text and EVERY offset
    `0 ≤ o ≤ len(text)` — the end of the text `o = len` included, texts with or without a final newline alike —

        line   = 1 + (number of "\n" among the first o characters)
        column = 1 + o − (index just after the last "\n" before o)          (0 when there is none)

    `nlEndBefore l o` is `l[:o].rfind("\n") + 1`, written with `take`/`reverse`/`takeWhile`; that it IS the start of the
    line of `o` (≤ o, at the text start or just after a newline, no newline in `[b, o)`) is the second conjunct, and
    `linecol_lineStart_unique` says there is only one such index.  Only the character U+000A counts: the table of line
    ends is `finditer` of the regenerated pattern of `re.compile("\n", re.M)` inside `linecol` (`Pos.lineEnds`,
    proved to be the plain scan for code point 10 in Proofs/C17Engine), see `linecol_only_newline_counts`. -/
theorem linecol_spec (s : Array Nat) (o : Nat) (ho : o ≤ s.size) :
    linecol s (o : Int) =
      some (((1 + (s.toList.take o).count 10 : Nat) : Int), ((1 + (o - nlEndBefore s.toList o) : Nat) : Int)) ∧
    IsLineStart s.toList o (nlEndBefore s.toList o) := by
  refine ⟨?_, C17P.nlEndBefore_isLineStart s.toList o (by simpa using ho)⟩
  rw [linecol_nat, C17P.cursor_formula s o ho]
  rfl

/-- the same at the END of the text (`o = len`): the line is 1 + the number of newlines of the whole text, the column
    is 1 + the length of what follows the last newline -/
theorem linecol_spec_at_end (s : Array Nat) :
    linecol s (s.size : Int) =
      some (((1 + s.toList.count 10 : Nat) : Int), ((1 + (s.toList.reverse.takeWhile (· != 10)).length : Nat) : Int)) := by
  have h := (linecol_spec s s.size (Nat.le_refl _)).1
  rw [h]
  have ht : s.toList.take s.size = s.toList := List.take_of_length_le (by simp)
  have hle := C17P.takeWhile_length_le (· != 10) s.toList.reverse
  simp only [List.length_reverse, Array.length_toList] at hle
  unfold nlEndBefore
  simp only [ht, Array.length_toList]
  congr 3
  omega

/-- a text that does NOT end in a newline: the end of the text is on the last line, in a column ≥ 2
    (`splitlines(True)`-style tables, which have no entry for an unterminated last line, get this wrong) -/
theorem linecol_no_final_newline (s : Array Nat) (c : Nat) (hlast : s.toList.getLast? = some c) (hc : c ≠ 10) :
    ∃ col : Nat, 2 ≤ col ∧ linecol s (s.size : Int) = some (((numLines s.toList : Nat) : Int), (col : Int)) := by
  rw [linecol_spec_at_end]
  refine ⟨1 + (s.toList.reverse.takeWhile (· != 10)).length, ?_, rfl⟩
  have : s.toList.reverse.head? = some c := by simpa using hlast
  cases hr : s.toList.reverse with
  | nil => rw [hr] at this; cases this
  | cons x xs =>
    rw [hr] at this
    simp only [List.head?_cons, Option.some.injEq] at this
    subst this
    simp [hc]
    omega

/-- a text that ends in a newline: the end of the text is column 1 of the line after it -/
theorem linecol_after_final_newline (s : Array Nat) (hlast : s.toList.getLast? = some 10) :
    linecol s (s.size : Int) = some (((numLines s.toList : Nat) : Int), 1) := by
  rw [linecol_spec_at_end]
  have : s.toList.reverse.head? = some 10 := by simpa using hlast
  cases hr : s.toList.reverse with
  | nil => rw [hr] at this; cases this
  | cons x xs =>
    rw [hr] at this
    simp only [List.head?_cons, Option.some.injEq] at this
    subst this
    simp [numLines]

/-- ONLY "\n" counts: in a text without U+000A every offset is on line 1, whatever other line-breaking characters it
    has (form feed, vertical tab, CR, U+0085, U+2028, U+2029, U+001C…U+001E — `str.splitlines` would split there) -/
theorem linecol_only_newline_counts (s : Array Nat) (h : ∀ c ∈ s.toList, c ≠ 10) (p : Nat) :
    linecol s (p : Int) = some (1, (p : Int) + 1) := by
  rw [linecol_nat]
  have hno := walkLC_no_nl s.toList p 1 1 (by
    intro j _ hj
    exact h 10 (List.mem_of_getElem? hj) rfl)
  unfold cursor
  rw [hno]
  simp [castLC]; omega

/-- **inside the text**: for `0 ≤ o ≤ len` the reported pair satisfies `1 ≤ line ≤ number of lines` and
    `1 ≤ column ≤ length of that line + 1`, and the pair denotes offset `o` again (so the character at (line, column) is
    the character at `o`) -/
theorem linecol_in_text (s : Array Nat) (o : Nat) (ho : o ≤ s.size) :
    ∃ l c len : Nat, linecol s (o : Int) = some ((l : Int), (c : Int)) ∧ 1 ≤ l ∧ l ≤ numLines s.toList ∧ 1 ≤ c ∧
      lineLen s.toList (l - 1) = some len ∧ c ≤ len + 1 ∧ offsetOf s (l, c) = some o := by
  obtain ⟨h1, h2, h3, ⟨len, h4, h5⟩, h6⟩ := C17P.cursor_in_text s o ho
  exact ⟨(cursor s o).1, (cursor s o).2, len, linecol_nat s o, h1, h2, h3, h4, h5, h6⟩

/-- the older declarative form, for every offset (also beyond the end of the text, where columns keep counting):
    some line start `b` in the sense of `IsLineStart` -/
theorem linecol_lineStart_spec (s : Array Nat) (p : Nat) :
    ∃ b, IsLineStart s.toList p b ∧
      linecol s (p : Int) = some (((1 + (s.toList.take p).count 10 : Nat) : Int), ((p - b + 1 : Nat) : Int)) := by
  obtain ⟨b, hb, hc⟩ := cursor_spec s p
  exact ⟨b, hb, by rw [linecol_nat, hc]; rfl⟩

/-- **the cached line table is transparent**: `Parser.Context` builds `_lines` on the first `linecol` call and reuses
    it; any sequence of calls on ONE context object (in any order: whichever call builds the table) returns exactly
    what a fresh computation returns for each position -/
theorem linecol_cache_transparent (contents : Array Nat) (xs : List Int) :
    (({ contents := contents } : Ctx).linecolSeq xs).1 = xs.map (linecol contents) :=
  (C17P.ctx_linecolSeq xs { contents := contents } (Or.inl rfl)).1

theorem linecol_lineStart_unique (s : Array Nat) (p b b' : Nat)
    (h : IsLineStart s.toList p b) (h' : IsLineStart s.toList p b') : b = b' :=
  IsLineStart_unique _ _ _ _ h h'

/-- Step rule: offset 0 is (1, 1); the offset after a newline is column 1 of the next line; the offset after
    any other character is one column further on the same line. -/
theorem linecol_zero_succ (s : Array Nat) :
    linecol s 0 = some (1, 1) ∧
    ∀ p : Nat, linecol s ((p + 1 : Nat) : Int) =
      some (castLC (if s[p]? = some 10 then ((cursor s p).1 + 1, 1) else ((cursor s p).1, (cursor s p).2 + 1))) := by
  refine ⟨by simpa [cursor, walkLC, castLC] using linecol_nat s 0, ?_⟩
  intro p
  rw [linecol_nat, cursor_succ]

/-- The offset is recovered from the reported pair: line `l` starts one past the `(l-1)`-th newline
    (`lineStartOfLine`), and the offset is that start plus `c - 1`.  So the pair identifies exactly the
    character at the offset it was computed from. -/
theorem linecol_inverse (s : Array Nat) (p l c : Nat) (h : linecol s (p : Int) = some ((l : Int), (c : Int))) :
    offsetOf s (l, c) = some p := by
  rw [linecol_nat] at h
  have h' : cursor s p = (l, c) := castLC_inj (Option.some.inj h)
  rw [← h']; exact offsetOf_cursor s p

/-- different offsets never get the same (line, column) -/
theorem linecol_injective (s : Array Nat) (p q : Nat) (h : linecol s (p : Int) = linecol s (q : Int)) : p = q := by
  rw [linecol_nat, linecol_nat] at h
  have h' : cursor s p = cursor s q := castLC_inj (Option.some.inj h)
  have hp := offsetOf_cursor s p
  rw [h', offsetOf_cursor] at hp
  exact (Option.some.inj hp).symm

/-- line and column are 1-based for every offset ≥ 0 -/
theorem linecol_one_based (s : Array Nat) (p : Nat) (lc : Int × Int) (h : linecol s (p : Int) = some lc) :
    1 ≤ lc.1 ∧ 1 ≤ lc.2 := by
  rw [linecol_nat] at h
  have := Option.some.inj h
  subst this
  have := cursor_one_based s p
  unfold castLC; simp; omega

/-- strictly increasing in the offset (lexicographically) -/
theorem linecol_monotone (s : Array Nat) (p q : Nat) (hpq : p < q) (a b : Int × Int)
    (ha : linecol s (p : Int) = some a) (hb : linecol s (q : Int) = some b) : lexLtI a b := by
  rw [linecol_nat] at ha hb
  have ha := Option.some.inj ha
  have hb := Option.some.inj hb
  subst ha; subst hb
  have := cursor_strictMono s p q hpq
  unfold lexLt at this; unfold lexLtI castLC; simp; omega

/-- Excluded point of `linecol_one_based`: a negative offset (a `(-1, -1)` span of an unmatched regex group,
    e.g. `value_position()` of `#define k` without a value) is reported as line 1, column `offset + 1 ≤ 0`. -/
theorem linecol_negative (s : Array Nat) (x : Int) (hx : x < 0) : linecol s x = some (1, x + 1) :=
  linecol_neg s x hx

/-! ### positions of entries -/

/-- `Entry.position(offset)` / `Junk.position(offset)`: the cursor position of `span[0] + offset`;
    a negative offset means the end of the span. -/
theorem position_spec (s : Array Nat) (e : Entry) (off : Int) :
    position s e off =
      if off < 0 then some (castLC (cursor s e.e)) else some (castLC (cursor s (e.s + off.toNat))) := by
  unfold position
  split
  · exact linecol_nat s e.e
  · rename_i h
    rw [linecol_of_nonneg s _ (by omega)]
    congr 3; omega

/-- `Entry.value_position(offset)` for a value span inside the text (`0 ≤ vs`, `0 ≤ ve`) -/
theorem value_position_spec (s : Array Nat) (vs ve : Nat) (off : Int) :
    valuePosition s (some ((vs : Int), (ve : Int))) off =
      if off < 0 then some (castLC (cursor s ve)) else some (castLC (cursor s (vs + off.toNat))) := by
  unfold valuePosition
  simp only
  split
  · exact linecol_nat s ve
  · rename_i h
    rw [linecol_of_nonneg s _ (by omega)]
    congr 3; omega

/-- `value_position` of an entry whose `val_span` is `None` (comments) fails its assertion -/
theorem value_position_none (s : Array Nat) (off : Int) : valuePosition s none off = none := rfl

/-- The start of an entry, of its value, and any offset inside it are reported with the pair that identifies
    exactly that character: the offset is recovered from the reported pair. -/
theorem position_identifies (s : Array Nat) (e : Entry) (off : Nat) (l c : Nat)
    (h : position s e (off : Int) = some ((l : Int), (c : Int))) : offsetOf s (l, c) = some (e.s + off) := by
  unfold position at h
  simp only [show ¬ ((off : Int) < 0) by omega, if_false] at h
  exact linecol_inverse s (e.s + off) l c (by simpa using h)

/-- `Junk.error_message()`: "from line %d column %d to line %d column %d" are the cursor positions of the
    start and of the end of the junk span, in this order. -/
theorem junk_message_positions (s : Array Nat) (e : Entry) :
    junkMessagePositions s e =
      some (((cursor s e.s).1 : Int), ((cursor s e.s).2 : Int), ((cursor s e.e).1 : Int), ((cursor s e.e).2 : Int)) := by
  unfold junkMessagePositions
  rw [position_spec, position_spec]
  simp [castLC]

/-! ### Fluent: offsets are relative to the start of the entry -/

/-- `FluentEntity.value_position(offset)` with an offset is `position(offset)`: FluentChecker's offsets count
    from the start of the entry, not of the value. -/
theorem fluent_value_position (s : Array Nat) (e : Entry) (off : Int) :
    fluentValuePosition s e (some off) = position s e off := rfl

/-- Without an offset: the start of the value when there is one.  Needs the value to start inside the
    entry (`e.s ≤ vs`, contract of fluent.syntax); see `fluent_value_position_default_excluded`. -/
theorem fluent_value_position_default (s : Array Nat) (e : Entry) (hk : e.kind = .entity) (vs : Nat)
    (hv : e.vs = (vs : Int)) (hle : e.s ≤ vs) :
    fluentValuePosition s e none = some (castLC (cursor s vs)) := by
  unfold fluentValuePosition valSpan
  simp only [hk, hv]
  simp only [show ¬ ((vs : Int) < 0) by omega, decide_false, Bool.and_false, Bool.false_eq_true, if_false,
    Option.isSome_some, if_true]
  rw [position_spec]
  simp only [show ¬ ((vs : Int) - (e.s : Int) < 0) by omega, if_false]
  congr 3; omega

/-- … and the end of the id when the message has no value (`vs = -1`). -/
theorem fluent_value_position_novalue (s : Array Nat) (e : Entry) (hk : e.kind = .entity) (ke : Nat)
    (hv : e.vs = -1) (hke : e.ke = (ke : Int)) (hle : e.s ≤ ke) :
    fluentValuePosition s e none = some (castLC (cursor s ke)) := by
  unfold fluentValuePosition valSpan
  simp only [hk, hv, hke]
  simp only [show ((-1 : Int) < 0) by omega, decide_true, Bool.and_true, if_true, Option.isSome_none,
    Bool.false_eq_true, if_false]
  rw [position_spec]
  simp only [show ¬ ((ke : Int) - (e.s : Int) < 0) by omega, if_false]
  congr 3; omega

/-- Excluded point: a value that started *before* its entry would be reported at the END of the entry
    (the difference is negative, and a negative offset means "end"). -/
theorem fluent_value_position_default_excluded (s : Array Nat) (e : Entry) (hk : e.kind = .entity) (vs : Nat)
    (hv : e.vs = (vs : Int)) (hlt : vs < e.s) :
    fluentValuePosition s e none = some (castLC (cursor s e.e)) := by
  unfold fluentValuePosition valSpan
  simp only [hk, hv]
  simp only [show ¬ ((vs : Int) < 0) by omega, decide_false, Bool.and_false, Bool.false_eq_true, if_false,
    Option.isSome_some, if_true]
  rw [position_spec]
  simp only [show ((vs : Int) - (e.s : Int) < 0) by omega, if_true]

/-! ### DTD: (line, column) pairs of the XML parser relative to the value

Full statement wanted: for every pair `(lp, cp)` (1-based line `lp` of the value, 0-based column `cp` in that
line, as DTDChecker derives them from expat) `value_position((lp, cp))` is the cursor position of the value
character it denotes.  Proved for the first line (`dtd_tuple_position_partial`).  It is FALSE for `lp ≥ 2`
(column one too small, `dtd_tuple_later_line_off_by_one`) and for `lp = 0` (`dtd_tuple_line_zero`), both by
the code's own arithmetic; what expat reports for a given XML error is external. -/

/-- first line of the value: `(1, cp)` with no newline among the first `cp` value characters is reported at the
    cursor position of the value's `cp`-th character -/
theorem dtd_tuple_position_partial (s : Array Nat) (vs ve cp : Nat)
    (hnl : ∀ j, j < cp → s[vs + j]? ≠ some 10) :
    dtdValuePositionTuple s (some ((vs : Int), (ve : Int))) 1 (cp : Int) = linecol s ((vs + cp : Nat) : Int) := by
  unfold dtdValuePositionTuple
  rw [value_position_spec]
  simp only [show ¬ ((0 : Int) < 0) by omega, if_false, Int.toNat_zero, Nat.add_zero]
  rw [linecol_nat]
  unfold cursor
  have hno := walkLC_no_nl (s.toList.drop vs) cp (walkLC s.toList vs 1 1).1 (walkLC s.toList vs 1 1).2
    (by intro j hj
        have := hnl j hj
        simpa [List.getElem?_drop] using this)
  rw [walkLC_add s.toList vs cp 1 1, hno]
  simp [castLC]

/-- Later lines: if line `lp ≥ 2` of the value starts `o` characters into the value and the pair denotes the
    character `cp` columns into that line, the code reports the right line but a column ONE TOO SMALL
    (`col = col_pos` keeps expat's 0-based column): with `cp = 0` it reports column 0. -/
theorem dtd_tuple_later_line_off_by_one (s : Array Nat) (vs ve lp o cp : Nat) (hlp : 2 ≤ lp)
    (ho : lineStartOfLine (s.toList.drop vs) (lp - 1) = some o)
    (hnl : ∀ j, j < cp → s[vs + o + j]? ≠ some 10) :
    ∃ l c : Nat, linecol s ((vs + o + cp : Nat) : Int) = some ((l : Int), ((c + 1 : Nat) : Int)) ∧
      dtdValuePositionTuple s (some ((vs : Int), (ve : Int))) (lp : Int) (cp : Int) = some ((l : Int), (c : Int)) := by
  unfold dtdValuePositionTuple
  rw [value_position_spec]
  simp only [show ¬ ((0 : Int) < 0) by omega, if_false, Int.toNat_zero, Nat.add_zero]
  have hne : ¬ ((lp : Int) == 1) = true := by simp; omega
  simp only [castLC, hne]
  refine ⟨(cursor s vs).1 + (lp - 1), cp, ?_, ?_⟩
  · rw [linecol_nat]
    unfold cursor
    have h1 := walkLC_add s.toList vs (o + cp) 1 1
    have h2 := walkLC_add (s.toList.drop vs) o cp (walkLC s.toList vs 1 1).1 (walkLC s.toList vs 1 1).2
    have h3 := walkLC_lineStartOfLine (s.toList.drop vs) (lp - 1) o (walkLC s.toList vs 1 1).1
      (walkLC s.toList vs 1 1).2 (by omega) ho
    have h4 := walkLC_no_nl ((s.toList.drop vs).drop o) cp ((walkLC s.toList vs 1 1).1 + (lp - 1)) 1
      (by intro j hj
          have := hnl j hj
          simpa [List.getElem?_drop, Nat.add_assoc] using this)
    rw [Nat.add_assoc, h1, h2, h3, h4]
    simp [castLC]; omega
  · simp; omega

/-- Line 0 (DTDChecker's `(0, 0)` for its warnings, and `(0, c)` for errors in the DOCTYPE line): the
    reported line is the one BEFORE the line on which the value starts, the column is `c` unchanged. -/
theorem dtd_tuple_line_zero (s : Array Nat) (vs ve : Nat) (c : Int) :
    dtdValuePositionTuple s (some ((vs : Int), (ve : Int))) 0 c = some (((cursor s vs).1 : Int) - 1, c) := by
  unfold dtdValuePositionTuple
  rw [value_position_spec]
  simp [castLC]
  omega

/-! ### positions attached to check messages stay inside [start of the entity, end of the file]

Full statement wanted: for every checker result the resolved position lies between `position()` of the entity
and `linecol(len(text))`.  The checkers are not modelled (the harness checks the claim on the real ones);
proved here: it holds whenever the checker's offset stays inside what it indexes. -/

/-- `EntityPos(n)`: in range when `span[0] + n` does not pass the end of the text -/
theorem check_pos_in_range_entity (s : Array Nat) (cls : EntCls) (e : Entry) (n : Nat) (h : e.s + n ≤ s.size) :
    ∃ a b c, position s e 0 = some a ∧ resolveCheckPos s cls e (.entityPos (n : Int)) = some b ∧
      linecol s (s.size : Int) = some c ∧ lexLeI a b ∧ lexLeI b c := by
  refine ⟨_, _, _, by rw [position_spec]; simp; rfl, by show position s e (n : Int) = _; rw [position_spec]; simp; rfl,
    linecol_nat s s.size, cursor_mono s _ _ (by omega), cursor_mono s _ _ (by simpa using h)⟩

/-- plain `int` offset `n` into the value (properties, DTD): in range when the value starts inside the entity
    and `val_span[0] + n` does not pass the end of the text -/
theorem check_pos_in_range_value (s : Array Nat) (cls : EntCls) (hc : cls ≠ .fluent) (e : Entry) (vs n : Nat)
    (hk : e.kind = .entity) (hv : e.vs = (vs : Int)) (hve : 0 ≤ e.ve) (h1 : e.s ≤ vs) (h2 : vs + n ≤ s.size) :
    ∃ a b c, position s e 0 = some a ∧ resolveCheckPos s cls e (.offset (n : Int)) = some b ∧
      linecol s (s.size : Int) = some c ∧ lexLeI a b ∧ lexLeI b c := by
  obtain ⟨ve, hve'⟩ := Int.eq_ofNat_of_zero_le hve
  have hr : resolveCheckPos s cls e (.offset (n : Int)) = some (castLC (cursor s (vs + n))) := by
    unfold resolveCheckPos
    cases cls with
    | fluent => exact absurd rfl hc
    | plain => simp only [valSpan, hk, hv, hve']; rw [Bool.false_and]; simp only [Bool.false_eq_true, if_false]
               rw [value_position_spec]; simp only [show ¬ ((n : Int) < 0) by omega, if_false]; simp
    | dtd => simp only [valSpan, hk, hv, hve']; rw [Bool.false_and]; simp only [Bool.false_eq_true, if_false]
             rw [value_position_spec]; simp only [show ¬ ((n : Int) < 0) by omega, if_false]; simp
  refine ⟨_, _, _, by rw [position_spec]; simp; rfl, hr, linecol_nat s s.size,
    cursor_mono s _ _ (by omega), cursor_mono s _ _ h2⟩

/-- Fluent: plain offsets count from the start of the entry -/
theorem check_pos_in_range_fluent (s : Array Nat) (e : Entry) (n : Nat) (h : e.s + n ≤ s.size) :
    ∃ a b c, position s e 0 = some a ∧ resolveCheckPos s .fluent e (.offset (n : Int)) = some b ∧
      linecol s (s.size : Int) = some c ∧ lexLeI a b ∧ lexLeI b c := by
  refine ⟨_, _, _, by rw [position_spec]; simp; rfl,
    by show fluentValuePosition s e (some (n : Int)) = _; rw [fluent_value_position, position_spec]; simp; rfl,
    linecol_nat s s.size, cursor_mono s _ _ (by omega), cursor_mono s _ _ (by simpa using h)⟩

/-! ### round 4 — the checkers composed: what every yielded position points at

The checkers are modelled by other properties (C05 base check, C06 `PropCk`, C07 `Dtd`, C08 `Ftl`); the theorems
below say, for ALL inputs of those models, what each position they yield is, so that the hypotheses
"the checker's offset stays inside what it indexes" of `check_pos_in_range_*` are discharged
(`check_pos_target`, `check_pos_in_range`). -/

/-- base `Checker.check`: every `EntityPos` is the offset of a U+FFFD inside `l10nEnt.all` -/
theorem base_check_positions (all : Array Nat) : ∀ r ∈ Checks.baseCheck all, all[r.pos]? = some 0xFFFD :=
  C17P.baseCheck_pos all

/-- `PropertiesChecker.check`, for ALL entity pairs, unconditionally: every position is
    an `EntityPos` at a U+FFFD of `all`; or the int 0; or (category escape) the offset of a backslash in `raw_val`; or
    (category printf) the offset of a `%` in the unescaped value `val` -/
theorem properties_check_positions (e : PropCk.Ents) (fs : List PropCk.Finding) (v : List Nat)
    (hc : PropCk.check e = some fs) (hv : PropCk.unescape e.l10nRaw = some v) :
    ∀ f ∈ fs, PropsPosOK e v f :=
  C17P.props_check_pos e fs v hc hv

/-- … hence inside what `compare`/`lint` add it to: an `EntityPos` is `< len(all)`, an int is `≤ len(raw_val)`
    (printf offsets index `val`, which is never longer than `raw_val`: `properties_val_not_longer`) -/
theorem properties_check_pos_bound (e : PropCk.Ents) (fs : List PropCk.Finding) (hc : PropCk.check e = some fs) :
    ∀ f ∈ fs, match f.pos with
      | .ent n => n < e.l10nAll.length
      | .val n => n ≤ e.l10nRaw.length :=
  C17P.props_check_pos_bound e fs hc

theorem properties_val_not_longer (raw v : List Nat) (h : PropCk.unescape raw = some v) :
    v.length ≤ raw.length ∧ ((∀ c ∈ raw, c ≠ 92) → v = raw) :=
  ⟨C17P.unescape_length_le raw v h, C17P.unescape_id raw v h⟩

/-- `DTDChecker.check`, whatever expat answers for the four documents (`xmlParse` is a parameter): every position is
    an `EntityPos` at a U+FFFD of `all`; the pair (0, 0) of the warnings (→ `dtd_tuple_line_zero`); the pair `errorPos`
    computes from an expat (line, column) of one of the documents (→ `dtd_expat_mapping`); the int 0 (number, CSS);
    or an int of the Android content checks (`extra_tests`, offsets into the XML text content) -/
theorem dtd_check_positions (xmlParse : Dtd.Bytes → Dtd.ParseRes) (i : Dtd.Inp) :
    ∀ r ∈ (Dtd.check xmlParse i).results, DtdPosKind xmlParse i r.pos :=
  C17P.dtd_check_pos xmlParse i

/-- How the checker maps an expat position back (error inside the value part of the synthetic document, i.e. expat's
    line − 1 does not exceed the number of lines of the value): `lnr = line − 1`;
    line 2 (the `<elem>` line = first line of the value) ↦ `(1, col − 6)`;
    line `2 + j`, `j ≥ 1` ↦ `(1 + j, col)` with expat's 0-based column UNCHANGED (root of C17-dtd-pair-later-line-column);
    line 1 (the DOCTYPE line) ↦ `(0, col − 16)` (root of C17-dtd-pair-line-zero / second-document-layout). -/
theorem dtd_expat_mapping (v : Dtd.Text) (line col : Nat) (hline : (line : Int) - 1 ≤ (Dtd.splitLines v).length) :
    Dtd.errorPos v line col =
      some (if line = 2 then (1, (col : Int) - 6) else if (line : Int) - 1 = 0 then (0, (col : Int) - 16)
            else ((line : Int) - 1, (col : Int))) :=
  C17P.errorPos_inside v line col hline

/-- **DTD pairs stay in range under the expat contract.**  Contract: the pair `(lp, cp)` denotes a place of the value —
    `lp ≥ 1`, line `lp` of the value exists (it starts `o` characters into the value; `o = 0` for `lp = 1`), and `cp`
    columns further there is still no newline and the value has not ended.  Then `value_position((lp, cp))` lies between
    the start of the entity and the end of the file.  (For `lp = 1` it is exact, `dtd_tuple_position_partial`; for
    `lp ≥ 2` it is one column short, `dtd_tuple_later_line_off_by_one`; `lp = 0` is outside the contract and falls
    BEFORE the entity, `dtd_tuple_line_zero`.) -/
theorem dtd_pair_in_range_partial (s : Array Nat) (e : Entry) (vs ve lp o cp : Nat) (hs : e.s ≤ vs)
    (hve : vs + o + cp ≤ ve) (hsz : ve ≤ s.size) (hlp : 1 ≤ lp)
    (ho : lineStartOfLine (s.toList.drop vs) (lp - 1) = some o)
    (hnl : ∀ j, j < cp → s[vs + o + j]? ≠ some 10) :
    ∃ a b c, position s e 0 = some a ∧ dtdValuePositionTuple s (some ((vs : Int), (ve : Int))) (lp : Int) (cp : Int) = some b ∧
      linecol s (s.size : Int) = some c ∧ lexLeI a b ∧ lexLeI b c := by
  have ha : position s e 0 = some (castLC (cursor s e.s)) := by rw [position_spec]; simp
  by_cases h1 : lp = 1
  · subst h1
    have ho0 : o = 0 := by simpa [lineStartOfLine] using ho.symm
    subst ho0
    have := dtd_tuple_position_partial s vs ve cp (by simpa using hnl)
    refine ⟨_, _, _, ha, by rw [show ((1 : Nat) : Int) = 1 from rfl, this]; exact linecol_nat s (vs + cp),
      linecol_nat s s.size, cursor_mono s _ _ (by omega), cursor_mono s _ _ (by omega)⟩
  · obtain ⟨l, c, hreal, hrep⟩ := dtd_tuple_later_line_off_by_one s vs ve lp o cp (by omega) ho hnl
    refine ⟨_, _, _, ha, hrep, linecol_nat s s.size, ?_, ?_⟩
    · -- the reported line is beyond the line of the value start, which is at or after the entity start
      have hline : ((cursor s vs).1 : Int) < (l : Int) := by
        have h2 : dtdValuePositionTuple s (some ((vs : Int), (ve : Int))) (lp : Int) (cp : Int)
            = some (((cursor s vs).1 : Int) + ((lp : Int) - 1), (cp : Int)) := by
          unfold dtdValuePositionTuple
          rw [value_position_spec]
          have hne : ¬ ((lp : Int) == 1) = true := by simp; omega
          simp [castLC, hne]
        rw [h2] at hrep
        have := (Prod.mk.inj (Option.some.inj hrep)).1
        omega
      have hmono := cursor_mono s e.s vs hs
      unfold lexLeI lexLtI castLC at hmono ⊢
      simp only at hmono ⊢
      rcases hmono with hm | hm | hm
      · have := (Prod.mk.inj hm).1; right; left; omega
      · right; left; omega
      · right; left; omega
    · -- one column before the real character, which is inside the text
      have hmono := cursor_mono s (vs + o + cp) s.size (by omega)
      rw [linecol_nat] at hreal
      have hcur := Option.some.inj hreal
      unfold castLC at hcur
      have h1' := (Prod.mk.inj hcur).1
      have h2' := (Prod.mk.inj hcur).2
      unfold lexLeI lexLtI castLC at hmono ⊢
      simp only at hmono ⊢
      rcases hmono with hm | hm | hm
      · have a1 := (Prod.mk.inj hm).1; have a2 := (Prod.mk.inj hm).2
        right; right; constructor <;> omega
      · right; left; omega
      · right; right; constructor <;> omega

/-- **The expat contract, composed.**  Suppose expat reports the character at value offset `q` in its own coordinates
    for the first synthetic document `<!DOCTYPE elem [decls]>\n<elem>VALUE</elem>`: line `2 + nl` (`nl` = newlines of the
    value before `q`) and the 0-based column in that line, `+ 6` on the `<elem>` line.  Then the checker's `errorPos`
    turns it into the pair `(1 + nl, q − b)` (`b` = start of that value line) and `DTDEntity.value_position` reports
    * for `nl = 0` EXACTLY the pair of the character `val_span[0] + q` of the file;
    * for `nl ≥ 1` the right line and a column ONE TOO SMALL (finding C17-dtd-pair-later-line-column).
    (`hlines`: expat's line does not exceed the `splitlines()` count of the value, else the checker clamps to the end of
    the last line.)  Which (line, column) expat really reports for an error is external; the harness observes it. -/
theorem dtd_expat_offset_position (s : Array Nat) (vs ve q : Nat) (hve : ve ≤ s.size) (hq : vs + q ≤ ve)
    (hlines : (((P.slice s vs ve).take q).count 10 : Int) + 1 ≤ (Dtd.splitLines (P.slice s vs ve)).length) :
    ∃ lp cp : Nat,
      Dtd.errorPos (P.slice s vs ve) (((P.slice s vs ve).take q).count 10 + 2)
        ((q - nlEndBefore (P.slice s vs ve) q) + (if ((P.slice s vs ve).take q).count 10 = 0 then 6 else 0))
        = some ((lp : Int), (cp : Int)) ∧
      (((P.slice s vs ve).take q).count 10 = 0 →
        dtdValuePositionTuple s (some ((vs : Int), (ve : Int))) lp cp = linecol s ((vs + q : Nat) : Int)) ∧
      (((P.slice s vs ve).take q).count 10 ≠ 0 →
        ∃ l c : Nat, linecol s ((vs + q : Nat) : Int) = some ((l : Int), ((c + 1 : Nat) : Int)) ∧
          dtdValuePositionTuple s (some ((vs : Int), (ve : Int))) lp cp = some ((l : Int), (c : Int))) := by
  generalize hv : P.slice s vs ve = v at hlines ⊢
  generalize hnl : (v.take q).count 10 = nl at hlines ⊢
  have hvlen : v.length = ve - vs := by rw [← hv]; exact C17P.slice_length hve
  have hqv : q ≤ v.length := by omega
  have hb := C17P.nlEndBefore_isLineStart v q hqv
  have hble := C17P.nlEndBefore_le v q
  have hlso : lineStartOfLine v nl = some (nlEndBefore v q) := by rw [← hnl]; exact C17P.lso_of_offset v q hqv
  have hget : ∀ j, j < ve - vs → v[j]? = s[vs + j]? := by
    intro j hj; rw [← hv]; exact C17P.slice_get_of hve (by omega)
  refine ⟨nl + 1, q - nlEndBefore v q, ?_, ?_, ?_⟩
  · rw [C17P.errorPos_inside v (nl + 2) _ (by push_cast; omega)]
    by_cases h0 : nl = 0
    · subst h0; simp
    · have h2 : ¬ (nl + 2 = 2) := by omega
      have h1 : ¬ (((nl + 2 : Nat) : Int) - 1 = 0) := by push_cast; omega
      simp only [h2, h1, h0, if_false]
      congr 2 <;> push_cast <;> omega
  · intro h0
    subst h0
    have hb0 : nlEndBefore v q = 0 := by simpa [lineStartOfLine] using hlso.symm
    rw [hb0] at hb ⊢
    have := dtd_tuple_position_partial s vs ve q (by
      intro j hj
      rw [← hget j (by omega)]
      exact hb.2.2 j (Nat.zero_le _) hj)
    simpa using this
  · intro h0
    have ho : lineStartOfLine (s.toList.drop vs) (nl + 1 - 1) = some (nlEndBefore v q) := by
      rw [Nat.add_sub_cancel]
      apply C17P.lso_take (s.toList.drop vs) (ve - vs)
      rw [← P.slice_eq s vs ve hve, hv]; exact hlso
    obtain ⟨l, c, h1, h2⟩ := dtd_tuple_later_line_off_by_one s vs ve (nl + 1) (nlEndBefore v q) (q - nlEndBefore v q)
      (by omega) ho (by
        intro j hj
        rw [Nat.add_assoc, ← hget _ (by omega)]
        exact hb.2.2 _ (by omega) (by omega))
    refine ⟨l, c, ?_, by simpa using h2⟩
    rw [show vs + q = vs + nlEndBefore v q + (q - nlEndBefore v q) by omega]
    exact h1

/-- `FluentChecker.check` (model `Ftl`, C08): after the sort every position is 0 or the span start of an AST node the
    visitors recorded, made relative to the entry (`pos − entry.span.start`).  The spans come from fluent.syntax
    (external); under its contract `entry.start ≤ pos ≤ entry.end` the offset satisfies the hypothesis of
    `check_pos_in_range_fluent`. -/
theorem fluent_check_positions (start : Nat) (msgs : List Ftl.Msg) :
    ∀ o ∈ Ftl.finish start msgs, o.pos = 0 ∨ ∃ m ∈ msgs, m.pos ≠ 0 ∧ o.pos = (m.pos : Int) - (start : Int) := by
  intro o ho
  simp only [Ftl.finish, List.mem_map] at ho
  obtain ⟨m, hm, rfl⟩ := ho
  have hm' := (Ftl.mem_sortBy _ msgs m).1 hm
  by_cases h0 : m.pos = 0
  · left; simp [h0]
  · right; exact ⟨m, hm', h0, by simp [h0]⟩

theorem fluent_check_pos_in_range (s : Array Nat) (e : Entry) (msgs : List Ftl.Msg)
    (hcontract : ∀ m ∈ msgs, m.pos ≠ 0 → e.s ≤ m.pos ∧ m.pos ≤ e.e) (hse : e.s ≤ e.e) (he : e.e ≤ s.size) :
    ∀ o ∈ Ftl.finish e.s msgs, ∃ a b c, position s e 0 = some a ∧ resolveCheckPos s .fluent e (.offset o.pos) = some b ∧
      linecol s (s.size : Int) = some c ∧ lexLeI a b ∧ lexLeI b c := by
  intro o ho
  rcases fluent_check_positions e.s msgs o ho with h0 | ⟨m, hm, hne, hpos⟩
  · rw [h0]; exact check_pos_in_range_fluent s e 0 (by omega)
  · obtain ⟨h1, h2⟩ := hcontract m hm hne
    have : o.pos = ((m.pos - e.s : Nat) : Int) := by rw [hpos]; omega
    rw [this]
    exact check_pos_in_range_fluent s e (m.pos - e.s) (by omega)

/-! ### round 4 — `check_pos_in_range` for compare and lint WITHOUT the abstract hypothesis (ini, inc, po, properties)

`Pipe.parseFile` is the parse stage of the composed pipeline (C01 parser model + C18 junk ids + C02 values),
`Pipe.runChecker` the checker of the format (base `Checker` for ini/inc/po, `PropertiesChecker` for properties),
`Pos.resolveCheckPos … .plain` the `isinstance(pos, EntityPos)` dispatch of compare and lint
(`Pipe.resolvePos … Cls.plain`, the class `Pipe.clsOf` gives these four formats).

Since the pipeline model covers DTD as well (C05), its functions take the external library functions as a parameter
(`Pipe.Ext`: expat's verdicts, `html.unescape`) and the checker object is a `Pipe.CkCtx` (class, `locale`, and what only
`DTDChecker` reads: its XML parser and the reference values).  The theorems below hold FOR ALL `ext` and for EVERY
checker object of the class `getChecker` picks for the format (`ck.kind = Pipe.checkerOf fmt`), whatever its locale. -/

def CoveredFmt (f : P.Fmt) : Prop := f = .ini ∨ f = .inc ∨ f = .po ∨ f = .properties

theorem covered_ne_dtd {f : P.Fmt} (h : CoveredFmt f) : f ≠ .dtd := by
  rcases h with rfl | rfl | rfl | rfl <;> decide

/-- the checker of a covered format is the base `Checker` or `PropertiesChecker`, and its entities are base `Entity` -/
theorem covered_checker {f : P.Fmt} (h : CoveredFmt f) :
    (Pipe.checkerOf f = .base ∨ Pipe.checkerOf f = .properties) ∧ Pipe.clsOf f = .plain := by
  rcases h with rfl | rfl | rfl | rfl <;> simp [Pipe.checkerOf, Pipe.clsOf]

/-- **what the position of a checker result denotes**, for every text, every localizable entry `l` of its parse, every
    reference entry `r` and locale: a `Target` — the offset of a U+FFFD inside the entry; an offset inside the value
    span (its start, a backslash, or a `%` when the raw value has no backslash); or, when the entry has an attached
    pre-comment, the KNOWN FINDING shape (U+FFFD at `a + k`, reported the pair of `span[0] + k`). -/
theorem check_pos_target (ext : Pipe.Ext) (fmt : P.Fmt) (hf : CoveredFmt fmt) (ck : Pipe.CkCtx)
    (hck : ck.kind = Pipe.checkerOf fmt)
    (s : Array Nat) (n0 n1 : Nat) (ents : List Pipe.PEnt) (hp : Pipe.parseFile ext fmt s n0 = .ok (ents, n1))
    (l : Pipe.PEnt) (hl : l ∈ ents) (r : Pipe.PEnt) (rs : List Pipe.CheckRes)
    (hrun : Pipe.runChecker ck r l = .ok rs) (c : Pipe.CheckRes) (hc : c ∈ rs) (b : Int × Int)
    (hres : resolveCheckPos s .plain l.entry c.pos = some b) : Target s l.entry b := by
  have hne : fmt ≠ .dtd := covered_ne_dtd hf
  exact (C17P.resolve_target fmt hne ck hck s r l (C17P.parseFile_facts ext fmt hne s n0 ents n1 hp l hl) rs hrun c hc b hres).1

/-- **`check_pos_in_range`, composed**: start of the entity ≤ reported position ≤ end of the file, for every checker
    result of an entry without attached pre-comment, and for every int (value) position whatever the comments —
    no hypothesis on the checker.  (With a pre-comment an `EntityPos` can fall beyond the end of the file: the last
    `example` of this file, finding C17-entitypos-counts-from-precomment.) -/
theorem check_pos_in_range (ext : Pipe.Ext) (fmt : P.Fmt) (hf : CoveredFmt fmt) (ck : Pipe.CkCtx)
    (hck : ck.kind = Pipe.checkerOf fmt)
    (s : Array Nat) (n0 n1 : Nat) (ents : List Pipe.PEnt) (hp : Pipe.parseFile ext fmt s n0 = .ok (ents, n1))
    (l : Pipe.PEnt) (hl : l ∈ ents) (r : Pipe.PEnt) (rs : List Pipe.CheckRes)
    (hrun : Pipe.runChecker ck r l = .ok rs) (c : Pipe.CheckRes) (hc : c ∈ rs) (b : Int × Int)
    (hres : resolveCheckPos s .plain l.entry c.pos = some b)
    (hdom : l.entry.pc = none ∨ ∃ n, c.pos = .offset n) :
    ∃ a cEnd, position s l.entry 0 = some a ∧ linecol s (s.size : Int) = some cEnd ∧ lexLeI a b ∧ lexLeI b cEnd := by
  have hne : fmt ≠ .dtd := covered_ne_dtd hf
  have hfacts := C17P.parseFile_facts ext fmt hne s n0 ents n1 hp l hl
  obtain ⟨ht, hoff⟩ := C17P.resolve_target fmt hne ck hck s r l hfacts rs hrun c hc b hres
  have hin : ∃ p, l.entry.s ≤ p ∧ p ≤ l.entry.e ∧ b = castLC (cursor s p) := by
    rcases hdom with hno | hn
    · obtain ⟨p, h1, h2, _, h4⟩ := ht.inside hfacts.e_le hno
      exact ⟨p, h1, h2, h4⟩
    · exact hoff hn
  obtain ⟨p, h1, h2, rfl⟩ := hin
  have he := hfacts.e_le
  refine ⟨castLC (cursor s l.entry.s), castLC (cursor s s.size), ?_, linecol_nat s s.size, cursor_mono s _ _ h1,
    cursor_mono s _ _ (by omega)⟩
  rw [position_spec]; simp

/-- a `Target` is inside the text — `1 ≤ line ≤ number of lines`, `1 ≤ column ≤ length of that line + 1`, the pair
    denotes an offset `p ≤ len` (recoverable from the pair) inside the entry — unless it is the known finding shape -/
theorem target_in_text (s : Array Nat) (e : Entry) (lc : Int × Int) (h : Target s e lc) (he : e.e ≤ s.size) :
    (∃ l c len p : Nat, lc = ((l : Int), (c : Int)) ∧ 1 ≤ l ∧ l ≤ numLines s.toList ∧ 1 ≤ c ∧
      lineLen s.toList (l - 1) = some len ∧ c ≤ len + 1 ∧ e.s ≤ p ∧ p ≤ e.e ∧ offsetOf s (l, c) = some p) ∨
    (∃ a b k : Nat, e.pc = some (a, b) ∧ s[a + k]? = some 0xFFFD ∧ a ≤ e.s ∧ lc = castLC (cursor s (e.s + k))) := by
  have inText : ∀ p, e.s ≤ p → p ≤ e.e → lc = castLC (cursor s p) →
      ∃ l c len p : Nat, lc = ((l : Int), (c : Int)) ∧ 1 ≤ l ∧ l ≤ numLines s.toList ∧ 1 ≤ c ∧
        lineLen s.toList (l - 1) = some len ∧ c ≤ len + 1 ∧ e.s ≤ p ∧ p ≤ e.e ∧ offsetOf s (l, c) = some p := by
    intro p h1 h2 hlc
    obtain ⟨a1, a2, a3, ⟨len, a4, a5⟩, a6⟩ := C17P.cursor_in_text s p (by omega)
    exact ⟨_, _, len, p, hlc, a1, a2, a3, a4, a5, h1, h2, a6⟩
  cases h with
  | ufffd p h1 h2 _ h4 => exact Or.inl (inText p h1 (by omega) h4)
  | value vs ve p _ _ h0 h1 h2 h3 _ h4 => exact Or.inl (inText p (by omega) (by omega) h4)
  | shifted a b k hpc h1 _ h3 h4 => exact Or.inr ⟨a, b, k, hpc, h1, h3, h4⟩

/-! ### round 4 — end to end: the composed pipelines of C05 (`Pipe.lintText`, `Pipe.compareFiles`) -/

/-- **lint, end to end** (all texts of ini / inc / po / properties, with or without a reference file): every result of
    `L10nLinter.lint_file` belongs to a localizable entry `pe` of the parsed file and is where `LintWhy` says:
    * unparsed content — at the START of the junk, and its message names the text, the pair of the start and the pair
      of the END of the junk span (both ends);
    * "Duplicate string with ID" / "Changes to string require a new ID" — at the start of THIS occurrence;
    * a checker finding — at a `Target` of the entry (U+FFFD / value offset / the known pre-comment shift). -/
theorem lint_positions_end_to_end (ext : Pipe.Ext) (fmt : P.Fmt) (hf : CoveredFmt fmt) (refText : Option (Array Nat))
    (s : Array Nat) (rs : List Lint.Result) (h : Pipe.lintText ext fmt refText s = .ok rs) :
    ∃ cur n0 n1, Pipe.parseFile ext fmt s n0 = .ok (cur, n1) ∧ ∀ r ∈ rs, ∃ pe ∈ cur, LintWhy s pe r := by
  obtain ⟨cur, n0, n1, hp, _, hall⟩ := C17P.lintText_explained ext fmt (covered_ne_dtd hf) refText s rs h
  exact ⟨cur, n0, n1, hp, hall⟩

/-- … and therefore every reported (lineno, column) is INSIDE the text — `1 ≤ line ≤ number of lines`,
    `1 ≤ column ≤ length of that line + 1`, and the pair denotes an offset `p ≤ len` of the entry it belongs to
    (`offsetOf` recovers it) — except for the known finding: a U+FFFD warning of an entry with an attached pre-comment,
    whose pair is that of `span[0] + k` while the U+FFFD is at `a + k` (`a` = start of the pre-comment). -/
theorem lint_positions_in_text (ext : Pipe.Ext) (fmt : P.Fmt) (hf : CoveredFmt fmt) (refText : Option (Array Nat))
    (s : Array Nat) (rs : List Lint.Result) (h : Pipe.lintText ext fmt refText s = .ok rs) :
    ∀ r ∈ rs,
      (∃ l c len p : Nat, (r.lineno, r.column) = ((l : Int), (c : Int)) ∧ 1 ≤ l ∧ l ≤ numLines s.toList ∧ 1 ≤ c ∧
        lineLen s.toList (l - 1) = some len ∧ c ≤ len + 1 ∧ p ≤ s.size ∧ offsetOf s (l, c) = some p) ∨
      (∃ (e : Entry) (a b k : Nat), e.pc = some (a, b) ∧ s[a + k]? = some 0xFFFD ∧ a ≤ e.s ∧
        (r.lineno, r.column) = castLC (cursor s (e.s + k))) := by
  obtain ⟨cur, n0, n1, hp, hfacts, hall⟩ := C17P.lintText_explained ext fmt (covered_ne_dtd hf) refText s rs h
  intro r hr
  obtain ⟨pe, hpe, hwhy⟩ := hall r hr
  have hf' := hfacts pe hpe
  have inText : ∀ p, p ≤ s.size → (r.lineno, r.column) = castLC (cursor s p) →
      ∃ l c len p : Nat, (r.lineno, r.column) = ((l : Int), (c : Int)) ∧ 1 ≤ l ∧ l ≤ numLines s.toList ∧ 1 ≤ c ∧
        lineLen s.toList (l - 1) = some len ∧ c ≤ len + 1 ∧ p ≤ s.size ∧ offsetOf s (l, c) = some p := by
    intro p hp hlc
    obtain ⟨h1, h2, h3, ⟨len, h4, h5⟩, h6⟩ := C17P.cursor_in_text s p hp
    exact ⟨_, _, len, p, hlc, h1, h2, h3, h4, h5, hp, h6⟩
  have hse : pe.entry.s ≤ s.size := Nat.le_trans hf'.s_le_e hf'.e_le
  cases hwhy with
  | junk _ hpos _ => exact Or.inl (inText _ hse hpos)
  | start _ hpos _ => exact Or.inl (inText _ hse hpos)
  | check _ ht =>
    cases ht with
    | ufffd p h1 h2 _ h4 => exact Or.inl (inText p (by have := hf'.e_le; omega) h4)
    | value vs ve p _ _ h0 h1 h2 h3 _ h4 => exact Or.inl (inText p (by have := hf'.e_le; omega) h4)
    | shifted a b k hpc h1 h2 h3 h4 => exact Or.inr ⟨pe.entry, a, b, k, hpc, h1, h3, h4⟩

/-- **compare, end to end** (all texts of ini / inc / po / properties; any `File` the observers can address; any list of
    fresh observers with filters and quiet level; with or without merge staging): every error / warning item of
    `observers.toJSON()["details"]` is a text of one of four kinds (`DetailWhy`):
    `"<key> occurs <n> times"` and `"Parser error in en-US"` (no position);
    `Junk.error_message()` of a Junk `j` of the localized file — its text, then the pair of its START, then the pair of
    its END, in this order (`junkText`);
    `"<msg> at line <l>, column <c> for <key>"` with `(l, c)` a `Target` of a localizable entry of the localized file. -/
theorem compare_positions_end_to_end (ext : Pipe.Ext) (fmt : P.Fmt) (hf : CoveredFmt fmt) (file : ObsM.File)
    (hm : ObsM.Modelled file)
    (q : Nat) (flts : List (Option ObsM.Filter)) (refText l10nText : Array Nat) (mergeOn : Bool) (r : Pipe.Report)
    (h : Pipe.compareFiles ext fmt file (ObsM.ObsList.init q (flts.map (ObsM.Obs.init q))) refText l10nText mergeOn = .ok r) :
    ∃ l10n n0 n1, Pipe.parseFile ext fmt l10nText n0 = .ok (l10n, n1) ∧
      ∀ leaf ∈ r.details, ∀ d ∈ leaf.2, (d.1 = .error ∨ d.1 = .warning) →
        ∃ t, d.2 = .data (.str t) ∧ DetailWhy l10nText l10n t := by
  obtain ⟨l10n, n0, n1, hp, _, hall⟩ :=
    C17P.compareFiles_details_explained ext fmt (covered_ne_dtd hf) file hm q flts refText l10nText mergeOn r h
  exact ⟨l10n, n0, n1, hp, hall⟩

/-- the junk message: both pairs are inside the text, the first is the start of the junk (`1 ≤ …`, recoverable), the
    second its end, and start ≤ end -/
theorem junk_text_positions (ext : Pipe.Ext) (fmt : P.Fmt) (hf : CoveredFmt fmt) (s : Array Nat) (n0 n1 : Nat)
    (ents : List Pipe.PEnt) (hp : Pipe.parseFile ext fmt s n0 = .ok (ents, n1)) (j : Pipe.PEnt) (hj : j ∈ ents) :
    j.entry.s ≤ j.entry.e ∧ j.entry.e ≤ s.size ∧
    offsetOf s (cursor s j.entry.s) = some j.entry.s ∧ offsetOf s (cursor s j.entry.e) = some j.entry.e ∧
    lexLeI (castLC (cursor s j.entry.s)) (castLC (cursor s j.entry.e)) := by
  have hne : fmt ≠ .dtd := covered_ne_dtd hf
  have hfacts := C17P.parseFile_facts ext fmt hne s n0 ents n1 hp j hj
  exact ⟨hfacts.s_le_e, hfacts.e_le, offsetOf_cursor s _, offsetOf_cursor s _, cursor_mono s _ _ hfacts.s_le_e⟩

/-! ### round 4 — duplicates: every occurrence reports ITS OWN position -/

/-- Over the lint model (C19): for EVERY occurrence `e` of a key that occurs more than once in the file, the results
    contain the "Duplicate string with ID" error positioned at the start of THAT occurrence (the cursor of its own
    `span[0]`), and two occurrences that start at different offsets are reported at different (line, column) pairs —
    a linter that memoised the position per key would violate this. -/
theorem lint_duplicate_own_position (f : Lint.FileIn) (rs : List Lint.Result) (h : Lint.lintFile f = .ok rs)
    (e : Lint.Ent) (hm : e ∈ f.cur) (he : e.kind = .entity) (hmode : e.mode ≠ .node)
    (hc : Lint.keyCount f.cur e.key > 1) :
    ∃ r ∈ rs, r.message = Gen.Tables.lintDupPrefix ++ e.key ∧ r.level = Gen.Tables.lintDupLevel ∧
      (r.lineno, r.column) = castLC (cursor f.contents e.s) ∧
      ∀ e' : Lint.Ent, e'.mode ≠ .node → e'.s ≠ e.s →
        (Lint.dupResult f.lines e').lineno ≠ r.lineno ∨ (Lint.dupResult f.lines e').column ≠ r.column := by
  have hmem := C19.lint_duplicates_reported f rs h e hm he hc
  refine ⟨_, hmem, rfl, rfl, ?_, ?_⟩
  · simp only [Lint.dupResult, Lint.FileIn.lines]
    rw [C17P.lint_position_zero f.contents e hmode]
  · intro e' hmode' hne
    simp only [Lint.dupResult, Lint.FileIn.lines]
    rw [C17P.lint_position_zero f.contents e hmode, C17P.lint_position_zero f.contents e' hmode']
    by_cases h1 : (castLC (cursor f.contents e'.s)).1 = (castLC (cursor f.contents e.s)).1
    · right
      intro h2
      have : castLC (cursor f.contents e'.s) = castLC (cursor f.contents e.s) := Prod.ext h1 h2
      have hcur := castLC_inj this
      have h3 := offsetOf_cursor f.contents e'.s
      rw [hcur, offsetOf_cursor] at h3
      exact hne (Option.some.inj h3).symm
    · left; exact h1

/-! ### round 4 — small facts the coverage analysis asked for -/

/-- every negative offset means "the end of the span": `position(-1)`, `position(-2)`, … are the same call
    (so `Junk.error_message`'s `self.position(-1)` can be replaced by any `position(-n)`: an equivalent mutant) -/
theorem position_negative_offsets_agree (s : Array Nat) (e : Entry) (off : Int) (h : off < 0) :
    position s e off = position s e (-1) := by
  rw [position_spec, position_spec]; simp [h]

/-- Android (`AndroidEntity.position`, `NodeMixin`-based `XMLJunk.position` and `value_position`): the objects carry no
    spans, every position is `(0, offset)` — line 0 is not a line of the file, the property's claims do not apply to
    android/strings.xml (`Lint.position` in `node` mode is the model, C19) -/
theorem android_positions_are_zero_offset (lines : List Nat) (e : Lint.Ent) (hm : e.mode = .node) (off : Int) :
    Lint.position lines e off = (0, off) ∧ Lint.valuePosition lines e (.value off) = .ok (0, off) := by
  simp [Lint.position, Lint.valuePosition, hm]

/-! ### non-vacuity and negation witnesses (the model itself, evaluated by the kernel) -/

/-- "a\nbc\n": offset 3 is the `c` in line 2, column 2; offset 5 = end of file is line 3, column 1 -/
example : linecol #[97, 10, 98, 99, 10] 3 = some (2, 2) ∧ linecol #[97, 10, 98, 99, 10] 5 = some (3, 1) ∧
    linecol #[97, 10, 98, 99, 10] 2 = some (2, 1) ∧ linecol #[97, 10, 98, 99, 10] 1 = some (1, 2) := by decide

example : cursor #[97, 10, 98, 99, 10] 3 = (2, 2) ∧ offsetOf #[97, 10, 98, 99, 10] (2, 2) = some 3 ∧
    IsLineStart [97, 10, 98, 99, 10] 3 2 := by
  refine ⟨by decide, by decide, by decide, Or.inr (by decide), ?_⟩
  intro j h1 h2
  have : j = 2 := by omega
  subst this; decide

/-- junk "??" on the second line of "a=1\n??": "from line 2 column 1 to line 2 column 3" -/
example : junkMessagePositions #[97, 61, 49, 10, 63, 63] { kind := .junk, full := 4, s := 4, e := 6 }
    = some (2, 1, 2, 3) := by decide

/-- negative offset: `(1, 0)`, not 1-based (hypothesis `p ≥ 0` of `linecol_one_based` is needed) -/
example : linecol #[97, 10, 98] (-1) = some (1, 0) := by decide

/-- DTD `<!ENTITY a "x\ny">` (value = "x\ny" at 12..15): the pair (2, 0) denotes the `y` = offset 14 = (2, 1),
    the code reports (2, 0) -/
example :
    let s : Array Nat := #[60, 33, 69, 78, 84, 73, 84, 89, 32, 97, 32, 34, 120, 10, 121, 34, 62]
    linecol s 14 = some (2, 1) ∧ dtdValuePositionTuple s (some (12, 15)) 2 0 = some (2, 0) ∧
    dtdValuePositionTuple s (some (12, 15)) 1 1 = linecol s 13 ∧
    -- DTDChecker's (0, 0): line 0, before the entity that starts at (1, 1)
    dtdValuePositionTuple s (some (12, 15)) 0 0 = some (0, 0) ∧
    position s { kind := .entity, full := 0, s := 0, e := 17 } 0 = some (1, 1) := by decide

/-- `EntityPos` beyond the text (hypothesis of `check_pos_in_range_entity` violated): "# c\nk=�", the
    checker's offset 6 counts from the start of the pre-comment, the code adds it to the start of the key (4) -/
example :
    let s : Array Nat := #[35, 32, 99, 10, 107, 61, 65533]
    resolveCheckPos s .plain { kind := .entity, full := 0, s := 4, e := 7, vs := 6, ve := 7, pc := some (0, 3) }
      (.entityPos 6) = some (2, 7) ∧ linecol s 7 = some (2, 4) := by decide

/-! #### round 4 -/

/-- only "\n" counts: "a\fb\u2028c\x85d\r\v\x1c" (form feed, LINE SEPARATOR, NEL, CR, VT, FS) is ONE line for `linecol` -/
example : linecol #[97, 12, 98, 8232, 99, 133, 100, 13, 11, 28] 10 = some (1, 11) := by decide

/-- end of a text without / with a final newline: "a\nbc" ends at (2, 3), "a\nbc\n" at (3, 1) -/
example : linecol #[97, 10, 98, 99] 4 = some (2, 3) ∧ linecol #[97, 10, 98, 99, 10] 5 = some (3, 1) := by decide

example : nlEndBefore [97, 10, 98, 99] 4 = 2 ∧ nlEndBefore [97, 10, 98, 99, 10] 5 = 5 ∧ nlEndBefore [97, 98] 2 = 0 ∧
    numLines [97, 10, 98, 99, 10] = 3 ∧ lineLen [97, 10, 98, 99, 10] 1 = some 2 ∧ lineLen [97, 10, 98, 99, 10] 2 = some 0 := by
  decide

/-- one context, five calls in "random" order, the first one (offset 5) builds the table -/
example : (({ contents := #[97, 10, 98, 99, 10] } : Ctx).linecolSeq [5, 0, 3, 1, -1]).1 =
    [some (3, 1), some (1, 1), some (2, 2), some (1, 2), some (1, 0)] := by decide

/- the witnesses below run the pipelines of ini / properties, which never consult the external functions
   (`PipeBridge.lintText_ext_irrel`, `PipeBridge.compareTexts_ext_irrel`): `default` is the `Pipe.Ext` the driver operations
   `c05.lint` / `c05.compare` use when no table of externals is sent -/
def lintPairs (r : Except Pipe.PyErr (List Lint.Result)) : List (Int × Int) :=
  match r with
  | .ok rs => rs.map (fun x => (x.lineno, x.column))
  | .error _ => []

/-- lint end to end on "a=x\\q\n??\na=1" (properties): duplicate `a` at (1,1) — its own start —, the unknown escape
    `\q` at the backslash (1,4), the junk `??\n` at its start (2,1), the second `a` duplicate at ITS start (3,1) -/
example : lintPairs (Pipe.lintText default .properties none #[97, 61, 120, 92, 113, 10, 63, 63, 10, 97, 61, 49]) =
    [(1, 1), (1, 4), (2, 1), (3, 1)] := by decide +kernel

/-- NEGATION WITNESS for the hypothesis `pc = none` of `check_pos_in_range` / the second disjunct of
    `lint_positions_in_text` (finding C17-entitypos-counts-from-precomment), through the whole lint pipeline:
    "# c\nk=�" is reported at (2, 7); the file ends at (2, 4) and the U+FFFD is at (2, 3) -/
example : lintPairs (Pipe.lintText default .ini none #[35, 32, 99, 10, 107, 61, 65533]) = [(2, 7)] ∧
    linecol #[35, 32, 99, 10, 107, 61, 65533] 7 = some (2, 4) ∧ linecol #[35, 32, 99, 10, 107, 61, 65533] 6 = some (2, 3) := by
  decide +kernel

/-- NEGATION WITNESS for the hypothesis "no backslash in `raw_val`" of the `%` claim (`Target.value`): printf offsets
    index the UNESCAPED value, the code adds them to the start of the RAW value.  "k=%S" against "k=\\u0041\\u0042 %":
    `val` is "AB %", the lone `%` is at offset 3 of `val`, the report says column 6 — the `0` of `\\u0041` — while the
    `%` of the file is at column 16.  In range (`check_pos_in_range`), 1-based, but not at the `%`. -/
example :
    let l10n : Array Nat := #[107, 61, 92, 117, 48, 48, 52, 49, 92, 117, 48, 48, 52, 50, 32, 37]
    (match Pipe.compareTexts default .properties #[107, 61, 37, 83] l10n false with
     | .ok r => r.details.map (fun leaf => leaf.2.map (fun d => d.2))
     | .error _ => []) = [[.data (.str [70, 111, 117, 110, 100, 32, 115, 105, 110, 103, 108, 101, 32, 37, 32, 97, 116, 32, 108,
        105, 110, 101, 32, 49, 44, 32, 99, 111, 108, 117, 109, 110, 32, 54, 32, 102, 111, 114, 32, 107])]] ∧
    linecol l10n 15 = some (1, 16) ∧ l10n[15]? = some 37 ∧ linecol l10n 5 = some (1, 6) ∧ l10n[5]? = some 48 := by
  decide +kernel

/-- non-vacuity of `dtd_expat_offset_position`: value "x\ny" at 12..15 of `<!ENTITY a "x\ny">`, offset q = 2 (the `y`):
    one newline before it, line start 2 — expat's (3, 0) ↦ `errorPos` (2, 0) ↦ reported (2, 0), the `y` is at (2, 1) -/
example :
    let s : Array Nat := #[60, 33, 69, 78, 84, 73, 84, 89, 32, 97, 32, 34, 120, 10, 121, 34, 62]
    P.slice s 12 15 = [120, 10, 121] ∧ ((P.slice s 12 15).take 2).count 10 = 1 ∧ nlEndBefore (P.slice s 12 15) 2 = 2 ∧
    (Dtd.splitLines (P.slice s 12 15)).length = 2 ∧ Dtd.errorPos (P.slice s 12 15) 3 0 = some (2, 0) ∧
    dtdValuePositionTuple s (some (12, 15)) 2 0 = some (2, 0) ∧ linecol s 14 = some (2, 1) := by decide

/-- negation witness for the expat contract of `dtd_pair_in_range_partial` (`lp ≥ 1`): the pair (0, 0) of the DTD
    warnings on `<!ENTITY a "x\ny">` is (0, 0), before the entity's (1, 1) — see the DTD example above -/
example : dtdValuePositionTuple #[60, 33, 69, 78, 84, 73, 84, 89, 32, 97, 32, 34, 120, 10, 121, 34, 62] (some (12, 15)) 0 0
    = some (0, 0) := by decide

/-- `errorPos`: expat (2, 9) on a one-line value ↦ (1, 3); expat (3, 0) on "x\ny" ↦ (2, 0); expat (1, 20) ↦ (0, 4) -/
example : Dtd.errorPos [120, 121, 122] 2 9 = some (1, 3) ∧ Dtd.errorPos [120, 10, 121] 3 0 = some (2, 0) ∧
    Dtd.errorPos [120] 1 20 = some (0, 4) := by decide

end C17

/-
C13 — Project enumeration finds every covered file once, correctly paired.
Property theorems only (helper lemmas live in CLModel/Proofs/C13*.lean).

Reading guide.  `env : MEnv` is the relation of the real `Matcher` objects (prefix, match, sub), `fs` the list of
regular files, `pf` a `ProjectFiles` object, `build env fuel locale projects mergebase` its constructor
(`fuel` only bounds the nesting of exclude lists), `pf.iter` = `list(pf)`, `pf.matchPath` = `pf.match`.
History: earlier versions of these theorems needed `PrefixIsDir` (finding F7), a consistency hypothesis on the
excludes (finding F15) and "the prefix is not itself a regular file" (finding F16); all three defects were fixed in /repo
(commits 80de410, 0a5bf4c, 2964cef), the model follows the fixed code and those hypotheses are gone.  What remains:
* `PrefixOK env m` — three properties of `Matcher` (C12), none about the tree: matched paths start with `m.prefix`, the
  prefix is rooted, a wildcard-free pattern matches its prefix only;
* `SubMatches` — `Matcher.sub` round trip (C12);
* duplicates are duplicates — matchers that the duplicate scan identifies (same pattern object, same prefix) cover the
  same paths; FALSE for the Python code when they differ in an `[env]` variable used after the first wildcard: known
  finding F14, negation witness at the end, the harness hits the real code there in every run.
-/
import CLModel.Paths.ProjectFiles
import CLModel.Proofs.C13Iter
import CLModel.Proofs.C13Build
import CLModel.Proofs.C13Wins
import CLModel.Proofs.C13Env
import CLModel.Proofs.C13Fuel
import CLModel.Props.C11
import CLModel.Props.C12
import CLModel.Proofs.C13MContracts
import CLModel.Proofs.C13MExample
import CLModel.Paths.TomlConfig
import CLModel.Proofs.C13Toml
import CLModel.Proofs.C13TomlCompose
import CLModel.Proofs.C13TomlExample
import CLModel.Proofs.C13Ini
import CLModel.Paths.TomlSession
import CLModel.Proofs.C13Session
namespace C13
open PF

/-- Enumeration yields strictly increasing paths: every path at most once, in Python's string order
    (both for a locale and in reference self-validation mode; no hypotheses). -/
theorem iter_nodup_sorted (env : MEnv) (fs : FS) (pf : PF) :
    ((pf.iter env fs).map (·.path)).Pairwise (fun a b => a < b) := by
  have h : ((pf.iter env fs).map (·.path)).Pairwise (fun a b => pathLt a b = true) := by
    unfold PF.iter
    split
    · rw [iterLocale_eq]; exact sorted_items_strict
    · rw [iterReference_eq]; exact sorted_items_strict
  exact h.imp (fun h => (pathLt_iff_lt _ _).1 h)

/-- Soundness.  Whatever `ProjectFiles(locale, projects, mergebase)` yields for a locale is claimed by a path rule
    `pr` of a config `pc` of a project that has the locale enabled, both locale gates passed
    (`locale in project.all_locales`, `pc.locales`, `pr["locales"]`), and either the yielded path is an existing file
    matched by the rule's l10n matcher (bound to THIS locale) and not matched by the excludes, or it is the `sub`
    image of an existing, non-excluded file matched by the rule's reference matcher and is itself not matched by the
    excludes; reference and merge path are the rule's, the rule's tests are among the yielded tests.  So nothing of
    another or disabled locale and nothing of an excluded configuration is yielded. -/
theorem iter_sound {env : MEnv} {fs : FS} {fuel : Nat} {locale : Option Loc} {projects : List Config} {mb : Bool}
    {pf : PF} (hb : build env fuel locale projects mb = .ok pf) (hloc : truthy locale = true)
    {it : Item} (hit : it ∈ pf.iter env fs) :
    ∃ project ∈ projects, enabledProject locale project ∧ ∃ pc ∈ project.configs, localeOk locale pc.locales = true ∧
      ∃ pr ∈ pc.paths, localeOk locale pr.locales = true ∧ (∀ t, pr.test = some t → ∀ x ∈ t, x ∈ it.test) ∧
        ((∃ g, it.path ∈ fs.files ∧ env.mtch pr.l10n it.path = some g ∧ excludedBy env pf.exclude it.path = false ∧
            it.reference = pr.reference.map (env.expand · g) ∧
            it.merge = (if mb then some (env.expand pr.merge g) else none)) ∨
         (∃ rm q g, pr.reference = some rm ∧ q ∈ fs.files ∧ env.mtch rm q = some g ∧
            excludedBy env pf.exclude q = false ∧ excludedBy env pf.exclude it.path = false ∧
            it.path = env.expand pr.l10n g ∧ it.reference = some q ∧
            it.merge = (if mb then some (env.expand pr.merge g) else none))) := by
  obtain ⟨f, rfl⟩ := build_fuel_pos hb
  obtain ⟨rs, _, _, hl, _⟩ := build_ok hb
  have hit' : it ∈ pf.iterLocale env fs := by
    unfold PF.iter at hit
    rw [hl, hloc] at hit
    exact hit
  obtain ⟨r, hr, hcl⟩ := iterLocale_sound hit'
  obtain ⟨project, hproj, hen, pc, hpc, hok, pr, hpr, hok2, h1, h2, h3, h4⟩ := build_matcher_origin hb hr
  refine ⟨project, hproj, hen, pc, hpc, hok, pr, hpr, hok2, ?_, ?_⟩
  · intro t ht x hx
    rcases hcl with ⟨g, _, e⟩ | ⟨rm, q, g, _, _, _, e⟩
    · rw [e]; exact h4 t ht x hx
    · rw [e]; exact h4 t ht x hx
  · rcases hcl with ⟨g, hf, e⟩ | ⟨rm, q, g, hrr, hf, hexl, e⟩
    · left
      obtain ⟨m1, m2, m3⟩ := mem_files hf
      refine ⟨g, m1, h1 ▸ m3, m2, ?_, ?_⟩
      · rw [e]; simp [toItem, entryL, h2]
      · rw [e]; cases mb <;> simp [toItem, entryL, h3]
    · right
      obtain ⟨m1, m2, m3⟩ := mem_files hf
      refine ⟨rm, q, g, h2 ▸ hrr, m1, m3, m2, ?_, ?_, ?_, ?_⟩
      · rw [e]; exact hexl
      · rw [e]; simp [toItem, h1]
      · rw [e]; simp [toItem, entryR]
      · rw [e]; cases mb <;> simp [toItem, entryR, h3]

/-- Nothing an exclude config matches is yielded (full statement, no hypotheses): every enumerated l10n path, whether
    found on the l10n side or through its reference file, is not matched by `self.exclude`. -/
theorem iter_excluded_sound {env : MEnv} {fs : FS} {pf : PF} (hloc : truthy pf.locale = true)
    {it : Item} (hit : it ∈ pf.iter env fs) : excludedBy env pf.exclude it.path = false := by
  unfold PF.iter at hit
  rw [hloc] at hit
  exact iterLocale_not_excluded hit

/-- The matcher list is the closed form of the duplicate scan applied to the reversed list of gated rules:
    first matcher of every (pattern, realpath(prefix)) key in reversed config order, with the tests of all its
    duplicates merged; without duplicate keys it is exactly the reversed rule list ("we always iterate last first"). -/
theorem matchers_closed_form {env : MEnv} {fuel : Nat} {locale : Option Loc} {projects : List Config} {mb : Bool}
    {pf : PF} (hb : build env fuel locale projects mb = .ok pf) :
    ∃ rs, mkRules locale mb (gated locale (collect locale projects).1) = .ok rs ∧
      pf.matchers = dedupSpec env rs.reverse ∧
      (((rs.map (keyOf env)).Nodup) → pf.matchers = rs.reverse) := by
  obtain ⟨f, rfl⟩ := build_fuel_pos hb
  obtain ⟨rs, hrs, hm, _, _⟩ := build_ok hb
  refine ⟨rs, hrs, hm, fun hn => ?_⟩
  rw [hm, dedupSpec_id]
  rw [List.map_reverse]
  exact (List.reverse_perm _).nodup_iff.2 hn

/-- Last rule wins.  Let `before ++ r :: after` be the gated rules in config order and `r` the LAST one whose l10n
    matcher covers the existing, non-excluded localized file `p`.  Then the enumeration yields `p` paired with `r`'s
    reference and merge path, and with `r`'s tests plus those of its duplicates among the earlier rules.
    PARTIAL in one point: `hdup`, a later rule that the duplicate scan identifies with `r` also covers `p` (F14).
    Full statement = the same without `hdup` (`PrefixOK` and `SubMatches` are `Matcher` contracts). -/
theorem last_rule_wins_partial {env : MEnv} {fs : FS} {fuel : Nat} {locale : Option Loc} {projects : List Config}
    {mb : Bool} {pf : PF} (hb : build env fuel locale projects mb = .ok pf) (hloc : truthy locale = true)
    {before after : List Rule} {r : Rule} {p : Path} {g : GId}
    (hrs : mkRules locale mb (gated locale (collect locale projects).1) = .ok (before ++ r :: after))
    (hlast : ∀ x ∈ after, env.mtch x.l10n p = none) (hm : env.mtch r.l10n p = some g)
    (hp : p ∈ fs.files) (hex : excludedBy env pf.exclude p = false)
    (hdir : PrefixOK env r.l10n) (hrt : ∀ x ∈ after, SubMatches env x)
    (hdup : ∀ x ∈ after, sameKey env x r = true → (env.mtch x.l10n p).isSome = true) :
    ({ path := p, reference := r.reference.map (env.expand · g), merge := r.merge.map (env.expand · g),
       test := mergedTests env r before.reverse } : Item) ∈ pf.iter env fs ∧
    ∀ x ∈ r.test, x ∈ mergedTests env r before.reverse := by
  obtain ⟨f, rfl⟩ := build_fuel_pos hb
  obtain ⟨rs, hrs', hms, hl, _⟩ := build_ok hb
  rw [hrs] at hrs'
  simp only [Except.ok.injEq] at hrs'
  subst hrs'
  refine ⟨?_, fun x hx => by unfold mergedTests; exact mem_mergedFrom.2 (Or.inl hx)⟩
  have hkeys : ∀ x ∈ after.reverse, keyOf env x ≠ keyOf env r := by
    intro x hx e
    have hx' := List.mem_reverse.1 hx
    have := hdup x hx' (sameKey_iff.2 e)
    rw [hlast x hx'] at this
    exact absurd this (by decide)
  obtain ⟨pre', post', hsplit, hpre'⟩ := specGo_split (env := env) (r := r) (post := before.reverse) (K := [])
    hkeys (by simp)
  have hms' : pf.matchers = pre' ++ { r with test := mergedTests env r before.reverse } :: post' := by
    rw [hms, dedupSpec, List.reverse_append, List.reverse_cons, List.append_assoc, List.singleton_append]
    exact hsplit
  have h1 : ∀ x ∈ pre', env.mtch x.l10n p = none := by
    intro x hx
    obtain ⟨y, hy, e1, _⟩ := hpre' x hx
    rw [e1]
    exact hlast y (List.mem_reverse.1 hy)
  have h2 : ∀ x ∈ pre', SubMatches env x := by
    intro x hx
    obtain ⟨y, hy, e1, e2⟩ := hpre' x hx
    intro rm q g' hr hq
    rw [e1]
    exact hrt y (List.mem_reverse.1 hy) rm q g' (e2 ▸ hr) hq
  have hf : (p, g) ∈ files env fs (excludedBy env pf.exclude) r.l10n :=
    mem_files_of hdir hp hex hm
  have := first_rule_wins_pf (pf := pf) (r := { r with test := mergedTests env r before.reverse }) hms' h1 h2 hf
  unfold PF.iter
  rw [hl, hloc]
  exact this

/-- Enumeration = lookup for an existing localized file `p`: the enumeration yields an item for `p` exactly when
    `match(p)` returns it — also when `p` belongs to an excluded config (both sides then give nothing).
    Hypotheses: `p` exists; `PrefixOK` for the l10n matchers; `sub` round trip; `p` is not matched by a reference
    matcher (it is a localized file, not a reference file). -/
theorem iter_eq_match {env : MEnv} {fs : FS} {pf : PF} {p : Path} {it : Item}
    (hloc : truthy pf.locale = true) (hp : p ∈ fs.files)
    (hdir : ∀ r ∈ pf.matchers, PrefixOK env r.l10n) (hrt : ∀ r ∈ pf.matchers, SubMatches env r)
    (hnr : ∀ r ∈ pf.matchers, ∀ rm, r.reference = some rm → env.mtch rm p = none) :
    (it ∈ pf.iter env fs ∧ it.path = p) ↔ pf.matchPath env p = some it := by
  obtain ⟨locale, ms, exclude⟩ := pf
  have hsome : locale.isSome = true := by
    cases locale with
    | none => simp [truthy, PF.locale] at hloc
    | some l => rfl
  simp only [PF.matchers, PF.locale] at hdir hrt hnr hloc
  have hiter : (PF.mk locale ms exclude).iter env fs = (PF.mk locale ms exclude).iterLocale env fs := by
    unfold PF.iter; simp [PF.locale, hloc]
  rw [hiter, iterLocale_eq, mem_sorted_items]
  simp only [PF.matchers, PF.exclude]
  rw [matchPath_eq, hsome]
  cases hex : excludedBy env exclude p with
  | true =>
    simp only [Bool.and_self, if_true]
    constructor
    · rintro ⟨⟨e, hf, _⟩, hpath⟩
      rw [hpath, find_claims_excluded hex] at hf
      exact absurd hf (by simp)
    · intro h; exact absurd h (by simp)
  | false =>
    simp only [Bool.and_false, Bool.false_eq_true, if_false]
    have key := find_claims_eq_matchRules (env := env) (fs := fs) (ex := excludedBy env exclude) hp hex hdir hrt hnr
    constructor
    · rintro ⟨⟨e, hf, hit⟩, hpath⟩
      rw [hpath, key] at hf
      cases hmr : matchRules env true (excludedBy env exclude) p ms with
      | none => simp [hmr] at hf
      | some it' =>
        simp only [hmr, Option.map_some, Option.some.injEq, Prod.mk.injEq, true_and] at hf
        have hp' := matchRules_path hnr hmr
        rw [hit, hpath, ← hf]
        simp only [toItem]
        rw [← hp']
    · intro hmr
      have hp' := matchRules_path hnr hmr
      refine ⟨⟨{ reference := it.reference, merge := it.merge, test := it.test }, ?_, ?_⟩, hp'⟩
      · rw [hp', key, hmr]; rfl
      · simp [toItem]

/-- Enumeration = lookup by reference path for a reference-only file — PARTIAL.  `q` is an existing, non-excluded
    reference file matched by the reference matcher of `r`, its l10n partner `lp` does not exist and is not excluded
    either; coverage does not
    overlap: no earlier matcher (in list order) matches `q` on either side or maps a reference file to `lp`, `r`'s l10n
    matcher does not match `q`, and `q` is the only reference file `r` maps to `lp`.  Then `match(q)` and the
    enumeration give the same tuple.  Missing for the full statement: the case where the localized file exists
    (needs the exact `sub` round trip of C12) and lookups by a reference path that several rules cover. -/
theorem iter_eq_match_ref_partial {env : MEnv} {fs : FS} {pf : PF} {pre post : List Rule} {r : Rule} {rm : MId}
    {q : Path} {g : GId}
    (hloc : truthy pf.locale = true) (hms : pf.matchers = pre ++ r :: post)
    (hrr : r.reference = some rm) (hq : q ∈ fs.files) (hm : env.mtch rm q = some g)
    (hexq : excludedBy env pf.exclude q = false) (hexl : excludedBy env pf.exclude (env.expand r.l10n g) = false)
    (hdir : PrefixOK env rm)
    (hnol : env.expand r.l10n g ∉ fs.files)
    (hpre1 : ∀ x ∈ pre, env.mtch x.l10n q = none ∧ ∀ xm, x.reference = some xm → env.mtch xm q = none)
    (hpre2 : ∀ x ∈ pre, ∀ xm q' g', x.reference = some xm → env.mtch xm q' = some g' →
      env.expand x.l10n g' ≠ env.expand r.l10n g)
    (hself : env.mtch r.l10n q = none)
    (hinj : ∀ q' g', env.mtch rm q' = some g' → env.expand r.l10n g' = env.expand r.l10n g → q' = q) :
    let it : Item := { path := env.expand r.l10n g, reference := some q, merge := r.merge.map (env.expand · g), test := r.test }
    pf.matchPath env q = some it ∧ it ∈ pf.iter env fs := by
  intro it
  obtain ⟨locale, ms, exclude⟩ := pf
  simp only [PF.matchers, PF.exclude, PF.locale] at hms hexq hexl hloc
  subst hms
  have hsome : locale.isSome = true := by
    cases locale with
    | none => simp [truthy] at hloc
    | some l => rfl
  constructor
  · rw [matchPath_eq, hexq, hsome]
    simp only [Bool.and_false, Bool.false_eq_true, if_false]
    clear hpre2
    induction pre with
    | nil =>
      simp only [List.nil_append]
      unfold matchRules
      simp only [if_true, hself, hrr, hm, hexl, Bool.and_false, Bool.false_eq_true, if_false]
      rfl
    | cons x xs ih =>
      have hx := hpre1 x List.mem_cons_self
      simp only [List.cons_append]
      unfold matchRules
      simp only [if_true, hx.1]
      cases hxr : x.reference with
      | none => exact ih (fun y hy => hpre1 y (List.mem_cons_of_mem _ hy))
      | some xm =>
        simp only [hx.2 xm hxr]
        exact ih (fun y hy => hpre1 y (List.mem_cons_of_mem _ hy))
  · have hiter : (PF.mk locale (pre ++ r :: post) exclude).iter env fs
        = (PF.mk locale (pre ++ r :: post) exclude).iterLocale env fs := by
      unfold PF.iter; simp [PF.locale, hloc]
    rw [hiter, iterLocale_eq, mem_sorted_items]
    simp only [PF.matchers, PF.exclude]
    refine ⟨entryR env r q g, ?_, rfl⟩
    have hnone : ∀ x ∈ pre, (claims env fs (excludedBy env exclude) x).find? (·.1 == env.expand r.l10n g) = none := by
      intro x hx
      unfold claims
      rw [List.find?_append, claimsL_find_none, claimsR_find_none]
      · rfl
      · intro xm q' g' h1 h2
        exact hpre2 x hx xm q' g' h1 (mem_files h2).2.2
      · intro g' hg'
        exact hnol (mem_files hg').1
    have hprenone : (pre.flatMap (claims env fs (excludedBy env exclude))).find? (·.1 == env.expand r.l10n g) = none := by
      rw [List.find?_eq_none]
      intro y hy
      simp only [List.mem_flatMap] at hy
      obtain ⟨x, hx, hy⟩ := hy
      exact List.find?_eq_none.1 (hnone x hx) y hy
    rw [List.flatMap_append, List.find?_append, hprenone, List.flatMap_cons, List.find?_append]
    simp only [Option.none_or]
    have hfq : (q, g) ∈ files env fs (excludedBy env exclude) rm := mem_files_of hdir hq hexq hm
    have hr : (claims env fs (excludedBy env exclude) r).find? (·.1 == env.expand r.l10n g)
        = some (env.expand r.l10n g, entryR env r q g) := by
      unfold claims
      rw [List.find?_append, claimsL_find_none (fun g' hg' => hnol (mem_files hg').1)]
      simp only [Option.none_or]
      cases hfind : (claimsR env fs (excludedBy env exclude) r).find? (·.1 == env.expand r.l10n g) with
      | none =>
        rw [List.find?_eq_none] at hfind
        exact absurd (by simp) (hfind _ (mem_claimsR.2 ⟨rm, q, g, hrr, hfq, hexl, rfl⟩))
      | some y =>
        have h1 := List.find?_some hfind
        have h2 := List.mem_of_find?_eq_some hfind
        obtain ⟨rm', q', g', hrr', hq', _, rfl⟩ := mem_claimsR.1 h2
        rw [hrr] at hrr'
        simp only [Option.some.injEq] at hrr'
        subst hrr'
        simp only [beq_iff_eq] at h1
        have hm' := (mem_files hq').2.2
        have := hinj q' g' hm' h1
        subst this
        rw [hm] at hm'
        simp only [Option.some.injEq] at hm'
        subst hm'
        rfl
    rw [hr]
    rfl

/-- Completeness, l10n side — PARTIAL.  An existing, non-excluded file `p` that the l10n matcher of a gated rule `pr`
    covers is enumerated, provided every matcher the duplicate scan identifies with `pr`'s also covers `p` (F14;
    `PrefixOK` is a `Matcher` contract).  Full statement = without `hdup` (false for the Python code). -/
theorem iter_complete_partial {env : MEnv} {fs : FS} {fuel : Nat} {locale : Option Loc} {projects : List Config}
    {mb : Bool} {pf : PF} (hb : build env fuel locale projects mb = .ok pf) (hloc : truthy locale = true)
    {pr : PathRule} {p : Path} {g : GId}
    (hpr : pr ∈ gated locale (collect locale projects).1) (hm : env.mtch pr.l10n p = some g)
    (hp : p ∈ fs.files) (hex : excludedBy env pf.exclude p = false)
    (hdir : ∀ r ∈ pf.matchers, PrefixOK env r.l10n)
    (hdup : ∀ r ∈ pf.matchers, (env.realpfx r.l10n, env.pat r.l10n) = (env.realpfx pr.l10n, env.pat pr.l10n) →
      (env.mtch r.l10n p).isSome = (env.mtch pr.l10n p).isSome) :
    ∃ it ∈ pf.iter env fs, it.path = p := by
  obtain ⟨f, rfl⟩ := build_fuel_pos hb
  obtain ⟨rs, hrs, hms, hl, _⟩ := build_ok hb
  obtain ⟨r0, hr0, hmk⟩ := mkRules_mem_left hrs pr hpr
  obtain ⟨e1, _, _, _⟩ := mkRule_ok hmk
  obtain ⟨r', hr', hk⟩ := specGo_covers (env := env) (K := []) (List.mem_reverse.2 hr0) (by simp)
  have hr'' : r' ∈ pf.matchers := by rw [hms]; exact hr'
  have hcov := hdup r' hr'' (by
    have : keyOf env r' = keyOf env r0 := hk
    unfold keyOf at this
    rw [this, e1])
  rw [hm] at hcov
  cases hm' : env.mtch r'.l10n p with
  | none => rw [hm'] at hcov; simp at hcov
  | some g' =>
    have hf := mem_files_of (hdir r' hr'') hp hex hm' 
    unfold PF.iter
    rw [hl, hloc]
    exact iterLocale_complete_l10n hr'' hf

/-- Completeness, reference side — PARTIAL.  An existing, non-excluded reference file `q` covered by the reference
    matcher of a gated rule makes the enumeration yield its l10n partner (if that is not excluded), under the same
    restriction (here: the matcher kept by the duplicate scan has a reference matcher with `PrefixOK` that covers `q`
    whenever `pr`'s does, and maps it to the same l10n path). -/
theorem iter_complete_ref_partial {env : MEnv} {fs : FS} {fuel : Nat} {locale : Option Loc} {projects : List Config}
    {mb : Bool} {pf : PF} (hb : build env fuel locale projects mb = .ok pf) (hloc : truthy locale = true)
    {pr : PathRule} {rm : MId} {q : Path} {g : GId}
    (hpr : pr ∈ gated locale (collect locale projects).1) (hrr : pr.reference = some rm) (hm : env.mtch rm q = some g)
    (hq : q ∈ fs.files) (hex : excludedBy env pf.exclude q = false)
    (hexl : excludedBy env pf.exclude (env.expand pr.l10n g) = false)
    (hdup : ∀ r ∈ pf.matchers, (env.realpfx r.l10n, env.pat r.l10n) = (env.realpfx pr.l10n, env.pat pr.l10n) →
      ∃ rm', r.reference = some rm' ∧ PrefixOK env rm' ∧
        (pr.reference = some rm → env.mtch rm q = some g →
          ∃ g', env.mtch rm' q = some g' ∧ env.expand r.l10n g' = env.expand pr.l10n g)) :
    ∃ it ∈ pf.iter env fs, it.path = env.expand pr.l10n g := by
  obtain ⟨f, rfl⟩ := build_fuel_pos hb
  obtain ⟨rs, hrs, hms, hl, _⟩ := build_ok hb
  obtain ⟨r0, hr0, hmk⟩ := mkRules_mem_left hrs pr hpr
  obtain ⟨e1, _, _, _⟩ := mkRule_ok hmk
  obtain ⟨r', hr', hk⟩ := specGo_covers (env := env) (K := []) (List.mem_reverse.2 hr0) (by simp)
  have hr'' : r' ∈ pf.matchers := by rw [hms]; exact hr'
  obtain ⟨rm', h1, h3, h5⟩ := hdup r' hr'' (by
    have : keyOf env r' = keyOf env r0 := hk
    unfold keyOf at this
    rw [this, e1])
  obtain ⟨g', h2, h4⟩ := h5 hrr hm
  have hf := mem_files_of h3 hq hex h2
  unfold PF.iter
  rw [hl, hloc, ← h4]
  exact iterLocale_complete_ref hr'' h1 hf (h4 ▸ hexl)

/-- Reference self-validation mode (`ProjectFiles(None, …)`): every yielded item is an existing reference file matched
    by a matcher's reference pattern, paired with itself as reference, without merge path; the excludes play no role. -/
theorem validation_sound {env : MEnv} {fs : FS} {pf : PF} (hloc : truthy pf.locale = false) {it : Item}
    (hit : it ∈ pf.iter env fs) :
    ∃ r ∈ pf.matchers, ∃ rm q g, r.reference = some rm ∧ q ∈ fs.files ∧ env.mtch rm q = some g ∧
      it = { path := env.expand rm g, reference := some q, merge := none, test := r.test } := by
  unfold PF.iter at hit
  rw [hloc] at hit
  exact iterReference_sound hit

/-- … and every existing reference file covered by a matcher's reference pattern is yielded (full statement at the
    level of the matcher list; `PrefixOK` is a `Matcher` contract). -/
theorem validation_complete {env : MEnv} {fs : FS} {pf : PF} (hloc : truthy pf.locale = false)
    {r : Rule} {rm : MId} {q : Path} {g : GId} (hr : r ∈ pf.matchers) (hrr : r.reference = some rm)
    (hq : q ∈ fs.files) (hm : env.mtch rm q = some g) (hd : PrefixOK env rm) :
    ∃ it ∈ pf.iter env fs, it.path = env.expand rm g := by
  unfold PF.iter
  rw [hloc]
  exact iterReference_complete hr hrr hq hm hd

/-- The recursion bound the model needs for the nested `ProjectFiles(locale, excludes)` is never hit: the model's
    own `.depth` error cannot come out of `PF.new` (so every model error corresponds to a Python exception). -/
theorem new_never_depth (env : MEnv) (locale : Option Loc) (projects : List Config) (mb : Bool) :
    PF.new env locale projects mb ≠ .error .depth :=
  build_no_depth _ locale projects mb (Nat.lt_succ_self _)

/-- `PrefixOK` holds for every rooted matcher with a wildcard whose matches start with its prefix — whatever the
    prefix looks like: ending inside a name (`…/ba*.ftl`, the former F7) or naming an existing file (the former F16) — … -/
theorem prefixOK_of_wildcard {env : MEnv} {m : MId}
    (hpre : ∀ p g, env.mtch m p = some g → env.pfx m <+: p) (hroot : 47 ∈ env.pfx m)
    (hw : env.literal m = false) : PrefixOK env m :=
  ⟨hpre, hroot, fun h => by rw [hw] at h; exact absurd h (by decide)⟩

/-- … and for every rooted matcher that matches its prefix only (what a wildcard-free pattern does). -/
theorem prefixOK_of_literal {env : MEnv} {m : MId}
    (hlit : ∀ p g, env.mtch m p = some g → p = env.pfx m) (hroot : 47 ∈ env.pfx m) : PrefixOK env m :=
  ⟨fun p g h => by rw [hlit p g h]; exact List.prefix_refl _, hroot, fun _ p g h => hlit p g h⟩

/-- Configuration variables given to the parser (`-D`, `l10n_base`) override those of the file's `[env]` table;
    variables only the file defines keep their value (`reverse`: within one table the last binding of a key counts). -/
theorem env_override (fileEnv parserEnv : List (Nat × Nat)) (k : Nat) :
    dictGet (processEnv fileEnv parserEnv) k =
      (dictGet parserEnv.reverse k).or (dictGet fileEnv.reverse k) := by
  unfold processEnv
  rw [dictGet_update, dictGet_update]
  simp [dictGet]

/-! ### non-vacuity: a project where everything applies

Two rules `{l}b/**` (matcher 0, reference 2, test 7) and `{l}b/*.ftl`-like (matcher 1, reference 3) in one config;
paths are short code-point lists: `/`=47; `[47,1,47,5]` ≙ `/l/x` … -/

def exEnv : MEnv where
  pfx m := if m == 0 ∨ m == 1 then [47, 1, 47] else [47, 2, 47]
  realpfx m := if m == 0 ∨ m == 1 then [47, 1, 47] else [47, 2, 47]
  pat m := m
  literal _ := false
  mtch m p :=
    match m, p with
    | 0, [47, 1, 47, x] => some x
    | 1, [47, 1, 47, 5] => some 5
    | 2, [47, 2, 47, x] => some x
    | 3, [47, 2, 47, 5] => some 5
    | _, _ => none
  expand m g := if m == 0 ∨ m == 1 then [47, 1, 47, g] else [47, 2, 47, g]

def exFS : FS := { files := [[47, 1, 47, 6], [47, 2, 47, 8], [47, 1, 47, 5], [47, 2, 47, 5]] }

def exCfg : Config := .mk 0 (some [[100]]) [
  { l10n := 0, reference := some 2, merge := 0, test := some [7], locales := none },
  { l10n := 1, reference := some 3, merge := 1, test := none, locales := some [[100]] }] [] []

/-- result of an operation on the constructed object, `none` if the constructor raised -/
def onOk (r : Except Err PF) (f : PF → α) : Option α :=
  match r with
  | .ok pf => some (f pf)
  | .error _ => none

/-- the model evaluated: sorted, the later rule claims `/1/5`, the first one `/1/6`, the reference-only file `/2/8`
    gives `/1/8`; the lookup agrees on the existing localized files -/
example : onOk (PF.new exEnv (some [100]) [exCfg] false) (fun pf =>
      (pf.matchers, pf.iter exEnv exFS, pf.matchPath exEnv [47, 1, 47, 5], pf.matchPath exEnv [47, 1, 47, 6])) = some (
    [⟨1, some 3, none, []⟩, ⟨0, some 2, none, [7]⟩],
    [{ path := [47, 1, 47, 5], reference := some [47, 2, 47, 5], merge := none, test := [] },
     { path := [47, 1, 47, 6], reference := some [47, 2, 47, 6], merge := none, test := [7] },
     { path := [47, 1, 47, 8], reference := some [47, 2, 47, 8], merge := none, test := [7] }],
    some { path := [47, 1, 47, 5], reference := some [47, 2, 47, 5], merge := none, test := [] },
    some { path := [47, 1, 47, 6], reference := some [47, 2, 47, 6], merge := none, test := [7] }) := by decide

/-- the hypotheses of `iter_eq_match`, `last_rule_wins_partial` and the completeness theorems are satisfiable on it -/
example : (∀ m, PrefixOK exEnv m) ∧
    (∀ r ∈ [(⟨1, some 3, none, []⟩ : Rule), ⟨0, some 2, none, [7]⟩], SubMatches exEnv r) := by
  refine ⟨?_, ?_⟩
  · intro m
    refine prefixOK_of_wildcard ?_ ?_ rfl
    · intro p g hm
      simp only [exEnv] at hm ⊢
      split at hm <;> first | (simp at hm; done) | exact ⟨[_], rfl⟩
    · simp only [exEnv]; split <;> decide
  · intro r hr rm q g hrr hm
    simp only [List.mem_cons, List.not_mem_nil, or_false] at hr
    rcases hr with rfl | rfl
    · simp only [Option.some.injEq] at hrr
      subst hrr
      simp only [exEnv] at hm ⊢
      split at hm <;> first | (simp at hm; done) | (simp only [Option.some.injEq] at hm; subst hm; decide) | simp_all
    · simp only [Option.some.injEq] at hrr
      subst hrr
      simp only [exEnv] at hm ⊢
      split at hm <;> first | (simp at hm; done) | (simp only [Option.some.injEq] at hm; subst hm; decide) | simp_all

/-! ### the two repaired defects, now positive examples -/

/-- (was finding F7) matcher 0 is `/1/2*` — prefix `/1/2`, ending inside a name — and matches the file `/1/23`.
    `_files` walks `dirname("/1/2") = "/1"`: the file is enumerated, and the lookup agrees. -/
def w7Env : MEnv where
  pfx _ := [47, 1, 47, 2]
  realpfx _ := [47, 1, 47, 2]
  pat _ := 0
  literal _ := false
  mtch m p := if m == 0 ∧ p == [47, 1, 47, 2, 3] then some 0 else none
  expand _ _ := []

def w7PF : PF := .mk (some [100]) [⟨0, none, none, []⟩] none

example :
    w7PF.iter w7Env { files := [[47, 1, 47, 2, 3]] } = [{ path := [47, 1, 47, 2, 3], reference := none, merge := none, test := [] }] ∧
    w7PF.matchPath w7Env [47, 1, 47, 2, 3] = some { path := [47, 1, 47, 2, 3], reference := none, merge := none, test := [] } := by
  decide

/-- (was finding F15) the main config pairs `/1/**` (matcher 0) with the reference `/2/**` (matcher 1); the excluded
    config covers the localized file `/1/5` (matcher 2, no reference).  The reference file `/2/5` is not excluded, but
    its l10n partner is: nothing is enumerated, and both lookups return `None`. -/
def w15Env : MEnv where
  pfx m := if m == 1 then [47, 2, 47] else [47, 1, 47]
  realpfx m := if m == 1 then [47, 2, 47] else [47, 1, 47]
  pat m := m
  literal _ := false
  mtch m p := if (m == 0 ∨ m == 2) ∧ p == [47, 1, 47, 5] then some 5 else if m == 1 ∧ p == [47, 2, 47, 5] then some 5 else none
  expand m g := if m == 1 then [47, 2, 47, g] else [47, 1, 47, g]

def w15Cfg : Config :=
  .mk 0 (some [[100]]) [{ l10n := 0, reference := some 1, merge := 0, test := none, locales := none }] []
    [.mk 1 (some [[100]]) [{ l10n := 2, reference := none, merge := 2, test := none, locales := none }] [] []]

example :
    onOk (PF.new w15Env (some [100]) [w15Cfg] false) (fun pf =>
      ((pf.iter w15Env { files := [[47, 1, 47, 5], [47, 2, 47, 5]] }).map (·.path),
       pf.matchPath w15Env [47, 1, 47, 5], pf.matchPath w15Env [47, 2, 47, 5],
       excludedBy w15Env pf.exclude [47, 1, 47, 5], excludedBy w15Env pf.exclude [47, 2, 47, 5]))
      = some ([], none, none, true, false) := by decide

/-- (was finding F16) matcher 0 is `/1/2*` and matches both existing files `/1/2` and `/1/23`; its prefix `/1/2` is itself
    a regular file.  The pattern has a wildcard, so `_files` does not stop at the prefix file: both are enumerated. -/
def w16Env : MEnv where
  pfx _ := [47, 1, 47, 2]
  realpfx _ := [47, 1, 47, 2]
  pat _ := 0
  literal _ := false
  mtch m p := if m == 0 ∧ (p == [47, 1, 47, 2] ∨ p == [47, 1, 47, 2, 3]) then some 0 else none
  expand _ _ := []

example : (w7PF.iter w16Env { files := [[47, 1, 47, 2], [47, 1, 47, 2, 3]] }).map (·.path) = [[47, 1, 47, 2], [47, 1, 47, 2, 3]] := by
  decide

/-! ### negation witnesses -/

/-- the `Matcher` contract in `PrefixOK` matters: a matcher that claims to be wildcard-free (`literal`) but matches more
    than its prefix is cut short by the `isfile(prefix)` shortcut — only `/1/2` is enumerated, the lookup finds `/1/23`. -/
theorem literal_contract_witness :
    (w7PF.iter { w16Env with literal := fun _ => true } { files := [[47, 1, 47, 2], [47, 1, 47, 2, 3]] }).map (·.path) = [[47, 1, 47, 2]] ∧
    (w7PF.matchPath { w16Env with literal := fun _ => true } [47, 1, 47, 2, 3]).isSome = true ∧
    ¬ PrefixOK { w16Env with literal := fun _ => true } 0 := by
  refine ⟨by decide, by decide, ?_⟩
  intro h
  have := h.2.2 rfl [47, 1, 47, 2, 3] 0 (by decide)
  revert this
  decide

/-- F14: two configs with the textually same rule `…/*/{v}` and different `v`: same prefix, same pattern object,
    different files matched (`/1/5` vs `/1/6`).  The duplicate scan drops the earlier one: `/1/5` is covered by a gated
    rule but is not enumerated (hypothesis `hdup` of the completeness theorems fails). -/
def w14Env : MEnv where
  pfx _ := [47, 1, 47]
  realpfx _ := [47, 1, 47]
  pat _ := 0
  literal _ := false
  mtch m p := if m == 0 ∧ p == [47, 1, 47, 5] then some 0 else if m == 1 ∧ p == [47, 1, 47, 6] then some 0 else none
  expand _ _ := []

def w14Cfg : Config :=
  .mk 0 none [{ l10n := 0, reference := none, merge := 0, test := none, locales := none }]
    [.mk 1 none [{ l10n := 1, reference := none, merge := 1, test := none, locales := some [[100]] }] [] []] []

theorem dup_env_witness :
    onOk (PF.new w14Env (some [100]) [w14Cfg] false) (fun pf => (pf.iter w14Env { files := [[47, 1, 47, 5], [47, 1, 47, 6]] }).map (·.path))
      = some [[47, 1, 47, 6]] ∧
    (w14Env.mtch 0 [47, 1, 47, 5]).isSome = true ∧ PrefixOK w14Env 0 := by
  refine ⟨by decide, by decide, prefixOK_of_wildcard ?_ (by decide) rfl⟩
  intro p g hm
  simp only [w14Env] at hm ⊢
  split at hm
  · rename_i h; rw [beq_iff_eq.1 h.2]; exact ⟨[5], rfl⟩
  · split at hm
    · rename_i h; simp at h
    · simp at hm

end C13

/-!
## C13M — the `Matcher` contracts discharged: `ProjectFiles` on the `Matcher` MODEL

Everything above keeps a `Matcher` abstract (`env : MEnv` is a table the harness fills from the real objects) and carries
the `Matcher` contracts `PrefixOK` / `SubMatches` as hypotheses.  Below, `env` is COMPUTED: `PFM.menv ms` (Paths/ProjectFilesM.lean)
evaluates the executable model of `Matcher` (Paths/Matcher.lean, C11/C12) on a table `ms` of matchers built from
configuration TEXTS (`PFM.buildAll specs`: `Matcher(pattern, env, root)` then `with_env`), and `PFM.newM` is
`ProjectFiles(locale, projects, mergebase)` on such a table (`ProjectFilesM`).  `PFM.Built specs ms` = the table was built
from texts and every matcher is in the supported class (`prefix` returns, `re.compile` accepts the pattern, no
`{android_locale}` group) — exactly what `newM` checks.

What is left of the contracts:
* `PFM.Rooted ms m` — the prefix contains a `/` (decidable per matcher; `ProjectConfig` roots every pattern);
* `PFM.LiteralBound ms m` — IF the pattern is wildcard-free THEN all its variables are bound (forced: `literal_unbound_witness`);
* `PFM.SubClassOn ms fs r` — the pattern class of `C11.sub_roundtrip_star_partial` for the reference files of the tree
  (forced: `sub_class_witness`; this is why the restated theorems are `_partial`);
* `hdup` — duplicates are duplicates (known finding F14, `C13.dup_env_witness`), unchanged.
-/
namespace C13M
open PF PFM

/-- **Prefix contract** (part (a) of `PrefixOK`), discharged by C12 `match_has_prefix`: for a table built from texts, whatever
    a matcher matches starts with that matcher's `prefix`. -/
theorem prefix_contract {specs : List MSpec} {ms : List PM.Matcher} (hb : Built specs ms) (m : MId) :
    ∀ p g, (menv ms).mtch m p = some g → (menv ms).pfx m <+: p :=
  prefix_holds hb m

/-- **Literal contract** (part (c) of `PrefixOK`): a wildcard-free (`prefix_length == len(pattern)`), fully bound pattern
    matches nothing but its own expansion, and that expansion is its `prefix` — what the `isfile(prefix)` shortcut of `_files`
    relies on.  (From the anchoring `\Z` and the literal-like regex of a bound pattern: `PM.bound_matches_only_expansion`,
    proved for nested values, repeated variables and `{android_locale}`.) -/
theorem literal_contract {specs : List MSpec} {ms : List PM.Matcher} (hb : Built specs ms) {m : MId} {a : PM.Matcher}
    (ha : ms[m]? = some a) (hlit : (menv ms).literal m = true) (hfull : FullyBound a) :
    ∃ t, PM.expandPat (PM.expandVal (PM.fuelFor a.env)) a.pattern a.env true = .ok t ∧ a.prefix = .ok t ∧
      (menv ms).pfx m = t ∧ ∀ p g, (menv ms).mtch m p = some g → p = t := by
  obtain ⟨t, ht⟩ := hfull
  rw [literal_eq ha] at hlit
  have hlen : a.pattern.prefixLen = a.pattern.nodes.length := by simpa using hlit
  have hp := PM.bound_literal_prefix (by omega) ht
  refine ⟨t, ht, hp, pfx_eq ha hp, fun p g h => ?_⟩
  obtain ⟨a', d, ha', hm, _⟩ := mtch_some h
  rw [ha] at ha'
  simp only [Option.some.injEq] at ha'
  subst ha'
  exact PM.bound_matches_only_expansion (hb.shape ha).1 (hb.shape ha).2 ht hm

/-- … and it does match that expansion — PARTIAL: no variable occurs a second time (`NoRep`, the restriction of C12
    `matches_own_expansion_partial`; the environment values likewise: `EnvOK`). -/
theorem literal_matches_expansion_partial {specs : List MSpec} {ms : List PM.Matcher} (hb : Built specs ms) {m : MId}
    {a : PM.Matcher} {t : PM.Text} (ha : ms[m]? = some a) (henv : PM.EnvOK a.env) (hnr : PM.NoRep a.pattern.nodes)
    (ht : PM.expandPat (PM.expandVal (PM.fuelFor a.env)) a.pattern a.env true = .ok t) :
    ((menv ms).mtch m t).isSome = true := by
  have hu := hb.usable ha
  have hre : ∃ re names, a.regexOf = .ok (re, names) := by
    unfold PFM.usable Prep.usable prep at hu
    simp only [Bool.and_eq_true] at hu
    cases h : a.regexOf with
    | error e => simp [h] at hu
    | ok x => exact ⟨x.1, x.2, rfl⟩
  obtain ⟨re, names, hre⟩ := hre
  have hne := C12.matches_own_expansion_partial henv hnr ht hre
  rcases PM.usable_match_ok hu t with h | ⟨d, h⟩
  · exact absurd h hne
  · rw [mtch_of_match ha h]; rfl

/-- The `FullyBound` hypothesis of the literal contract is forced: `Matcher("/l/x{v}")` without a value for `v` is
    wildcard-free, has the prefix "/l/x" and matches "/l/xy".  With the files `/l/x` and `/l/xy` the `isfile(prefix)` shortcut
    of `_files` stops at the prefix file (which the pattern does not match): nothing is enumerated although `match("/l/xy")`
    finds the file.  (The harness runs the real code on exactly this project: probe `literal-unbound`.) -/
theorem literal_unbound_witness :
    (match buildAll [{ pattern := PM.T "/l/x{v}", env := [], root := none, withEnv := none }] with
     | .ok ms => ms.all usable && (menv ms).literal 0 && (menv ms).pfx 0 == PM.T "/l/x" &&
         ((menv ms).mtch 0 (PM.T "/l/xy")).isSome &&
         ((PF.mk (some de) [⟨0, none, none, []⟩] none).iter (menv ms) { files := [PM.T "/l/x", PM.T "/l/xy"] }).isEmpty &&
         ((PF.mk (some de) [⟨0, none, none, []⟩] none).matchPath (menv ms) (PM.T "/l/xy")).isSome
     | .error _ => false) = true := by decide +kernel

/-- **`sub` contract — PARTIAL** (the pattern class of `C11.sub_roundtrip_star_partial`).  Let matcher `r` (a reference
    pattern) and matcher `l` (an l10n pattern) be in that class for the wildcard values `vs` — top-level literals, `*`, `**/`,
    final `**`, first occurrences of fully bound variables, the same wildcards, well-separated fillings, `Expandable`
    environments (`C11R.Fillable`, `C11R.Expandable`).  Then on the path `pa` = `r`'s pattern filled with `vs`:
    `r` matches `pa`; `expand l` of that match — `r.sub(l, pa)` — is `pb` = `l`'s pattern filled with `vs`; `l` matches `pb`
    (this is `SubMatches`); and `l.sub(r, pb)` is `pa` again.
    Full statement (not proved): the same for every matched path of any two matchers with the same wildcards — false in
    general (`C11.roundtrip_separator_witness`, `C11.two_starstar_witness`, `sub_class_witness` below). -/
theorem sub_contract_partial {ms : List PM.Matcher} {l r : MId} {a b : PM.Matcher} (hr : ms[r]? = some a)
    (hl : ms[l]? = some b) {vs : Nat → PM.Text} {namesa namesb : List PM.Text} {rta rtb : PM.Text}
    (ha : C11R.Fillable vs a namesa rta) (hb : C11R.Fillable vs b namesb rtb)
    (hea : C11R.Expandable a) (heb : C11R.Expandable b)
    (hsame : ∀ k, k ∈ a.pattern.nodes.filterMap C11R.wildNum ↔ k ∈ b.pattern.nodes.filterMap C11R.wildNum) :
    ∃ g g', (menv ms).mtch r (rta ++ C11R.fillN vs a.env a.pattern.nodes) = some g ∧
      (menv ms).expand l g = rtb ++ C11R.fillN vs b.env b.pattern.nodes ∧
      (menv ms).mtch l ((menv ms).expand l g) = some g' ∧
      (menv ms).expand r g' = rta ++ C11R.fillN vs a.env a.pattern.nodes := by
  obtain ⟨s1, s2, ⟨da, hma⟩, ⟨db, hmb⟩⟩ := C11.sub_roundtrip_star_partial ha hb hea heb hsame
  refine ⟨encode (r :: (rta ++ C11R.fillN vs a.env a.pattern.nodes)),
    encode (l :: (rtb ++ C11R.fillN vs b.env b.pattern.nodes)), mtch_of_match hr hma, expand_eq hr hl s1, ?_, ?_⟩
  · rw [expand_eq hr hl s1]; exact mtch_of_match hl hmb
  · exact expand_eq hl hr s2

/-- The three parts of `PrefixOK` for the computed relation: (a) always, (b) = `Rooted`, (c) from `LiteralBound`. -/
theorem prefixOK_M {specs : List MSpec} {ms : List PM.Matcher} (hb : Built specs ms) {m : MId}
    (hroot : Rooted ms m) (hfull : LiteralBound ms m) : PrefixOK (menv ms) m :=
  prefixOK_holds hb hroot hfull

/-- `ProjectFilesM` really is `ProjectFiles` on the computed relation: a successful `newM` gives a table in the supported
    class, `o.env` is the relation computed from it and `o.pf` is what `PF.new` builds on it; `iterM` / `matchM` return the
    model's enumeration / lookup unless a `sub` call raised. -/
theorem newM_spec {specs : List MSpec} {locale : Option Loc} {projects : List Config} {mb : Bool} {o : Obj}
    (h : newM specs locale projects mb = .ok o) :
    Built specs o.ms ∧ o.env = menv o.ms ∧ PF.new o.env locale projects mb = .ok o.pf ∧
    (∀ fs its, o.iterM fs = .ok its → its = o.pf.iter o.env fs) ∧
    (∀ p r, o.matchM p = .ok r → r = o.pf.matchPath o.env p) := by
  obtain ⟨h1, h2, h3⟩ := newM_ok h
  exact ⟨h1, h2, h2 ▸ h3, fun _ _ => iterM_ok, fun _ _ => matchM_ok⟩

/-- **Completeness, l10n side, for `ProjectFilesM` — PARTIAL** (`C13.iter_complete_partial` with `PrefixOK` discharged).
    An existing, non-excluded file `p` matched by the l10n matcher of a gated rule `pr` is enumerated.  Left: the matchers are
    rooted; a wildcard-free pattern is fully bound; and `hdup`, duplicates are duplicates (F14).  Full statement = without
    `hdup` (false for the Python code). -/
theorem iter_complete_M_partial {specs : List MSpec} {locale : Option Loc} {projects : List Config} {mb : Bool} {o : Obj}
    (hnew : newM specs locale projects mb = .ok o) (hloc : truthy locale = true) {fs : FS}
    {pr : PathRule} {p : Path} {g : GId}
    (hpr : pr ∈ gated locale (collect locale projects).1) (hm : o.env.mtch pr.l10n p = some g)
    (hp : p ∈ fs.files) (hex : excludedBy o.env o.pf.exclude p = false)
    (hroot : ∀ r ∈ o.pf.matchers, Rooted o.ms r.l10n) (hlit : ∀ r ∈ o.pf.matchers, LiteralBound o.ms r.l10n)
    (hdup : ∀ r ∈ o.pf.matchers, (o.env.realpfx r.l10n, o.env.pat r.l10n) = (o.env.realpfx pr.l10n, o.env.pat pr.l10n) →
      (o.env.mtch r.l10n p).isSome = (o.env.mtch pr.l10n p).isSome) :
    ∃ it ∈ o.pf.iter o.env fs, it.path = p := by
  obtain ⟨hb, he, hpf⟩ := newM_ok hnew
  rw [he] at hm hex hdup ⊢
  exact C13.iter_complete_partial hpf hloc hpr hm hp hex
    (fun r hr => prefixOK_holds hb (hroot r hr) (hlit r hr)) hdup

/-- **Last rule wins, for `ProjectFilesM` — PARTIAL** (`C13.last_rule_wins_partial` with `PrefixOK` discharged and
    `SubMatches` replaced by the pattern class on the reference files of the tree).  Left: `r`'s l10n matcher is rooted
    (and fully bound if wildcard-free), the later rules are in the `sub` class, and `hdup` (F14). -/
theorem last_rule_wins_M_partial {specs : List MSpec} {locale : Option Loc} {projects : List Config} {mb : Bool} {o : Obj}
    (hnew : newM specs locale projects mb = .ok o) (hloc : truthy locale = true) {fs : FS}
    {before after : List Rule} {r : Rule} {p : Path} {g : GId}
    (hrs : mkRules locale mb (gated locale (collect locale projects).1) = .ok (before ++ r :: after))
    (hlast : ∀ x ∈ after, o.env.mtch x.l10n p = none) (hm : o.env.mtch r.l10n p = some g)
    (hp : p ∈ fs.files) (hex : excludedBy o.env o.pf.exclude p = false)
    (hroot : Rooted o.ms r.l10n) (hlit : LiteralBound o.ms r.l10n)
    (hsub : ∀ x ∈ after, SubClassOn o.ms fs x)
    (hdup : ∀ x ∈ after, sameKey o.env x r = true → (o.env.mtch x.l10n p).isSome = true) :
    ({ path := p, reference := r.reference.map (o.env.expand · g), merge := r.merge.map (o.env.expand · g),
       test := mergedTests o.env r before.reverse } : Item) ∈ o.pf.iter o.env fs ∧
    ∀ x ∈ r.test, x ∈ mergedTests o.env r before.reverse := by
  obtain ⟨hb, he, hpf⟩ := newM_ok hnew
  rw [he] at hlast hm hex hdup ⊢
  exact last_rule_wins_on hpf hloc hrs hlast hm hp hex (prefixOK_holds hb hroot hlit)
    (fun x hx => subMatchesOn_of_class (hsub x hx)) hdup

/-- **Enumeration = lookup, on the `Matcher` model — PARTIAL** (`C13.iter_eq_match` with `PrefixOK` discharged and `SubMatches`
    replaced by the pattern class).  For an existing localized file `p` (excluded or not) that no reference matcher matches:
    `list(pf)` has an item for `p` exactly when `pf.match(p)` returns it. -/
theorem iter_eq_match_M_partial {specs : List MSpec} {ms : List PM.Matcher} (hb : Built specs ms) {fs : FS} {pf : PF}
    {p : Path} {it : Item} (hloc : truthy pf.locale = true) (hp : p ∈ fs.files)
    (hroot : ∀ r ∈ pf.matchers, Rooted ms r.l10n) (hlit : ∀ r ∈ pf.matchers, LiteralBound ms r.l10n)
    (hsub : ∀ r ∈ pf.matchers, SubClassOn ms fs r)
    (hnr : ∀ r ∈ pf.matchers, ∀ rm, r.reference = some rm → (menv ms).mtch rm p = none) :
    (it ∈ pf.iter (menv ms) fs ∧ it.path = p) ↔ pf.matchPath (menv ms) p = some it :=
  iter_eq_match_on hloc hp (fun r hr => prefixOK_holds hb (hroot r hr) (hlit r hr))
    (fun r hr => subMatchesOn_of_class (hsub r hr)) hnr

/-- **Validation mode is complete, on the `Matcher` model** (`C13.validation_complete` with `PrefixOK` discharged): every
    existing reference file matched by a reference matcher of the object is yielded. -/
theorem validation_complete_M {specs : List MSpec} {ms : List PM.Matcher} (hb : Built specs ms) {fs : FS} {pf : PF}
    (hloc : truthy pf.locale = false) {r : Rule} {rm : MId} {q : Path} {g : GId} (hr : r ∈ pf.matchers)
    (hrr : r.reference = some rm) (hq : q ∈ fs.files) (hm : (menv ms).mtch rm q = some g)
    (hroot : Rooted ms rm) (hlit : LiteralBound ms rm) :
    ∃ it ∈ pf.iter (menv ms) fs, it.path = (menv ms).expand rm g :=
  C13.validation_complete hloc hr hrr hq hm (prefixOK_holds hb hroot hlit)

/-! ### non-vacuity: a tiny project given as pattern texts (`PFM.tinySpecs`, `PFM.tinyCfg`, `PFM.tinyFS`)

Rule A: l10n `{l}browser/**/*.ftl` (`l` = `{l10n_base}/{locale}/`, `l10n_base` = `/l10n`, bound to the locale by `with_env`),
reference `browser/locales/en-US/**/*.ftl`, test 7.  Rule B: the wildcard-free `{l10n_base}/de/README`.  An excluded config
with `/l10n/de/browser/x/*.ftl`.  Files: the reference file `browser/locales/en-US/a/b/c.d.ftl`, its localized partner
`/l10n/de/browser/a/b/c.d.ftl`, `/l10n/de/README`, and `/l10n/de/browser/x/y.ftl` (covered by rule A, excluded). -/

/-- the composed model evaluated: regexes are built from the texts, run on the four files, `sub` maps across; the excluded
    file is neither enumerated nor looked up; the lookup by reference path gives the same tuple -/
example : onOkM (newM tinySpecs (some de) [tinyCfg] false) (fun o =>
      (o.pf.matchers, okOf (o.iterM tinyFS), [fRef, fL10n, fLit, fExcl].map (fun p => okOf (o.matchM p)))) = some (
    [⟨2, none, none, []⟩, ⟨0, some 1, none, [7]⟩],
    some [{ path := fLit, reference := none, merge := none, test := [] },
          { path := fL10n, reference := some fRef, merge := none, test := [7] }],
    [some (some { path := fL10n, reference := some fRef, merge := none, test := [7] }),
     some (some { path := fL10n, reference := some fRef, merge := none, test := [7] }),
     some (some { path := fLit, reference := none, merge := none, test := [] }),
     some none]) := by decide +kernel

/-- … and validation mode (`ProjectFiles(None, …)`) on the same texts -/
example : onOkM (newM tinySpecs none [tinyCfg] false) (fun o => okOf (o.iterM tinyFS)) =
    some (some [{ path := fRef, reference := some fRef, merge := none, test := [7] }]) := by decide +kernel

/-- every hypothesis of the restated theorems holds on the tiny project (table built from texts, all four matchers rooted,
    the wildcard-free one fully bound, rule A in the `sub` class via `C11R.refMatcher_ok` / `C11R.wildMatcher_ok`), so
    `iter_eq_match_M_partial` applies to the localized file: -/
example (pf : PF) (hpf : pf = .mk (some de) [⟨2, none, none, []⟩, ⟨0, some 1, none, [7]⟩] none) (it : Item) :
    (it ∈ pf.iter (menv tinyMs) tinyFS ∧ it.path = fL10n) ↔ pf.matchPath (menv tinyMs) fL10n = some it := by
  subst hpf
  refine iter_eq_match_M_partial tiny_built rfl (by decide) ?_ (fun r _ => tiny_literalBound r.l10n) ?_ ?_
  · intro r hr
    simp only [PF.matchers, List.mem_cons, List.not_mem_nil, or_false] at hr
    rcases hr with rfl | rfl
    · exact tiny_rooted 2 (by decide)
    · exact tiny_rooted 0 (by decide)
  · intro r hr
    simp only [PF.matchers, List.mem_cons, List.not_mem_nil, or_false] at hr
    rcases hr with rfl | rfl
    · intro rm a q d hrr; cases hrr
    · exact tiny_subClass
  · intro r hr rm hrr
    simp only [PF.matchers, List.mem_cons, List.not_mem_nil, or_false] at hr
    rcases hr with rfl | rfl
    · cases hrr
    · simp only [Option.some.injEq] at hrr
      subst hrr
      exact mtch_none_of_match tiny_get1 (by
        have h : (match C11R.refMatcher.match fL10n with | .ok none => true | _ => false) = true := by decide +kernel
        split at h <;> first | assumption | cases h)

/-- the `sub` contract on the tiny project: reference file → localized file → reference file -/
example : ∃ g g', (menv tinyMs).mtch 1 fRef = some g ∧ (menv tinyMs).expand 0 g = fL10n ∧
    (menv tinyMs).mtch 0 ((menv tinyMs).expand 0 g) = some g' ∧ (menv tinyMs).expand 1 g' = fRef := by
  obtain ⟨⟨na, fa⟩, ea⟩ := C11R.refMatcher_ok
  obtain ⟨⟨nb, fb⟩, eb⟩ := C11R.wildMatcher_ok
  have h := sub_contract_partial (ms := tinyMs) tiny_get1 tiny_get0 fa fb ea eb C11R.wild_same
  rw [C11R.ref_fill, C11R.wild_fill] at h
  exact h

/-- the literal contract on the tiny project: `{l10n_base}/de/README` matches `/l10n/de/README` only -/
example : ∀ p g, (menv tinyMs).mtch 2 p = some g → p = fLit := by
  obtain ⟨t, ht, _, h3, h4⟩ := literal_contract tiny_built tiny_get2 (by decide +kernel) (fullyBound_spec (by decide +kernel))
  have : t = fLit := by
    have h : ((menv tinyMs).pfx 2 == fLit) = true := by decide +kernel
    rw [← h3]; simpa using h
  subst this
  exact h4

/-! ### negation witness for the pattern class -/

/-- Outside the `sub` class the round trip — and with it "enumeration = lookup" — fails: reference `/r/**`, l10n `/l/*`.
    The reference file `/r/a/b.ftl` is mapped to `/l/a/b.ftl`, which the l10n pattern does not match (`*` does not cross
    `/`): the enumeration yields `/l/a/b.ftl`, an existing file, while `match("/l/a/b.ftl")` is `None`.
    (The harness runs the real code on exactly this project: probe `sub-class`.) -/
theorem sub_class_witness :
    (match buildAll [{ pattern := PM.T "/l/*", env := [], root := none, withEnv := none },
                     { pattern := PM.T "/r/**", env := [], root := none, withEnv := none }] with
     | .ok ms =>
       ms.all usable &&
       ((PF.mk (some de) [⟨0, some 1, none, []⟩] none).iter (menv ms) { files := [PM.T "/r/a/b.ftl", PM.T "/l/a/b.ftl"] }).map (·.path)
         == [PM.T "/l/a/b.ftl"] &&
       ((PF.mk (some de) [⟨0, some 1, none, []⟩] none).matchPath (menv ms) (PM.T "/l/a/b.ftl")).isNone
     | .error _ => false) = true := by decide +kernel

end C13M

/-!
## C13T — the TOML route: `TOMLParser` on the `toml.load` dictionaries, composed with the enumeration

`TC.parse w env ig top` (Paths/TomlConfig.lean) = `TOMLParser().parse(top, env=env, ignore_missing_includes=ig)` where `w.files`
maps the path of every loadable configuration file to what `toml.load` returns for it (`TC.TV`), `env` is the command-line
environment; the result is the `ProjectConfig` graph `TC.PC`.  `TC.enumerate w env ig configs locale mergebase fs` =
`list(ProjectFiles(locale, [parse(c) for c in configs], mergebase))` over the regular files `fs`, through `ProjectFilesM`:
one function of (dictionaries, env, file tree).  `C13T.FromFile w env c` says that the object `c` is what ONE file says:
`c.path` is loadable, `c.root` is its `basepath` resolved against its directory, `c.environ` its `[env]` overridden by `env`,
`c.paths` its `[[paths]]` tables one by one, `c.rules` its compiled `[[filters]]`, `c.locales` its `locales`.
-/
namespace C13T
open TC PF

/-- **What `parse` can raise** (never anything else; `illTyped` stands for "a value of another type than the code expects",
    which is outside the model).  `ConfigNotFound(q)`: `q` really is not a loadable file, and with `ignore_missing_includes`
    it can only be the top file itself — a missing include/exclude is then skipped, at any depth; `KeyError`: only the three
    mandatory keys (`l10n` of `[[paths]]`, `path` of `[[filters]]`/`[[includes]]`/`[[excludes]]`, `action` of `[[filters]]`);
    the rest is `ExcludeError`, an exception of `Matcher(...)`/`expand(...)`, or `RecursionError` (include cycle). -/
theorem parse_raises_only {w : World} {env : Env} {ig : Bool} {top : Text} {e : TC.Err}
    (h : parse w env ig top = .error e) :
    match e with
    | .configNotFound q => w.files.lookup (abspath w.cwd q) = none ∧ (ig = true → q = top)
    | .keyError k => k = T "l10n" ∨ k = T "path" ∨ k = T "action"
    | .illTyped => ∃ q tv, w.files.lookup q = some tv ∧ decode tv = none
    | _ => True := by
  have := parseF_error _ _ _ h
  cases e <;> exact this

/-- **Parsing is total on well-typed dictionaries**: if every file of the world reads against the schema (`decode`), `parse`
    returns a configuration or raises one of the Python exceptions above — never the model's "ill-typed". -/
theorem parse_total_welltyped {w : World} {env : Env} {ig : Bool} {top : Text}
    (hw : ∀ q tv, w.files.lookup q = some tv → (decode tv).isSome = true) :
    parse w env ig top ≠ .error .illTyped := by
  intro h
  obtain ⟨q, tv, hq, hd⟩ := parseF_error _ _ _ h
  have := hw q tv hq
  rw [hd] at this
  cases this

/-- **A missing include/exclude, exactly**: when the recursive `parse` of a child raises `ConfigNotFound`, `_processChild`
    re-raises it unless `ignore_missing_includes`, in which case the child is skipped and the rest is processed as if the
    entry were not there. -/
theorem missing_child {parseOne : Text → Except TC.Err PC} {ig : Bool} {cwd : Text} {root : Option Text} {environ : Env}
    {refused : PC → Bool} {c : ChildDoc} {cs : List ChildDoc} {t p q : Text}
    (hc : c.path = some t) (hp : childPath cwd root environ t = .ok p) (hq : parseOne p = .error (.configNotFound q)) :
    processChildren parseOne ig cwd root environ refused (c :: cs) =
      if ig then processChildren parseOne ig cwd root environ refused cs else .error (.configNotFound q) := by
  cases ig <;> simp [processChildren, hc, hp, hq]

/-- Every other exception of a child's `parse` is never swallowed. -/
theorem child_error_propagates {parseOne : Text → Except TC.Err PC} {ig : Bool} {cwd : Text} {root : Option Text}
    {environ : Env} {refused : PC → Bool} {c : ChildDoc} {cs : List ChildDoc} {t p : Text} {e : TC.Err}
    (hc : c.path = some t) (hp : childPath cwd root environ t = .ok p) (he : parseOne p = .error e)
    (hne : ∀ q, e ≠ .configNotFound q) :
    processChildren parseOne ig cwd root environ refused (c :: cs) = .error e := by
  cases e with
  | configNotFound q => exact absurd rfl (hne q)
  | _ => simp [processChildren, hc, hp, he]

/-- **Every object of the parsed graph is what one file says** — the top config, its includes and its excludes, at any
    depth (`FromFile`, see the header).  In particular every `[[paths]]` table yields exactly one path rule, in order, with
    its own `reference`, `test` and `locales` (`(optL doc.paths).map PathDoc.toPathD? = c.paths.map some`). -/
theorem parsed_node_from_file {w : World} {env : Env} {ig : Bool} {top : Text} {pc : PC}
    (h : parse w env ig top = .ok pc) : ∀ c ∈ pc.nodes, FromFile w env c :=
  parseF_nodes _ _ _ h

/-- `[[paths]]` tables and path rules correspond one to one. -/
theorem paths_one_rule_each {w : World} {env : Env} {c : PC} (h : FromFile w env c) :
    ∃ p doc, c.path = some p ∧ w.load p = .ok doc ∧ c.paths.length = (optL doc.paths).length ∧
      ∀ (i : Nat) (d : PathD), c.paths[i]? = some d → ∃ t : PathDoc, (optL doc.paths)[i]? = some t ∧ t.l10n = some d.l10n ∧
        t.reference = d.reference ∧ t.test = d.test ∧ t.locales = d.locales ∧ d.module = none := by
  obtain ⟨p, doc, h1, h2, _, _, h5, _, _⟩ := h
  refine ⟨p, doc, h1, h2, ?_, fun i d hd => ?_⟩
  · have := congrArg List.length h5
    simpa using this.symm
  · have h6 : ((optL doc.paths).map PathDoc.toPathD?)[i]? = (c.paths.map some)[i]? := by rw [h5]
    simp only [List.getElem?_map, hd, Option.map_some] at h6
    cases ht : (optL doc.paths)[i]? with
    | none => simp [ht] at h6
    | some t =>
      simp only [ht, Option.map_some, Option.some.injEq] at h6
      refine ⟨t, rfl, ?_⟩
      unfold PathDoc.toPathD? at h6
      cases hl : t.l10n with
      | none => simp [hl] at h6
      | some l =>
        simp only [hl, Option.map_some, Option.some.injEq] at h6
        subst h6
        simp

/-- **The command line overrides the file, in every configuration of the graph** (`env_override` lifted through the whole
    parse): for the top config, every included and every excluded config at any depth, the value of a variable is the
    command-line one if given, else the one of THAT config's own `[env]` table.  A child inherits the command-line env
    (`parse(p, env=ctx.env)`) and nothing of its parent's `[env]`. -/
theorem cmdline_env_wins {w : World} {env : Env} {ig : Bool} {top : Text} {pc : PC}
    (h : parse w env ig top = .ok pc) : ∀ c ∈ pc.nodes, ∃ p doc, c.path = some p ∧ w.load p = .ok doc ∧
      ∀ k, c.environ.lookup k = (env.reverse.lookup k).or ((optL doc.env).reverse.lookup k) := by
  intro c hc
  obtain ⟨p, doc, h1, h2, _, h4, _⟩ := parseF_nodes _ _ _ h c hc
  refine ⟨p, doc, h1, h2, fun k => ?_⟩
  rw [h4, TC.processEnv, lookup_dupdate, lookup_dupdate]
  simp

/-- **`all_locales`** is the union of the config's `locales`, the `locales` of its path rules and `all_locales` of its
    INCLUDED configs; the excludes never contribute. -/
theorem all_locales_union (pc : PC) (l : Text) :
    l ∈ pc.allLocales ↔ l ∈ ownLocales pc ∨ ∃ ch ∈ pc.children, l ∈ ch.allLocales :=
  mem_allLocales pc l

/-- … and it is what the project gate of `ProjectFiles.__init__` tests on the tree handed to the enumeration. -/
theorem all_locales_gate (md : Mode) (ids : List (Option Text)) (pc : PC) (n : Nat) (loc : Loc) :
    inAllLocales (toCfg md ids pc n).2 loc = true ↔ loc ∈ pc.allLocales :=
  inAllLocales_toCfg md ids pc n loc

/-- The bound on the nesting of includes is immaterial once it suffices: any result other than the model's `RecursionError`
    stays the same under every larger bound. -/
theorem parse_fuel_irrelevant {w : World} {env : Env} {ig : Bool} {f : Nat} {top : Text} {r : Except TC.Err PC}
    (h : parseF w env ig f top = r) (hne : r ≠ .error .recursion) : ∀ g, f ≤ g → parseF w env ig g top = r := by
  intro g hg
  induction hg with
  | refl => exact h
  | step _ ih => exact parseF_mono _ _ _ ih hne

/-! ### parsing composed with the enumeration: C13 over (dictionaries, env, file tree) -/

/-- **Each path at most once, sorted** — for what `enumerate` yields from dictionaries, env and tree (locale and validation mode). -/
theorem enumerate_nodup_sorted {w : World} {env : Env} {ig : Bool} {configs : List Text} {locale : Option Loc}
    {mb : Option Text} {fs : FS} {its : List Item} (h : enumerate w env ig configs locale mb fs = .ok its) :
    (its.map (·.path)).Pairwise (fun a b => a < b) := by
  obtain ⟨o, _, rfl⟩ := enumerate_ok h
  exact C13.iter_nodup_sorted _ _ _

/-- **Nothing of an excluded configuration**: no enumerated path is matched by the nested `ProjectFiles` built from the
    configurations the `[[excludes]]` tables name (and that are not included explicitly). -/
theorem enumerate_not_excluded {w : World} {env : Env} {ig : Bool} {configs : List Text} {locale : Option Loc}
    {mb : Option Text} {fs : FS} {its : List Item} (h : enumerate w env ig configs locale mb fs = .ok its)
    (hloc : truthy locale = true) :
    ∃ o, projectFiles w env ig configs locale mb = .ok o ∧ ∀ it ∈ its, excludedBy o.env o.pf.exclude it.path = false := by
  obtain ⟨o, ho, rfl⟩ := enumerate_ok h
  refine ⟨o, ho, fun it hit => ?_⟩
  obtain ⟨pcs, _, hnew⟩ := projectFiles_ok ho
  obtain ⟨_, he, hpf⟩ := PFM.newM_ok hnew
  unfold PF.new at hpf
  obtain ⟨_, _, _, hl, _⟩ := build_ok hpf
  exact C13.iter_excluded_sound (by rw [hl]; exact hloc) hit

/-- **Soundness over the dictionaries.**  Whatever `enumerate` yields for a locale is claimed by a `[[paths]]` table `d` of
    a configuration `c` that is the top file of a project or reached from it through `[[includes]]` only (`c ∈ project.configs`:
    never through `[[excludes]]`), `c` is what its file says (`FromFile`), the locale is in the project's `all_locales`, enabled
    for `c` (`locales` of the file) and for `d` (`locales` of the table), and the table's `test` names are among the item's tests. -/
theorem enumerate_sound {w : World} {env : Env} {ig : Bool} {configs : List Text} {locale : Option Loc}
    {mb : Option Text} {fs : FS} {its : List Item} (h : enumerate w env ig configs locale mb fs = .ok its)
    (hloc : truthy locale = true) {it : Item} (hit : it ∈ its) :
    ∃ pcs, parseAll w env ig configs = .ok pcs ∧ ∃ project ∈ pcs, (∀ l, locale = some l → l ∈ project.allLocales) ∧
      ∃ c ∈ project.configs, FromFile w env c ∧ localeOk locale c.locales = true ∧
        ∃ d ∈ c.paths, localeOk locale d.locales = true ∧
          ∀ ts, d.test = some ts → ∀ t ∈ ts, PFM.encode t ∈ it.test := by
  obtain ⟨o, ho, rfl⟩ := enumerate_ok h
  obtain ⟨pcs, hpcs, hnew⟩ := projectFiles_ok ho
  obtain ⟨_, he, hpf⟩ := PFM.newM_ok hnew
  rw [he] at hit
  obtain ⟨project, hproj, hen, cfg, hcfg, hok, pr, hpr, hok2, htest, _⟩ := C13.iter_sound hpf hloc hit
  obtain ⟨pc, hpc, n, rfl⟩ := mem_toCfgL _ _ _ _ _ hproj
  obtain ⟨c, hc, m, rfl⟩ := toCfg_configs _ _ _ _ _ hcfg
  obtain ⟨d, hd, k, rfl⟩ := toCfg_paths _ _ _ _ _ hpr
  obtain ⟨p, _, hparse⟩ := parseAll_mem hpcs pc hpc
  refine ⟨pcs, hpcs, pc, hpc, fun l hl => (inAllLocales_toCfg _ _ _ _ _).1 (hen l hl), c, hc,
    parseF_nodes _ _ _ hparse c (configs_sub_nodes pc c hc), ?_, d, hd, ?_, ?_⟩
  · rw [← toCfg_locales]; exact hok
  · simpa [pathSpecs] using hok2
  · intro ts hts t ht
    exact htest (ts.map PFM.encode) (by simp [pathSpecs, hts]) (PFM.encode t) (List.mem_map.2 ⟨t, ht, rfl⟩)

/-! ### non-vacuity: the two-file world of Proofs/C13TomlExample.lean, evaluated -/

/-- with `ignore_missing_includes`: root `/r` for both files, the command line wins `v` in the parent AND in the child, the
    child keeps its own `w` and inherits nothing of the parent's `[env]` (no `l`), one rule per `[[paths]]`, the compiled
    filter key `k\.1$`, `all_locales` = own + child's per-path locales, the missing exclude is skipped -/
example :
    okOf exParsed (·.root) = some (some (T "/r")) ∧
    okOf exParsed (·.environ) = some [(T "v", T "cmd"), (T "l", T "{l10n_base}/{locale}/"), (T "l10n_base", T "/l")] ∧
    okOf exParsed (fun pc => pc.paths.map (·.l10n)) = some [T "{l}m/*.ftl"] ∧
    okOf exParsed (fun pc => pc.rules.map (fun x => (x.path, x.key.map KeyD.source, x.action))) =
      some [(T "{l}m/a.ftl", some (T "k\\.1$"), T "ignore")] := by decide +kernel

example :
    okOf exParsed (·.allLocales) = some [T "de", T "fr"] ∧
    okOf exParsed (fun pc => pc.children.map (·.path)) = some [some (T "/r/cfg/a.toml")] ∧
    okOf exParsed (fun pc => pc.children.map (·.root)) = some [some (T "/r")] := by decide +kernel

example :
    okOf exParsed (fun pc => pc.children.map (·.environ)) = some [[(T "v", T "cmd"), (T "w", T "kept"), (T "l10n_base", T "/l")]] ∧
    okOf exParsed (fun pc => pc.children.flatMap (fun c => c.paths.flatMap (fun d => optL d.locales))) = some [T "fr"] ∧
    okOf exParsed (·.excludes.length) = some 0 := by decide +kernel

/-- without it: the documented `ConfigNotFound`, for the normalised path of the missing exclude -/
example : errOf (parse exWorld exEnv false (T "/r/l10n.toml")) = some (.configNotFound (T "/r/cfg/gone.toml")) := by
  decide +kernel

/-- dictionaries + env + tree → enumeration, locale `de`: the localized file and the reference-only file of the parent's
    rule (with its test), nothing of locale `fr`, nothing of the child's rule (its `locales` is `["fr"]`) -/
example : okOf (enumerate exWorld exEnv true [T "/r/l10n.toml"] (some (T "de")) none
      { files := [T "/r/l10n.toml", T "/l/de/m/a.ftl", T "/l/de/m/sub/b.ftl", T "/r/ref/m/c.ftl", T "/l/fr/m/a.ftl", T "/l/de/c/cmd.ftl"] }) id
    = some [{ path := T "/l/de/m/a.ftl", reference := some (T "/r/ref/m/a.ftl"), merge := none, test := [PFM.encode (T "android-dtd")] },
           { path := T "/l/de/m/c.ftl", reference := some (T "/r/ref/m/c.ftl"), merge := none, test := [PFM.encode (T "android-dtd")] }] := by
  decide +kernel

/-- … locale `fr`: in `all_locales` only through the child's rule; the parent config (`locales = ["de"]`) is gated off; the
    child's `{v}` is the command-line value -/
example : okOf (enumerate exWorld exEnv true [T "/r/l10n.toml"] (some (T "fr")) none
      { files := [T "/l/fr/c/child.ftl", T "/r/ref/m/c.ftl", T "/l/fr/m/a.ftl", T "/l/fr/c/cmd.ftl"] }) id
    = some [{ path := T "/l/fr/c/cmd.ftl", reference := none, merge := none, test := [] }] := by
  decide +kernel

/-! ### negation witnesses -/

/-- the hypothesis of `parse_total_welltyped` is needed: `locales = "de"` (a string, not a list) is outside the model -/
theorem illtyped_witness : errOf (parse illWorld [] false (T "/r/l10n.toml")) = some .illTyped ∧
    ¬ (∀ q tv, illWorld.files.lookup q = some tv → (decode tv).isSome = true) := by
  refine ⟨by decide +kernel, fun h => ?_⟩
  have := h (T "/r/l10n.toml") _ rfl
  revert this
  decide +kernel

/-- an include cycle is the model's `RecursionError` (the harness runs the real parser on such files: `RecursionError`) -/
theorem include_cycle_witness : errOf (parse selfWorld [] true (T "/r/l10n.toml")) = some .recursion := by decide +kernel

end C13T

/-!
## C13I — the legacy l10n.ini route (`paths/ini.py`): `EnumerateApp(inipath, l10nbase).asConfig()`

`TI.enumerateApp w fl inipath l10nbase` (Paths/IniConfig.lean) on the parsed ini sections `w.inis` (what `ConfigParser` answers).
-/
namespace C13I
open TI TC PF

/-- **The `ProjectConfig` of an l10n.ini** is a single config without path, root, children, excludes and filter rules, whose
    only variable is `l10n_base = abspath(l10nbase)`, whose `locales` are those of the `all-locales` file the top ini names,
    and whose path rules are `ruleOfDir` of `directories()` of the loaded configuration, in that order. -/
theorem ini_config_shape {w : IniWorld} {fl : Flavour} {inipath l10nbase : Text} {r : Result}
    (h : enumerateApp w fl inipath l10nbase = .ok r) :
    ∃ cfg ls, load w fl inipath = .ok cfg ∧
      r.pc = .mk none none (PM.dupdate [] [(l10nBaseName, abspath w.cwd l10nbase)])
                (cfg.directories.map ruleOfDir) [] (some ls) [] [] := by
  unfold enumerateApp at h
  split at h
  · cases h
  · rename_i cfg hcfg
    obtain ⟨ls, hpc, _⟩ := asConfig_ok h
    exact ⟨cfg, ls, hcfg, hpc⟩

/-- **Every `dirs` entry yields the two path rules, with the module set**: for every loaded ini file `n` of the include tree
    (the top file or an included one, at any depth) and every word `m` of its `[compare] dirs`, the config has a path rule with
    l10n `normpath("{l10n_base}/{locale}/" + m + "/**")`, reference `normpath(n.base + "/" + m + "/locales/en-US/**")` and
    `module = m` (plus the `android-dtd` test exactly for `mobile/android/base`) — and every path rule is of that form. -/
theorem dirs_entry_two_rules {w : IniWorld} {fl : Flavour} {inipath l10nbase : Text} {r : Result}
    (h : enumerateApp w fl inipath l10nbase = .ok r) :
    ∃ cfg, load w fl inipath = .ok cfg ∧ ∀ d : PathD, d ∈ r.pc.paths ↔
      ∃ n ∈ nodes cfg, ∃ m ∈ n.dirs,
        d = { l10n := normpath (Gen.TablesCfg.iniL10nPrefix ++ m ++ Gen.TablesCfg.iniL10nSuffix),
              reference := some (normpath (n.base ++ Gen.TablesCfg.iniRefSep ++ m ++ Gen.TablesCfg.iniRefSuffix)),
              test := if m == Gen.TablesCfg.iniTestModule then some [Gen.TablesCfg.iniTestName] else none,
              locales := none, module := some m } := by
  obtain ⟨cfg, ls, hcfg, hpc⟩ := ini_config_shape h
  refine ⟨cfg, hcfg, fun d => ?_⟩
  rw [hpc]
  simp only [PC.paths, List.mem_map]
  constructor
  · rintro ⟨bm, hbm, rfl⟩
    obtain ⟨n, hn, h1, h2⟩ := (mem_directories cfg bm).1 hbm
    exact ⟨n, hn, bm.2, h2, by simp [ruleOfDir, h1]⟩
  · rintro ⟨n, hn, m, hm, rfl⟩
    exact ⟨(n.base, m), (mem_directories cfg _).2 ⟨n, hn, rfl, hm⟩, rfl⟩

/-- the top file's own `dirs` words are among them, with `base = dirname(inipath)/depth` (`.` without a `depth` option) -/
theorem top_dirs_loaded {w : IniWorld} {fl : Flavour} {f : Nat} {given : Text} {cfg : Loaded}
    (h : loadF w fl (f + 1) given = .ok cfg) :
    cfg ∈ nodes cfg ∧
    cfg.base = join (dirname (normpath given)) (match (w.doc (normpath given)).depth with | some d => d | none => dot) ∧
    cfg.dirs = (match (w.doc (normpath given)).dirs with | some s => splitWs s | none => []) := by
  obtain ⟨_, h2, h3⟩ := loadF_top h
  refine ⟨?_, h2, h3⟩
  obtain ⟨p, b, d, a, ch⟩ := cfg
  rw [nodes_mk]; exact List.mem_cons_self

/-! ### non-vacuity -/

def exIni : IniWorld :=
  { inis := [(T "/r/browser/locales/l10n.ini",
              { depth := some (T "../.."), all := some (T "browser/locales/all-locales"),
                includes := some [(T "toolkit", T "toolkit/locales/l10n.ini")], dirs := some (T "browser mobile/android/base"), details := [] }),
             (T "/r/toolkit/locales/l10n.ini",
              { depth := some (T "../.."), all := none, includes := none, dirs := some (T "toolkit\n  dom"), details := [] })],
    filters := [T "/r/toolkit/locales/l10n.ini"],
    locales := [(T "/r/browser/locales/all-locales", [T "de", T "fr"])],
    cwd := T "/" }

def exRes : Except TI.Err Result := enumerateApp exIni .plain (T "/r/browser/locales/l10n.ini") (T "/l")

def resOf {α} (f : Result → α) : Option α :=
  match exRes with
  | .ok x => some (f x)
  | .error _ => none

/-- one rule pair per `dirs` word of the top file and of the included one, module set, the Android test where due -/
example : resOf (fun x => x.pc.paths.map (fun (d : PathD) => (d.l10n, d.reference))) = some
    [(T "{l10n_base}/{locale}/browser/**", some (T "/r/browser/locales/en-US/**")),
     (T "{l10n_base}/{locale}/mobile/android/base/**", some (T "/r/mobile/android/base/locales/en-US/**")),
     (T "{l10n_base}/{locale}/toolkit/**", some (T "/r/toolkit/locales/en-US/**")),
     (T "{l10n_base}/{locale}/dom/**", some (T "/r/dom/locales/en-US/**"))] := by decide +kernel

example : resOf (fun x => x.pc.paths.map (fun (d : PathD) => (d.module, d.test))) = some
    [(some (T "browser"), none), (some (T "mobile/android/base"), some [T "android-dtd"]),
     (some (T "toolkit"), none), (some (T "dom"), none)] := by decide +kernel

/-- locales from the all-locales file; the filter.py of the included ini (the top one has none) -/
example : resOf (fun x => (x.pc.locales, x.filterFrom, x.pc.environ)) =
    some (some [T "de", T "fr"], some (T "/r/toolkit/locales/l10n.ini"), [(T "l10n_base", T "/l")]) := by decide +kernel

end C13I

/-! ### C13T, continued: the matchers of a rule in the table handed to `ProjectFilesM` -/
namespace C13T
open TC PF

/-- **Soundness over the dictionaries, with the matchers.**  An item `enumerate` yields for a locale comes from a `[[paths]]`
    table `d` of a config `c` reached through includes only, gates passed (as in `enumerate_sound`), and: the table handed to
    `ProjectFilesM` holds, under ids `k` (and `r`), exactly `Matcher(d.l10n, env=c.environ, root=c.root).with_env({"locale": locale})`
    (and `Matcher(d.reference, env=c.environ, root=c.root)`); either the item's path is an existing, non-excluded file that
    matcher `k` matches, or it is the `sub` image of an existing, non-excluded reference file matcher `r` matches. -/
theorem enumerate_sound_matchers {w : World} {env : Env} {ig : Bool} {configs : List Text} {locale : Option Loc}
    {mb : Option Text} {fs : FS} {its : List Item} (h : enumerate w env ig configs locale mb fs = .ok its)
    (hloc : truthy locale = true) {it : Item} (hit : it ∈ its) :
    ∃ o pcs, projectFiles w env ig configs locale mb = .ok o ∧ parseAll w env ig configs = .ok pcs ∧
      ∃ project ∈ pcs, ∃ c ∈ project.configs, ∃ d ∈ c.paths, ∃ k,
        (toPFM { locale := locale, mergebase := mb, cwd := w.cwd } pcs).1[k]? =
          some (l10nSpec { locale := locale, mergebase := mb, cwd := w.cwd } c.root c.environ d.l10n) ∧
        ((∃ g, it.path ∈ fs.files ∧ o.env.mtch k it.path = some g ∧ excludedBy o.env o.pf.exclude it.path = false) ∨
         (∃ t r q g, d.reference = some t ∧
            (toPFM { locale := locale, mergebase := mb, cwd := w.cwd } pcs).1[r]? =
              some (refSpec { locale := locale, mergebase := mb, cwd := w.cwd } c.root c.environ t) ∧
            q ∈ fs.files ∧ o.env.mtch r q = some g ∧ excludedBy o.env o.pf.exclude q = false ∧
            excludedBy o.env o.pf.exclude it.path = false ∧ it.path = o.env.expand k g ∧ it.reference = some q)) := by
  obtain ⟨o, ho, rfl⟩ := enumerate_ok h
  obtain ⟨pcs, hpcs, hnew⟩ := projectFiles_ok ho
  obtain ⟨_, he, hpf⟩ := PFM.newM_ok hnew
  rw [he] at hit
  obtain ⟨project, hproj, _, cfg, hcfg, _, pr, hpr, _, _, hcase⟩ := C13.iter_sound hpf hloc hit
  obtain ⟨pc, hpc, _, c, hc, _, hr⟩ := toPFM_rule_origin _ pcs 0 [] []
    (toPFM { locale := locale, mergebase := mb, cwd := w.cwd } pcs).1 (by simp [toPFM]) rfl project hproj cfg hcfg pr hpr
  obtain ⟨d, hd, _, _, hk, href⟩ := ruleAt_specs hr
  refine ⟨o, pcs, ho, hpcs, pc, hpc, c, hc, d, hd, pr.l10n, hk, ?_⟩
  rw [he]
  rcases hcase with ⟨g, h1, h2, h3, _⟩ | ⟨rm, q, g, h1, h2, h3, h4, h5, h6, h7, _⟩
  · exact Or.inl ⟨g, h1, h2, h3⟩
  · right
    cases hdr : d.reference with
    | none => rw [hdr] at href; simp only at href; rw [href] at h1; cases h1
    | some t =>
      rw [hdr] at href
      obtain ⟨r, hr1, hr2⟩ := href
      rw [hr1] at h1
      simp only [Option.some.injEq] at h1
      subst h1
      exact ⟨t, r, q, g, rfl, hr2, h2, h3, h4, h5, h6, h7⟩

/-- **The composition never fails for bookkeeping reasons**: the ids `toPFM` writes into the path rules are ids of its table
    (`newM` cannot answer `badId`). -/
theorem projectFiles_ids_ok (md : Mode) (pcs : List PC) :
    PFM.idsOkL (toPFM md pcs).1.length (toPFM md pcs).2 = true :=
  toPFM_idsOk md pcs

end C13T

/-!
## C13S — parser sessions: ONE `TOMLParser` / `EnumerateApp` object used for a sequence of calls (Paths/TomlSession.lean)

The class of regressions these exclude: anything a call leaves behind ON THE OBJECT (a cache of included configurations keyed by
less than the result depends on, a shared `env` dict, shared child `ProjectConfig` objects) that a later call picks up.  In the
model the objects are explicit (`TParser`, `State.live`, `EApp`) and every call is a step; the theorems say that the result of
call number `n` is the STATELESS function of the arguments of call `n` and of the files as they are at call `n`.  The real
objects are held to that by the `c13.session` / `c13.ini.session` correspondence on recorded histories and by the harness
oracle (by-construction expectation per call + the same call on a fresh object).
-/
namespace C13S
open TS TC PF

/-- **A `TOMLParser` object has no memory**: in a sequence of `parse` calls on ONE object, the `n`-th result is
    `TOMLParser().parse` of the `n`-th arguments on the files as they are at the `n`-th call — whatever was parsed before, with
    whatever variables, and whatever was rewritten on disk in between. -/
theorem parser_session_pointwise (p : TParser) (as : List ParseArgs) (n : Nat) :
    (p.session as)[n]? = (as[n]?).map fun a => TC.parse a.w (ctxEnv a.env) a.ignore a.path :=
  session_get p as n

/-- the object after a call is the object before it (nothing is stored on `self`) -/
theorem parser_object_unchanged (p : TParser) (a : ParseArgs) : (p.parse a).1 = p := rfl

/-- … also inside a history that mixes `parse`, `set_locales(deep=True)` on earlier results and `ProjectFiles` enumerations:
    call number `n`, if it is a `parse`, returns `TC.parse` of ITS arguments and ITS world. -/
theorem session_parse_pointwise (s : State) (ops : List Op) (n : Nat) (a : ParseArgs) (h : ops[n]? = some (.parse a)) :
    (run s ops).2[n]? = some (.parsed (TC.parse a.w (ctxEnv a.env) a.ignore a.path)) := by
  rw [run_get, h]; simp [step_parse_out]

/-- **`ProjectFiles` built again and again from the configurations the caller holds**: call number `n`, if it is
    `ProjectFiles(locale, [live[i] …], mergebase)` + enumeration + lookups, returns the stateless `listOf` of the graphs held at
    that moment — independent of the locales, merge bases and orders of the earlier constructions. -/
theorem session_files_pointwise (s : State) (ops : List Op) (n : Nat) (is : List Nat) (loc : Option Loc) (mb : Option Text)
    (cwd : Text) (fs : FS) (looks : List Path) (h : ops[n]? = some (.files is loc mb cwd fs looks)) (pcs : List PC)
    (hp : is.mapM (fun i => (stateAt s ops n).live[i]?) = some pcs) :
    (run s ops).2[n]? = some (.listed (listOf cwd pcs loc mb fs looks)) := by
  rw [run_get, h]; simp [step_files_out _ _ _ _ _ _ _ _ hp]

/-- building and enumerating a `ProjectFiles` object changes nothing the caller holds -/
theorem session_reads_leave_state (s : State) (is : List Nat) (loc : Option Loc) (mb : Option Text) (cwd : Text) (fs : FS)
    (looks : List Path) : (step s (.files is loc mb cwd fs looks)).1 = s :=
  step_files_state s is loc mb cwd fs looks

/-- **No aliasing between results**: a configuration the caller holds is changed by nothing but `set_locales` on that very
    configuration — not by later `parse` calls (of the same or other files, with the same or other variables), not by
    `set_locales(deep=True)` on ANOTHER result that includes the same file, not by any number of `ProjectFiles` objects. -/
theorem live_config_stable (s : State) (ops : List Op) (i : Nat) (hi : i < s.live.length)
    (hops : ∀ op ∈ ops, ∀ ls, op ≠ .deep i ls) : (run s ops).1.live[i]? = s.live[i]? :=
  run_live_stable s ops i hi hops

/-- a successful `parse` hands the caller exactly `TC.parse …`, and that object stays what it is through any later history that
    does not call `set_locales` on it -/
theorem parsed_config_kept (s : State) (a : ParseArgs) (pc : PC) (ops : List Op)
    (h : TC.parse a.w (ctxEnv a.env) a.ignore a.path = .ok pc)
    (hops : ∀ op ∈ ops, ∀ ls, op ≠ .deep s.live.length ls) :
    (run s (.parse a :: ops)).1.live[s.live.length]? = some pc := by
  rw [run_cons]
  have hl := step_parse_live_ok s a pc h
  simp only
  rw [run_live_stable _ ops s.live.length (by rw [hl]; simp) hops, hl]
  simp

/-- **Held graphs = fresh graphs**: `ProjectFiles` on the graphs `parse` returned for `configs` is `TC.projectFiles` (parse +
    construct in one go) — so every `C13T.enumerate_*` theorem speaks about the enumerations of a session as well. -/
theorem files_of_fresh_parse {w : World} {env : Env} {ig : Bool} {configs : List Text} {pcs : List PC}
    (hp : parseAll w env ig configs = .ok pcs) (locale : Option Loc) (mb : Option Text) (fs : FS) (looks : List Path)
    {r : List Item × List (Option Item)} (h : listOf w.cwd pcs locale mb fs looks = .ok r) :
    TC.enumerate w env ig configs locale mb fs = .ok r.1 := by
  obtain ⟨o, ho, hits⟩ := listOf_items h
  unfold TC.enumerate
  rw [projectFiles_eq_filesOf, hp]
  simp only [ho, hits]

/-- **An `EnumerateApp` object has no memory either**: the `n`-th `asConfig()` on one object is `asConfig` of the configuration
    its constructor loaded, on the files (`filter.py`, all-locales) as they are at the `n`-th call. -/
theorem eapp_session_pointwise (app : EApp) (ws : List TI.IniWorld) (n : Nat) :
    (app.session ws)[n]? = (ws[n]?).map fun w => TI.asConfigAbs w app.l10nbase app.config :=
  eapp_session_get app ws n

/-- **Re-used application = fresh application** as long as the l10n.ini files load to the same configuration: any later
    `asConfig()` returns what `EnumerateApp(inipath, l10nbase).asConfig()` returns at that moment. -/
theorem eapp_reuse_eq_fresh {w w' : TI.IniWorld} {fl : TI.Flavour} {inipath l10nbase : Text} {app : EApp}
    (h : EApp.new w fl inipath l10nbase = .ok app) (hload : TI.load w' fl inipath = TI.load w fl inipath)
    (hcwd : w'.cwd = w.cwd) : (app.asConfig w').2 = TI.enumerateApp w' fl inipath l10nbase := by
  obtain ⟨hc, hb⟩ := eapp_new_ok h
  unfold TI.enumerateApp TI.asConfig EApp.asConfig
  rw [hload, hc, hb, hcwd]

/-! ### which caches on a parser object would be safe -/

/-- **A cache is invisible iff its key determines the result** (⇐): calls through a memo table whose key determines the result
    (`key a = key b → f a = f b`; e.g. a key made of everything `f` reads) return, call by call, what `f` returns. -/
theorem memo_session_pointwise {A K R : Type} [DecidableEq K] (m : Memo A K R)
    (hk : ∀ a b, m.key a = m.key b → m.f a = m.f b) (as : List A) : m.run [] as = as.map m.f :=
  memo_run_eq m hk as [] (fun _ _ h => by simp [List.lookup] at h)

/-- (⇒) two calls with the same key and different results: the second call gets the FIRST call's result. -/
theorem memo_key_must_determine {A K R : Type} [DecidableEq K] (m : Memo A K R) (a b : A) (hkey : m.key a = m.key b)
    (hne : m.f a ≠ m.f b) : m.run [] [a, b] ≠ [a, b].map m.f := by
  rw [memo_second_call_stale m a b hkey]
  intro h
  simp only [List.map_cons, List.map_nil, List.cons.injEq, and_true, true_and] at h
  exact hne h

/-- **The regression in miniature** (negation witness, evaluated through the whole parser model): the included file of the
    example world parsed twice through a cache keyed by (normalised path, sorted NAMES of the command-line variables) — first for
    the checkout `/l`, then for `/other`.  Equal keys, different results: the second call returns the first call's configuration,
    whose `l10n_base` is still `/l`.  (A key of the path alone is coarser and fails on the same two calls.) -/
theorem names_key_witness :
    namesMemo.key exCallA = namesMemo.key exCallB ∧
    namesMemo.run [] [exCallA, exCallB] ≠ [exCallA, exCallB].map namesMemo.f ∧
    (namesMemo.run [] [exCallA, exCallB]).map (fun r => C13T.okOf r (fun pc => pc.environ.lookup (T "l10n_base"))) =
      [some (some (T "/l")), some (some (T "/l"))] ∧
    ([exCallA, exCallB].map namesMemo.f).map (fun r => C13T.okOf r (fun pc => pc.environ.lookup (T "l10n_base"))) =
      [some (some (T "/l")), some (some (T "/other"))] := by
  have hkey : namesMemo.key exCallA = namesMemo.key exCallB := by decide +kernel
  have hB : ([exCallA, exCallB].map namesMemo.f).map (fun r => C13T.okOf r (fun pc => pc.environ.lookup (T "l10n_base"))) =
      [some (some (T "/l")), some (some (T "/other"))] := by decide +kernel
  have hA : (namesMemo.run [] [exCallA, exCallB]).map (fun r => C13T.okOf r (fun pc => pc.environ.lookup (T "l10n_base"))) =
      [some (some (T "/l")), some (some (T "/l"))] := by
    rw [memo_second_call_stale _ _ _ hkey]
    revert hB
    simp only [List.map_cons, List.map_nil, List.cons.injEq, and_true]
    intro h; exact ⟨h.1, h.1⟩
  refine ⟨hkey, ?_, hA, hB⟩
  intro h
  rw [h] at hA
  rw [hA] at hB
  revert hB
  decide

/-! ### non-vacuity: a two-call history on the example world, evaluated -/

/-- parse the top file for `/l`, then again for `/other` on ONE parser, then mutate the first result -/
def exOps : List Op :=
  [.parse { w := C13T.exWorld, env := some [(T "l10n_base", T "/l")], ignore := true, path := T "/r/l10n.toml" },
   .parse { w := C13T.exWorld, env := some [(T "l10n_base", T "/other")], ignore := true, path := T "/r/l10n.toml" },
   .deep 0 [T "ja"]]

/-- what the example looks at: `l10n_base` of the config and of its children, `locales` of the config and of its children -/
def exView (pc : PC) : List (List Text) :=
  [(pc.environ.lookup (T "l10n_base")).toList, pc.children.flatMap (fun c => (c.environ.lookup (T "l10n_base")).toList),
   optL pc.locales, pc.children.flatMap (fun c => optL c.locales)]

/-- the second result carries `/other` in the parent and in the included config; the first result keeps `/l` and only it gets
    the new locales (the included config of the second result keeps `locales = None`) -/
example :
    (run State.init exOps).1.live.map exView =
      [[[T "/l"], [T "/l"], [T "ja"], [T "ja"]],
       [[T "/other"], [T "/other"], [T "de"], []]] := by decide +kernel

end C13S

/-
C20 — Key-level diff and keyed lookup respect both files' orders.
Property theorems only (helper lemmas live in CLModel/Proofs/).
-/
import CLModel.Compare.AddRemove
import CLModel.Proofs.AddRemove
namespace C20
open AR

variable {α : Type} [BEq α] [LawfulBEq α]

/-- The diff of two duplicate-free key sequences is the closed form `spec`:
    left order kept, each right-only key right after the last key that precedes
    it in `right` and is also in `left`. -/
theorem addRemove_eq_spec (l r : List α) (hl : l.Nodup) (hr : r.Nodup) :
    addRemove l r = spec l r :=
  AR.addRemove_eq_spec l r hl hr

/-- The placement rule stated on the keys alone: the output key sequence is the right-only keys
    with no preceding left key, then every left key `k` (in left order) followed by the
    right-only keys (in right order) whose last preceding left member in `right` is `k`. -/
theorem ar_anchor (l r : List α) (hl : l.Nodup) (hr : r.Nodup) :
    (addRemove l r).map (·.2) =
      ((anchors l r none).filter (fun p => p.1 == none)).map (·.2) ++
        l.flatMap (fun k => k :: ((anchors l r none).filter (fun p => p.1 == some k)).map (·.2)) := by
  rw [AR.addRemove_eq_spec l r hl hr]
  exact AR.spec_keys l r

/-- every key of either side exactly once -/
theorem ar_keys_perm (l r : List α) (hl : l.Nodup) (hr : r.Nodup) :
    ((addRemove l r).map (·.2)).Perm (l ++ r.filter (fun x => !l.contains x)) :=
  AR.addRemove_keys_perm l r hl hr

theorem ar_keys_nodup (l r : List α) (hl : l.Nodup) (hr : r.Nodup) :
    ((addRemove l r).map (·.2)).Nodup :=
  AR.addRemove_keys_nodup l r hl hr

/-- labels are decided by membership alone -/
theorem ar_labels (l r : List α) (hl : l.Nodup) (hr : r.Nodup) :
    ∀ p ∈ addRemove l r,
      p.1 = (if l.contains p.2 then (if r.contains p.2 then Label.equal else Label.delete) else Label.add) :=
  AR.addRemove_labels l r hl hr

/-- the first sequence's order is kept -/
theorem ar_left_order (l r : List α) (hl : l.Nodup) (hr : r.Nodup) :
    ((addRemove l r).filter (fun p => p.1 != Label.add)).map (·.2) = l := by
  rw [AR.addRemove_eq_spec l r hl hr]
  exact AR.spec_left_order l r

/-- keyed lookup returns the last entity with the key -/
theorem keyed_last {κ : Type} [BEq κ] [LawfulBEq κ] (keys : List κ) (k : κ) :
    keyedIndex keys k = (if keys.contains k then some (keys.length - 1 - (keys.reverse.idxOf k)) else none) :=
  AR.keyedIndex_eq keys k

theorem keyed_contains {κ : Type} [BEq κ] [LawfulBEq κ] (keys : List κ) (k : κ) :
    keyedContains keys k = keys.contains k :=
  AR.keyedContains_eq keys k

/-! ### non-vacuity

`List.mergeSort` is defined by well-founded recursion, so plain `decide` cannot evaluate
`addRemove`; the model is evaluated by `simp`, the closed form and the hypotheses by `decide`. -/

/-- the model itself, evaluated without any of the theorems above -/
example : addRemove [1, 2, 3] [2, 4, 3, 5]
    = [(.delete, 1), (.equal, 2), (.add, 4), (.equal, 3), (.add, 5)] := by
  simp [addRemove, leftMap, rightStep, dset, dget, List.zipIdx, leKey, List.mergeSort,
    List.MergeSort.Internal.splitInTwo]

/-- the closed form on the same input, by `decide` -/
example : [1, 2, 3].Nodup ∧ [2, 4, 3, 5].Nodup ∧
    spec [1, 2, 3] [2, 4, 3, 5] = [(.delete, 1), (.equal, 2), (.add, 4), (.equal, 3), (.add, 5)] := by
  decide

/-- the theorem applied to an input with reordered common keys and a leading right-only key -/
example : addRemove [1, 2, 3] [7, 3, 8, 1, 9]
    = [(.add, 7), (.equal, 1), (.add, 9), (.delete, 2), (.equal, 3), (.add, 8)] := by
  rw [addRemove_eq_spec _ _ (by decide) (by decide)]
  decide

/-! negation witnesses: both `Nodup` hypotheses of `addRemove_eq_spec` are needed
    (a dict keeps one entry per key, the closed form one per occurrence) -/

example : addRemove [1, 1] ([] : List Nat) = [(.delete, 1)] ∧
    spec [1, 1] ([] : List Nat) = [(.delete, 1), (.delete, 1)] := by
  constructor
  · simp [addRemove, leftMap, dset, List.zipIdx]
  · decide

example : addRemove ([] : List Nat) [4, 4] = [(.add, 4)] ∧
    spec ([] : List Nat) [4, 4] = [(.add, 4), (.add, 4)] := by
  constructor
  · simp [addRemove, leftMap, rightStep, dset, dget, List.zipIdx]
  · decide

example : keyedIndex [5, 6, 5, 7] 5 = some 2 ∧ keyedIndex [5, 6, 5, 7] 8 = none ∧
    keyedContains [5, 6, 5, 7] 7 = true ∧ keyedContains [5, 6, 5, 7] 8 = false := by decide

end C20

/-
C20 — Key-level diff and keyed lookup respect both files' orders.
Property theorems only (helper lemmas live in CLModel/Proofs/).
-/
import CLModel.Compare.AddRemove
import CLModel.Compare.AddRemoveObj
import CLModel.Compare.KeyedTuple
import CLModel.Proofs.AddRemove
import CLModel.Proofs.C03AddRemove
import CLModel.Proofs.C20Dup
import CLModel.Proofs.C20Obj
import CLModel.Proofs.C20Keyed
import CLModel.Proofs.C20Equiv
import CLModel.Compare.C20Heap
import CLModel.Proofs.C20Heap
namespace C20
open AR

variable {α : Type} [BEq α] [LawfulBEq α]

/-- The diff of two duplicate-free key sequences is the closed form `spec`:
    left order kept, each right-only key right after the last key that precedes
    it in `right` and is also in `left`. -/
theorem addRemove_eq_spec (l r : List α) (hl : l.Nodup) (hr : r.Nodup) :
    addRemove l r = spec l r :=
  AR.addRemove_eq_spec l r hl hr

/-- The placement rule stated on the keys alone: the output key sequence is the right-only keys
    with no preceding left key, then every left key `k` (in left order) followed by the
    right-only keys (in right order) whose last preceding left member in `right` is `k`. -/
theorem ar_anchor (l r : List α) (hl : l.Nodup) (hr : r.Nodup) :
    (addRemove l r).map (·.2) =
      ((anchors l r none).filter (fun p => p.1 == none)).map (·.2) ++
        l.flatMap (fun k => k :: ((anchors l r none).filter (fun p => p.1 == some k)).map (·.2)) := by
  rw [AR.addRemove_eq_spec l r hl hr]
  exact AR.spec_keys l r

/-- every key of either side exactly once -/
theorem ar_keys_perm (l r : List α) (hl : l.Nodup) (hr : r.Nodup) :
    ((addRemove l r).map (·.2)).Perm (l ++ r.filter (fun x => !l.contains x)) :=
  AR.addRemove_keys_perm l r hl hr

/-- no key is yielded twice — for ALL inputs (round 4: the `Nodup` hypotheses are gone) -/
theorem ar_keys_nodup (l r : List α) : ((addRemove l r).map (·.2)).Nodup :=
  AR.addRemove_keys_nodup_gen l r

/-- the yielded keys are exactly the keys of either side — for ALL inputs -/
theorem ar_keys_mem (l r : List α) (k : α) : k ∈ (addRemove l r).map (·.2) ↔ k ∈ l ∨ k ∈ r :=
  AR.addRemove_keys_mem_gen l r k

/-- labels are decided by membership alone — for ALL inputs (round 4: no `Nodup` hypotheses) -/
theorem ar_labels (l r : List α) :
    ∀ p ∈ addRemove l r,
      p.1 = (if l.contains p.2 then (if r.contains p.2 then Label.equal else Label.delete) else Label.add) :=
  AR.addRemove_labels_gen l r

/-- the first sequence's order is kept (round 4: `right` may contain duplicates) -/
theorem ar_left_order (l r : List α) (hl : l.Nodup) :
    ((addRemove l r).filter (fun p => p.1 != Label.add)).map (·.2) = l := by
  rw [C20P.addRemove_eq_specD, C20P.specD_left_order, C20P.dedupLast_of_nodup l hl]

/-- keyed lookup returns the last entity with the key -/
theorem keyed_last {κ : Type} [BEq κ] [LawfulBEq κ] (keys : List κ) (k : κ) :
    keyedIndex keys k = (if keys.contains k then some (keys.length - 1 - (keys.reverse.idxOf k)) else none) :=
  AR.keyedIndex_eq keys k

theorem keyed_contains {κ : Type} [BEq κ] [LawfulBEq κ] (keys : List κ) (k : κ) :
    keyedContains keys k = keys.contains k :=
  AR.keyedContains_eq keys k

/-! ### non-vacuity

`List.mergeSort` is defined by well-founded recursion, so plain `decide` cannot evaluate
`addRemove`; the model is evaluated by `simp`, the closed form and the hypotheses by `decide`. -/

/-- the model itself, evaluated without any of the theorems above -/
example : addRemove [1, 2, 3] [2, 4, 3, 5]
    = [(.delete, 1), (.equal, 2), (.add, 4), (.equal, 3), (.add, 5)] := by
  simp [addRemove, leftMap, rightStep, dset, dget, List.zipIdx, leKey, List.mergeSort,
    List.MergeSort.Internal.splitInTwo]

/-- the closed form on the same input, by `decide` -/
example : [1, 2, 3].Nodup ∧ [2, 4, 3, 5].Nodup ∧
    spec [1, 2, 3] [2, 4, 3, 5] = [(.delete, 1), (.equal, 2), (.add, 4), (.equal, 3), (.add, 5)] := by
  decide

/-- the theorem applied to an input with reordered common keys and a leading right-only key -/
example : addRemove [1, 2, 3] [7, 3, 8, 1, 9]
    = [(.add, 7), (.equal, 1), (.add, 9), (.delete, 2), (.equal, 3), (.add, 8)] := by
  rw [addRemove_eq_spec _ _ (by decide) (by decide)]
  decide

/-! negation witnesses: both `Nodup` hypotheses of `addRemove_eq_spec` are needed
    (a dict keeps one entry per key, the closed form one per occurrence) -/

example : addRemove [1, 1] ([] : List Nat) = [(.delete, 1)] ∧
    spec [1, 1] ([] : List Nat) = [(.delete, 1), (.delete, 1)] := by
  constructor
  · simp [addRemove, leftMap, dset, List.zipIdx]
  · decide

example : addRemove ([] : List Nat) [4, 4] = [(.add, 4)] ∧
    spec ([] : List Nat) [4, 4] = [(.add, 4), (.add, 4)] := by
  constructor
  · simp [addRemove, leftMap, rightStep, dset, dget, List.zipIdx]
  · decide

example : keyedIndex [5, 6, 5, 7] 5 = some 2 ∧ keyedIndex [5, 6, 5, 7] 8 = none ∧
    keyedContains [5, 6, 5, 7] 7 = true ∧ keyedContains [5, 6, 5, 7] 8 = false := by decide

/-! ## Round 4 — duplicates, the object's history, `KeyedTuple` as an object, hash independence -/

open C20M

/-! ### `AddRemove.__iter__` for ALL inputs (duplicates on either side) -/

/-- **The diff of ANY two key sequences is the closed form `specD`**: the left keys once each in the
    order of their LAST occurrences (`dedupLast`), labelled by membership; the right-only keys once
    each, after the anchor they had at their FIRST occurrence, in first-occurrence order (`anchorsD`). -/
theorem ar_eq_specD (l r : List α) : addRemove l r = specD l r :=
  C20P.addRemove_eq_specD l r

/-- the old closed form is the duplicate-free case of the new one -/
theorem specD_nodup (l r : List α) (hl : l.Nodup) (hr : r.Nodup) : specD l r = spec l r :=
  C20P.specD_eq_spec l r hl hr

/-- with duplicates on the left: each left key once, in the order of the last occurrences -/
theorem ar_left_order_dup (l r : List α) :
    ((addRemove l r).filter (fun p => p.1 != Label.add)).map (·.2) = dedupLast l := by
  rw [C20P.addRemove_eq_specD, C20P.specD_left_order]

/-- the placement rule on the keys alone, for ALL inputs -/
theorem ar_anchor_dup (l r : List α) :
    (addRemove l r).map (·.2) =
      ((anchorsD l r none []).filter (fun p => p.1 == none)).map (·.2) ++
        (dedupLast l).flatMap
          (fun k => k :: ((anchorsD l r none []).filter (fun p => p.1 == some k)).map (·.2)) := by
  rw [C20P.addRemove_eq_specD]
  exact C20P.specD_keys l r

/-- Duplicates on the left and repeated COMMON keys on the right are harmless: as long as no
    right-only key is repeated, the diff is the duplicate-free closed form against the left side
    reduced to its last occurrences. -/
theorem ar_dup_left_only (l r : List α) (hr : (r.filter (fun x => !l.contains x)).Nodup) :
    addRemove l r = spec (dedupLast l) r := by
  rw [C20P.addRemove_eq_specD, C20P.specD_eq_spec_dedup l r hr]

/-! ### the object: iterating is pure, the state is (last `set_left`, last `set_right`) -/

omit [LawfulBEq α] in
/-- `__iter__` does not change the object -/
theorem obj_iterate_pure (o : Obj α) : (o.step .iterate).1 = o := rfl

omit [LawfulBEq α] in
/-- the state after any history is the pair of the last arguments of the two setters -/
theorem obj_state (ops : List (Op α)) :
    Obj.final Obj.init ops = { left := curLeft ops, right := curRight ops } := by
  have h1 : (Obj.final (Obj.init (α := α)) ops).left = curLeft ops := by
    rw [C20P.final_left]
    exact Option.or_none
  have h2 : (Obj.final (Obj.init (α := α)) ops).right = curRight ops := by
    rw [C20P.final_right]
    exact Option.or_none
  cases h : Obj.final Obj.init ops
  rw [h] at h1 h2
  simp only at h1 h2
  rw [h1, h2]

/-- **History independence.**  On ONE instance, for every sequence of operations, the n-th
    operation, if it is an iteration, observes the closed form of the CURRENT sides (the arguments of
    the last `set_left` / `set_right` before it) — whatever was iterated or set before. -/
theorem obj_trace_spec (ops : List (Op α)) (n : Nat) (h : ops[n]? = some .iterate) :
    (Obj.trace Obj.init ops)[n]?
      = some (some (specOut (curLeft (ops.take n)) (curRight (ops.take n)))) := by
  rw [C20P.trace_getElem?, h, Option.map_some, obj_state]
  simp only [Obj.step, C20P.iterate_eq_specOut]

omit [LawfulBEq α] in
/-- the setters return nothing -/
theorem obj_trace_setter (ops : List (Op α)) (n : Nat) (op : Op α) (h : ops[n]? = some op)
    (hop : op ≠ .iterate) : (Obj.trace Obj.init ops)[n]? = some none := by
  rw [C20P.trace_getElem?, h, Option.map_some]
  cases op with
  | setLeft l => rfl
  | setRight r => rfl
  | iterate => exact absurd rfl hop

omit [LawfulBEq α] in
/-- iterating twice in a row observes the same thing twice -/
theorem obj_iterate_repeat (pre post : List (Op α)) :
    (Obj.trace Obj.init (pre ++ .iterate :: .iterate :: post))[pre.length + 1]?
      = (Obj.trace Obj.init (pre ++ .iterate :: .iterate :: post))[pre.length]? := by
  rw [C20P.trace_getElem?, C20P.trace_getElem?]
  have h1 : (pre ++ Op.iterate :: Op.iterate :: post)[pre.length + 1]? = some .iterate := by
    rw [List.getElem?_append_right (by omega)]
    simp
  have h2 : (pre ++ Op.iterate :: Op.iterate :: post)[pre.length]? = some .iterate := by
    rw [List.getElem?_append_right (by omega)]
    simp
  have h3 : (pre ++ Op.iterate :: Op.iterate :: post).take (pre.length + 1) = pre ++ [.iterate] := by
    rw [List.take_append]
    simp [List.take_of_length_le]
  have h4 : (pre ++ Op.iterate :: Op.iterate :: post).take pre.length = pre := by
    rw [List.take_append]
    simp
  rw [h1, h2, h3, h4]
  simp only [Option.map_some, Obj.final, List.foldl_append, List.foldl_cons, List.foldl_nil, Obj.step]

/-! ### hash independence

Why the model cannot depend on hashing: `addRemove`, `specD` and the `KeyedTuple` model are
polymorphic in the key type and use NOTHING of it but `==` (`[BEq α] [LawfulBEq α]`); a Python dict
is modelled as an insertion-ordered association list, a Python set as a duplicate-free list, `sorted`
as a stable merge sort on the integer order pairs.  There is no hash, no order on keys and no
address in scope, so by parametricity the result can only depend on which keys are equal to which.
`ar_hash_independent` states this consequence explicitly: replacing every key by ANY injective image
(its hash-table slot, its `id()`, its value under another `PYTHONHASHSEED`, a str key by a tuple key)
replaces the keys of the result and changes neither labels nor order.  The IMPLEMENTATION is tied to
this by running it under several `PYTHONHASHSEED` values on str and tuple keys (stream `hashseed`). -/

theorem ar_hash_independent {γ : Type} [BEq γ] [LawfulBEq γ] (f : α → γ) (hf : Function.Injective f)
    (l r : List α) :
    addRemove (l.map f) (r.map f) = (addRemove l r).map (fun p => (p.1, f p.2)) :=
  C20P.addRemove_map f hf l r

/-! ### `KeyedTuple` as an object queried by sequences -/

open C20K
variable {κ : Type} [DecidableEq κ]

/-- no query changes the object -/
theorem kt_immutable (t : KT κ) (q : Q κ) : (t.step q).1 = t := C20P.step_state t q

/-- **every answer in every sequence of queries on one instance is the closed form over the entity
    list** (no `__map`, no history) -/
theorem kt_answers (es : List (Ent κ)) (qs : List (Q κ)) :
    (KT.new es).run qs = qs.map (specAsk es) := by
  rw [C20P.run_eq_map]
  apply List.map_congr_left
  intro q _
  exact C20P.step_eq_spec es q

/-- `keys()`, `values()` and plain iteration preserve file order, duplicates included -/
theorem kt_order (es : List (Ent κ)) :
    (KT.new es).keys = es.map (·.key) ∧ (KT.new es).values = es ∧
    ((KT.new es).step .iter).2 = .tuple es ∧ (KT.new es).keys.length = es.length := by
  simp [KT.keys, KT.values, KT.new, KT.step]

/-- **`items()` is `zip(keys(), values())` positionally, duplicates included** -/
theorem kt_items_zip (es : List (Ent κ)) :
    (KT.new es).itemPairs = List.zip (KT.new es).keys (KT.new es).values := by
  simp only [KT.itemPairs, KT.keys, KT.values, KT.new]
  induction es with
  | nil => rfl
  | cons e es ih => simp [ih]

/-- the i-th item is the i-th entity under its own key — in particular NOT the last entity with that
    key (this is what rules out `items()` built from keyed lookup) -/
theorem kt_items_getElem (es : List (Ent κ)) (i : Nat) :
    (KT.new es).itemPairs[i]? = (es[i]?).map (fun e => (e.key, e)) := by
  simp [KT.itemPairs, KT.new]

/-- **keyed lookup returns the LAST entity with the key**: `kt[k]` is `e` iff `e` has key `k`, occurs
    in the file, and no later entity has key `k` -/
theorem kt_lookup_last (es : List (Ent κ)) (k : κ) (e : Ent κ) :
    (KT.new es).getitem (.key k) = .ent e ↔
      e.key = k ∧ ∃ pre post, es = pre ++ e :: post ∧ ∀ e' ∈ post, e'.key ≠ k := by
  rw [C20P.getitem_key, ← C20P.lastWithKey_eq_some_iff]
  cases lastWithKey es k with
  | none => simp
  | some e' => simp

/-- a key that does not occur: `tuple.__getitem__(str)` raises `TypeError` -/
theorem kt_lookup_missing (es : List (Ent κ)) (k : κ) (h : ∀ e ∈ es, e.key ≠ k) :
    (KT.new es).getitem (.key k) = .err "TypeError" := by
  rw [C20P.getitem_key, C20P.lastWithKey_none es k]
  intro hk
  rw [List.mem_map] at hk
  obtain ⟨e, he, hke⟩ := hk
  exact h e he hke

/-- **membership ⇔ the key occurs** -/
theorem kt_contains_iff (es : List (Ent κ)) (k : κ) :
    (KT.new es).contains (.key k) = true ↔ ∃ e ∈ es, e.key = k := by
  rw [C20P.contains_key, List.any_eq_true]
  simp

/-- membership of things that are not keys: an unhashable object (lines 34-35: the `TypeError` of
    the dict is swallowed), an int and a slice are never members; an entity object is a member iff it
    is an element (the `tuple.__contains__` fallback) -/
theorem kt_contains_other (es : List (Ent κ)) :
    (KT.new es).contains .unhashable = false ∧
    (∀ i, (KT.new es).contains (.int i) = false) ∧
    (∀ lo hi, (KT.new es).contains (.slice lo hi) = false) ∧
    (∀ e, (KT.new es).contains (.ent e) = es.contains e) := by
  simp [KT.contains, KT.mapContains, tupleContains, KT.new]

/-- integer indexing and slicing bypass the map; a slice (and a sum) is a PLAIN tuple -/
theorem kt_index_slice (es : List (Ent κ)) :
    (∀ i : Nat, (KT.new es).getitem (.int i) = match es[i]? with
      | some e => .ent e
      | none => .err "IndexError") ∧
    (∀ lo hi, (KT.new es).getitem (.slice lo hi) = .tuple (pySlice es lo hi)) ∧
    (∀ o, ((KT.new es).step (.concat o)).2 = .tuple (es ++ o)) := by
  refine ⟨?_, ?_, ?_⟩
  · intro i
    simp only [KT.getitem, KT.mapGet, tupleGetitem, C20P.tupleIndex_nat, KT.new]
    cases es[i]? <;> rfl
  · intro lo hi
    simp only [KT.getitem, KT.mapGet, tupleGetitem, KT.new]
  · intro o
    rfl

/-! ### non-vacuity and negation witnesses (round 4) -/

/-- duplicates on both sides, by `decide` on the closed form -/
example : specD [1, 2, 1, 3] [4, 2, 4, 5, 3, 3] =
    [(.add, 4), (.add, 5), (.equal, 2), (.delete, 1), (.equal, 3)] := by decide

/-- the hypothesis of `ar_dup_left_only` is needed: a REPEATED right-only key (5) re-activates the
    anchor of its first occurrence (none), so the later right-only key 6 is placed before 0 although
    it follows 0 in `right` -/
example : specD [0, 1] [5, 0, 5, 6] = [(.add, 5), (.add, 6), (.equal, 0), (.delete, 1)] ∧
    spec (dedupLast [0, 1]) [5, 0, 5, 6] = [(.add, 5), (.equal, 0), (.add, 5), (.add, 6), (.delete, 1)] ∧
    ¬ ([5, 0, 5, 6].filter (fun x => !([0, 1] : List Nat).contains x)).Nodup := by decide

/-- `ar_dup_left_only` is not vacuous: duplicates on the left, a repeated common key on the right -/
example : (([2, 7, 2, 1].filter (fun x => !([1, 2, 1] : List Nat).contains x)).Nodup) ∧
    spec (dedupLast [1, 2, 1]) [2, 7, 2, 1] = [(.equal, 2), (.add, 7), (.equal, 1)] ∧
    dedupLast [1, 2, 1] = [2, 1] := by decide

/-- `ar_left_order` needs `l.Nodup`: with a repeated left key the order is that of the LAST occurrences -/
example : dedupLast [1, 2, 1] ≠ [1, 2, 1] ∧ specD [1, 2, 1] ([] : List Nat) = [(.delete, 2), (.delete, 1)] := by
  decide

/-- a history: iterate before anything is set, set, iterate twice, replace the right side, iterate -/
example : (Obj.trace Obj.init [.iterate, .setLeft [1, 2], .iterate, .setRight [3, 2], .iterate, .iterate,
      .setRight [], .iterate] : List (Out Nat)).length = 8 ∧
    curLeft ([.iterate, .setLeft [1, 2], .iterate, .setRight [3, 2], .iterate] : List (Op Nat)) = some [1, 2] ∧
    curRight ([.iterate, .setLeft [1, 2], .iterate, .setRight [3, 2], .iterate] : List (Op Nat)) = some [3, 2] ∧
    specD [1, 2] [3, 2] = [(.add, 3), (.delete, 1), (.equal, 2)] := by
  refine ⟨rfl, by decide, by decide, by decide⟩

example : specOut (some [1, 2]) (some [3, 2]) = .ok (specD [1, 2] [3, 2]) ∧
    specOut (some [1, 2]) (none : Option (List Nat)) = .error "TypeError" := ⟨rfl, rfl⟩

/-- `items()` of a file with a duplicate key: positional, NOT the last entity for both occurrences -/
example : (KT.new [⟨5, 0⟩, ⟨6, 1⟩, ⟨5, 2⟩] : KT Nat).itemPairs = [(5, ⟨5, 0⟩), (6, ⟨6, 1⟩), (5, ⟨5, 2⟩)] ∧
    (KT.new [⟨5, 0⟩, ⟨6, 1⟩, ⟨5, 2⟩] : KT Nat).getitem (.key 5) = .ent ⟨5, 2⟩ ∧
    (KT.new [⟨5, 0⟩, ⟨6, 1⟩, ⟨5, 2⟩] : KT Nat).getitem (.key 7) = .err "TypeError" ∧
    (KT.new [⟨5, 0⟩, ⟨6, 1⟩, ⟨5, 2⟩] : KT Nat).getitem (.slice (some 1) none) = .tuple [⟨6, 1⟩, ⟨5, 2⟩] ∧
    (KT.new [⟨5, 0⟩, ⟨6, 1⟩, ⟨5, 2⟩] : KT Nat).getitem (.int (-1)) = .ent ⟨5, 2⟩ ∧
    (KT.new [⟨5, 0⟩, ⟨6, 1⟩, ⟨5, 2⟩] : KT Nat).contains .unhashable = false := by decide

/-! ## Round 5 — INTERACTION histories: a heap of `KeyedTuple`s, `AddRemove`s and caller-owned lists
with explicit aliasing (`Compare/C20Heap.lean`)

The streams of round 4 drive ONE object each.  Here several objects live in one history and results
of one are handed to another BY REFERENCE, as `compare/content.py` and `merge.py` do
(`ar.set_left(kt.keys())`).  A list is a cell `Ref` of the heap; an `AddRemove` attribute holds a
`Ref`; a `KeyedTuple` holds values only.  The two facts that make the hand-over safe are theorems:
`keys_fresh` (what `keys()` hands out is a new list nobody else refers to) and `addremove_readonly`
(no `AddRemove` operation changes the contents of any list).  A change of the code that breaks either
of them breaks the correspondence `c20.heap`; the two together break `heap_kt_forever`, which the
oracle checks on the implementation (every `KeyedTuple` answer, at any point of any history, is the
closed form over the elements the object was built from). -/

section Heap
open C20H

/-- **`keys()` returns a fresh list each call**: the list made of `kt.keys()` is a NEW cell (its
    address is the old size of the heap, so it differs from every existing list and from the list of
    every other call), it holds the keys in file order, NO `AddRemove` refers to it, and the call
    leaves every `KeyedTuple` (and every other component) as it was. -/
theorem keys_fresh (h : Heap κ) (hw : h.WF) (t : Nat) (k : KT κ) (hk : h.kts[t]? = some k) :
    (h.step (.keysToList t)).2 = .keys (k.items.map (·.key)) ∧
    (h.step (.keysToList t)).1.lists = h.lists ++ [k.items.map (·.key)] ∧
    (h.step (.keysToList t)).1.Unshared h.lists.length ∧
    (h.step (.keysToList t)).1.kts = h.kts ∧ (h.step (.keysToList t)).1.ars = h.ars ∧
    (h.step (.keysToList t)).1.elists = h.elists := by
  refine ⟨by simp [Heap.step, hk, KT.keys], by simp [Heap.step, hk, KT.keys], ?_, by simp [Heap.step, hk],
    by simp [Heap.step, hk], by simp [Heap.step, hk]⟩
  simp only [Heap.step, hk]
  intro o ho
  have := hw o ho
  refine ⟨fun e => ?_, fun e => ?_⟩
  · exact Nat.lt_irrefl _ (this.1 _ e)
  · exact Nat.lt_irrefl _ (this.2 _ e)

/-- two calls of `keys()` give two different lists with the same contents -/
theorem keys_fresh_each_call (h : Heap κ) (t : Nat) (k : KT κ) (hk : h.kts[t]? = some k) :
    (Heap.final h [.keysToList t, .keysToList t]).lists = h.lists ++ [k.keys, k.keys] ∧
    Heap.trace h [.keysToList t, .keysToList t] = [.keys k.keys, .keys k.keys] := by
  simp [Heap.final, Heap.trace, Heap.step, hk]

/-- the list `set_left(kt.keys())` stores is a NEW one as well: only that attribute refers to it -/
theorem set_left_keys_fresh (h : Heap κ) (hw : h.WF) (a t : Nat) (o : ARObj) (k : KT κ)
    (ho : h.ars[a]? = some o) (hk : h.kts[t]? = some k) :
    (h.step (.setLeft a (.keysOf t))).1 =
      { h with lists := h.lists ++ [k.keys], ars := h.ars.set a { o with left := some h.lists.length } } ∧
    ∀ o' ∈ h.ars, o'.left ≠ some h.lists.length ∧ o'.right ≠ some h.lists.length := by
  refine ⟨by simp [Heap.step, Heap.storeSrc, ho, hk], fun o' ho' => ?_⟩
  have := hw o' ho'
  exact ⟨fun e => Nat.lt_irrefl _ (this.1 _ e), fun e => Nat.lt_irrefl _ (this.2 _ e)⟩

/-- **`set_left(list)` / `set_right(list)` ALIAS the caller's list**: the attribute refers to the
    very cell that was handed over; nothing is copied (recorded behaviour of the unchanged code) -/
theorem set_aliases (h : Heap κ) (a : Nat) (r : Ref) (o : ARObj) (ho : h.ars[a]? = some o)
    (hr : r < h.lists.length) :
    (h.step (.setLeft a (.ref r))).1 = { h with ars := h.ars.set a { o with left := some r } } ∧
    (h.step (.setRight a (.ref r))).1 = { h with ars := h.ars.set a { o with right := some r } } := by
  simp [Heap.step, Heap.storeSrc, ho, hr]

/-- **`AddRemove` never mutates a list it was given** (nor any other): creating an instance, either
    setter with any argument, and iterating leave the contents of every existing list, every entity
    list and every `KeyedTuple` unchanged. -/
theorem addremove_readonly (h : Heap κ) (op : C20H.Op κ)
    (hop : op = .newAR ∨ (∃ a s, op = .setLeft a s) ∨ (∃ a s, op = .setRight a s) ∨ ∃ a, op = .iterate a)
    (r : Ref) (hr : r < h.lists.length) :
    (h.step op).1.lists[r]? = h.lists[r]? ∧ (h.step op).1.elists = h.elists ∧
    (h.step op).1.kts = h.kts := by
  refine ⟨C20HP.step_lists_frame h op r hr ?_, ?_, ?_⟩
  · intro m e
    rcases hop with rfl | ⟨a, s, rfl⟩ | ⟨a, s, rfl⟩ | ⟨a, rfl⟩ <;> cases e
  · rcases hop with rfl | ⟨a, s, rfl⟩ | ⟨a, s, rfl⟩ | ⟨a, rfl⟩
    · rfl
    · simp only [Heap.step]
      split
      · next o h' r' _ hs => simp [(C20HP.storeSrc_spec h h' s r' hs).2.2.1]
      · rfl
    · simp only [Heap.step]
      split
      · next o h' r' _ hs => simp [(C20HP.storeSrc_spec h h' s r' hs).2.2.1]
      · rfl
    · simp only [Heap.step]
      split <;> rfl
  · rcases hop with rfl | ⟨a, s, rfl⟩ | ⟨a, s, rfl⟩ | ⟨a, rfl⟩
    · rfl
    · simp only [Heap.step]
      split
      · next o h' r' _ hs => simp [(C20HP.storeSrc_spec h h' s r' hs).1]
      · rfl
    · simp only [Heap.step]
      split
      · next o h' r' _ hs => simp [(C20HP.storeSrc_spec h h' s r' hs).1]
      · rfl
    · simp only [Heap.step]
      split <;> rfl

/-- **the contents of a list change only by the caller's own mutations of that list**: after ANY
    history (setters, iterations, `keys()`, new objects, mutations of other lists, …) the list `r`
    holds its old contents with exactly the caller's mutations of `r` applied, in order. -/
theorem heap_cell_spec (h : Heap κ) (ops : List (C20H.Op κ)) (r : Ref) (c : List κ) (hc : h.lists[r]? = some c) :
    (Heap.final h ops).lists[r]? = some (applyMuts c (mutsOf r ops)) :=
  C20HP.final_cell h ops r c hc

/-- **iterating yields the closed form of the CURRENT contents of the two lists** the attributes
    refer to (so a caller who mutates a list it handed over by reference changes the next diff — the
    unchanged code does exactly that), `TypeError` while a side is `None`; the heap is unchanged. -/
theorem heap_iterate_spec (h : Heap κ) (hw : h.WF) (a : Nat) (o : ARObj) (ho : h.ars[a]? = some o) :
    h.step (.iterate a) = (h, .diff (specOut (h.deref o.left) (h.deref o.right))) := by
  have hom : o ∈ h.ars := List.mem_of_getElem? ho
  obtain ⟨hl, hr⟩ := hw o hom
  simp only [Heap.step, ho, Heap.iterate, Heap.deref]
  cases hL : o.left with
  | none => rfl
  | some l =>
    cases hR : o.right with
    | none =>
      obtain ⟨lc, hlc⟩ : ∃ lc, h.lists[l]? = some lc := ⟨_, List.getElem?_eq_getElem (hl l hL)⟩
      simp [hlc, specOut]
    | some r =>
      obtain ⟨lc, hlc⟩ : ∃ lc, h.lists[l]? = some lc := ⟨_, List.getElem?_eq_getElem (hl l hL)⟩
      obtain ⟨rc, hrc⟩ : ∃ rc, h.lists[r]? = some rc := ⟨_, List.getElem?_eq_getElem (hr r hR)⟩
      simp only [Option.bind_some, hlc, hrc, specOut, C20P.addRemove_eq_specD]

/-- the same at any point of any history from the empty heap: the n-th operation, if an iteration of
    `A a`, observes the closed form of what the two lists it refers to hold AT THAT MOMENT (by
    `heap_cell_spec`: their contents at creation changed by their owner's mutations only). -/
theorem heap_iterate_history (ops : List (C20H.Op κ)) (n a : Nat) (o : ARObj)
    (hq : ops[n]? = some (.iterate a)) (ho : (Heap.final Heap.init (ops.take n)).ars[a]? = some o) :
    (Heap.trace Heap.init ops)[n]? =
      some (.diff (specOut ((Heap.final Heap.init (ops.take n)).deref o.left)
        ((Heap.final Heap.init (ops.take n)).deref o.right))) := by
  rw [C20HP.trace_getElem?, hq, Option.map_some,
    heap_iterate_spec _ (C20HP.final_wf _ _ C20HP.init_wf) a o ho]

/-- the invariants hold in every heap reachable from the empty one -/
theorem heap_reachable_wf (ops : List (C20H.Op κ)) :
    (Heap.final Heap.init ops).WF ∧ (Heap.final Heap.init ops).KTInv :=
  ⟨C20HP.final_wf _ ops C20HP.init_wf, C20HP.final_ktinv _ ops C20HP.init_ktinv⟩

/-- `KeyedTuple(...)` COPIES: the new object is `KeyedTuple` of the elements the argument has NOW
    (new entities / the caller's list / another object's values, items, sum), at a new address. -/
theorem heap_newkt_spec (h : Heap κ) (s : KSrc κ) (es : List (Ent κ)) (n : Nat) (hs : h.ksrcEnts s = some (es, n)) :
    (h.step (.newKT s)).1.kts = h.kts ++ [KT.new es] ∧ (h.step (.newKT s)).1.lists = h.lists ∧
    (h.step (.newKT s)).1.elists = h.elists ∧ (h.step (.newKT s)).1.ars = h.ars := by
  simp [Heap.step, hs]

/-- … and what the caller does to its list AFTERWARDS (or anything else that happens) does not reach
    the object: after any history it is still the `KeyedTuple` of the contents at construction. -/
theorem heap_newkt_copies (h : Heap κ) (r : Ref) (es : List (Ent κ)) (hes : h.elists[r]? = some es)
    (ops : List (C20H.Op κ)) :
    (Heap.final (h.step (.newKT (.elist r))).1 ops).kts[h.kts.length]? = some (KT.new es) := by
  apply C20HP.final_kts_getElem?
  simp [Heap.step, Heap.ksrcEnts, hes]

/-- **Immutability across the whole interaction.**  In every history over the heap, if the
    `KeyedTuple` number `t` exists after the first `m` operations with elements `es`, then EVERY later
    query on it — whatever was handed to whichever `AddRemove`, whichever list was mutated, whatever
    was iterated or built in between — answers the closed form over `es` (file order with duplicates
    for `keys/values/items`, the last entity for `kt[key]`, …). -/
theorem heap_kt_forever (ops : List (C20H.Op κ)) (m n t : Nat) (hmn : m ≤ n) (k : KT κ) (q : Q κ)
    (hk : (Heap.final Heap.init (ops.take m)).kts[t]? = some k) (hq : ops[n]? = some (.ask t q)) :
    (Heap.trace Heap.init ops)[n]? = some (.res (specAsk k.items q)) := by
  rw [C20HP.trace_getElem?, hq, Option.map_some]
  have hsplit : ops.take n = ops.take m ++ (ops.take n).drop m := by
    have := List.take_append_drop m (ops.take n)
    rw [List.take_take, Nat.min_eq_left hmn] at this
    exact this.symm
  have hk' : (Heap.final Heap.init (ops.take n)).kts[t]? = some k := by
    rw [hsplit, C20HP.final_append]
    exact C20HP.final_kts_getElem? _ _ t k hk
  have hinv : k = KT.new k.items :=
    (heap_reachable_wf (ops.take n)).2 k (List.mem_of_getElem? hk')
  simp only [Heap.step, hk', C20HP.ktinv_step k hinv q]

/-- the same for the lists made of `keys()` / `values()` / `items()` at any later point -/
theorem heap_kt_lists_forever (ops : List (C20H.Op κ)) (m n t : Nat) (hmn : m ≤ n) (k : KT κ)
    (hk : (Heap.final Heap.init (ops.take m)).kts[t]? = some k) :
    (ops[n]? = some (.keysToList t) → (Heap.trace Heap.init ops)[n]? = some (.keys (k.items.map (·.key)))) ∧
    (ops[n]? = some (.valuesToList t) → (Heap.trace Heap.init ops)[n]? = some (.ents k.items)) ∧
    (ops[n]? = some (.itemsToList t) →
      (Heap.trace Heap.init ops)[n]? = some (.res (.items (k.items.map (fun v => (v.key, v)))))) := by
  have hsplit : ops.take n = ops.take m ++ (ops.take n).drop m := by
    have := List.take_append_drop m (ops.take n)
    rw [List.take_take, Nat.min_eq_left hmn] at this
    exact this.symm
  have hk' : (Heap.final Heap.init (ops.take n)).kts[t]? = some k := by
    rw [hsplit, C20HP.final_append]
    exact C20HP.final_kts_getElem? _ _ t k hk
  refine ⟨fun hq => ?_, fun hq => ?_, fun hq => ?_⟩ <;>
    (rw [C20HP.trace_getElem?, hq, Option.map_some]; simp [Heap.step, hk', KT.keys, KT.values, KT.itemPairs])

/-- the flow of `ContentComparer.compare`: `ar.set_left(ref.keys()); ar.set_right(l10n.keys());
    list(ar)` and then any query on either file: the diff is the closed form of the two key
    sequences in file order, and the query is answered as if nothing had happened. -/
theorem heap_content_flow (h : Heap κ) (hi : h.KTInv) (a t u : Nat) (kt ku : KT κ)
    (q : Q κ) (ha : a < h.ars.length) (ht : h.kts[t]? = some kt) (hu : h.kts[u]? = some ku) :
    Heap.trace h [.setLeft a (.keysOf t), .setRight a (.keysOf u), .iterate a, .ask t q, .ask u q] =
      [.nothing, .nothing, .diff (.ok (specD (kt.items.map (·.key)) (ku.items.map (·.key)))),
        .res (specAsk kt.items q), .res (specAsk ku.items q)] := by
  have hkt := C20HP.ktinv_step kt (hi kt (List.mem_of_getElem? ht)) q
  have hku := C20HP.ktinv_step ku (hi ku (List.mem_of_getElem? hu)) q
  simp [Heap.trace, Heap.step, Heap.storeSrc, Heap.iterate, ht, hu, ha, hkt, hku, KT.keys,
    C20P.addRemove_eq_specD]

/-! non-vacuity / witnesses for round 5 -/

/-- a caller who mutates a list it handed over BY REFERENCE changes the next diff (aliasing), while the
    list made of `keys()` and the `KeyedTuple` are out of its reach -/
example :
    Heap.trace (Heap.init : Heap Nat)
      [.newList [1, 2], .newKT (.lit [2, 3, 2]), .newAR, .setLeft 0 (.ref 0), .setRight 0 (.keysOf 0),
        .iterate 0, .mutList 0 (.append 3), .readList 1, .ask 0 .keys] =
      [.nothing, .nothing, .nothing, .nothing, .nothing,
        .diff (.ok (addRemove [1, 2] [2, 3, 2])), .nothing, .keys [2, 3, 2], .res (.keys [2, 3, 2])] := by
  rfl

example : (Heap.final (Heap.init : Heap Nat)
      [.newList [1, 2], .newKT (.lit [2, 3, 2]), .newAR, .setLeft 0 (.ref 0), .setRight 0 (.keysOf 0),
        .mutList 0 (.append 3)]).lists = [[1, 2, 3], [2, 3, 2]] ∧
    (Heap.final (Heap.init : Heap Nat)
      [.newList [1, 2], .newKT (.lit [2, 3, 2]), .newAR, .setLeft 0 (.ref 0), .setRight 0 (.keysOf 0),
        .mutList 0 (.append 3)]).ars = [{ left := some 0, right := some 1 }] := ⟨rfl, rfl⟩

/-- `heap_iterate_spec` needs `WF`: an attribute that refers to no list is outside the model -/
example : ¬ ({ lists := [], elists := [], kts := [], ars := [{ left := some 0, right := some 0 }], nextId := 0 } :
    Heap Nat).WF := by
  intro hw
  exact Nat.lt_irrefl 0 ((hw _ (List.mem_singleton.mpr rfl)).1 0 rfl)

end Heap

end C20

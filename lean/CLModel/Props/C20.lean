/-
C20 — Key-level diff and keyed lookup respect both files' orders.
Property theorems only (helper lemmas live in CLModel/Proofs/).
-/
import CLModel.Compare.AddRemove
namespace C20
open AR

variable {α : Type} [BEq α] [LawfulBEq α]

/-- The diff of two duplicate-free key sequences is the closed form `spec`:
    left order kept, each right-only key right after the last key that precedes
    it in `right` and is also in `left`. -/
theorem addRemove_eq_spec (l r : List α) (hl : l.Nodup) (hr : r.Nodup) :
    addRemove l r = spec l r := by
  sorry

/-- every key of either side exactly once -/
theorem ar_keys_perm (l r : List α) (hl : l.Nodup) (hr : r.Nodup) :
    ((addRemove l r).map (·.2)).Perm (l ++ r.filter (fun x => !l.contains x)) := by
  sorry

theorem ar_keys_nodup (l r : List α) (hl : l.Nodup) (hr : r.Nodup) :
    ((addRemove l r).map (·.2)).Nodup := by
  sorry

/-- labels are decided by membership alone -/
theorem ar_labels (l r : List α) (hl : l.Nodup) (hr : r.Nodup) :
    ∀ p ∈ addRemove l r,
      p.1 = (if l.contains p.2 then (if r.contains p.2 then Label.equal else Label.delete) else Label.add) := by
  sorry

/-- the first sequence's order is kept -/
theorem ar_left_order (l r : List α) (hl : l.Nodup) (hr : r.Nodup) :
    ((addRemove l r).filter (fun p => p.1 != Label.add)).map (·.2) = l := by
  sorry

/-- keyed lookup returns the last entity with the key -/
theorem keyed_last {κ : Type} [BEq κ] [LawfulBEq κ] (keys : List κ) (k : κ) :
    keyedIndex keys k = (if keys.contains k then some (keys.length - 1 - (keys.reverse.idxOf k)) else none) := by
  sorry

theorem keyed_contains {κ : Type} [BEq κ] [LawfulBEq κ] (keys : List κ) (k : κ) :
    keyedContains keys k = keys.contains k := by
  sorry

end C20

/- C12 — Pattern expansion, matching and prefix are mutually consistent (property theorems). -/
import CLModel.Paths.Matcher
import CLModel.Proofs.C12Star
import CLModel.Proofs.C12Prefix
import CLModel.Proofs.C12PrefixFull
import CLModel.Proofs.C12Android
import CLModel.Proofs.C12Bound
import CLModel.Proofs.C12Term
import CLModel.Proofs.C11Witness
import CLModel.Proofs.C12RSep
import CLModel.Proofs.C12RExample
namespace C12
open Rx PM

/-- A single star never matches across a directory separator: whenever `Matcher.match(path)` returns a
    dictionary, the value reported for the group `s<n>` of a top-level `*` contains no '/'.
    (For every pattern, environment and path; uses that `re.compile` accepted the pattern, i.e. that
    group names are distinct, which `match` returning a dictionary implies.) -/
theorem star_no_slash {m : Matcher} {path : Text} {d : GroupDict} {n : Nat} {v : Text}
    (h : m.match path = .ok (some d)) (hn : Node.star n ∈ m.pattern.nodes)
    (hl : d.lookup (sname n) = some (some v)) : 47 ∉ v := by
  obtain ⟨re, names, st, hre, hst, hd⟩ := match_inv h
  have hv := dict_lookup_sname hd hre hl
  obtain ⟨a, b, hc, rfl⟩ := groupText_some hv.symm
  obtain ⟨x, y, hxy, rfl, rfl⟩ := cap_of_group hre hst (star_group_mem hre hn) hc
  obtain ⟨mn, mx, g, hfrag⟩ : ∃ mn mx g, Gen.Pat.matcher_frag_star = Re.rep mn mx g (Re.notLit 47) :=
    ⟨_, _, _, rfl⟩
  intro hmem
  obtain ⟨j, hj1, hj2, hj3⟩ := mem_slice hmem
  have := sem_rep_all (s := path.toArray) (P := fun j => ∃ d, path.toArray[j]? = some d ∧ d ≠ 47)
    (body := Re.notLit 47) (by
      intro x y hxy j h1 h2
      obtain ⟨hp, d, hd, hne⟩ := sem_notLit hxy
      have : j = x.pos := by omega
      subst this; exact ⟨d, hd, hne⟩) hxy hfrag j hj1 hj2
  obtain ⟨d', hd', hne⟩ := this
  rw [hj3] at hd'
  simp at hd'
  exact hne hd'.symm

/-- A double star followed by '/' matches zero or more *whole* directories: the value reported for its
    group is either `None` (no directory) or a non-empty text that ends with '/'. -/
theorem starstar_whole_dirs {m : Matcher} {path : Text} {d : GroupDict} {n : Nat} {ov : Option Text}
    (h : m.match path = .ok (some d)) (hn : Node.starstar n [47] ∈ m.pattern.nodes)
    (hl : d.lookup (sname n) = some ov) :
    ov = none ∨ ∃ v, ov = some v ∧ v ≠ [] ∧ v.getLast? = some 47 := by
  cases ov with
  | none => exact Or.inl rfl
  | some v =>
    right
    refine ⟨v, rfl, ?_⟩
    obtain ⟨re, names, st, hre, hst, hd⟩ := match_inv h
    have hv := dict_lookup_sname hd hre hl
    obtain ⟨a, b, hc, rfl⟩ := groupText_some hv.symm
    obtain ⟨x, y, hxy, rfl, rfl⟩ := cap_of_group hre hst (starstar_group_mem hre hn) hc
    simp only [List.map_cons, List.map_nil, seqOf] at hxy
    cases hxy with
    | seq h1 h2 =>
      rename_i mid
      cases h2 with
      | lit hc47 =>
        have hle := h1.pos_le
        have hlt := getElem?_some_lt hc47
        have hsz : path.toArray.size = path.length := by simp
        have hlen : (slice path.toArray x.pos (mid.pos + 1)).length = mid.pos + 1 - x.pos := by
          simp only [slice, Array.length_toList, Array.size_extract]; omega
        refine ⟨?_, ?_⟩
        · intro he
          rw [he] at hlen
          simp at hlen; omega
        · rw [List.getLast?_eq_getElem?, hlen]
          simp only [slice, Array.getElem?_toList, Array.getElem?_extract]
          rw [if_pos (by omega)]
          have : x.pos + (mid.pos + 1 - x.pos - 1) = mid.pos := by omega
          rw [this]; exact hc47

/-- Nothing but complete paths match: after a successful `match` the regular expression has consumed the
    whole path (`_cache_regex` anchors with `\Z`; a path with a trailing newline is not matched, see
    `trailing_newline_rejected`). -/
theorem only_complete_paths {m : Matcher} {path : Text} {d : GroupDict}
    (h : m.match path = .ok (some d)) :
    ∃ re names st, m.regexOf = .ok (re, names) ∧ matchAt path.toArray re 0 = some st ∧
      st.pos = path.length := by
  obtain ⟨re, names, st, hre, hst, _⟩ := match_inv h
  refine ⟨re, names, st, hre, hst, ?_⟩
  obtain ⟨items, _, rfl, _⟩ := regexOf_inv hre
  obtain ⟨mid, _, h2⟩ := (sem_seqOf _ (matchAt_sem hst)).append
  cases h2 with
  | cons ha hn =>
    cases hn
    have hanchor : Gen.Pat.matcher_frag_anchor = Re.eos := rfl
    rw [hanchor] at ha
    cases ha with
    | eos hc => simpa using hc

/-- **Every path a matcher matches starts with the matcher's prefix**, for every matcher obtained by
    `Matcher(pattern, env, root)` (any pattern text, any environment: nested, self-referential, Android
    locale, repeated variables; any root) and every path: whenever `match(path)` returns a dictionary and
    `prefix` returns a text, that text is a prefix of the path.  (Both are partial: see the witnesses for
    F11, F12 and the locale/android_locale cycle; the statement is about the cases where they return.) -/
theorem match_has_prefix {pat : Text} {env : List (Text × Text)} {root : Option Text} {m : Matcher}
    {path : Text} {d : GroupDict} {pre : Text} (hm : mkMatcher pat env root = .ok m)
    (h : m.match path = .ok (some d)) (hp : m.prefix = .ok pre) : pre <+: path :=
  prefix_of_match (mkMatcher_shape hm).1 (mkMatcher_shape hm).2 h hp

/-- the same after `with_env` (how `ProjectFiles` derives the per-locale matchers) -/
theorem match_has_prefix_with_env {pat : Text} {env env' : List (Text × Text)} {root : Option Text}
    {m m' : Matcher} {path : Text} {d : GroupDict} {pre : Text} (hm : mkMatcher pat env root = .ok m)
    (hw : m.withEnv env' = .ok m') (h : m'.match path = .ok (some d)) (hp : m'.prefix = .ok pre) :
    pre <+: path :=
  prefix_of_match (withEnv_shape (mkMatcher_shape hm) hw).1 (withEnv_shape (mkMatcher_shape hm) hw).2 h hp

/-- and for any `Matcher` value of the right shape (environment of parsed unrooted patterns; every repeated
    occurrence of a variable has a first occurrence among its siblings) -/
theorem match_has_prefix_of_shape {m : Matcher} {path : Text} {d : GroupDict} {pre : Text}
    (henv : EnvOK' m.env) (hrep : RepOK m.pattern.nodes)
    (h : m.match path = .ok (some d)) (hp : m.prefix = .ok pre) : pre <+: path :=
  prefix_of_match henv hrep h hp

/-- non-vacuity: a repeated variable, "{l}/x-{l}.ftl" with l = "de" -/
example : matchOutcome "{l}/x-{l}.ftl" [("l", "de")] none "de/x-de.ftl" = .groups [(T "l", some (T "de"))] ∧
    prefixOutcome "{l}/x-{l}.ftl" [("l", "de")] none = .text (T "de/x-de.ftl") := by decide +kernel

/-- non-vacuity of `match_returns_bound_values` / `matches_own_expansion_partial` (shape `EnvOK`, `NoRep`):
    `Matcher("l/{locale}/*.ftl", {"locale": "de"})` (`exampleMatcher_is`) satisfies the hypotheses, matches
    "l/de/a.ftl" and has the prefix "l/de/" -/
example : EnvOK exampleMatcher.env ∧
    NoRep (exampleMatcher.pattern.nodes.take exampleMatcher.pattern.prefixLen) ∧
    exampleMatcher.match (T "l/de/a.ftl") = .ok (some [(localeName, some (T "de")), (T "s1", some (T "a"))]) ∧
    exampleMatcher.prefix = .ok (T "l/de/") := by
  refine ⟨?_, ?_, matchIs_spec (by decide +kernel), okEq_spec (by decide +kernel)⟩
  · intro k v hm
    simp only [exampleMatcher, List.mem_singleton, Prod.mk.injEq] at hm
    obtain ⟨_, rfl⟩ := hm
    refine ⟨rfl, fun n hn => ?_⟩
    simp only [List.mem_singleton] at hn
    subst hn; trivial
  · intro n hn
    simp only [exampleMatcher, List.take] at hn
    simp only [List.mem_cons, List.not_mem_nil, or_false] at hn
    rcases hn with rfl | rfl | rfl <;> simp [NodeNoRep]

/-- The shape hypothesis `EnvOK` of the theorems above, for a matcher built by `Matcher(pattern, env, root)`:
    its environment values are parsed, unrooted patterns (always), so `EnvOK` only asks that no
    environment value repeats a variable. -/
theorem constructed_matcher_envOK {pat : Text} {env : List (Text × Text)} {root : Option Text} {m : Matcher}
    (h : mkMatcher pat env root = .ok m) (hnr : ∀ k p, (k, Val.pat p) ∈ m.env → NoRep p.nodes) : EnvOK m.env :=
  mkMatcher_envOK h hnr

/-! ### a fully bound pattern and its own expansion -/

/-- A fully bound pattern expands to a path that the same matcher matches: if every variable is bound
    (the expansion with `raise_missing=True` succeeds and gives `path`; no wildcards, since they cannot be
    expanded) and `re.compile` accepts the pattern (`regexOf` succeeds: no duplicate group name, F12),
    then `match(path)` is not `None`.  Proved by running the engine through the literal-like regex.
    Restriction (not forced, hence `_partial`): no variable occurs a second time (`NoRep`). -/
theorem matches_own_expansion_partial {m : Matcher} {path : Text} {re : Re} {names : List Text}
    (henv : EnvOK m.env) (hnr : NoRep m.pattern.nodes)
    (hexp : expandPat (expandVal (fuelFor m.env)) m.pattern m.env true = .ok path)
    (hre : m.regexOf = .ok (re, names)) : m.match path ≠ .ok none := by
  obtain ⟨items, hrx, rfl, _⟩ := regexOf_inv hre
  obtain ⟨root, citems, hroot, hch, rfl⟩ := rxPat_inv hrx
  simp only [expandPat, hroot, bind, Except.bind] at hexp
  split at hexp
  · cases hexp
  · rename_i body hbody
    simp only [pure, Except.pure, Except.ok.injEq] at hexp
    subst hexp
    have hlit : LitLike (root.map Re.lit ++ citems) (root ++ body) :=
      (litlike_lits root).append (litlike_children (litlike_val _ _) henv hnr hbody hch)
    have hta : TextAt (root ++ body).toArray 0 (root ++ body) := by
      intro j _; simp
    obtain ⟨caps', hrun⟩ := litlike_run (s := (root ++ body).toArray) hlit ⟨0, []⟩
      (fun st' => Rx.m (root ++ body).toArray (seqOf [Gen.Pat.matcher_frag_anchor]) st' some) hta
    have hm : matchAt (root ++ body).toArray
        (seqOf (root.map Re.lit ++ citems ++ [Gen.Pat.matcher_frag_anchor])) 0 =
        some ⟨(root ++ body).length, caps'⟩ := by
      unfold matchAt
      rw [m_seqOf_append, hrun]
      have hanchor : Gen.Pat.matcher_frag_anchor = Re.eos := rfl
      simp [seqOf, hanchor, Rx.m]
    intro hnone
    simp only [Matcher.match, hre, bind, Except.bind, hm] at hnone
    split at hnone
    · split at hnone
      · split at hnone <;> cases hnone
      · cases hnone
    · cases hnone

/-- ... returning the bound variable values: after a successful `match`, the entry of a (first occurrence
    of a) top-level variable that is bound in the environment is the expansion of its value — for every
    pattern (wildcards included), environment and path; the variable's own value must be wildcard-free and
    fully bound (its expansion `t` exists). -/
theorem match_returns_bound_values {m : Matcher} {path : Text} {d : GroupDict} {name : Text} {v : Val} {t : Text}
    (henv : EnvOK m.env) (h : m.match path = .ok (some d)) (hn : Node.var name false ∈ m.pattern.nodes)
    (hl : m.env.lookup name = some v)
    (ht : expandVal (fuelFor m.env) v (derase m.env name) true = .ok t) :
    d.lookup name = some (some t) := by
  obtain ⟨re, names, st, hre, hst, hd⟩ := match_inv h
  obtain ⟨items, hrx, hreq, _⟩ := regexOf_inv hre
  obtain ⟨root, citems, _, hch, hitems⟩ := rxPat_inv hrx
  obtain ⟨a, na, hnode, hsub, hnames⟩ := rxChildren_mem hch hn
  simp only [rxNode, hl, Bool.false_eq_true, if_false, bind, Except.bind] at hnode
  split at hnode
  · cases hnode
  · rename_i w hw
    obtain ⟨body, ns⟩ := w
    simp only [pure, Except.pure, Except.ok.injEq, Prod.mk.injEq] at hnode
    obtain ⟨rfl, rfl⟩ := hnode
    have hex : Exact body t := exact_val _ _ v _ t body ns (henv.lookup hl) (henv.derase name) ht hw
    have hgi : Re.group (encName name) (seqOf body) ∈ items ++ [Gen.Pat.matcher_frag_anchor] := by
      rw [hitems]; simp [hsub _ (List.mem_singleton.mpr rfl)]
    have hg : (encName name, seqOf body) ∈ groups re := by
      rw [hreq, groups_seqOf]
      exact List.mem_flatMap.mpr ⟨_, hgi, by simp [groups]⟩
    have hsem := matchAt_sem hst
    rw [hreq] at hsem
    obtain ⟨a', b', hmem⟩ := (sem_seqOf _ hsem).group_cap hgi
    obtain ⟨a'', b'', hcap⟩ := capOf_of_mem hmem
    obtain ⟨x, y, hxy, rfl, rfl⟩ := cap_of_group hre hst hg hcap
    have hl' := sem_seqOf body hxy
    obtain ⟨hta, mid, hmid, hnil⟩ := hex _ [] x y (by simpa using hl')
    cases hnil
    have hgt : groupText path.toArray st (encName name) = some t := by
      simp only [groupText, St.group, hcap, hmid]
      rw [slice_textAt hta]
    have hname : name ∈ names := hnames name (by simp)
    have hlk : (groupDict path.toArray st names).lookup name = some (some t) := by
      unfold groupDict
      rw [lookup_map_mem (fun nm => groupText path.toArray st (encName nm)) name names hname, hgt]
    rcases hd with rfl | ⟨l, rfl⟩
    · exact hlk
    · exact lookup_append_left _ _ _ hlk

/-! ### termination (`_no_cycle`) -/

/-- `Variable._no_cycle`: expanding any value in any environment (self references, mutual references,
    chains of any depth) never nests deeper than `2 * len(env) + 3`, i.e. terminates, provided the value
    of "locale" does not itself contain `{android_locale}` (that excluded point recurses forever: finding C12-android-locale-cycle-recursion,
    `android_cycle_witness`). -/
theorem no_cycle_terminates (env : Env) (hs : AndroidSafe env) (v : Val) (rm : Bool) :
    expandVal (fuelFor env) v env rm ≠ .error .recursion :=
  (expandVal_norec (fuelFor env)).1 v env rm hs (by simp [fuelFor])

/-- hence `str(matcher)`, `matcher.prefix` and the construction of the regular expression terminate -/
theorem matcher_terminates (m : Matcher) (hs : AndroidSafe m.env) :
    m.str ≠ .error .recursion ∧ m.prefix ≠ .error .recursion ∧
    rxVal (fuelFor m.env) (.pat m.pattern) m.env ≠ .error .recursion :=
  ⟨expandTop_norec _ _ hs, expandTop_norec _ _ hs, rxVal_norec _ _ _ hs (by simp [fuelFor]; omega)⟩

/-- negation witness for `AndroidSafe` (finding C12-android-locale-cycle-recursion): with `locale = "{android_locale}"` the expansion of
    `{android_locale}` does not terminate (Python: RecursionError). -/
theorem android_cycle_witness :
    strOutcome "{android_locale}" [("locale", "{android_locale}")] none = .raised .recursion := by decide +kernel

/-- self and mutual references do terminate: `v = "{v}y"` and `v = "{w}", w = "{v}"` -/
example : strOutcome "a/{v}/b" [("v", "{v}y")] none = .text (T "a/") := by decide +kernel
example : strOutcome "a/{v}/b" [("v", "{w}"), ("w", "{v}")] none = .text (T "a/") := by decide +kernel

/-! ### witnesses for the exceptions of the other theorems -/

/-- a path with a trailing newline is not matched (`\Z`, not `$`): `Matcher('foo/*.ftl').match('foo/a.ftl\n')`
    is `None`, while the same path without the newline gives `{'s1': 'a'}` -/
theorem trailing_newline_rejected :
    matchOutcome "foo/*.ftl" [] none "foo/a.ftl\n" = .noMatch ∧
    matchOutcome "foo/*.ftl" [] none "foo/a.ftl" = .groups [(T "s1", some (T "a"))] := by decide +kernel

/-- F11: a rooted pattern that starts with a wildcard cannot be matched at all: KeyError -/
theorem rooted_wildcard_first_witness :
    matchOutcome "*/x" [] (some "/r/") "/r/a/x" = .raised .keyError ∧
    prefixOutcome "*/x" [] (some "/r/") = .raised .indexError := by decide +kernel

/-- F12: a variable reachable twice (directly and through an environment value) is a duplicate group
    name, `re.error` -/
theorem duplicate_group_witness :
    matchOutcome "{v}/{locale}" [("v", "{locale}x")] none "dex/de" = .raised .reError := by decide +kernel

/-- non-vacuity: star, double star, prefix on a typical l10n pattern -/
example : matchOutcome "{l10n_base}/{locale}/browser/**/*.ftl" [("l10n_base", "/l10n"), ("locale", "de")] none
      "/l10n/de/browser/a/b/c.ftl" =
    .groups [(T "l10n_base", some (T "/l10n")), (T "locale", some (T "de")), (T "s1", some (T "a/b/")),
             (T "s2", some (T "c"))] := by decide +kernel
example : prefixOutcome "{l10n_base}/{locale}/browser/**/*.ftl" [("l10n_base", "/l10n"), ("locale", "de")] none =
    .text (T "/l10n/de/browser/") := by decide +kernel
example : matchOutcome "foo/*.ftl" [] none "foo/a/b.ftl" = .noMatch := by decide +kernel

/-! ### Android locale codes -/

/-- For every locale compare-locales ships plural rules for (143 codes: languages, language-REGION) the
    Android form computed by `AndroidLocale._get_android_locale` is mapped back to the same locale by the
    conversion in `Matcher.match`.  Decided by evaluation of the model on the regenerated tables and regexes. -/
theorem android_roundtrip_shipped :
    ∀ l ∈ shippedLocales, ∃ a, toAndroid l = .ok a ∧ toStandard a = .ok l := by
  have h : shippedLocales.all androidRoundTrip = true := by decide +kernel
  intro l hl
  exact androidRoundTrip_spec (List.all_eq_true.mp h l hl)

/-- The same for a curated list covering language, language-REGION, script (+region), numeric region,
    variant and the legacy codes he/id/yi without region, with region, and in the `b+` form. -/
theorem android_roundtrip_curated :
    ∀ l ∈ curatedLocales, ∃ a, toAndroid l = .ok a ∧ toStandard a = .ok l := by
  have h : curatedLocales.all androidRoundTrip = true := by decide +kernel
  intro l hl
  exact androidRoundTrip_spec (List.all_eq_true.mp h l hl)

/-- the three resource-qualifier forms: "he-IL" -> "iw-rIL", "sr-Latn" -> "b+sr+Latn", "id" -> "in" -/
theorem android_forms :
    toAndroid [104, 101, 45, 73, 76] = .ok [105, 119, 45, 114, 73, 76] ∧
    toAndroid [115, 114, 45, 76, 97, 116, 110] = .ok [98, 43, 115, 114, 43, 76, 97, 116, 110] ∧
    toAndroid [105, 100] = .ok [105, 110] :=
  ⟨okEq_spec (by decide +kernel), okEq_spec (by decide +kernel), okEq_spec (by decide +kernel)⟩

/-- a legacy language code in the `b+` form comes back: "he-Hebr-IL" -> "b+iw+Hebr+IL" -> "he-Hebr-IL"
    (`match` normalises `b+`/`+` before it maps the legacy code) -/
theorem android_legacy_bplus_roundtrip :
    toAndroid [104, 101, 45, 72, 101, 98, 114, 45, 73, 76] = .ok [98, 43, 105, 119, 43, 72, 101, 98, 114, 43, 73, 76] ∧
    toStandard [98, 43, 105, 119, 43, 72, 101, 98, 114, 43, 73, 76] = .ok [104, 101, 45, 72, 101, 98, 114, 45, 73, 76] :=
  ⟨okEq_spec (by decide +kernel), okEq_spec (by decide +kernel)⟩

/-- Limits outside the property's locale list: the legacy substitution is not anchored on the left
    ("cin" -> "cin" -> "cid"), and the region test is a prefix match ("en-US-x-foo" -> "en-rUS" -> "en-US"). -/
theorem android_limits_witness :
    androidRoundTrip [99, 105, 110] = false ∧
    androidRoundTrip [101, 110, 45, 85, 83, 45, 120, 45, 102, 111, 111] = false := by decide +kernel

/-! ### a pattern WITH wildcards and the path obtained by filling them -/

/-- **expand -> match with wildcards** (completeness *and* uniqueness of the backtracking matcher).
    Take a matcher of the restricted class `C11R.InClassN`: its top-level nodes are literals, `*`, `**/` (or `**`
    at the very end) and first occurrences of variables that are fully bound, i.e. `Variable.expand(env,
    raise_missing=True)` returns a text — the value may itself use other variables, as `{l}` =
    "{l10n_base}/{locale}/" does (environment of the `Matcher` shape `EnvOK`: parsed unrooted patterns, no variable
    twice inside one value); any root.  Fill the wildcard numbered `n` with `vs n` (`C11R.fillN`: literals stay, a
    variable contributes its expansion) and assume the filling is well separated (`C11R.WellSepN` = `C11R.PSep` of
    the filled items):
      * the value of a `*` contains no `/`, and the literal (or variable expansion) that follows the star does not
        occur again at a later position of the `/`-free run after the value (`C11R.NoLaterHit`; sufficient: its
        first character does not occur again before the next `/` — `C11R.noLaterHit_of_first`, e.g. it starts
        with `/` — `C11R.noLaterHit_slash`; nothing is asked of a star that ends the pattern — `C11R.noLaterHit_nil`);
      * the value of a `**/` is empty (no directory, reported as `None`) or a non-empty newline-free text followed
        by `/`, and no further double star comes after it (any literals, stars and variables may: the rest of the
        pattern matches only texts with its own number of `/`, `C11R.run_toks_slash_fail`);
      * the value of a final `**` is any newline-free text (empty = `None`).
    If moreover `re.compile` accepts the pattern (distinct group names, F12; `names` = its group names), the pattern
    does not use `{android_locale}`, and the root decision succeeds (F11) — all of this is the bundle
    `C11R.Fillable vs m names rt` — then `match` on `root + filled path` returns a
    dictionary whose keys are the group names and which maps `s<n>` to `vs n` for every `*`, to `vs n` (`None` if
    empty) for every `**`, and every top-level variable to its expansion.
    The greedy `[^/]*` first takes the longest run, every longer candidate is refuted by the literal that follows,
    the intended one succeeds (`C11R.run_toks`); a variable's nested groups run like a literal text
    (`C11R.litlike_glok`).
    Full statement (not proved, hence `_partial`): the same with repeated variables (back-references),
    `{android_locale}`, and variables left unbound (captured from the path).  The separator hypotheses for `*`,
    the value shapes and "only one double star with directories" are forced (`star_separator_witness`,
    `wildcard_value_witness`, `two_starstar_match_witness`). -/
theorem expand_match_star_partial {m : Matcher} {vs : Nat → Text} {names : List Text} {rt : Text}
    (h : C11R.Fillable vs m names rt) :
    ∃ d, m.match (rt ++ C11R.fillN vs m.env m.pattern.nodes) = .ok (some d) ∧ d.map (·.1) = names ∧
      (∀ n, Node.star n ∈ m.pattern.nodes → d.lookup (sname n) = some (some (vs n))) ∧
      (∀ n sfx, Node.starstar n sfx ∈ m.pattern.nodes →
        d.lookup (sname n) = some (if vs n = [] then none else some (vs n))) ∧
      (∀ name t, Node.var name false ∈ m.pattern.nodes →
        expandNode (expandVal (fuelFor m.env)) (.var name false) m.env true = .ok t →
        d.lookup name = some (some t)) := by
  obtain ⟨re, hre⟩ := h.compiles
  obtain ⟨g, hm, hg⟩ := C11R.match_fillN h.env h.cls hre h.noAndroidGroup h.root h.sep
  refine ⟨_, hm, by simp [List.map_map, Function.comp_def], ?_, ?_, ?_⟩
  · intro n hn
    obtain ⟨h1, h2⟩ := hg _ hn (sname n) (by simp [C11R.nameOfN])
    rw [lookup_map_mem (fun nm => g nm) (sname n) names h1, h2]; rfl
  · intro n sfx hn
    obtain ⟨h1, h2⟩ := hg _ hn (sname n) (by simp [C11R.nameOfN])
    rw [lookup_map_mem (fun nm => g nm) (sname n) names h1, h2]; rfl
  · intro name t hn ht
    obtain ⟨h1, h2⟩ := hg _ hn name (by simp [C11R.nameOfN])
    rw [lookup_map_mem (fun nm => g nm) name names h1, h2]
    simp only [C11R.valOf, C11R.varText, ht]

/-- The filled path *is* the expansion of the pattern once the wildcards are bound: whatever dictionary `match`
    returned for it, `Pattern.expand` in the environment "those groups, then the matcher's own environment" gives
    back `root + filled path`.  So `expand_match_star_partial` reads: a pattern whose variables and wildcards are
    all bound expands to a path that the same matcher matches, returning the bound values.
    (`C11R.Expandable`: the environment is a dict — distinct keys — none named like a wildcard group, values
    without `{android_locale}`.) -/
theorem filled_path_is_expansion_partial {m : Matcher} {vs : Nat → Text} {names : List Text} {rt : Text}
    {d : GroupDict} (h : C11R.Fillable vs m names rt) (he : C11R.Expandable m)
    (hd : m.match (rt ++ C11R.fillN vs m.env m.pattern.nodes) = .ok (some d)) :
    expandTop m.pattern (subEnv d m.env) = .ok (rt ++ C11R.fillN vs m.env m.pattern.nodes) := by
  obtain ⟨re, hre⟩ := h.compiles
  have hs := C11R.sub_fillN h.env h.cls hre h.noAndroidGroup h.root h.sep h.cls (h.goodEnv he) h.root he.keys
    he.noWildKey (fun _ h => h)
  rw [PM.sub_of_match hd] at hs
  cases hx : expandTop m.pattern (subEnv d m.env) with
  | error e => simp [hx, Except.map] at hs
  | ok t => simpa [hx, Except.map] using hs

/-- non-vacuity of the wildcard theorems: `C11R.wildMatcher` is what
    `Matcher("{l}browser/**/*.ftl", {"l": "{l10n_base}/{locale}/", "l10n_base": "/l10n", "locale": "de"})` builds
    (`C11R.wildMatcher_is`); with the values `**/` = "a/b/", `*` = "c.d" (a dot inside the star value: the engine has
    to backtrack) all hypotheses hold (`C11R.wildMatcher_ok`), the filled path is "/l10n/de/browser/a/b/c.d.ftl"
    (`C11R.wild_fill`), and evaluating the model gives the dictionary the theorem describes. -/
example : matcherOf "{l}browser/**/*.ftl" [("l", "{l10n_base}/{locale}/"), ("l10n_base", "/l10n"), ("locale", "de")]
      none = .ok C11R.wildMatcher ∧
    ((∃ names, C11R.Fillable C11R.wildVals C11R.wildMatcher names []) ∧ C11R.Expandable C11R.wildMatcher) ∧
    [] ++ C11R.fillN C11R.wildVals C11R.wildMatcher.env C11R.wildMatcher.pattern.nodes =
      T "/l10n/de/browser/a/b/c.d.ftl" ∧
    C11R.wildMatcher.match (T "/l10n/de/browser/a/b/c.d.ftl") =
      .ok (some [(T "l", some (T "/l10n/de/")), (T "l10n_base", some (T "/l10n")), (localeName, some (T "de")),
                 (T "s1", some (T "a/b/")), (T "s2", some (T "c.d"))]) :=
  ⟨C11R.wildMatcher_is, C11R.wildMatcher_ok, C11R.wild_fill, matchIs_spec (by decide +kernel)⟩

/-- The separator hypothesis for `*` is forced: "a.b.c" is the pattern "*.*" filled with ("a", "b.c"), where the
    literal "." occurs again later in the run; `match` returns the other decomposition. -/
theorem star_separator_witness :
    matchOutcome "*.*" [] none "a.b.c" = .groups [(T "s1", some (T "a.b")), (T "s2", some (T "c"))] := by
  decide +kernel

/-- Forced value shapes: a `/` in a star value, a `**/` value that is not whole directories ("" before the
    `/`, no trailing `/`) or contains a newline, and a newline in a final `**` are not matched at all. -/
theorem wildcard_value_witness :
    matchOutcome "*.x" [] none "a/b.x" = .noMatch ∧
    matchOutcome "a/**/x" [] none "a//x" = .noMatch ∧
    matchOutcome "a/**/x" [] none "a/bx" = .noMatch ∧
    matchOutcome "a/**/x" [] none "a/b\nc/x" = .noMatch ∧
    matchOutcome "a/**" [] none "a/b\nc" = .noMatch := by decide +kernel

/-- "One double star" is forced: "a/x/x/x/q.f" is "a/**/x/**/*.f" filled with (nothing, "x/", "q") and also with
    ("x/", nothing, "q") ...; `match` reports the greedy decomposition ("x/x/", nothing, "q"). -/
theorem two_starstar_match_witness :
    matchOutcome "a/**/x/**/*.f" [] none "a/x/x/x/q.f" =
      .groups [(T "s1", some (T "x/x/")), (T "s2", none), (T "s3", some (T "q"))] := by decide +kernel

/-- a `**/` followed by a further directory: "a/**/x/*.f" filled with ("y/x/", "q") -/
example : matchOutcome "a/**/x/*.f" [] none "a/y/x/x/q.f" =
    .groups [(T "s1", some (T "y/x/")), (T "s2", some (T "q"))] := by decide +kernel

/-- a final `**` takes any rest, or nothing -/
example : matchOutcome "a/**" [] none "a/b/c" = .groups [(T "s1", some (T "b/c"))] ∧
    matchOutcome "a/**" [] none "a/" = .groups [(T "s1", none)] := by decide +kernel

end C12

/- C12 — Pattern expansion, matching and prefix are mutually consistent (property theorems). -/
import CLModel.Paths.Matcher
import CLModel.Proofs.C12Star
import CLModel.Proofs.C12Prefix
import CLModel.Proofs.C12PrefixFull
import CLModel.Proofs.C12Android
import CLModel.Proofs.C12Bound
import CLModel.Proofs.C12Term
import CLModel.Proofs.C11Witness
import CLModel.Proofs.C12RSep
import CLModel.Proofs.C12RExample
import CLModel.Proofs.C12MozNorm
import CLModel.Proofs.C12BExample
import CLModel.Proofs.C12AndroidGen
import CLModel.Proofs.C12AClass
import CLModel.Proofs.C12MozLaws
import CLModel.Proofs.C12Heap
import CLModel.Proofs.C11Obj
namespace C12
open Rx PM

/-- A single star never matches across a directory separator: whenever `Matcher.match(path)` returns a
    dictionary, the value reported for the group `s<n>` of a top-level `*` contains no '/'.
    (For every pattern, environment and path; uses that `re.compile` accepted the pattern, i.e. that
    group names are distinct, which `match` returning a dictionary implies.) -/
theorem star_no_slash {m : Matcher} {path : Text} {d : GroupDict} {n : Nat} {v : Text}
    (h : m.match path = .ok (some d)) (hn : Node.star n ∈ m.pattern.nodes)
    (hl : d.lookup (sname n) = some (some v)) : 47 ∉ v := by
  obtain ⟨re, names, st, hre, hst, hd⟩ := match_inv h
  have hv := dict_lookup_sname hd hre hl
  obtain ⟨a, b, hc, rfl⟩ := groupText_some hv.symm
  obtain ⟨x, y, hxy, rfl, rfl⟩ := cap_of_group hre hst (star_group_mem hre hn) hc
  obtain ⟨mn, mx, g, hfrag⟩ : ∃ mn mx g, Gen.Pat.matcher_frag_star = Re.rep mn mx g (Re.notLit 47) :=
    ⟨_, _, _, rfl⟩
  intro hmem
  obtain ⟨j, hj1, hj2, hj3⟩ := mem_slice hmem
  have := sem_rep_all (s := path.toArray) (P := fun j => ∃ d, path.toArray[j]? = some d ∧ d ≠ 47)
    (body := Re.notLit 47) (by
      intro x y hxy j h1 h2
      obtain ⟨hp, d, hd, hne⟩ := sem_notLit hxy
      have : j = x.pos := by omega
      subst this; exact ⟨d, hd, hne⟩) hxy hfrag j hj1 hj2
  obtain ⟨d', hd', hne⟩ := this
  rw [hj3] at hd'
  simp at hd'
  exact hne hd'.symm

/-- A double star followed by '/' matches zero or more *whole* directories: the value reported for its
    group is either `None` (no directory) or a non-empty text that ends with '/'. -/
theorem starstar_whole_dirs {m : Matcher} {path : Text} {d : GroupDict} {n : Nat} {ov : Option Text}
    (h : m.match path = .ok (some d)) (hn : Node.starstar n [47] ∈ m.pattern.nodes)
    (hl : d.lookup (sname n) = some ov) :
    ov = none ∨ ∃ v, ov = some v ∧ v ≠ [] ∧ v.getLast? = some 47 := by
  cases ov with
  | none => exact Or.inl rfl
  | some v =>
    right
    refine ⟨v, rfl, ?_⟩
    obtain ⟨re, names, st, hre, hst, hd⟩ := match_inv h
    have hv := dict_lookup_sname hd hre hl
    obtain ⟨a, b, hc, rfl⟩ := groupText_some hv.symm
    obtain ⟨x, y, hxy, rfl, rfl⟩ := cap_of_group hre hst (starstar_group_mem hre hn) hc
    simp only [List.map_cons, List.map_nil, seqOf] at hxy
    cases hxy with
    | seq h1 h2 =>
      rename_i mid
      cases h2 with
      | lit hc47 =>
        have hle := h1.pos_le
        have hlt := getElem?_some_lt hc47
        have hsz : path.toArray.size = path.length := by simp
        have hlen : (slice path.toArray x.pos (mid.pos + 1)).length = mid.pos + 1 - x.pos := by
          simp only [slice, Array.length_toList, Array.size_extract]; omega
        refine ⟨?_, ?_⟩
        · intro he
          rw [he] at hlen
          simp at hlen; omega
        · rw [List.getLast?_eq_getElem?, hlen]
          simp only [slice, Array.getElem?_toList, Array.getElem?_extract]
          rw [if_pos (by omega)]
          have : x.pos + (mid.pos + 1 - x.pos - 1) = mid.pos := by omega
          rw [this]; exact hc47

/-- Nothing but complete paths match: after a successful `match` the regular expression has consumed the
    whole path (`_cache_regex` anchors with `\Z`; a path with a trailing newline is not matched, see
    `trailing_newline_rejected`). -/
theorem only_complete_paths {m : Matcher} {path : Text} {d : GroupDict}
    (h : m.match path = .ok (some d)) :
    ∃ re names st, m.regexOf = .ok (re, names) ∧ matchAt path.toArray re 0 = some st ∧
      st.pos = path.length := by
  obtain ⟨re, names, st, hre, hst, _⟩ := match_inv h
  refine ⟨re, names, st, hre, hst, ?_⟩
  obtain ⟨items, _, rfl, _⟩ := regexOf_inv hre
  obtain ⟨mid, _, h2⟩ := (sem_seqOf _ (matchAt_sem hst)).append
  cases h2 with
  | cons ha hn =>
    cases hn
    have hanchor : Gen.Pat.matcher_frag_anchor = Re.eos := rfl
    rw [hanchor] at ha
    cases ha with
    | eos hc => simpa using hc

/-- **Every path a matcher matches starts with the matcher's prefix**, for every matcher obtained by
    `Matcher(pattern, env, root)` (any pattern text, any environment: nested, self-referential, Android
    locale, repeated variables; any root) and every path: whenever `match(path)` returns a dictionary and
    `prefix` returns a text, that text is a prefix of the path.  (Both are partial: see the witnesses for
    F11, F12 and the locale/android_locale cycle; the statement is about the cases where they return.) -/
theorem match_has_prefix {pat : Text} {env : List (Text × Text)} {root : Option Text} {m : Matcher}
    {path : Text} {d : GroupDict} {pre : Text} (hm : mkMatcher pat env root = .ok m)
    (h : m.match path = .ok (some d)) (hp : m.prefix = .ok pre) : pre <+: path :=
  prefix_of_match (mkMatcher_shape hm).1 (mkMatcher_shape hm).2 h hp

/-- the same after `with_env` (how `ProjectFiles` derives the per-locale matchers) -/
theorem match_has_prefix_with_env {pat : Text} {env env' : List (Text × Text)} {root : Option Text}
    {m m' : Matcher} {path : Text} {d : GroupDict} {pre : Text} (hm : mkMatcher pat env root = .ok m)
    (hw : m.withEnv env' = .ok m') (h : m'.match path = .ok (some d)) (hp : m'.prefix = .ok pre) :
    pre <+: path :=
  prefix_of_match (withEnv_shape (mkMatcher_shape hm) hw).1 (withEnv_shape (mkMatcher_shape hm) hw).2 h hp

/-- and for any `Matcher` value of the right shape (environment of parsed unrooted patterns; every repeated
    occurrence of a variable has a first occurrence among its siblings) -/
theorem match_has_prefix_of_shape {m : Matcher} {path : Text} {d : GroupDict} {pre : Text}
    (henv : EnvOK' m.env) (hrep : RepOK m.pattern.nodes)
    (h : m.match path = .ok (some d)) (hp : m.prefix = .ok pre) : pre <+: path :=
  prefix_of_match henv hrep h hp

/-- non-vacuity: a repeated variable, "{l}/x-{l}.ftl" with l = "de" -/
example : matchOutcome "{l}/x-{l}.ftl" [("l", "de")] none "de/x-de.ftl" = .groups [(T "l", some (T "de"))] ∧
    prefixOutcome "{l}/x-{l}.ftl" [("l", "de")] none = .text (T "de/x-de.ftl") := by decide +kernel

/-- non-vacuity of `match_returns_bound_values` / `matches_own_expansion_partial` (shape `EnvOK`, `NoRep`):
    `Matcher("l/{locale}/*.ftl", {"locale": "de"})` (`exampleMatcher_is`) satisfies the hypotheses, matches
    "l/de/a.ftl" and has the prefix "l/de/" -/
example : EnvOK exampleMatcher.env ∧
    NoRep (exampleMatcher.pattern.nodes.take exampleMatcher.pattern.prefixLen) ∧
    exampleMatcher.match (T "l/de/a.ftl") = .ok (some [(localeName, some (T "de")), (T "s1", some (T "a"))]) ∧
    exampleMatcher.prefix = .ok (T "l/de/") := by
  refine ⟨?_, ?_, matchIs_spec (by decide +kernel), okEq_spec (by decide +kernel)⟩
  · intro k v hm
    simp only [exampleMatcher, List.mem_singleton, Prod.mk.injEq] at hm
    obtain ⟨_, rfl⟩ := hm
    refine ⟨rfl, fun n hn => ?_⟩
    simp only [List.mem_singleton] at hn
    subst hn; trivial
  · intro n hn
    simp only [exampleMatcher, List.take] at hn
    simp only [List.mem_cons, List.not_mem_nil, or_false] at hn
    rcases hn with rfl | rfl | rfl <;> simp [NodeNoRep]

/-- The shape hypothesis `EnvOK` of the theorems above, for a matcher built by `Matcher(pattern, env, root)`:
    its environment values are parsed, unrooted patterns (always), so `EnvOK` only asks that no
    environment value repeats a variable. -/
theorem constructed_matcher_envOK {pat : Text} {env : List (Text × Text)} {root : Option Text} {m : Matcher}
    (h : mkMatcher pat env root = .ok m) (hnr : ∀ k p, (k, Val.pat p) ∈ m.env → NoRep p.nodes) : EnvOK m.env :=
  mkMatcher_envOK h hnr

/-! ### a fully bound pattern and its own expansion -/

/-- A fully bound pattern expands to a path that the same matcher matches: if every variable is bound
    (the expansion with `raise_missing=True` succeeds and gives `path`; no wildcards, since they cannot be
    expanded) and `re.compile` accepts the pattern (`regexOf` succeeds: no duplicate group name, F12),
    then `match(path)` is not `None`.  Proved by running the engine through the literal-like regex.
    Restriction (not forced, hence `_partial`): no variable occurs a second time (`NoRep`). -/
theorem matches_own_expansion_partial {m : Matcher} {path : Text} {re : Re} {names : List Text}
    (henv : EnvOK m.env) (hnr : NoRep m.pattern.nodes)
    (hexp : expandPat (expandVal (fuelFor m.env)) m.pattern m.env true = .ok path)
    (hre : m.regexOf = .ok (re, names)) : m.match path ≠ .ok none := by
  obtain ⟨items, hrx, rfl, _⟩ := regexOf_inv hre
  obtain ⟨root, citems, hroot, hch, rfl⟩ := rxPat_inv hrx
  simp only [expandPat, hroot, bind, Except.bind] at hexp
  split at hexp
  · cases hexp
  · rename_i body hbody
    simp only [pure, Except.pure, Except.ok.injEq] at hexp
    subst hexp
    have hlit : LitLike (root.map Re.lit ++ citems) (root ++ body) :=
      (litlike_lits root).append (litlike_children (litlike_val _ _) henv hnr hbody hch)
    have hta : TextAt (root ++ body).toArray 0 (root ++ body) := by
      intro j _; simp
    obtain ⟨caps', hrun⟩ := litlike_run (s := (root ++ body).toArray) hlit ⟨0, []⟩
      (fun st' => Rx.m (root ++ body).toArray (seqOf [Gen.Pat.matcher_frag_anchor]) st' some) hta
    have hm : matchAt (root ++ body).toArray
        (seqOf (root.map Re.lit ++ citems ++ [Gen.Pat.matcher_frag_anchor])) 0 =
        some ⟨(root ++ body).length, caps'⟩ := by
      unfold matchAt
      rw [m_seqOf_append, hrun]
      have hanchor : Gen.Pat.matcher_frag_anchor = Re.eos := rfl
      simp [seqOf, hanchor, Rx.m]
    intro hnone
    simp only [Matcher.match, hre, bind, Except.bind, hm] at hnone
    split at hnone
    · split at hnone
      · split at hnone <;> cases hnone
      · cases hnone
    · cases hnone

/-- ... returning the bound variable values: after a successful `match`, the entry of a (first occurrence
    of a) top-level variable that is bound in the environment is the expansion of its value — for every
    pattern (wildcards included), environment and path; the variable's own value must be wildcard-free and
    fully bound (its expansion `t` exists). -/
theorem match_returns_bound_values {m : Matcher} {path : Text} {d : GroupDict} {name : Text} {v : Val} {t : Text}
    (henv : EnvOK m.env) (h : m.match path = .ok (some d)) (hn : Node.var name false ∈ m.pattern.nodes)
    (hl : m.env.lookup name = some v)
    (ht : expandVal (fuelFor m.env) v (derase m.env name) true = .ok t) :
    d.lookup name = some (some t) := by
  obtain ⟨re, names, st, hre, hst, hd⟩ := match_inv h
  obtain ⟨items, hrx, hreq, _⟩ := regexOf_inv hre
  obtain ⟨root, citems, _, hch, hitems⟩ := rxPat_inv hrx
  obtain ⟨a, na, hnode, hsub, hnames⟩ := rxChildren_mem hch hn
  simp only [rxNode, hl, Bool.false_eq_true, if_false, bind, Except.bind] at hnode
  split at hnode
  · cases hnode
  · rename_i w hw
    obtain ⟨body, ns⟩ := w
    simp only [pure, Except.pure, Except.ok.injEq, Prod.mk.injEq] at hnode
    obtain ⟨rfl, rfl⟩ := hnode
    have hex : Exact body t := exact_val _ _ v _ t body ns (henv.lookup hl) (henv.derase name) ht hw
    have hgi : Re.group (encName name) (seqOf body) ∈ items ++ [Gen.Pat.matcher_frag_anchor] := by
      rw [hitems]; simp [hsub _ (List.mem_singleton.mpr rfl)]
    have hg : (encName name, seqOf body) ∈ groups re := by
      rw [hreq, groups_seqOf]
      exact List.mem_flatMap.mpr ⟨_, hgi, by simp [groups]⟩
    have hsem := matchAt_sem hst
    rw [hreq] at hsem
    obtain ⟨a', b', hmem⟩ := (sem_seqOf _ hsem).group_cap hgi
    obtain ⟨a'', b'', hcap⟩ := capOf_of_mem hmem
    obtain ⟨x, y, hxy, rfl, rfl⟩ := cap_of_group hre hst hg hcap
    have hl' := sem_seqOf body hxy
    obtain ⟨hta, mid, hmid, hnil⟩ := hex _ [] x y (by simpa using hl')
    cases hnil
    have hgt : groupText path.toArray st (encName name) = some t := by
      simp only [groupText, St.group, hcap, hmid]
      rw [slice_textAt hta]
    have hname : name ∈ names := hnames name (by simp)
    have hlk : (groupDict path.toArray st names).lookup name = some (some t) := by
      unfold groupDict
      rw [lookup_map_mem (fun nm => groupText path.toArray st (encName nm)) name names hname, hgt]
    rcases hd with rfl | ⟨l, rfl⟩
    · exact hlk
    · exact lookup_append_left _ _ _ hlk

/-! ### termination (`_no_cycle`) -/

/-- `Variable._no_cycle`: expanding any value in any environment (self references, mutual references,
    chains of any depth) never nests deeper than `2 * len(env) + 3`, i.e. terminates, provided the value
    of "locale" does not itself contain `{android_locale}` (that excluded point recurses forever: finding C12-android-locale-cycle-recursion,
    `android_cycle_witness`). -/
theorem no_cycle_terminates (env : Env) (hs : AndroidSafe env) (v : Val) (rm : Bool) :
    expandVal (fuelFor env) v env rm ≠ .error .recursion :=
  (expandVal_norec (fuelFor env)).1 v env rm hs (by simp [fuelFor])

/-- hence `str(matcher)`, `matcher.prefix` and the construction of the regular expression terminate -/
theorem matcher_terminates (m : Matcher) (hs : AndroidSafe m.env) :
    m.str ≠ .error .recursion ∧ m.prefix ≠ .error .recursion ∧
    rxVal (fuelFor m.env) (.pat m.pattern) m.env ≠ .error .recursion :=
  ⟨expandTop_norec _ _ hs, expandTop_norec _ _ hs, rxVal_norec _ _ _ hs (by simp [fuelFor]; omega)⟩

/-- negation witness for `AndroidSafe` (finding C12-android-locale-cycle-recursion): with `locale = "{android_locale}"` the expansion of
    `{android_locale}` does not terminate (Python: RecursionError). -/
theorem android_cycle_witness :
    strOutcome "{android_locale}" [("locale", "{android_locale}")] none = .raised .recursion := by decide +kernel

/-- self and mutual references do terminate: `v = "{v}y"` and `v = "{w}", w = "{v}"` -/
example : strOutcome "a/{v}/b" [("v", "{v}y")] none = .text (T "a/") := by decide +kernel
example : strOutcome "a/{v}/b" [("v", "{w}"), ("w", "{v}")] none = .text (T "a/") := by decide +kernel

/-! ### witnesses for the exceptions of the other theorems -/

/-- a path with a trailing newline is not matched (`\Z`, not `$`): `Matcher('foo/*.ftl').match('foo/a.ftl\n')`
    is `None`, while the same path without the newline gives `{'s1': 'a'}` -/
theorem trailing_newline_rejected :
    matchOutcome "foo/*.ftl" [] none "foo/a.ftl\n" = .noMatch ∧
    matchOutcome "foo/*.ftl" [] none "foo/a.ftl" = .groups [(T "s1", some (T "a"))] := by decide +kernel

/-- F11: a rooted pattern that starts with a wildcard cannot be matched at all: KeyError -/
theorem rooted_wildcard_first_witness :
    matchOutcome "*/x" [] (some "/r/") "/r/a/x" = .raised .keyError ∧
    prefixOutcome "*/x" [] (some "/r/") = .raised .indexError := by decide +kernel

/-- F12: a variable reachable twice (directly and through an environment value) is a duplicate group
    name, `re.error` -/
theorem duplicate_group_witness :
    matchOutcome "{v}/{locale}" [("v", "{locale}x")] none "dex/de" = .raised .reError := by decide +kernel

/-- non-vacuity: star, double star, prefix on a typical l10n pattern -/
example : matchOutcome "{l10n_base}/{locale}/browser/**/*.ftl" [("l10n_base", "/l10n"), ("locale", "de")] none
      "/l10n/de/browser/a/b/c.ftl" =
    .groups [(T "l10n_base", some (T "/l10n")), (T "locale", some (T "de")), (T "s1", some (T "a/b/")),
             (T "s2", some (T "c"))] := by decide +kernel
example : prefixOutcome "{l10n_base}/{locale}/browser/**/*.ftl" [("l10n_base", "/l10n"), ("locale", "de")] none =
    .text (T "/l10n/de/browser/") := by decide +kernel
example : matchOutcome "foo/*.ftl" [] none "foo/a/b.ftl" = .noMatch := by decide +kernel

/-! ### Android locale codes -/

/-- For every locale compare-locales ships plural rules for (143 codes: languages, language-REGION) the
    Android form computed by `AndroidLocale._get_android_locale` is mapped back to the same locale by the
    conversion in `Matcher.match`.  Decided by evaluation of the model on the regenerated tables and regexes. -/
theorem android_roundtrip_shipped :
    ∀ l ∈ shippedLocales, ∃ a, toAndroid l = .ok a ∧ toStandard a = .ok l := by
  have h : shippedLocales.all androidRoundTrip = true := by decide +kernel
  intro l hl
  exact androidRoundTrip_spec (List.all_eq_true.mp h l hl)

/-- The same for a curated list covering language, language-REGION, script (+region), numeric region,
    variant and the legacy codes he/id/yi without region, with region, and in the `b+` form. -/
theorem android_roundtrip_curated :
    ∀ l ∈ curatedLocales, ∃ a, toAndroid l = .ok a ∧ toStandard a = .ok l := by
  have h : curatedLocales.all androidRoundTrip = true := by decide +kernel
  intro l hl
  exact androidRoundTrip_spec (List.all_eq_true.mp h l hl)

/-- the three resource-qualifier forms: "he-IL" -> "iw-rIL", "sr-Latn" -> "b+sr+Latn", "id" -> "in" -/
theorem android_forms :
    toAndroid [104, 101, 45, 73, 76] = .ok [105, 119, 45, 114, 73, 76] ∧
    toAndroid [115, 114, 45, 76, 97, 116, 110] = .ok [98, 43, 115, 114, 43, 76, 97, 116, 110] ∧
    toAndroid [105, 100] = .ok [105, 110] :=
  ⟨okEq_spec (by decide +kernel), okEq_spec (by decide +kernel), okEq_spec (by decide +kernel)⟩

/-- a legacy language code in the `b+` form comes back: "he-Hebr-IL" -> "b+iw+Hebr+IL" -> "he-Hebr-IL"
    (`match` normalises `b+`/`+` before it maps the legacy code) -/
theorem android_legacy_bplus_roundtrip :
    toAndroid [104, 101, 45, 72, 101, 98, 114, 45, 73, 76] = .ok [98, 43, 105, 119, 43, 72, 101, 98, 114, 43, 73, 76] ∧
    toStandard [98, 43, 105, 119, 43, 72, 101, 98, 114, 43, 73, 76] = .ok [104, 101, 45, 72, 101, 98, 114, 45, 73, 76] :=
  ⟨okEq_spec (by decide +kernel), okEq_spec (by decide +kernel)⟩

/-- Limits outside the property's locale list: the legacy substitution is not anchored on the left
    ("cin" -> "cin" -> "cid"), and the region test is a prefix match ("en-US-x-foo" -> "en-rUS" -> "en-US"). -/
theorem android_limits_witness :
    androidRoundTrip [99, 105, 110] = false ∧
    androidRoundTrip [101, 110, 45, 85, 83, 45, 120, 45, 102, 111, 111] = false := by decide +kernel

/-! ### a pattern WITH wildcards and the path obtained by filling them -/

/-- **expand -> match with wildcards** (completeness *and* uniqueness of the backtracking matcher).
    Take a matcher of the restricted class `C11R.InClassN`: its top-level nodes are literals, `*`, `**/` (or `**`
    at the very end) and first occurrences of variables that are fully bound, i.e. `Variable.expand(env,
    raise_missing=True)` returns a text — the value may itself use other variables, as `{l}` =
    "{l10n_base}/{locale}/" does (environment of the `Matcher` shape `EnvOK`: parsed unrooted patterns, no variable
    twice inside one value); any root.  Fill the wildcard numbered `n` with `vs n` (`C11R.fillN`: literals stay, a
    variable contributes its expansion) and assume the filling is well separated (`C11R.WellSepN` = `C11R.PSep` of
    the filled items):
      * the value of a `*` contains no `/`, and the literal (or variable expansion) that follows the star does not
        occur again at a later position of the `/`-free run after the value (`C11R.NoLaterHit`; sufficient: its
        first character does not occur again before the next `/` — `C11R.noLaterHit_of_first`, e.g. it starts
        with `/` — `C11R.noLaterHit_slash`; nothing is asked of a star that ends the pattern — `C11R.noLaterHit_nil`);
      * the value of a `**/` is empty (no directory, reported as `None`) or a non-empty newline-free text followed
        by `/`, and no further double star comes after it (any literals, stars and variables may: the rest of the
        pattern matches only texts with its own number of `/`, `C11R.run_toks_slash_fail`);
      * the value of a final `**` is any newline-free text (empty = `None`).
    If moreover `re.compile` accepts the pattern (distinct group names, F12; `names` = its group names), the pattern
    does not use `{android_locale}`, and the root decision succeeds (F11) — all of this is the bundle
    `C11R.Fillable vs m names rt` — then `match` on `root + filled path` returns a
    dictionary whose keys are the group names and which maps `s<n>` to `vs n` for every `*`, to `vs n` (`None` if
    empty) for every `**`, and every top-level variable to its expansion.
    The greedy `[^/]*` first takes the longest run, every longer candidate is refuted by the literal that follows,
    the intended one succeeds (`C11R.run_toks`); a variable's nested groups run like a literal text
    (`C11R.litlike_glok`).
    Full statement (not proved, hence `_partial`): the same with repeated variables (back-references),
    `{android_locale}`, and variables left unbound (captured from the path).  The separator hypotheses for `*`,
    the value shapes and "only one double star with directories" are forced (`star_separator_witness`,
    `wildcard_value_witness`, `two_starstar_match_witness`). -/
theorem expand_match_star_partial {m : Matcher} {vs : Nat → Text} {names : List Text} {rt : Text}
    (h : C11R.Fillable vs m names rt) :
    ∃ d, m.match (rt ++ C11R.fillN vs m.env m.pattern.nodes) = .ok (some d) ∧ d.map (·.1) = names ∧
      (∀ n, Node.star n ∈ m.pattern.nodes → d.lookup (sname n) = some (some (vs n))) ∧
      (∀ n sfx, Node.starstar n sfx ∈ m.pattern.nodes →
        d.lookup (sname n) = some (if vs n = [] then none else some (vs n))) ∧
      (∀ name t, Node.var name false ∈ m.pattern.nodes →
        expandNode (expandVal (fuelFor m.env)) (.var name false) m.env true = .ok t →
        d.lookup name = some (some t)) := by
  obtain ⟨re, hre⟩ := h.compiles
  obtain ⟨g, hm, hg⟩ := C11R.match_fillN h.env h.cls hre h.noAndroidGroup h.root h.sep
  refine ⟨_, hm, by simp [List.map_map, Function.comp_def], ?_, ?_, ?_⟩
  · intro n hn
    obtain ⟨h1, h2⟩ := hg _ hn (sname n) (by simp [C11R.nameOfN])
    rw [lookup_map_mem (fun nm => g nm) (sname n) names h1, h2]; rfl
  · intro n sfx hn
    obtain ⟨h1, h2⟩ := hg _ hn (sname n) (by simp [C11R.nameOfN])
    rw [lookup_map_mem (fun nm => g nm) (sname n) names h1, h2]; rfl
  · intro name t hn ht
    obtain ⟨h1, h2⟩ := hg _ hn name (by simp [C11R.nameOfN])
    rw [lookup_map_mem (fun nm => g nm) name names h1, h2]
    simp only [C11R.valOf, C11R.varText, ht]

/-- The filled path *is* the expansion of the pattern once the wildcards are bound: whatever dictionary `match`
    returned for it, `Pattern.expand` in the environment "those groups, then the matcher's own environment" gives
    back `root + filled path`.  So `expand_match_star_partial` reads: a pattern whose variables and wildcards are
    all bound expands to a path that the same matcher matches, returning the bound values.
    (`C11R.Expandable`: the environment is a dict — distinct keys — none named like a wildcard group, values
    without `{android_locale}`.) -/
theorem filled_path_is_expansion_partial {m : Matcher} {vs : Nat → Text} {names : List Text} {rt : Text}
    {d : GroupDict} (h : C11R.Fillable vs m names rt) (he : C11R.Expandable m)
    (hd : m.match (rt ++ C11R.fillN vs m.env m.pattern.nodes) = .ok (some d)) :
    expandTop m.pattern (subEnv d m.env) = .ok (rt ++ C11R.fillN vs m.env m.pattern.nodes) := by
  obtain ⟨re, hre⟩ := h.compiles
  have hs := C11R.sub_fillN h.env h.cls hre h.noAndroidGroup h.root h.sep h.cls (h.goodEnv he) h.root he.keys
    he.noWildKey (fun _ h => h)
  rw [PM.sub_of_match hd] at hs
  cases hx : expandTop m.pattern (subEnv d m.env) with
  | error e => simp [hx, Except.map] at hs
  | ok t => simpa [hx, Except.map] using hs

/-- non-vacuity of the wildcard theorems: `C11R.wildMatcher` is what
    `Matcher("{l}browser/**/*.ftl", {"l": "{l10n_base}/{locale}/", "l10n_base": "/l10n", "locale": "de"})` builds
    (`C11R.wildMatcher_is`); with the values `**/` = "a/b/", `*` = "c.d" (a dot inside the star value: the engine has
    to backtrack) all hypotheses hold (`C11R.wildMatcher_ok`), the filled path is "/l10n/de/browser/a/b/c.d.ftl"
    (`C11R.wild_fill`), and evaluating the model gives the dictionary the theorem describes. -/
example : matcherOf "{l}browser/**/*.ftl" [("l", "{l10n_base}/{locale}/"), ("l10n_base", "/l10n"), ("locale", "de")]
      none = .ok C11R.wildMatcher ∧
    ((∃ names, C11R.Fillable C11R.wildVals C11R.wildMatcher names []) ∧ C11R.Expandable C11R.wildMatcher) ∧
    [] ++ C11R.fillN C11R.wildVals C11R.wildMatcher.env C11R.wildMatcher.pattern.nodes =
      T "/l10n/de/browser/a/b/c.d.ftl" ∧
    C11R.wildMatcher.match (T "/l10n/de/browser/a/b/c.d.ftl") =
      .ok (some [(T "l", some (T "/l10n/de/")), (T "l10n_base", some (T "/l10n")), (localeName, some (T "de")),
                 (T "s1", some (T "a/b/")), (T "s2", some (T "c.d"))]) :=
  ⟨C11R.wildMatcher_is, C11R.wildMatcher_ok, C11R.wild_fill, matchIs_spec (by decide +kernel)⟩

/-- The separator hypothesis for `*` is forced: "a.b.c" is the pattern "*.*" filled with ("a", "b.c"), where the
    literal "." occurs again later in the run; `match` returns the other decomposition. -/
theorem star_separator_witness :
    matchOutcome "*.*" [] none "a.b.c" = .groups [(T "s1", some (T "a.b")), (T "s2", some (T "c"))] := by
  decide +kernel

/-- Forced value shapes: a `/` in a star value, a `**/` value that is not whole directories ("" before the
    `/`, no trailing `/`) or contains a newline, and a newline in a final `**` are not matched at all. -/
theorem wildcard_value_witness :
    matchOutcome "*.x" [] none "a/b.x" = .noMatch ∧
    matchOutcome "a/**/x" [] none "a//x" = .noMatch ∧
    matchOutcome "a/**/x" [] none "a/bx" = .noMatch ∧
    matchOutcome "a/**/x" [] none "a/b\nc/x" = .noMatch ∧
    matchOutcome "a/**" [] none "a/b\nc" = .noMatch := by decide +kernel

/-- "One double star" is forced: "a/x/x/x/q.f" is "a/**/x/**/*.f" filled with (nothing, "x/", "q") and also with
    ("x/", nothing, "q") ...; `match` reports the greedy decomposition ("x/x/", nothing, "q"). -/
theorem two_starstar_match_witness :
    matchOutcome "a/**/x/**/*.f" [] none "a/x/x/x/q.f" =
      .groups [(T "s1", some (T "x/x/")), (T "s2", none), (T "s3", some (T "q"))] := by decide +kernel

/-- a `**/` followed by a further directory: "a/**/x/*.f" filled with ("y/x/", "q") -/
example : matchOutcome "a/**/x/*.f" [] none "a/y/x/x/q.f" =
    .groups [(T "s1", some (T "y/x/")), (T "s2", some (T "q"))] := by decide +kernel

/-- a final `**` takes any rest, or nothing -/
example : matchOutcome "a/**" [] none "a/b/c" = .groups [(T "s1", some (T "b/c"))] ∧
    matchOutcome "a/**" [] none "a/" = .groups [(T "s1", none)] := by decide +kernel




/-! ### the Android round trip, in general (round 4) -/

/-- **General Android round trip** (locale -> Android resource qualifier -> locale), for EVERY locale made of subtags
    joined by "-" that satisfies `C12A.AndroidOK`: no subtag contains "-" or "+", none ends with a legacy code `iw`/`in`/`ji`
    (`C12A.NoLegacyEnd`), none after the first looks like a region qualifier `rXX` (`C12A.NotRegionQualifier`), and a text that
    the code takes for language-REGION (it starts like `ll-XX` / `lll-XX`: `C12A.regionShape`) has exactly two subtags.  That
    covers every `language[-Script][-REGION][-variant…]` tag outside the limit families below, in particular all locales of
    `android_roundtrip_shipped` / `_curated`.  The Android form `AndroidLocale._get_android_locale` computes is mapped back
    to the same locale by the conversion in `Matcher.match`.
    Proof: `re.sub` with a callback is a left-to-right rewriting by a local rule (`C12A.subWithE_rewrite`, on top of
    `C12S.finditer_scan`); each of the three regexes is analysed at an arbitrary position (`fwd_hit`, `back_hit`, `r_hit`,
    `region_hit`); the legacy substitutions act on the last two characters of every subtag (`rewrite_join`). -/
theorem android_roundtrip_general (ts : List Text) (h : C12A.AndroidOK ts) :
    ∃ a, toAndroid (C12A.joinWith 45 ts) = .ok a ∧ toStandard a = .ok (C12A.joinWith 45 ts) :=
  C12A.android_roundtrip_general ts h

/-- Every hypothesis of `android_roundtrip_general` is forced: a subtag ending in a legacy code ("cin", "zh-Latn-pinyin"), a
    later subtag of the form rXX ("xx-Latn-rDE"), more than two subtags behind a language-REGION start ("en-US-x-foo"), a "+"
    inside a subtag ("a+b-c") do not come back. -/
theorem android_general_witness :
    androidRoundTrip (T "cin") = false ∧ androidRoundTrip (T "zh-Latn-pinyin") = false ∧
    androidRoundTrip (T "xx-Latn-rDE") = false ∧ androidRoundTrip (T "en-US-x-foo") = false ∧
    androidRoundTrip (T "a+b-c") = false := by decide +kernel

/-- non-vacuity: "zh-Hant-TW" (the `b+` form), "he-IL" (legacy code and region) and "ast" satisfy `C12A.AndroidOK` -/
example : C12A.AndroidOK [T "zh", T "Hant", T "TW"] ∧ C12A.AndroidOK [T "he", T "IL"] ∧ C12A.AndroidOK [T "ast"] ∧
    C12A.joinWith 45 [T "zh", T "Hant", T "TW"] = T "zh-Hant-TW" := by
  refine ⟨⟨by simp, ?_, ?_, ?_, ?_⟩, ⟨by simp, ?_, ?_, ?_, ?_⟩, ⟨by simp, ?_, ?_, ?_, ?_⟩, by decide⟩
  · intro t ht
    simp only [List.mem_cons, List.not_mem_nil, or_false] at ht
    rcases ht with rfl | rfl | rfl <;> decide
  · intro t ht
    simp only [List.mem_cons, List.not_mem_nil, or_false] at ht
    rcases ht with rfl | rfl | rfl <;> (unfold C12A.NoLegacyEnd; decide)
  · intro t ht
    simp only [List.tail_cons, List.mem_cons, List.not_mem_nil, or_false] at ht
    rcases ht with rfl | rfl <;> (intro a b q e; simp [T] at e)
  · intro hr; exact absurd hr (by decide)
  · intro t ht
    simp only [List.mem_cons, List.not_mem_nil, or_false] at ht
    rcases ht with rfl | rfl <;> decide
  · intro t ht
    simp only [List.mem_cons, List.not_mem_nil, or_false] at ht
    rcases ht with rfl | rfl <;> (unfold C12A.NoLegacyEnd; decide)
  · intro t ht
    simp only [List.tail_cons, List.mem_singleton] at ht
    subst ht; intro a b q e; simp [T] at e
  · intro _; rfl
  · intro t ht
    simp only [List.mem_singleton] at ht
    subst ht; decide
  · intro t ht
    simp only [List.mem_singleton] at ht
    subst ht; unfold C12A.NoLegacyEnd; decide
  · intro t ht; simp at ht
  · intro hr; exact absurd hr (by decide)


/-! ### `{android_locale}` inside the proved matching class (round 4) -/

/-- `Matcher("values-{android_locale}/*.xml", {"locale": "sr-Latn"})` written out -/
def androidMatcher : Matcher :=
  { pattern := { nodes := [.lit (T "values-"), .android false, .lit (T "/"), .star 1, .lit (T ".xml")],
                 root := none, prefixLen := 3 },
    env := [(localeName, .pat { nodes := [.lit (T "sr-Latn")], root := none, prefixLen := 1 })] }

/-- **A matcher with `{android_locale}` reports the locale it was bound to** (composition of the matching theorems with the
    general Android round trip).  Matcher of the class `C12AC.InClassA` (literals, `*`, `**/`, final `**`, fully bound variables
    and their repetitions, `{android_locale}` and its repetitions), whose environment binds `locale` to a value that expands
    to a locale `C12A.joinWith 45 ts` satisfying `C12A.AndroidOK`, and whose pattern has no `{locale}` group of its own.  Then
    the path obtained by filling the wildcards, expanding the variables and putting the Android form in place of
    `{android_locale}` (`C12AC.fillA`, well separated) is matched, the group `android_locale` is that Android form and the
    entry `locale` that `match` adds is exactly the bound locale. -/
theorem android_match_reports_locale_partial {m : Matcher} {vs : Nat → Text} {re : Re} {names : List Text} {rt : Text}
    {v : Val} {ts : List Text}
    (henv : EnvOK m.env) (hcls : C12AC.InClassA m.env [] m.pattern.nodes) (hre : m.regexOf = .ok (re, names))
    (hroot : rootOf (expandVal (fuelFor m.env)) m.pattern m.env = .ok rt)
    (hsep : C12AC.WellSepA vs m.env m.pattern.nodes)
    (hand : Node.android false ∈ m.pattern.nodes) (hloc : localeName ∉ names)
    (hlv : m.env.lookup localeName = some v)
    (hexp : expandVal (fuelFor m.env) v (derase m.env androidName) false = .ok (C12A.joinWith 45 ts))
    (hok : C12A.AndroidOK ts) :
    ∃ d al, toAndroid (C12A.joinWith 45 ts) = .ok al ∧
      m.match (rt ++ C12AC.fillA vs m.env m.pattern.nodes) = .ok (some d) ∧
      d.lookup androidName = some (some al) ∧ d.lookup localeName = some (some (C12A.joinWith 45 ts)) := by
  obtain ⟨al, hto, hback⟩ := C12A.android_roundtrip_general ts hok
  have hget : getAndroidLocale (expandVal (fuelFor m.env)) m.env = .ok (some al) := by
    simp only [getAndroidLocale, hlv, hexp, hto, bind, Except.bind, pure, Except.pure]
  have hat : C12AC.androidText m.env = al := by simp [C12AC.androidText, hget]
  obtain ⟨g, hm, hga, hg⟩ := C12AC.match_fillA (l := C12A.joinWith 45 ts) henv hcls hre hroot hsep hand hloc (by rw [hat]; exact hback)
  obtain ⟨hamem, _⟩ := hg _ hand androidName (by simp [C12AC.nameOfA])
  refine ⟨_, al, hto, hm, ?_, ?_⟩
  · apply lookup_append_left
    rw [lookup_map_mem (fun nm => g nm) androidName names hamem, hga, hat]
  · rw [C12AC.lookup_append_of_none _ _ _ (C12AC.lookup_map_none (fun nm => g nm) localeName names hloc)]
    simp [List.lookup]

/-- non-vacuity of `android_match_reports_locale_partial`: `androidMatcher` (= `Matcher("values-{android_locale}/*.xml",
    {"locale": "sr-Latn"})`) with `*` = "strings" satisfies the hypotheses; the filled path is "values-b+sr+Latn/strings.xml" and
    the model evaluates to the dictionary the theorem describes -/
example : matcherOf "values-{android_locale}/*.xml" [("locale", "sr-Latn")] none = .ok androidMatcher ∧
    (∃ d al, toAndroid (T "sr-Latn") = .ok al ∧
      androidMatcher.match (T "values-b+sr+Latn/strings.xml") = .ok (some d) ∧
      d.lookup androidName = some (some al) ∧ d.lookup localeName = some (some (T "sr-Latn"))) ∧
    matchOutcome "values-{android_locale}/*.xml" [("locale", "sr-Latn")] none "values-b+sr+Latn/strings.xml" =
      .groups [(androidName, some (T "b+sr+Latn")), (T "s1", some (T "strings")), (localeName, some (T "sr-Latn"))] := by
  refine ⟨C11R.matcherOf_is (by decide +kernel), ?_, by decide +kernel⟩
  let vs : Nat → Text := fun k => if k = 1 then T "strings" else []
  obtain ⟨re, names, hre, hloc⟩ := C12AC.regexOf_noLocale_of (m := androidMatcher) (by decide +kernel)
  have hget : getAndroidLocale (expandVal (fuelFor androidMatcher.env)) androidMatcher.env = .ok (some (T "b+sr+Latn")) :=
    C12AC.getAndroid_ok_of (by decide +kernel)
  have hat : C12AC.androidText androidMatcher.env = T "b+sr+Latn" := by simp [C12AC.androidText, hget]
  have henv : EnvOK androidMatcher.env := by
    intro k v hm
    simp only [androidMatcher, List.mem_singleton, Prod.mk.injEq] at hm
    obtain ⟨_, rfl⟩ := hm
    exact ⟨rfl, fun n hn => by simp only [List.mem_singleton] at hn; subst hn; trivial⟩
  have hcls : C12AC.InClassA androidMatcher.env [] androidMatcher.pattern.nodes := ⟨⟨_, hget⟩, trivial⟩
  have hsep : C12AC.WellSepA vs androidMatcher.env androidMatcher.pattern.nodes := by
    show C11R.PSep _
    simp only [androidMatcher, List.map_cons, List.map_nil, C12AC.pieceOfA, C12B.pieceOfB, C11R.pieceOf]
    refine ⟨?_, ?_, trivial⟩
    · decide
    · exact C11R.noLaterHit_of_first (by decide) (by decide)
  have hok : C12A.AndroidOK [T "sr", T "Latn"] := by
    refine ⟨by simp, ?_, ?_, ?_, ?_⟩
    · intro t ht
      simp only [List.mem_cons, List.not_mem_nil, or_false] at ht
      rcases ht with rfl | rfl <;> decide
    · intro t ht
      simp only [List.mem_cons, List.not_mem_nil, or_false] at ht
      rcases ht with rfl | rfl <;> (unfold C12A.NoLegacyEnd; decide)
    · intro t ht
      simp only [List.tail_cons, List.mem_singleton] at ht
      subst ht; intro a b q e; simp [T] at e
    · intro hr; exact absurd hr (by decide)
  have hfill : [] ++ C12AC.fillA vs androidMatcher.env androidMatcher.pattern.nodes = T "values-b+sr+Latn/strings.xml" := by
    simp only [C12AC.fillA, androidMatcher, List.map_cons, List.map_nil, C12AC.pieceOfA, C12B.pieceOfB, C11R.pieceOf, hat]
    decide +kernel
  have h := android_match_reports_locale_partial (vs := vs) (ts := [T "sr", T "Latn"]) henv hcls hre rfl hsep (by simp [androidMatcher])
    hloc (v := .pat { nodes := [.lit (T "sr-Latn")], root := none, prefixLen := 1 }) (by simp [androidMatcher, List.lookup])
    (okEq_spec (by decide +kernel)) hok
  rw [hfill] at h
  exact h

/-! ### repeated variables (back-references) in the wildcard theorems (round 4) -/

/-- **expand -> match with wildcards and REPEATED variables.**  As `expand_match_star_partial`, for the larger class
    `C12B.InClassB`: a fully bound variable may occur again (`{l}a/{l}b/*.ftl`, `l10n/{locale}/x/{locale}.ftl`); the parser
    turns the later occurrences into back-references `(?P=name)`, which the engine treats exactly like the literal text of
    the group as long as that group has been captured (`C12B.sim`, `C12B.m_backref`).  In the separation hypothesis a
    repeated variable counts as the literal text of its expansion (`C12B.WellSepB`).  The dictionary reports the filled
    value for every wildcard and the expansion for every variable, whichever occurrence is asked for.
    (`C12B.fillableB_of_fillable`: the class of `expand_match_star_partial` is included.)
    Still excluded (hence `_partial`): `{android_locale}`, variables left unbound, a variable repeated INSIDE an environment
    value (`EnvOK`), two double stars (forced). -/
theorem expand_match_backref_partial {m : Matcher} {vs : Nat → Text} {names : List Text} {rt : Text}
    (h : C12B.FillableB vs m names rt) :
    ∃ d, m.match (rt ++ C11R.fillN vs m.env m.pattern.nodes) = .ok (some d) ∧ d.map (·.1) = names ∧
      (∀ n, Node.star n ∈ m.pattern.nodes → d.lookup (sname n) = some (some (vs n))) ∧
      (∀ n sfx, Node.starstar n sfx ∈ m.pattern.nodes →
        d.lookup (sname n) = some (if vs n = [] then none else some (vs n))) ∧
      (∀ name rep t, Node.var name rep ∈ m.pattern.nodes →
        expandNode (expandVal (fuelFor m.env)) (.var name rep) m.env true = .ok t →
        d.lookup name = some (some t)) := by
  obtain ⟨re, hre⟩ := h.compiles
  obtain ⟨g, hm, hg⟩ := C12B.match_fillB h.env h.cls hre h.noAndroidGroup h.root h.sep
  refine ⟨_, hm, by simp [List.map_map, Function.comp_def], ?_, ?_, ?_⟩
  · intro n hn
    obtain ⟨h1, h2⟩ := hg _ hn (sname n) (by simp [C11R.nameOfN])
    rw [lookup_map_mem (fun nm => g nm) (sname n) names h1, h2]; rfl
  · intro n sfx hn
    obtain ⟨h1, h2⟩ := hg _ hn (sname n) (by simp [C11R.nameOfN])
    rw [lookup_map_mem (fun nm => g nm) (sname n) names h1, h2]; rfl
  · intro name rep t hn ht
    obtain ⟨h1, h2⟩ := hg _ hn name (by simp [C11R.nameOfN])
    rw [lookup_map_mem (fun nm => g nm) name names h1, h2]
    simp only [C11R.valOf, C11R.varText, ht]

/-- ... and the filled path is the expansion of the pattern once wildcards and variables are bound (as
    `filled_path_is_expansion_partial`, with repeated variables) -/
theorem filled_path_is_expansion_backref_partial {m : Matcher} {vs : Nat → Text} {names : List Text} {rt : Text}
    {d : GroupDict} (h : C12B.FillableB vs m names rt) (he : C11R.Expandable m)
    (hd : m.match (rt ++ C11R.fillN vs m.env m.pattern.nodes) = .ok (some d)) :
    expandTop m.pattern (subEnv d m.env) = .ok (rt ++ C11R.fillN vs m.env m.pattern.nodes) := by
  obtain ⟨re, hre⟩ := h.compiles
  have hs := C12B.sub_fillB h.env h.cls hre h.noAndroidGroup h.root h.sep
    (C12B.inClassB_expOK h.cls (by intro nm hn; cases hn)) (C11R.goodEnv_of h.env he.noAndroid) h.root he.keys
    he.noWildKey (fun _ h => h)
  rw [PM.sub_of_match hd] at hs
  cases hx : expandTop m.pattern (subEnv d m.env) with
  | error e => simp [hx, Except.map] at hs
  | ok t => simpa [hx, Except.map] using hs

/-- **A fully bound pattern (no wildcards, variables may repeat) expands to a path that the same matcher matches**:
    `matches_own_expansion_partial` without its `NoRep` restriction, for patterns without `{android_locale}`:
    `str(matcher)` is the filled path and `match` of it returns a dictionary. -/
theorem matches_own_expansion_backref_partial {m : Matcher} {vs : Nat → Text} {names : List Text} {rt : Text}
    (henv : EnvOK m.env) (hcls : C12B.InClassB m.env [] m.pattern.nodes)
    (hnw : ∀ n ∈ m.pattern.nodes, (∀ k, n ≠ .star k) ∧ (∀ k sfx, n ≠ .starstar k sfx))
    (hre : ∃ re, m.regexOf = .ok (re, names)) (hna : androidName ∉ names)
    (hroot : rootOf (expandVal (fuelFor m.env)) m.pattern m.env = .ok rt) :
    m.str = .ok (rt ++ C11R.fillN vs m.env m.pattern.nodes) ∧
    ∃ d, m.match (rt ++ C11R.fillN vs m.env m.pattern.nodes) = .ok (some d) := by
  have hF : C12B.FillableB vs m names rt := ⟨henv, hcls, hre, hna, hroot, C12B.wellSepB_nowild hnw⟩
  obtain ⟨d, hd, _⟩ := expand_match_backref_partial hF
  refine ⟨?_, d, hd⟩
  have hexp := C12B.inClassB_expOK hcls (by intro nm hn; cases hn)
  have hnode : ∀ n ∈ m.pattern.nodes, expandNode (expandVal (fuelFor m.env)) n m.env true =
      .ok ((C11R.pieceOf vs m.env n).text) := by
    intro n hn
    have hc := hexp n hn
    cases n with
    | lit t => rfl
    | star k => exact absurd rfl ((hnw _ hn).1 k)
    | starstar k sfx => exact absurd rfl ((hnw _ hn).2 k sfx)
    | var name rep =>
      obtain ⟨t, ht⟩ := hc
      rw [ht]
      simp only [C11R.pieceOf, C11R.Piece.text, C11R.varText, ht]
    | android r => exact absurd hc (by simp [C12B.ExpOK])
  simp only [Matcher.str, expandTop, expandPat, hroot, bind, Except.bind,
    PM.expandChildren_of_nodes (pc := fun n => (C11R.pieceOf vs m.env n).text) m.pattern.nodes hnode,
    pure, Except.pure, C11R.fillN_eq]

/-- non-vacuity: `C12B.repMatcher` is what `Matcher("{l}a/{l}b/*.ftl", {"l": "l10n/"})` builds and `C12B.locMatcher` what
    `Matcher("l10n/{locale}/x/{locale}.ftl", {"locale": "de"})` builds; both satisfy the hypotheses; the filled paths are
    "l10n/a/l10n/b/c.d.ftl" (`*` = "c.d") and "l10n/de/x/de.ftl", and evaluation of the model agrees with the theorem -/
example : matcherOf "{l}a/{l}b/*.ftl" [("l", "l10n/")] none = .ok C12B.repMatcher ∧
    matcherOf "l10n/{locale}/x/{locale}.ftl" [("locale", "de")] none = .ok C12B.locMatcher ∧
    ((∃ names, C12B.FillableB C12B.repVals C12B.repMatcher names []) ∧ C11R.Expandable C12B.repMatcher) ∧
    ((∃ names, C12B.FillableB C12B.repVals C12B.locMatcher names []) ∧ C11R.Expandable C12B.locMatcher) ∧
    [] ++ C11R.fillN C12B.repVals C12B.repMatcher.env C12B.repMatcher.pattern.nodes = T "l10n/a/l10n/b/c.d.ftl" ∧
    [] ++ C11R.fillN C12B.repVals C12B.locMatcher.env C12B.locMatcher.pattern.nodes = T "l10n/de/x/de.ftl" ∧
    matchOutcome "{l}a/{l}b/*.ftl" [("l", "l10n/")] none "l10n/a/l10n/b/c.d.ftl" =
      .groups [(T "l", some (T "l10n/")), (T "s1", some (T "c.d"))] ∧
    matchOutcome "l10n/{locale}/x/{locale}.ftl" [("locale", "de")] none "l10n/de/x/de.ftl" =
      .groups [(localeName, some (T "de"))] ∧
    matchOutcome "l10n/{locale}/x/{locale}.ftl" [] none "l10n/de/x/fr.ftl" = .noMatch :=
  ⟨C12B.repMatcher_is, C12B.locMatcher_is, C12B.repMatcher_ok, C12B.locMatcher_ok, C12B.rep_fill, C12B.loc_fill,
    by decide +kernel, by decide +kernel, by decide +kernel⟩

/-! ### `mozpath.match` (round 4) -/

/-- **What `mozpath.match` compiles.**  For EVERY pattern text, the regular expression `mozpath.match` caches is the
    translation of the token list computed by the plain lexer `C12M.mozLex` (literal characters, `*`, `**/` after "/" or at
    the start = `dirs`, a final `/**` = `below`, the pattern `**` alone = `all`), followed by the tail `(?:/.*)?$`.
    (`finditer` of the tokenising regex is analysed position by position: `C12M.moz_hit`, `C12S.finditer_scan`.) -/
theorem mozpath_regex_is_lexer (pat : Text) :
    mozRegex pat = .ok (seqOf (C12M.mozItems (C12M.mozLex pat) ++ [Gen.Pat.mozpath_frag_tail])) :=
  C12M.mozRegex_lex pat

/-- **`mozpath.match` is sound and complete for the glob relation `C12M.TokM`** (an inductive relation that does not
    mention regular expressions: a `*` is a run without "/", `dirs` is nothing or a non-empty text followed by "/", ...),
    for patterns of any length and every newline-free path: it never raises, and it returns `True` exactly when the pattern
    is empty or its token list matches the path or one of its ancestor directories (`path = pre` or `path = pre/rest`). -/
theorem mozpath_match_sound_complete (path pat : Text) (hnl : 10 ∉ path) :
    ∃ b, mozMatch path pat = .ok b ∧
      (b = true ↔ pat = [] ∨ ∃ pre, C12M.TokM (C12M.mozLex pat) pre ∧ (path = pre ∨ ∃ rest, path = pre ++ 47 :: rest)) :=
  C12M.mozMatch_iff path pat hnl

/-- the empty pattern matches everything -/
theorem mozpath_empty_pattern (path : Text) : mozMatch path [] = .ok true := rfl

/-- **a pattern without wildcards matches exactly itself and everything below it** (`foo` matches `foo` and `foo/bar`,
    nothing else), for every newline-free path -/
theorem mozpath_literal (path lit : Text) (hnl : 10 ∉ path) (hstar : 42 ∉ lit) (hne : lit ≠ []) :
    mozMatch path lit = .ok (decide (path = lit ∨ (lit ++ [47]) <+: path)) :=
  C12M.moz_literal path lit hnl hstar hne

/-- **`*` matches inside one path component only**: `A*B` (no further `*`) matches exactly the paths `A w B` where `w`
    contains no "/" (and everything below such a path) -/
theorem mozpath_star_one_component (path A B : Text) (hnl : 10 ∉ path) (hA : 42 ∉ A) (hB : 42 ∉ B) :
    mozMatch path (A ++ 42 :: B) = .ok true ↔
      ∃ w, 47 ∉ w ∧ (path = A ++ w ++ B ∨ ∃ rest, path = A ++ w ++ B ++ 47 :: rest) :=
  C12M.moz_star path A B hnl hA hB

/-- **`**` matches any number of path components, including none**: `A/**/B` matches exactly `A/B` and `A/w/B` for every
    non-empty `w` (several directories when `w` contains "/"), and everything below such a path -/
theorem mozpath_dstar_any_dirs (path A B : Text) (hnl : 10 ∉ path) (hA : 42 ∉ A) (hB : 42 ∉ B) :
    mozMatch path (A ++ 47 :: 42 :: 42 :: 47 :: B) = .ok true ↔
      ∃ d, (d = [] ∨ ∃ w, w ≠ [] ∧ d = w ++ [47]) ∧
        (path = A ++ 47 :: d ++ B ∨ ∃ rest, path = A ++ 47 :: d ++ B ++ 47 :: rest) :=
  C12M.moz_dirs path A B hnl hA hB

/-- non-vacuity / the lexer on a typical pattern: "foo/**/b*r/**" -/
example : C12M.mozLex (T "foo/**/b*r/**") =
    [.chr 102, .chr 111, .chr 111, .chr 47, .dirs, .chr 98, .star, .chr 114, .below] := by decide

/-- Trailing slash and normalisation, as the code has it: the pattern "foo/" does not match "foo" but matches "foo/" and
    "foo//x"; the path "foo/" matches the pattern "foo"; a star does reach below its component through the ancestor rule
    ("foo/*" matches "foo/a/b") but not inside the pattern ("foo/*.ftl" does not match "foo/a/b.ftl"). -/
theorem mozpath_slash_witness :
    C12M.mozOutcome "foo" "foo/" = some false ∧ C12M.mozOutcome "foo/" "foo/" = some true ∧
    C12M.mozOutcome "foo//x" "foo/" = some true ∧ C12M.mozOutcome "foo/" "foo" = some true ∧
    C12M.mozOutcome "foo/a/b" "foo/*" = some true ∧ C12M.mozOutcome "foo/a/b.ftl" "foo/*.ftl" = some false := by
  decide +kernel

/-- The hypothesis "newline-free path" is forced: `mozpath.match` anchors with `$`, which also matches before a final
    newline: "foo\n" matches the pattern "foo". -/
theorem mozpath_newline_witness : C12M.mozOutcome "foo\n" "foo" = some true := by decide +kernel

/-- Two adjacent `**` are not two directory wildcards: the second is lexed as two single stars, so "**/**/b" needs at
    least one directory ("b" alone does not match, "x/b" does; "**/b" matches "b"). -/
theorem mozpath_adjacent_dstar_witness :
    C12M.mozLex (T "**/**/b") = [.dirs, .star, .star, .chr 47, .chr 98] ∧
    C12M.mozOutcome "b" "**/**/b" = some false ∧ C12M.mozOutcome "x/b" "**/**/b" = some true ∧
    C12M.mozOutcome "b" "**/b" = some true := by decide +kernel

/-! ### the pure helpers of mozpath.py (round 4; model `MP`, laws in `Proofs/C12MozPath.lean`, `C12MozNorm.lean`) -/

/-- `mozpath.join` is associative: joining three parts can be bracketed either way (a later absolute part restarts the path) -/
theorem mozpath_join_assoc (a b c : Text) : MP.join2 (MP.join2 a b) c = MP.join2 a (MP.join2 b c) :=
  C12MP.join2_assoc a b c

/-- `split` and `"/".join` are inverse: a path is its components joined again, and a non-empty list of separator-free
    components is what its joined text splits into -/
theorem mozpath_split_join (p : Text) (cs : List Text) :
    MP.joinSlash (MP.split p) = p ∧ (cs ≠ [] → (∀ c ∈ cs, 47 ∉ c) → MP.split (MP.joinSlash cs) = cs) ∧
    ∀ c ∈ MP.split p, 47 ∉ c :=
  ⟨C12MP.joinSlash_split p, C12MP.split_joinSlash cs, C12MP.split_no_slash p⟩

/-- **`relpath(join(base, q), base) = normpath(q)`** ("" when that is "."): for a relative `q` that never climbs above its
    start (`C12MP.depthOK 0`: every ".." has a component to cancel), a base that is absolute or relative to the absolute
    working directory, and a non-empty joined path -/
theorem mozpath_relpath_join (cwd base q : Text) (hcwd : MP.startsSlash cwd = true) (hq : MP.startsSlash q = false)
    (hne : MP.join2 base q ≠ []) (hclimb : C12MP.depthOK 0 (MP.split q) = true) :
    MP.relpath cwd (MP.join2 base q) base = .ok (if MP.normpath q = MP.dot then [] else MP.normpath q) :=
  C12MP.relpath_join cwd base q hcwd hq hne hclimb

/-- the hypotheses of `mozpath_relpath_join` are forced: an empty joined path raises ValueError; a `q` that climbs out
    of its base comes back as its normal form only as long as the working directory is deep enough ("../x" under "/w" does,
    "../../x" under "/" comes back as "../x": `abspath` cannot climb above the root) -/
theorem mozpath_relpath_witness :
    C12MP.res (MP.relpath (T "/w") [] []) = .inl .valueError ∧
    C12MP.res (MP.relpath (T "/w") (MP.join2 (T "a") (T "../x")) (T "a")) = .inr (T "../x") ∧
    MP.normpath (T "../x") = T "../x" ∧
    C12MP.res (MP.relpath (T "/") (MP.join2 (T "a") (T "../../x")) (T "a")) = .inr (T "../x") ∧
    MP.normpath (T "../../x") = T "../../x" := by decide +kernel

/-- **`basedir` returns one of the bases, a path-prefix of the path** (or the path itself), `None` only when no base
    contains the path, and among several containing bases the deepest (longest) one -/
theorem mozpath_basedir {path : Text} {bases : List Text} :
    (∀ b, MP.basedir path bases = some b → b ∈ bases ∧ (b = path ∨ C12MP.Contains b path)) ∧
    (MP.basedir path bases = none → path ∉ bases ∧ ∀ b ∈ bases, ¬ C12MP.Contains b path) ∧
    (∀ b, MP.basedir path bases = some b → path ∉ bases → ∀ b' ∈ bases, C12MP.Contains b' path → b'.length ≤ b.length) :=
  ⟨fun _ h => C12MP.basedir_sound h, C12MP.basedir_none, fun _ h hn => C12MP.basedir_deepest h hn⟩

/-- the docstring example: `basedir('foo/bar/baz', ['foo', 'baz', 'foo/bar']) = 'foo/bar'`; a look-alike prefix
    ("foo/ba") is not a base of "foo/bar" -/
example : MP.basedir (T "foo/bar/baz") [T "foo", T "baz", T "foo/bar"] = some (T "foo/bar") ∧
    MP.basedir (T "foo/bar") [T "foo/ba"] = none := by decide +kernel

/-- **`commonprefix` is the longest common prefix** (computed through `min` and `max` only): a prefix of every path, and
    every common prefix of all paths is a prefix of it -/
theorem mozpath_commonprefix (ps : List Text) :
    (∀ p ∈ ps, MP.commonprefix ps <+: p) ∧ (ps ≠ [] → ∀ q, (∀ p ∈ ps, q <+: p) → q <+: MP.commonprefix ps) :=
  ⟨C12MP.commonprefix_prefix ps, fun hne q h => C12MP.commonprefix_greatest ps q hne h⟩

/-- `dirname` / `basename` / `splitext` take a path apart without losing anything: head ++ basename = path where the head
    ends with "/" (or is empty) and the base name has no "/"; `dirname` is a prefix of the path; root ++ ext = path and the
    extension is empty or a "." followed by neither "." nor "/" -/
theorem mozpath_parts (p : Text) :
    p.take (MP.afterLast 47 p) ++ MP.basename p = p ∧ 47 ∉ MP.basename p ∧ MP.dirname p <+: p ∧
    (MP.splitext p).1 ++ (MP.splitext p).2 = p ∧
    ((MP.splitext p).2 = [] ∨ ∃ e, (MP.splitext p).2 = 46 :: e ∧ 46 ∉ e ∧ 47 ∉ e) :=
  ⟨C12MP.head_basename p, C12MP.basename_no_slash p, C12MP.dirname_prefix p, C12MP.splitext_concat p, C12MP.splitext_ext p⟩

/-- leading dots of a file name are not an extension: splitext("a/.b") = ("a/.b", ""), splitext("a/..b.c") = ("a/..b", ".c") -/
example : MP.splitext (T "a/.b") = (T "a/.b", []) ∧ MP.splitext (T "a/..b.c") = (T "a/..b", T ".c") ∧
    MP.normpath (T "a//./b/../c/") = T "a/c" ∧ MP.normpath (T "//x/..") = T "//" ∧ MP.normpath [] = T "." := by decide +kernel


/-! ### round 5: the environment dict of a matcher OBJECT is state (`Paths/MatcherObj.lean`)

`Variable.expand` expands the value of a variable against `_no_cycle(env)`, a COPY of the environment without the
variable's own name.  In the heap model a dict is an address; the theorems say that the copy is what makes every
call that only looks at a matcher leave it as it was - also when the nested expansion raises `MissingEnvironment`. -/

/-- **Nested expansion never touches the dict it is given.**  For every pattern, `raise_missing`, heap and address `a`
    holding the dict `env`: `pattern.expand(env, raise_missing)` answers what the stateless model answers for the CONTENTS
    `env` - a text or an exception, `MissingEnvironment` out of any nesting depth included - and the heap afterwards is
    the heap before plus newly allocated dicts: every dict that existed (the one at `a` in particular) is unchanged. -/
theorem expand_leaves_env_untouched (p : Pattern) (rm : Bool) (h : Heap) (a : Addr) (env : Env) (hr : h[a]? = some env) :
    ∃ ex, expandTopH p a rm h = some (expandPat (expandVal (fuelFor env)) p env rm, h ++ ex) :=
  C12H.expandTopH_spec p rm hr

/-- the same for `regex_pattern` (`_cache_regex`): the regex of the stateless model, nothing but allocations -/
theorem regex_leaves_env_untouched (p : Pattern) (h : Heap) (a : Addr) (env : Env) (hr : h[a]? = some env) :
    ∃ ex, regexOfH p a h = some (Matcher.regexOf { pattern := p, env := env }, h ++ ex) :=
  C12H.regexOfH_spec p hr

/-- `_no_cycle(env)` returns a dict holding `env` without the name and leaves `env` itself alone (it is `env` itself
    only when the name is not in it) -/
theorem no_cycle_copies (name : Text) (h : Heap) (a : Addr) (env : Env) (hr : h[a]? = some env) :
    ∃ ex a1, noCycleH name a h = some (a1, h ++ ex) ∧ (h ++ ex)[a1]? = some (derase env name) ∧
      (h ++ ex)[a]? = some env :=
  let ⟨ex, a1, h1, h2⟩ := C12H.noCycleH_spec name hr
  ⟨ex, a1, h1, h2, C12H.read_ext ex hr⟩

/-- **readonly_ops_preserve_state.**  On a store of matcher objects, for an object `o` that looks like `c` from outside:
    `prefix`, `str()`, `pattern.expand(env, raise_missing=True)`, `repr()` and `==` answer the stateless function of the
    view(s) - a value OR an exception - and the store afterwards has the SAME objects (pattern, root, env address, cache)
    and the same dicts at all existing addresses (`OnlyAllocates`); so every object looks as it did (last clause, for
    every call of the class `Looks` and whatever it answers). -/
theorem readonly_ops_preserve_state (s : Store) (o : Nat) (c : CMatcher) (hv : s.view o = some c) :
    (∃ s', Store.prefix o s = some (liftX c.m.prefix, s') ∧ C11O.OnlyAllocates s s') ∧
    (∃ s', Store.str o s = some (liftX c.m.str, s') ∧ C11O.OnlyAllocates s s') ∧
    (∃ s', Store.expandRaise o s =
        some (liftX (expandPat (expandVal (fuelFor c.m.env)) c.m.pattern c.m.env true), s') ∧ C11O.OnlyAllocates s s') ∧
    Store.repr o s = some (.ok (), s) ∧
    (∀ o2 c2, s.view o2 = some c2 → Store.eq o o2 s = some (.ok (Matcher.eq c.m c2.m, Matcher.ne c.m c2.m), s)) ∧
    (∀ op, C11O.Looks op → ∀ r s', s.step op = some (r, s') →
      s'.objs = s.objs ∧ (∃ ex, s'.heap = s.heap ++ ex) ∧ ∀ o' c', s.view o' = some c' → s'.view o' = some c') := by
  refine ⟨C11O.prefix_spec hv, C11O.str_spec hv, C11O.expandRaise_spec hv, by simp [Store.repr, hv], ?_, ?_⟩
  · intro o2 c2 hv2; simp [Store.eq, hv, hv2]
  · intro op hq r s' h
    have := C11O.looks_onlyAllocates hq h
    exact ⟨this.1, this.2, fun o' c' hv' => C11O.view_onlyAllocates this hv'⟩

/-- The history of the regression this round was about, on the model: `Matcher("{l}browser/**", {"l10n_base": "/l10n",
    "l": "{l10n_base}/{locale}/"})`; `prefix`, `str()` (both "" - the nested expansion stops at the unbound `{locale}`),
    `expand(raise_missing=True)` (MissingEnvironment); then `with_env({"locale": "de"})`: the derived matcher matches its
    own file with `l = "/l10n/de/"`, not another locale's file, its prefix is "/l10n/de/browser/", and the source still
    has both of its variables. -/
def triggerHistory : List Op :=
  [.new [] (T "{l}browser/**") [(T "l10n_base", T "/l10n"), (T "l", T "{l10n_base}/{locale}/")] none,
   .prefix 0, .str 0, .expandRaise 0,
   .rebuild 0 [(T "locale", T "de")] none,
   .matchP 1 (T "/l10n/de/browser/x"), .matchP 1 (T "/l10n/fr/browser/x"), .prefix 1]

def triggerCheck : Bool :=
  match Store.empty.run triggerHistory with
  | some ([.ok (.obj 0), .ok (.text []), .ok (.text []), .error (.py .missingEnv), .ok (.obj 1),
           .ok (.groups (some d)), .ok (.groups none), .ok (.text pre)], s') =>
    d.lookup (T "l") == some (some (T "/l10n/de/")) && d.lookup (T "s1") == some (some (T "x")) &&
    pre == T "/l10n/de/browser/" &&
    (match s'.view 0 with
     | some c => c.m.env.map (·.1) == [T "l10n_base", T "l"]
     | none => false)
  | _ => false

theorem readonly_trigger_example : triggerCheck = true := by decide +kernel

end C12

/-
C09 — Android: crashing format arguments and bad quoting are errors.
Property theorems only (helper lemmas live in CLModel/Proofs/C09*.lean; the independent reference
notions `lex`, `uses`, `argMap`, `Conflict`, `silence`, `Quoted`, `DoubledQuote`, `SimpleData`, …
are defined in CLModel/Proofs/C09Spec.lean without any regular expression).

`Android.check ref l10n` is the transliteration of `AndroidChecker.check(refEnt, l10nEnt)`; its
result is `some results` (`none` would mean "outside the modelled behaviour": `check_total`).
-/
import CLModel.Checks.Android
import CLModel.Proofs.C09Spec
import CLModel.Proofs.C09Check
import CLModel.Proofs.C09Java
import CLModel.Proofs.C09Text
import CLModel.Proofs.C09WalkTop
import CLModel.Proofs.C09PosCheck
import CLModel.Proofs.C09Wrap
import CLModel.Proofs.C09Canon
namespace C09
open Android Android.Spec

/-- `AndroidChecker.check` never leaves the modelled behaviour: `int(order[0])` never raises and the
    `format` group always took part in the match, for every pair of entities. -/
theorem check_total (ref l10n : Entity) : (check ref l10n).isSome = true := by
  obtain ⟨rs, h, _⟩ := check_spec ref l10n
  simp [h]

/-- The printf regex of `get_params`, iterated by `re.finditer`, finds exactly what the hand-written
    left-to-right lexer `Spec.lex` finds: `%`, an optional `<1-9>$`, then `f`, `.<digits>f`, `d`, `s` or `S`;
    explicit position = the digit, format = the conversion text, for ALL strings. -/
theorem lex_model (v : List Nat) : lexParams v = some (lex v) :=
  lexParams_eq v

/-- `get_params([string])` = the independent numbering model (Java `Formatter` rules) on the lexed arguments:
    `n$` addresses argument n, an ordinary specifier takes the next sequential argument (counted
    independently of explicit ones); the dict maps each argument to the conversion of its FIRST use,
    `count` is the number of specifiers, `errors` lists every later use with a different conversion. -/
theorem params_model (v : List Nat) :
    ∃ st, getParams [.str v] = some st ∧
      (∀ p, dget st.params p = argMap v p) ∧
      st.count = (lex v).length ∧
      st.errors = conflictsOf (uses 1 (lex v)) ∧
      (st.params.map (·.1)).Nodup := by
  obtain ⟨st, h, inv, nd⟩ := getParams_str v
  exact ⟨st, h, inv.params, inv.count, inv.errors, nd⟩

/-- `check_apostrophes` on the list level: one error per non-overlapping `""` of the value with escapes
    `\x` blanked out (left to right), then — unless the silenced string starts and ends with `"` — one
    error per apostrophe that survives silencing of `\x` and `""`, at its own offset. -/
theorem apostrophes_model (v : List Nat) [Decidable (Quoted (silence v))] :
    checkApostrophes v =
      (dqPositions 0 (blankEsc v)).map (fun i => err i .doubleQuotes) ++
      (if Quoted (silence v) then [] else (indicesOf 39 0 (silence v)).map (fun i => err i .apostrophe)) :=
  checkApostrophes_eq v

/-- The two formulations of "a doubled straight quote" agree: scanning with an "escaped" flag, and
    looking for `""` after blanking out every escape `\x` (what the code does). -/
theorem doubled_quote_iff (v : List Nat) : unescapedDq false v = true ↔ DoubledQuote (blankEsc v) :=
  unescapedDq_iff v

/-- Characterisation of "an error is reported" for two `<string>` entities: exactly when one of the strings
    is marked translatable="false", the localized text content starts with `@string/`, the localized node is
    not (empty | one text node | one CDATA among white-space text), the value with escapes blanked out has
    two adjacent straight quotes, an apostrophe survives escape silencing in a value that does not start and end with a quote,
    an argument is used with two conversions inside the localized value, or the localized value uses an
    argument the reference does not have or has with a different (first) conversion. -/
theorem android_error_iff (ref l10n : Entity)
    (hr : ref.node.name = Gen.Tables.android_string_tag) (hl : l10n.node.name = Gen.Tables.android_string_tag) :
    ∃ rs, check ref l10n = some rs ∧
      (hasError rs = true ↔
        TranslatableFalse ref.node ∨ TranslatableFalse l10n.node ∨ AtString l10n.node ∨
        ¬ SimpleData l10n.node ∨
        DoubledQuote (blankEsc l10n.val) ∨ (¬ Quoted (silence l10n.val) ∧ 39 ∈ silence l10n.val) ∨
        Conflict l10n.val ∨
        ∃ p f, argMap l10n.val p = some f ∧ argMap (textContent ref.node) p ≠ some f) := by
  obtain ⟨rs, h, herr, _⟩ := check_spec ref l10n
  refine ⟨rs, h, ?_⟩
  rw [herr]
  constructor
  · rintro (h | ⟨_, h⟩)
    · exact absurd (hr.trans hl.symm) h
    · exact h
  · intro h; exact Or.inr ⟨hr, h⟩

/-- The same for arbitrary node names: different names are an error ("Incompatible resource types"),
    equal names other than `string` only a warning. -/
theorem android_error_iff_any_tag (ref l10n : Entity) :
    ∃ rs, check ref l10n = some rs ∧
      (hasError rs = true ↔
        ref.node.name ≠ l10n.node.name ∨
        (ref.node.name = Gen.Tables.android_string_tag ∧
          (TranslatableFalse ref.node ∨ TranslatableFalse l10n.node ∨ AtString l10n.node ∨
           ¬ SimpleData l10n.node ∨
           DoubledQuote (blankEsc l10n.val) ∨ (¬ Quoted (silence l10n.val) ∧ 39 ∈ silence l10n.val) ∨
           Conflict l10n.val ∨
           ∃ p f, argMap l10n.val p = some f ∧ argMap (textContent ref.node) p ≠ some f))) := by
  obtain ⟨rs, h, herr, _⟩ := check_spec ref l10n
  exact ⟨rs, h, herr⟩

/-- A plain, properly escaped string using a subset of the reference's arguments with the same
    conversions is never an error: every result of the checker is a warning.
    "Properly escaped": no doubled straight quote once escapes are respected (`hdq`), and every apostrophe
    is escaped or the value is enclosed in straight quotes (`hapos`). -/
theorem android_subset_ok (ref l10n : Entity)
    (hr : ref.node.name = Gen.Tables.android_string_tag) (hl : l10n.node.name = Gen.Tables.android_string_tag)
    (htr : ¬ TranslatableFalse ref.node) (htl : ¬ TranslatableFalse l10n.node)
    (hat : ¬ AtString l10n.node) (hplain : SimpleData l10n.node)
    (hdq : unescapedDq false l10n.val = false)
    (hapos : 39 ∉ silence l10n.val ∨ Quoted (silence l10n.val))
    (hconf : ¬ Conflict l10n.val)
    (hsub : ∀ p f, argMap l10n.val p = some f → argMap (textContent ref.node) p = some f) :
    ∃ rs, check ref l10n = some rs ∧ hasError rs = false ∧ ∀ r ∈ rs, r.sev = .warning := by
  obtain ⟨rs, h, herr⟩ := android_error_iff ref l10n hr hl
  have hne : hasError rs = false := by
    cases hh : hasError rs with
    | false => rfl
    | true =>
      exfalso
      rcases herr.mp hh with h | h | h | h | h | ⟨h1, h2⟩ | h | ⟨p, f, h1, h2⟩
      · exact htr h
      · exact htl h
      · exact hat h
      · exact h hplain
      · rw [(unescapedDq_iff _).mpr h] at hdq; cases hdq
      · rcases hapos with h3 | h3
        · exact h3 h2
        · exact h1 h3
      · exact hconf h
      · exact h2 (hsub p f h1)
  exact ⟨rs, h, hne, all_warn_of_not_hasError hne⟩

/-- Omitted arguments are only warned about: under the hypotheses of `android_subset_ok`, an argument
    of the reference that the localized value does not use yields the warning
    "Formatter %p$f not found in translation", and no result is an error. -/
theorem android_omitted_warn (ref l10n : Entity)
    (hr : ref.node.name = Gen.Tables.android_string_tag) (hl : l10n.node.name = Gen.Tables.android_string_tag)
    (htr : ¬ TranslatableFalse ref.node) (htl : ¬ TranslatableFalse l10n.node)
    (hat : ¬ AtString l10n.node) (hplain : SimpleData l10n.node)
    (hdq : unescapedDq false l10n.val = false)
    (hapos : 39 ∉ silence l10n.val ∨ Quoted (silence l10n.val))
    (hconf : ¬ Conflict l10n.val)
    (hsub : ∀ p f, argMap l10n.val p = some f → argMap (textContent ref.node) p = some f)
    (p : Nat) (f : List Nat)
    (href : argMap (textContent ref.node) p = some f) (hom : argMap l10n.val p = none) :
    ∃ rs, check ref l10n = some rs ∧ warn 0 (.notInL10n p f) ∈ rs ∧ ∀ r ∈ rs, r.sev = .warning := by
  obtain ⟨rs, h, _, hall⟩ := android_subset_ok ref l10n hr hl htr htl hat hplain hdq hapos hconf hsub
  obtain ⟨rs', h', _, hwarn⟩ := check_spec ref l10n
  rw [h] at h'; cases h'
  exact ⟨rs, h, hwarn (hr.trans hl.symm) hr htr htl hat hplain p f href hom, hall⟩

/-- The warning for an omitted argument does not depend on the quoting/argument hypotheses: it is
    produced whenever `check_string` gets as far as comparing arguments. -/
theorem android_omitted_warn_general (ref l10n : Entity)
    (hr : ref.node.name = Gen.Tables.android_string_tag) (hl : l10n.node.name = Gen.Tables.android_string_tag)
    (htr : ¬ TranslatableFalse ref.node) (htl : ¬ TranslatableFalse l10n.node)
    (hat : ¬ AtString l10n.node) (hplain : SimpleData l10n.node)
    (p : Nat) (f : List Nat)
    (href : argMap (textContent ref.node) p = some f) (hom : argMap l10n.val p = none) :
    ∃ rs, check ref l10n = some rs ∧ warn 0 (.notInL10n p f) ∈ rs := by
  obtain ⟨rs, h, _, hwarn⟩ := check_spec ref l10n
  exact ⟨rs, h, hwarn (hr.trans hl.symm) hr htr htl hat hplain p f href hom⟩

/-! ### non-vacuity -/

/-- `<string name="foo">v</string>` with one text child, as the parser makes it -/
def textEnt (v : List Nat) : Entity :=
  mkEntity { name := Gen.Tables.android_string_tag, translatable := none, children := [.text v],
             xml := [60, 115, 62] ++ v } []

/-- `%1$s and %2$d` -/
def refV : List Nat := [37, 49, 36, 115, 32, 97, 110, 100, 32, 37, 50, 36, 100]
/-- `it\'s %2$d` -/
def okV : List Nat := [105, 116, 92, 39, 115, 32, 37, 50, 36, 100]
/-- `"say \"hi\""` -/
def f14V : List Nat := [34, 115, 97, 121, 32, 92, 34, 104, 105, 92, 34, 34]
/-- `it's %3$d %3$s` -/
def badV : List Nat := [105, 116, 39, 115, 32, 37, 51, 36, 100, 32, 37, 51, 36, 115]

/-- the model itself, evaluated without any theorem -/
example : check (textEnt refV) (textEnt okV) = some [warn 0 (.notInL10n 1 [115])] := by decide

example : check (textEnt refV) (textEnt badV) =
    some [err 2 .apostrophe, err 10 (.conflict 3 [115] [100]), err 0 (.notInRef 3 [100]),
          warn 0 (.notInL10n 1 [115]), warn 0 (.notInL10n 2 [100])] := by decide

/-- the reference lexer and numbering on a mixed string: `%s %2$d %.2f %s` -/
example : uses 1 (lex [37, 115, 32, 37, 50, 36, 100, 32, 37, 46, 50, 102, 32, 37, 115]) =
    [(1, ⟨0, none, [115]⟩), (2, ⟨3, some 2, [100]⟩), (2, ⟨8, none, [46, 50, 102]⟩), (3, ⟨13, none, [115]⟩)] := by
  decide

theorem okV_hyps :
    unescapedDq false okV = false ∧ 39 ∉ silence okV ∧ ¬ Conflict okV ∧
    (∀ p f, argMap okV p = some f → argMap refV p = some f) ∧
    argMap refV 1 = some [115] ∧ argMap okV 1 = none := by
  have hu : uses 1 (lex okV) = [(2, ⟨6, some 2, [100]⟩)] := by decide
  refine ⟨?_, ?_, ?_, ?_, by decide, by decide⟩
  · decide
  · simp [silence, blankPairs, silCond, okV]
  · rw [conflict_iff_conflictsOf, hu]; decide
  · intro p f h
    unfold argMap at h
    rw [hu] at h
    simp only [firstFmt, List.find?_cons, List.find?_nil] at h
    by_cases hp : p = 2
    · subst hp; simp at h; subst h; decide
    · have : ((2 : Nat) == p) = false := by simp; omega
      simp [this] at h

/-- the hypotheses of `android_subset_ok` / `android_omitted_warn` are satisfiable by a
    non-trivial pair (escaped apostrophe, explicit argument, one argument omitted) -/
example : ∃ rs, check (textEnt refV) (textEnt okV) = some rs ∧
    warn 0 (.notInL10n 1 [115]) ∈ rs ∧ ∀ r ∈ rs, r.sev = .warning :=
  android_omitted_warn (textEnt refV) (textEnt okV) rfl rfl
    (by intro h; cases h) (by intro h; cases h) (by unfold AtString; decide) (Or.inr (Or.inl ⟨okV, rfl⟩))
    okV_hyps.1 (Or.inl okV_hyps.2.1) okV_hyps.2.2.1 okV_hyps.2.2.2.1 1 [115]
    okV_hyps.2.2.2.2.1 okV_hyps.2.2.2.2.2

/-- `android_error_iff`, right to left, on a value with a bare apostrophe -/
example : ∃ rs, check (textEnt refV) (textEnt badV) = some rs ∧ hasError rs = true := by
  obtain ⟨rs, h, herr⟩ := android_error_iff (textEnt refV) (textEnt badV) rfl rfl
  refine ⟨rs, h, herr.mpr ?_⟩
  right; right; right; right; right; left
  constructor
  · intro hq; have := hq.1; simp [silence, blankPairs, silCond, badV, textEnt, mkEntity, textContent, firstCdata] at this
  · simp [silence, blankPairs, silCond, badV, textEnt, mkEntity, textContent, firstCdata]

/-- Formerly finding F14 (fixed in /repo 308b966), now a positive example of `android_subset_ok`:
    `"say \"hi\""` is enclosed in quotes and both inner quotes are escaped; the raw value has two adjacent
    `"` at its end (`DoubledQuote f14V`) but none once escapes are respected, and the checker only warns about
    the omitted arguments. -/
theorem escaped_quote_then_quote_ok :
    check (textEnt refV) (textEnt f14V) =
      some [warn 0 (.notInL10n 1 [115]), warn 0 (.notInL10n 2 [100])] ∧
    unescapedDq false f14V = false ∧ DoubledQuote f14V ∧ ¬ DoubledQuote (blankEsc f14V) ∧
    Quoted (silence f14V) ∧ 39 ∉ silence f14V ∧ ¬ Conflict f14V ∧ (∀ p, argMap f14V p = none) := by
  have hl : lex f14V = [] := by decide
  refine ⟨by decide, by decide, ⟨10, by decide, by decide⟩, ?_, ?_, ?_, ?_, ?_⟩
  · intro h; have := (unescapedDq_iff f14V).mpr h; revert this; decide
  · simp [Quoted, silence, blankPairs, silCond, f14V]
  · simp [silence, blankPairs, silCond, f14V]
  · rw [conflict_iff_conflictsOf, hl]; decide
  · intro p; simp [argMap, hl, uses, firstFmt]

/-- the theorem applied to that value -/
example : ∃ rs, check (textEnt refV) (textEnt f14V) = some rs ∧ hasError rs = false ∧ ∀ r ∈ rs, r.sev = .warning :=
  android_subset_ok (textEnt refV) (textEnt f14V) rfl rfl
    (by intro h; cases h) (by intro h; cases h) (by unfold AtString; decide) (Or.inr (Or.inl ⟨f14V, rfl⟩))
    escaped_quote_then_quote_ok.2.1 (Or.inr escaped_quote_then_quote_ok.2.2.2.2.1)
    escaped_quote_then_quote_ok.2.2.2.2.2.2.1
    (by intro p f h; rw [show (textEnt f14V).val = f14V from rfl, escaped_quote_then_quote_ok.2.2.2.2.2.2.2 p] at h; cases h)

/-- a genuinely doubled quote (escaped backslash, then `""`) is still an error: `\\""` -/
example : check (textEnt refV) (textEnt [92, 92, 34, 34]) =
    some [err 2 .doubleQuotes, warn 0 (.notInL10n 1 [115]), warn 0 (.notInL10n 2 [100])] := by decide

/-! ### negation witnesses -/

/-- different node names are an error whatever the content (why the theorems above assume `string`) -/
example : check { textEnt refV with node := { (textEnt refV).node with name := [112] } } (textEnt refV)
    = some [err 0 .incompatible] := by decide

/-- equal names other than `string`: only "Unsupported resource type", a warning -/
example : check { textEnt badV with node := { (textEnt badV).node with name := [112] } }
    { textEnt badV with node := { (textEnt badV).node with name := [112] } }
    = some [warn 0 .unsupported] := by decide

/-! ## Round 4 — the checker's three predicates as exact characterisations -/

open C09P in
/-- `get_params` is sound and complete for the Java `Formatter` numbering, stated as a RELATION (`Numbered`:
    `k$` addresses argument k, an ordinary specifier takes the next sequential index, the two counters are
    independent): for EVERY numbering `us` of the lexed specifiers that the relation permits (there is exactly one,
    `numbered_exists_unique`), the dict maps p to f iff the first specifier addressing p has conversion f, `count` is the
    number of specifiers, and the error list consists exactly of the later uses whose conversion differs from the first. -/
theorem get_params_java (v : List Nat) :
    ∃ st, getParams [.str v] = some st ∧
      ∀ us, Numbered 1 (lex v) us →
        (∀ p f, dget st.params p = some f ↔ FirstUse us p f) ∧
        st.count = us.length ∧
        (∀ e, e ∈ st.errors ↔
          ∃ u f, u ∈ us ∧ FirstUse us u.1 f ∧ f ≠ u.2.fmt ∧ e = (Msg.conflict u.1 u.2.fmt f, u.2.pos)) := by
  obtain ⟨st, h, hp, hc, he, _⟩ := params_model v
  refine ⟨st, h, ?_⟩
  intro us hus
  have := numbered_unique hus
  subst this
  refine ⟨fun p f => ?_, by rw [hc, uses_length], fun e => ?_⟩
  · rw [hp, firstUse_iff]; rfl
  · rw [he]; exact mem_conflictsOf _ e

open C09P in
/-- the numbering relation is functional and total: exactly one numbering exists -/
theorem numbered_exists_unique (n : Nat) (ts : List Tok) : ∃ us, Numbered n ts us ∧ ∀ us', Numbered n ts us' → us' = us :=
  ⟨uses n ts, numbered_uses n ts, fun _ h => numbered_unique h⟩

/-- `get_params` reports a conflict iff some argument is addressed with two different conversions -/
theorem get_params_conflict_iff (v : List Nat) :
    ∃ st, getParams [.str v] = some st ∧ (st.errors ≠ [] ↔ Conflict v) := by
  obtain ⟨st, h, _, _, he, _⟩ := params_model v
  exact ⟨st, h, by rw [he]; exact (conflict_iff_conflictsOf v).symm⟩

/-- `check_apostrophes` yields something iff it yields an error iff: two adjacent straight quotes once every escape
    `\x` is blanked out, or an apostrophe survives silencing (`\x` and `""` blanked) in a value that does not both start
    and end with a straight quote.  For ALL strings. -/
theorem apostrophes_error_iff (v : List Nat) :
    (checkApostrophes v ≠ [] ↔ DoubledQuote (blankEsc v) ∨ (¬ Quoted (silence v) ∧ 39 ∈ silence v)) ∧
    (hasError (checkApostrophes v) = true ↔ checkApostrophes v ≠ []) := by
  have hne : hasError (checkApostrophes v) = true ↔ checkApostrophes v ≠ [] := by
    constructor
    · intro h hnil; rw [hnil] at h; cases h
    · intro h
      cases hc : checkApostrophes v with
      | nil => exact absurd hc h
      | cons r rs =>
        have := checkApostrophes_all_errors v r (by rw [hc]; simp)
        simp [hasError, this]
  exact ⟨hne.symm.trans (hasError_checkApostrophes v), hne⟩

/-- `non_simple_data(node)` is False exactly for: no children, a single text child, or exactly one CDATA section
    among text children that are all white-space (no element, comment or other sibling).  For ALL child lists. -/
theorem non_simple_data_iff (n : Node) : nonSimpleData n = false ↔ SimpleData n :=
  nonSimpleData_iff n

/-- `textContent` returns the data of the FIRST CDATA child wherever it stands among the children (not only when it is
    `firstChild`). -/
theorem textContent_cdata_anywhere (n : Node) (pre post : List Child) (d : List Nat)
    (hc : n.children = pre ++ .cdata d :: post) (h : ∀ c ∈ pre, c.isCdata = false) : textContent n = d :=
  C09P.textContent_cdata_anywhere n pre post d hc h

/-- without a CDATA child `textContent` is "" (no children), the data of the only child if that is a text node, and
    `node.toxml()` otherwise -/
theorem textContent_no_cdata (n : Node) (h : ∀ c ∈ n.children, c.isCdata = false) :
    textContent n = match n.children with
      | [] => []
      | [.text d] => d
      | _ => n.xml :=
  C09P.textContent_no_cdata n h

/-- on every node shape the checker accepts (`SimpleData`), `textContent` is: "" for no children, the data of the single
    text child, the data of THE CDATA section when there is exactly one among white-space-only text -/
theorem textContent_simple (n : Node) (h : SimpleData n) :
    (n.children = [] ∧ textContent n = []) ∨ (∃ d, n.children = [.text d] ∧ textContent n = d) ∨
    (∃ pre d post, n.children = pre ++ .cdata d :: post ∧ (∀ c ∈ pre ++ post, WhiteText c) ∧ textContent n = d) :=
  C09P.textContent_simple n h

/-- the seeded regression "look at firstChild only" differs from `textContent` on `"\n  " CDATA[x] "\n"` -/
example : textContent ⟨[], none, [.text [10, 32, 32], .cdata [120], .text [10]], []⟩ = [120] := by decide

/-! ## Round 4 — the parser (`AndroidParser.walk` on the minidom node summary) -/

open AndroidP C09P

/-- **Every `<string name=…>` child of `<resources>` yields exactly one AndroidEntity, in document order, with
    key = its `name` attribute and raw_val = `textContent(element)`**; more precisely the entities and junk entries
    of the walk, without their attached comment / white-space, are exactly what `handleElement` makes of the element
    children one by one (`elemEntry`): nothing is skipped, duplicated or reordered, whatever stands between the elements. -/
theorem walk_string_entities {contents : List Nat} {docChildren : List DNode} {name : List Nat}
    {attrs : List (List Nat × List Nat)} {children : List DNode} {ol : Bool} {es : List Entry}
    (hroot : documentElement? docChildren = some (.element name attrs children))
    (hname : name = Gen.TablesAndroid.resources_tag)
    (h : walk (some (contents, .doc docChildren)) ol = some es) :
    es.filterMap entityKV = (children.filter isStringElem).map (fun n => (nameOf n, rawOf n)) ∧
    (es.filter isLoc).map core = (children.filter DNode.isElement).map (elemEntry none none) := by
  rw [walk_resources ol hroot hname] at h
  cases hb : walkLoop ol (children.length + 1) children with
  | none => simp [hb] at h
  | some body =>
    simp [hb] at h
    have hel := walkLoop_elements (by omega) hb
    have hcore : (es.filter isLoc).map core = (children.filter DNode.isElement).map (elemEntry none none) := by
      rw [← h, ← hel]
      cases ol <;> simp [List.filter_append, filterLoc_wrappers, isLoc, Entry.isEntity, Entry.isJunk]
    refine ⟨?_, hcore⟩
    rw [filterMap_entityKV, hcore, filterMap_elems]

/-- `walk(only_localizable=True)` (= `Parser.__iter__`, `Parser.parse()`) yields exactly the AndroidEntity and XMLJunk
    entries of `walk()`, for every input (nothing loaded, parse error, any document) -/
theorem walk_only_localizable (ctx : Option (List Nat × Parsed)) :
    walk ctx true = (walk ctx false).map (List.filter isLoc) := by
  match ctx with
  | none => rfl
  | some (contents, .error) => rfl
  | some (contents, .doc docChildren) =>
    cases hd : documentElement? docChildren with
    | none => simp [walk, hd]
    | some root =>
      have hre := (documentElement?_mem hd).2
      cases root <;> simp [DNode.isElement] at hre
      rename_i name attrs children
      by_cases hname : name = Gen.TablesAndroid.resources_tag
      · rw [walk_resources true hd hname, walk_resources false hd hname, walkLoop_ol _ _ (by omega)]
        cases walkLoop false (children.length + 1) children with
        | none => rfl
        | some body =>
          simp [List.filter_append, filterLoc_wrappers, isLoc, Entry.isEntity, Entry.isJunk]
      · simp only [walk, hd]
        simp [hname]
        cases docToxml? docChildren <;> simp [isLoc, Entry.isJunk]

/-- `walk` does not raise on a tree that can be serialised (no `]]>` inside a CDATA node, no `--` inside a comment —
    true of every tree the XML parser builds) and has a document element -/
theorem walk_total {contents : List Nat} {docChildren : List DNode} (ol : Bool)
    (hroot : (documentElement? docChildren).isSome = true) (hp : printableList docChildren = true) :
    (walk (some (contents, .doc docChildren)) ol).isSome = true := by
  cases hd : documentElement? docChildren with
  | none => simp [hd] at hroot
  | some root =>
    obtain ⟨hmem, hre⟩ := documentElement?_mem hd
    have hpr := printable_of_mem hp hmem
    cases root <;> simp [DNode.isElement] at hre
    rename_i name attrs children
    by_cases hname : name = Gen.TablesAndroid.resources_tag
    · rw [walk_resources ol hd hname]
      obtain ⟨es, he⟩ := walkLoop_total ol (children.length + 1) children (by omega)
        (by simpa [DNode.printable] using hpr)
      simp [he]
    · simp only [walk, hd]
      simp [hname, docToxml?, toxmlList?, hp]

/-- where the hypothesis of `walk_total` bites: a hand-made CDATA node containing `]]>` makes `toxml()`, hence `walk`, raise -/
example : walk (some ([], .doc [.element Gen.TablesAndroid.resources_tag [] [.cdata [93, 93, 62]]])) false = none := by decide

/-- **What "lossless" means for this parser, unconditionally**: the concatenation of the `all` texts of `walk()` is the
    fixed head `<?xml version="1.0" encoding="utf-8"?>\n<resources`, the root attributes as ` name=` + `quoteattr(value)`,
    `>`, the `toxml()` serialisations of a SUB-SEQUENCE `ks` of the root's children in document order, and
    `</resources>\n`.  So every `all` text is a function of the node summary (not of the bytes: quoting style, entity
    references, the XML declaration, `<a></a>` vs `<a/>` are gone), nothing is invented, duplicated or reordered;
    nodes may be dropped (`walk_lossless` says when none is). -/
theorem walk_all_sublist {contents : List Nat} {docChildren : List DNode} {name : List Nat}
    {attrs : List (List Nat × List Nat)} {children : List DNode} {es : List Entry}
    (hroot : documentElement? docChildren = some (.element name attrs children))
    (hname : name = Gen.TablesAndroid.resources_tag)
    (h : walk (some (contents, .doc docChildren)) false = some es) :
    ∃ ks, ks.Sublist children ∧
      allText es = Gen.TablesAndroid.open_all ++ attrs.flatMap rawAttr ++ Gen.TablesAndroid.gt_all ++
        toxmlList ks ++ Gen.TablesAndroid.close_all := by
  rw [walk_resources false hroot hname] at h
  cases hb : walkLoop false (children.length + 1) children with
  | none => simp [hb] at h
  | some body =>
    simp [hb] at h
    obtain ⟨ks, hsub, hall⟩ := walkLoop_sublist (by omega) hb
    refine ⟨ks, hsub, ?_⟩
    rw [← h]
    have hc : ∀ (e : Entry) (l : List Entry), allText (e :: l) = e.all ++ allText l := fun _ _ => by simp [allText]
    have hn : allText [] = [] := rfl
    simp only [hc, hn, allText_append, allText_wrappers, hall, Entry.all]
    simp [List.append_assoc]

/-- **Nothing is lost** when the children of `<resources>` are `<string name=…>` elements, text and comments, no two
    text nodes are adjacent (the XML parser fuses them) and the list does not end with a comment followed by a text
    node with at most one newline: then the `all` texts concatenate to the serialisation of ALL children. -/
theorem walk_lossless {contents : List Nat} {docChildren : List DNode} {name : List Nat}
    {attrs : List (List Nat × List Nat)} {children : List DNode} {es : List Entry}
    (hroot : documentElement? docChildren = some (.element name attrs children))
    (hname : name = Gen.TablesAndroid.resources_tag)
    (h : walk (some (contents, .doc docChildren)) false = some es) (hcl : Clean children) :
    allText es = Gen.TablesAndroid.open_all ++ attrs.flatMap rawAttr ++ Gen.TablesAndroid.gt_all ++
        toxmlList children ++ Gen.TablesAndroid.close_all := by
  rw [walk_resources false hroot hname] at h
  cases hb : walkLoop false (children.length + 1) children with
  | none => simp [hb] at h
  | some body =>
    simp [hb] at h
    have hall := walkLoop_clean (by omega) hb hcl
    rw [← h]
    have hc : ∀ (e : Entry) (l : List Entry), allText (e :: l) = e.all ++ allText l := fun _ _ => by simp [allText]
    have hn : allText [] = [] := rfl
    simp only [hc, hn, allText_append, allText_wrappers, hall, Entry.all]
    simp [List.append_assoc]

/-- **Round trip on the canonical serialisation**: if moreover the root has at least one child and the values of its
    attributes contain none of `& < > " \n \r \t`, the `all` texts concatenate to
    `<?xml version="1.0" encoding="utf-8"?>\n` + `documentElement.toxml()` + `\n` — the document itself when it is written
    in that form. -/
theorem walk_roundtrip {contents : List Nat} {docChildren : List DNode}
    {attrs : List (List Nat × List Nat)} {c : DNode} {cs : List DNode} {es : List Entry}
    (hroot : documentElement? docChildren = some (.element Gen.TablesAndroid.resources_tag attrs (c :: cs)))
    (h : walk (some (contents, .doc docChildren)) false = some es) (hcl : Clean (c :: cs))
    (hattr : ∀ a ∈ attrs, a.2.all plainChar = true) :
    allText es = xmlDecl ++ (DNode.element Gen.TablesAndroid.resources_tag attrs (c :: cs)).toxml ++ [10] := by
  rw [walk_lossless hroot rfl h hcl, rawAttrs_plain attrs hattr, toxml_resources]
  obtain ⟨h1, h2, h3⟩ := frame_constants
  rw [h1, h2, h3]
  simp [List.append_assoc]

/-! ### the hypotheses of `walk_lossless` are needed: one witness per excluded shape (`decide` on the model; the
    harness sends the same documents through the real parser) -/

def kEl : DNode := .element Gen.TablesAndroid.string_tag [(Gen.TablesAndroid.name_attr, [107])] [.text [118]]
def resDoc (cs : List DNode) : Option (List Nat × Parsed) := some ([], .doc [.element Gen.TablesAndroid.resources_tag [] cs])
/-- the serialisations of the nodes that `walk()` keeps -/
def keptText (cs : List DNode) : Option (List Nat) :=
  (walk (resDoc cs) false).map (fun es => allText ((es.drop 2).dropLast))

/-- non-vacuity: a clean list (white-space, comment, white-space, string, white-space) keeps everything -/
example : keptText [.text [10], .comment [99], .text [10, 32], kEl, .text [10]] =
    some (toxmlList [.text [10], .comment [99], .text [10, 32], kEl, .text [10]]) := by decide
/-- a processing instruction is dropped -/
example : keptText [.pi [112] [100], kEl] = some (toxmlList [kEl]) := by decide
/-- a CDATA section after comment + short white-space is dropped -/
example : keptText [.comment [99], .text [10], .cdata [120], kEl] = some (toxmlList [.comment [99], .text [10], kEl]) := by decide
/-- a comment after comment + CDATA is dropped -/
example : keptText [.comment [99], .cdata [120], .comment [100], kEl] =
    some (toxmlList [.comment [99], .cdata [120], kEl]) := by decide
/-- the white-space after the last comment is dropped when it has at most one newline … -/
example : keptText [kEl, .text [10], .comment [99], .text [10]] = some (toxmlList [kEl, .text [10], .comment [99]]) := by decide
/-- … and kept when it has two -/
example : keptText [kEl, .text [10], .comment [99], .text [10, 10]] =
    some (toxmlList [kEl, .text [10], .comment [99], .text [10, 10]]) := by decide
/-- a comment (and the white-space after it) in front of an element that is not `<string name=…>` is dropped -/
example : keptText [.comment [99], .text [10], .element [112] [] []] = some (toxmlList [.element [112] [] []]) := by decide
/-- the text stored for a root attribute is ` name=` + `quoteattr(value)` (since /repo bf6a07b): `a="&amp;"` for the
    value `&`, as `toxml()` writes it; for a value with a double quote the two serialisations differ in the quoting
    style only (`'1"'` vs `"1&quot;"`) -/
example : (walk (some ([], .doc [.element Gen.TablesAndroid.resources_tag [([97], [38]), ([98], [49, 34])] []])) false).map
    (fun es => (es.map Entry.all).take 3 |>.drop 1) =
      some [[32, 97, 61, 34, 38, 97, 109, 112, 59, 34], [32, 98, 61, 39, 49, 34, 39]] ∧
    writeAttrs [([97], [38]), ([98], [49, 34])] =
      [32, 97, 61, 34, 38, 97, 109, 112, 59, 34] ++ [32, 98, 61, 34, 49, 38, 113, 117, 111, 116, 59, 34] := by decide

/-! ### AndroidEntity.wrap (what the serializer calls to write a new value into an entity) -/

/-- `wrap` raises UnboundLocalError exactly for an element without child nodes (`<string name="a"/>`) -/
theorem wrap_unbound_iff (pre inner : Option Lit) (name : List Nat) (attrs : List (List Nat × List Nat))
    (children : List DNode) (a k r v raw : List Nat) :
    (Entry.entity pre inner (.element name attrs children) a k r v).wrap raw = .error .unbound ↔ children = [] :=
  C09P.wrap_unbound_iff pre inner name attrs children a k r v raw

/-- one text child: the new value becomes the text of the element (escaped by `toxml`) -/
theorem wrap_single_text (pre inner : Option Lit) (name : List Nat) (attrs : List (List Nat × List Nat))
    (d a k r v raw : List Nat) :
    (Entry.entity pre inner (.element name attrs [.text d]) a k r v).wrap raw =
      .ok (k, raw, optAll pre ++ optAll inner ++ (DNode.element name attrs [.text raw]).toxml) :=
  C09P.wrap_single_text pre inner name attrs d a k r v raw

/-- one element child (`<string name="a"><b>x</b></string>`): the new value is NOT written, the text stays as it was -/
theorem wrap_single_element_ignored (pre inner : Option Lit) (name : List Nat) (attrs : List (List Nat × List Nat))
    (n2 : List Nat) (as2 : List (List Nat × List Nat)) (cs2 : List DNode) (a k r v raw : List Nat)
    (hp : printableList cs2 = true) :
    (Entry.entity pre inner (.element name attrs [.element n2 as2 cs2]) a k r v).wrap raw =
      .ok (k, raw, optAll pre ++ optAll inner ++ (DNode.element name attrs [.element n2 as2 cs2]).toxml) :=
  C09P.wrap_single_element_ignored pre inner name attrs n2 as2 cs2 a k r v raw hp

/-! ### positions (C05 / C17 contract) and history -/

/-- `position(offset)` and `value_position(offset)` of every Android entry (AndroidEntity, XMLJunk, XMLWhitespace,
    XMLComment, DocumentWrapper) are the constant `(0, offset)`: Android entries have no spans (finding F5), line 0 is
    not a line of the file, and a negative offset ("end of the entity") is passed through — `XMLJunk.error_message()`
    therefore says "from line 0 column 0 to line 0 column -1". -/
theorem entry_positions (e : Entry) (offset : Int) :
    e.position offset = (0, offset) ∧ e.valuePosition offset = (0, offset) := ⟨rfl, rfl⟩

/-- the `(line, column)` that `ContentComparer.compare` / `lint_value` report for a check result on an Android entity is
    `(0, pos)` with `pos` the natural number the checker yielded: a well-formed pair of integers, line 0, column ≥ 0 -/
theorem check_result_position (e : Entry) (r : Android.Result) :
    resolvePos e r = (0, (r.pos : Int)) ∧ (0 : Int) ≤ (resolvePos e r).2 := by
  unfold resolvePos
  split <;> simp [Entry.position, Entry.valuePosition]

/-- **Where the positions of check results point** (C05 / C17 contract: well-formed non-negative integers, and more):
    every result of `AndroidChecker.check` is either the encoding warning, whose position is the offset of a U+FFFD
    inside `l10nEnt.all`, or has position 0, or an offset inside the localized value (apostrophes, doubled quotes,
    conflicts within the translation), or an offset inside the REFERENCE text (the "Conflicting formatting" warnings about
    the reference, which `compare` nevertheless reports as a column of the localized value). -/
theorem check_positions_inside (ref l10n : Entity) :
    ∃ rs, check ref l10n = some rs ∧
      ∀ r ∈ rs, (r.msg = .mojibake ∧ l10n.all[r.pos]? = some 0xFFFD) ∨
        r.pos = 0 ∨ r.pos < l10n.val.length ∨ r.pos < (textContent ref.node).length := by
  obtain ⟨rs, h, _⟩ := check_spec ref l10n
  exact ⟨rs, h, C09P.check_pos h⟩

/-- the last alternative of `check_positions_inside` is needed: a conflict inside the reference `aaaa %1$s %1$d` is
    reported at offset 10 although the translation is empty -/
example : check (textEnt [97, 97, 97, 97, 32, 37, 49, 36, 115, 32, 37, 49, 36, 100]) (textEnt []) =
    some [warn 10 (.conflict 1 [100] [115]), warn 0 (.notInL10n 1 [115])] := by decide

/-- no history in the checker: the results for the entities of a document do not depend on which entities were checked
    before (one AndroidChecker object for the whole file = a fresh one per entity) -/
theorem docCheck_append (ref l1 l2 : List Entry) : docCheck ref (l1 ++ l2) = docCheck ref l1 ++ docCheck ref l2 := by
  simp [docCheck, List.filterMap_append]

/-- `walk` has no state apart from the process-wide junk counter: the counter values of the XMLJunk entries of a walk
    are `start+1, start+2, …` in yield order -/
theorem junkCounters_spec (start : Nat) (es : List Entry) :
    (junkCounters start es).filterMap id = (List.range (es.filter Entry.isJunk).length).map (· + start + 1) := by
  induction es generalizing start with
  | nil => rfl
  | cons e es ih =>
    unfold junkCounters
    by_cases hj : e.isJunk = true
    · simp only [hj, if_true, List.filterMap_cons, id, List.filter_cons, List.length_cons]
      rw [ih (start + 1), List.range_succ_eq_map]
      simp [Function.comp_def]; intro a _; omega
    · simp [hj, ih start]

end C09

/-
C09 — Android: crashing format arguments and bad quoting are errors.
Property theorems only (helper lemmas live in CLModel/Proofs/C09*.lean; the independent reference
notions `lex`, `uses`, `argMap`, `Conflict`, `silence`, `Quoted`, `DoubledQuote`, `SimpleData`, …
are defined in CLModel/Proofs/C09Spec.lean without any regular expression).

`Android.check ref l10n` is the transliteration of `AndroidChecker.check(refEnt, l10nEnt)`; its
result is `some results` (`none` would mean "outside the modelled behaviour": `check_total`).
-/
import CLModel.Checks.Android
import CLModel.Proofs.C09Spec
import CLModel.Proofs.C09Check
namespace C09
open Android Android.Spec

/-- `AndroidChecker.check` never leaves the modelled behaviour: `int(order[0])` never raises and the
    `format` group always took part in the match, for every pair of entities. -/
theorem check_total (ref l10n : Entity) : (check ref l10n).isSome = true := by
  obtain ⟨rs, h, _⟩ := check_spec ref l10n
  simp [h]

/-- The printf regex of `get_params`, iterated by `re.finditer`, finds exactly what the hand-written
    left-to-right lexer `Spec.lex` finds: `%`, an optional `<1-9>$`, then `f`, `.<digits>f`, `d`, `s` or `S`;
    explicit position = the digit, format = the conversion text, for ALL strings. -/
theorem lex_model (v : List Nat) : lexParams v = some (lex v) :=
  lexParams_eq v

/-- `get_params([string])` = the independent numbering model (Java `Formatter` rules) on the lexed arguments:
    `n$` addresses argument n, an ordinary specifier takes the next sequential argument (counted
    independently of explicit ones); the dict maps each argument to the conversion of its FIRST use,
    `count` is the number of specifiers, `errors` lists every later use with a different conversion. -/
theorem params_model (v : List Nat) :
    ∃ st, getParams [.str v] = some st ∧
      (∀ p, dget st.params p = argMap v p) ∧
      st.count = (lex v).length ∧
      st.errors = conflictsOf (uses 1 (lex v)) ∧
      (st.params.map (·.1)).Nodup := by
  obtain ⟨st, h, inv, nd⟩ := getParams_str v
  exact ⟨st, h, inv.params, inv.count, inv.errors, nd⟩

/-- `check_apostrophes` on the list level: one error per non-overlapping `""` of the value with escapes
    `\x` blanked out (left to right), then — unless the silenced string starts and ends with `"` — one
    error per apostrophe that survives silencing of `\x` and `""`, at its own offset. -/
theorem apostrophes_model (v : List Nat) [Decidable (Quoted (silence v))] :
    checkApostrophes v =
      (dqPositions 0 (blankEsc v)).map (fun i => err i .doubleQuotes) ++
      (if Quoted (silence v) then [] else (indicesOf 39 0 (silence v)).map (fun i => err i .apostrophe)) :=
  checkApostrophes_eq v

/-- The two formulations of "a doubled straight quote" agree: scanning with an "escaped" flag, and
    looking for `""` after blanking out every escape `\x` (what the code does). -/
theorem doubled_quote_iff (v : List Nat) : unescapedDq false v = true ↔ DoubledQuote (blankEsc v) :=
  unescapedDq_iff v

/-- Characterisation of "an error is reported" for two `<string>` entities: exactly when one of the strings
    is marked translatable="false", the localized text content starts with `@string/`, the localized node is
    not (empty | one text node | one CDATA among white-space text), the value with escapes blanked out has
    two adjacent straight quotes, an apostrophe survives escape silencing in a value that does not start and end with a quote,
    an argument is used with two conversions inside the localized value, or the localized value uses an
    argument the reference does not have or has with a different (first) conversion. -/
theorem android_error_iff (ref l10n : Entity)
    (hr : ref.node.name = Gen.Tables.android_string_tag) (hl : l10n.node.name = Gen.Tables.android_string_tag) :
    ∃ rs, check ref l10n = some rs ∧
      (hasError rs = true ↔
        TranslatableFalse ref.node ∨ TranslatableFalse l10n.node ∨ AtString l10n.node ∨
        ¬ SimpleData l10n.node ∨
        DoubledQuote (blankEsc l10n.val) ∨ (¬ Quoted (silence l10n.val) ∧ 39 ∈ silence l10n.val) ∨
        Conflict l10n.val ∨
        ∃ p f, argMap l10n.val p = some f ∧ argMap (textContent ref.node) p ≠ some f) := by
  obtain ⟨rs, h, herr, _⟩ := check_spec ref l10n
  refine ⟨rs, h, ?_⟩
  rw [herr]
  constructor
  · rintro (h | ⟨_, h⟩)
    · exact absurd (hr.trans hl.symm) h
    · exact h
  · intro h; exact Or.inr ⟨hr, h⟩

/-- The same for arbitrary node names: different names are an error ("Incompatible resource types"),
    equal names other than `string` only a warning. -/
theorem android_error_iff_any_tag (ref l10n : Entity) :
    ∃ rs, check ref l10n = some rs ∧
      (hasError rs = true ↔
        ref.node.name ≠ l10n.node.name ∨
        (ref.node.name = Gen.Tables.android_string_tag ∧
          (TranslatableFalse ref.node ∨ TranslatableFalse l10n.node ∨ AtString l10n.node ∨
           ¬ SimpleData l10n.node ∨
           DoubledQuote (blankEsc l10n.val) ∨ (¬ Quoted (silence l10n.val) ∧ 39 ∈ silence l10n.val) ∨
           Conflict l10n.val ∨
           ∃ p f, argMap l10n.val p = some f ∧ argMap (textContent ref.node) p ≠ some f))) := by
  obtain ⟨rs, h, herr, _⟩ := check_spec ref l10n
  exact ⟨rs, h, herr⟩

/-- A plain, properly escaped string using a subset of the reference's arguments with the same
    conversions is never an error: every result of the checker is a warning.
    "Properly escaped": no doubled straight quote once escapes are respected (`hdq`), and every apostrophe
    is escaped or the value is enclosed in straight quotes (`hapos`). -/
theorem android_subset_ok (ref l10n : Entity)
    (hr : ref.node.name = Gen.Tables.android_string_tag) (hl : l10n.node.name = Gen.Tables.android_string_tag)
    (htr : ¬ TranslatableFalse ref.node) (htl : ¬ TranslatableFalse l10n.node)
    (hat : ¬ AtString l10n.node) (hplain : SimpleData l10n.node)
    (hdq : unescapedDq false l10n.val = false)
    (hapos : 39 ∉ silence l10n.val ∨ Quoted (silence l10n.val))
    (hconf : ¬ Conflict l10n.val)
    (hsub : ∀ p f, argMap l10n.val p = some f → argMap (textContent ref.node) p = some f) :
    ∃ rs, check ref l10n = some rs ∧ hasError rs = false ∧ ∀ r ∈ rs, r.sev = .warning := by
  obtain ⟨rs, h, herr⟩ := android_error_iff ref l10n hr hl
  have hne : hasError rs = false := by
    cases hh : hasError rs with
    | false => rfl
    | true =>
      exfalso
      rcases herr.mp hh with h | h | h | h | h | ⟨h1, h2⟩ | h | ⟨p, f, h1, h2⟩
      · exact htr h
      · exact htl h
      · exact hat h
      · exact h hplain
      · rw [(unescapedDq_iff _).mpr h] at hdq; cases hdq
      · rcases hapos with h3 | h3
        · exact h3 h2
        · exact h1 h3
      · exact hconf h
      · exact h2 (hsub p f h1)
  exact ⟨rs, h, hne, all_warn_of_not_hasError hne⟩

/-- Omitted arguments are only warned about: under the hypotheses of `android_subset_ok`, an argument
    of the reference that the localized value does not use yields the warning
    "Formatter %p$f not found in translation", and no result is an error. -/
theorem android_omitted_warn (ref l10n : Entity)
    (hr : ref.node.name = Gen.Tables.android_string_tag) (hl : l10n.node.name = Gen.Tables.android_string_tag)
    (htr : ¬ TranslatableFalse ref.node) (htl : ¬ TranslatableFalse l10n.node)
    (hat : ¬ AtString l10n.node) (hplain : SimpleData l10n.node)
    (hdq : unescapedDq false l10n.val = false)
    (hapos : 39 ∉ silence l10n.val ∨ Quoted (silence l10n.val))
    (hconf : ¬ Conflict l10n.val)
    (hsub : ∀ p f, argMap l10n.val p = some f → argMap (textContent ref.node) p = some f)
    (p : Nat) (f : List Nat)
    (href : argMap (textContent ref.node) p = some f) (hom : argMap l10n.val p = none) :
    ∃ rs, check ref l10n = some rs ∧ warn 0 (.notInL10n p f) ∈ rs ∧ ∀ r ∈ rs, r.sev = .warning := by
  obtain ⟨rs, h, _, hall⟩ := android_subset_ok ref l10n hr hl htr htl hat hplain hdq hapos hconf hsub
  obtain ⟨rs', h', _, hwarn⟩ := check_spec ref l10n
  rw [h] at h'; cases h'
  exact ⟨rs, h, hwarn (hr.trans hl.symm) hr htr htl hat hplain p f href hom, hall⟩

/-- The warning for an omitted argument does not depend on the quoting/argument hypotheses: it is
    produced whenever `check_string` gets as far as comparing arguments. -/
theorem android_omitted_warn_general (ref l10n : Entity)
    (hr : ref.node.name = Gen.Tables.android_string_tag) (hl : l10n.node.name = Gen.Tables.android_string_tag)
    (htr : ¬ TranslatableFalse ref.node) (htl : ¬ TranslatableFalse l10n.node)
    (hat : ¬ AtString l10n.node) (hplain : SimpleData l10n.node)
    (p : Nat) (f : List Nat)
    (href : argMap (textContent ref.node) p = some f) (hom : argMap l10n.val p = none) :
    ∃ rs, check ref l10n = some rs ∧ warn 0 (.notInL10n p f) ∈ rs := by
  obtain ⟨rs, h, _, hwarn⟩ := check_spec ref l10n
  exact ⟨rs, h, hwarn (hr.trans hl.symm) hr htr htl hat hplain p f href hom⟩

/-! ### non-vacuity -/

/-- `<string name="foo">v</string>` with one text child, as the parser makes it -/
def textEnt (v : List Nat) : Entity :=
  mkEntity { name := Gen.Tables.android_string_tag, translatable := none, children := [.text v],
             xml := [60, 115, 62] ++ v } []

/-- `%1$s and %2$d` -/
def refV : List Nat := [37, 49, 36, 115, 32, 97, 110, 100, 32, 37, 50, 36, 100]
/-- `it\'s %2$d` -/
def okV : List Nat := [105, 116, 92, 39, 115, 32, 37, 50, 36, 100]
/-- `"say \"hi\""` -/
def f14V : List Nat := [34, 115, 97, 121, 32, 92, 34, 104, 105, 92, 34, 34]
/-- `it's %3$d %3$s` -/
def badV : List Nat := [105, 116, 39, 115, 32, 37, 51, 36, 100, 32, 37, 51, 36, 115]

/-- the model itself, evaluated without any theorem -/
example : check (textEnt refV) (textEnt okV) = some [warn 0 (.notInL10n 1 [115])] := by decide

example : check (textEnt refV) (textEnt badV) =
    some [err 2 .apostrophe, err 10 (.conflict 3 [115] [100]), err 0 (.notInRef 3 [100]),
          warn 0 (.notInL10n 1 [115]), warn 0 (.notInL10n 2 [100])] := by decide

/-- the reference lexer and numbering on a mixed string: `%s %2$d %.2f %s` -/
example : uses 1 (lex [37, 115, 32, 37, 50, 36, 100, 32, 37, 46, 50, 102, 32, 37, 115]) =
    [(1, ⟨0, none, [115]⟩), (2, ⟨3, some 2, [100]⟩), (2, ⟨8, none, [46, 50, 102]⟩), (3, ⟨13, none, [115]⟩)] := by
  decide

theorem okV_hyps :
    unescapedDq false okV = false ∧ 39 ∉ silence okV ∧ ¬ Conflict okV ∧
    (∀ p f, argMap okV p = some f → argMap refV p = some f) ∧
    argMap refV 1 = some [115] ∧ argMap okV 1 = none := by
  have hu : uses 1 (lex okV) = [(2, ⟨6, some 2, [100]⟩)] := by decide
  refine ⟨?_, ?_, ?_, ?_, by decide, by decide⟩
  · decide
  · simp [silence, blankPairs, silCond, okV]
  · rw [conflict_iff_conflictsOf, hu]; decide
  · intro p f h
    unfold argMap at h
    rw [hu] at h
    simp only [firstFmt, List.find?_cons, List.find?_nil] at h
    by_cases hp : p = 2
    · subst hp; simp at h; subst h; decide
    · have : ((2 : Nat) == p) = false := by simp; omega
      simp [this] at h

/-- the hypotheses of `android_subset_ok` / `android_omitted_warn` are satisfiable by a
    non-trivial pair (escaped apostrophe, explicit argument, one argument omitted) -/
example : ∃ rs, check (textEnt refV) (textEnt okV) = some rs ∧
    warn 0 (.notInL10n 1 [115]) ∈ rs ∧ ∀ r ∈ rs, r.sev = .warning :=
  android_omitted_warn (textEnt refV) (textEnt okV) rfl rfl
    (by intro h; cases h) (by intro h; cases h) (by unfold AtString; decide) (Or.inr (Or.inl ⟨okV, rfl⟩))
    okV_hyps.1 (Or.inl okV_hyps.2.1) okV_hyps.2.2.1 okV_hyps.2.2.2.1 1 [115]
    okV_hyps.2.2.2.2.1 okV_hyps.2.2.2.2.2

/-- `android_error_iff`, right to left, on a value with a bare apostrophe -/
example : ∃ rs, check (textEnt refV) (textEnt badV) = some rs ∧ hasError rs = true := by
  obtain ⟨rs, h, herr⟩ := android_error_iff (textEnt refV) (textEnt badV) rfl rfl
  refine ⟨rs, h, herr.mpr ?_⟩
  right; right; right; right; right; left
  constructor
  · intro hq; have := hq.1; simp [silence, blankPairs, silCond, badV, textEnt, mkEntity, textContent, firstCdata] at this
  · simp [silence, blankPairs, silCond, badV, textEnt, mkEntity, textContent, firstCdata]

/-- Formerly finding F14 (fixed in /repo 308b966), now a positive example of `android_subset_ok`:
    `"say \"hi\""` is enclosed in quotes and both inner quotes are escaped; the raw value has two adjacent
    `"` at its end (`DoubledQuote f14V`) but none once escapes are respected, and the checker only warns about
    the omitted arguments. -/
theorem escaped_quote_then_quote_ok :
    check (textEnt refV) (textEnt f14V) =
      some [warn 0 (.notInL10n 1 [115]), warn 0 (.notInL10n 2 [100])] ∧
    unescapedDq false f14V = false ∧ DoubledQuote f14V ∧ ¬ DoubledQuote (blankEsc f14V) ∧
    Quoted (silence f14V) ∧ 39 ∉ silence f14V ∧ ¬ Conflict f14V ∧ (∀ p, argMap f14V p = none) := by
  have hl : lex f14V = [] := by decide
  refine ⟨by decide, by decide, ⟨10, by decide, by decide⟩, ?_, ?_, ?_, ?_, ?_⟩
  · intro h; have := (unescapedDq_iff f14V).mpr h; revert this; decide
  · simp [Quoted, silence, blankPairs, silCond, f14V]
  · simp [silence, blankPairs, silCond, f14V]
  · rw [conflict_iff_conflictsOf, hl]; decide
  · intro p; simp [argMap, hl, uses, firstFmt]

/-- the theorem applied to that value -/
example : ∃ rs, check (textEnt refV) (textEnt f14V) = some rs ∧ hasError rs = false ∧ ∀ r ∈ rs, r.sev = .warning :=
  android_subset_ok (textEnt refV) (textEnt f14V) rfl rfl
    (by intro h; cases h) (by intro h; cases h) (by unfold AtString; decide) (Or.inr (Or.inl ⟨f14V, rfl⟩))
    escaped_quote_then_quote_ok.2.1 (Or.inr escaped_quote_then_quote_ok.2.2.2.2.1)
    escaped_quote_then_quote_ok.2.2.2.2.2.2.1
    (by intro p f h; rw [show (textEnt f14V).val = f14V from rfl, escaped_quote_then_quote_ok.2.2.2.2.2.2.2 p] at h; cases h)

/-- a genuinely doubled quote (escaped backslash, then `""`) is still an error: `\\""` -/
example : check (textEnt refV) (textEnt [92, 92, 34, 34]) =
    some [err 2 .doubleQuotes, warn 0 (.notInL10n 1 [115]), warn 0 (.notInL10n 2 [100])] := by decide

/-! ### negation witnesses -/

/-- different node names are an error whatever the content (why the theorems above assume `string`) -/
example : check { textEnt refV with node := { (textEnt refV).node with name := [112] } } (textEnt refV)
    = some [err 0 .incompatible] := by decide

/-- equal names other than `string`: only "Unsupported resource type", a warning -/
example : check { textEnt badV with node := { (textEnt badV).node with name := [112] } }
    { textEnt badV with node := { (textEnt badV).node with name := [112] } }
    = some [warn 0 .unsupported] := by decide

end C09

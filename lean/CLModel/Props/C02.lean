/-
C02 — Well-formed entries are recovered exactly; junk damage stays local.
Property theorems only (helper lemmas live in CLModel/Proofs/C02*.lean).

FULL STATEMENT (DESIGN.md "### C02"), per format `fmt`:
  roundtrip_fmt   : entitiesOf (walk fmt (print fmt rs lay)) = rs.map (expected fmt) ∧ junkOf … = []
                    for ALL record lists with unique keys and legal raw values, ALL legal layouts
  unescape_is_spec: val fmt v = specUnescape fmt v                      for all raw values v
  garbage_local   : junkOf (walk fmt (printWithGarbage … i g)) = [g.text] ∧ entities unchanged
  license_standalone_fmt (properties, dtd, ini, po)
What is proved here, and what is not:
  * `props_unescape_is_spec`                       FULL (all texts)
  * `po_unescape_is_spec`, `po_unescape_spec`       FULL (all texts / all well-formed token lists) since the fix b81665f
  * `roundtrip_properties_partial`, `props_single_record`
        restricted to safe keys/values, separator `=`, one newline after each record; no comments,
        no escapes, no continuation lines, no other layouts (those are covered differentially)
  * `roundtrip_properties_comments_partial` (+ `attached_comment_span`, `attached_comment_val`)
        the same records, each with at most ONE preceding `# text` line: pre-comment span and comment value
  * `garbage_local_properties_partial`             records, one inert garbage line, records (properties only)
  * `ini_single_record_partial`, `roundtrip_ini_partial`
        one record / a section header + an unbounded list of records; no comments, no blank lines
  * `roundtrip_inc_partial` (+ `roundtrip_inc_absent_val_span`)   unbounded lists of `#define KEY value`
  * `roundtrip_dtd_partial`                        unbounded lists of `<!ENTITY key "value">`, ASCII names, no `&`
  * `po_single_record_partial`                     ONE `msgid "K"⏎msgstr "V"⏎` record (spans, fragments, eval, view)
  * `license_standalone_*`                         FULL for properties / base getNext / po / dtd; ini under `s[off] ≠ '['`
  * every other layout of these formats, po lists, `garbage_local` for the other formats, Fluent and Android:
    NOT proved (harness only)
  Helper lemmas of sections (6)–(11) live in CLModel/Proofs/C02X*.lean (namespace `C02X`).
-/
import CLModel.Proofs.C02Hist
import CLModel.Parser.Values
import CLModel.Proofs.C02Props
import CLModel.Proofs.C02Po
import CLModel.Proofs.C02Roundtrip
import CLModel.Proofs.C02Ini
import CLModel.Proofs.C02XIni
import CLModel.Proofs.C02XInc
import CLModel.Proofs.C02XDtd
import CLModel.Proofs.C02XComment
import CLModel.Proofs.C02XGarbage
import CLModel.Proofs.C02XPo
import CLModel.Proofs.C02PIniLic
import CLModel.Proofs.C02PPo
import CLModel.Proofs.C02PProps
import CLModel.Proofs.C02PDemo
namespace C02
open P Rx Gen.Pat

/-! ### (1) properties: the unescape of the code is the documented one -/

/-- `PropertiesEntityMixin.val` — `escape.sub(unescape, raw_val)` with the escape regex and the `known_escapes`
    table generated from the source — never raises and computes, for EVERY raw value, exactly the documented
    rules: `\uXXXX` with 1–4 hex digits, backslash-newline-indentation removed, `\n \r \t \\`, any other `\c → c`,
    a final lone backslash kept.  (If the regex or the table is edited, this proof breaks.) -/
theorem props_unescape_is_spec (v : List Nat) : propsVal v = some (propsUnescapeSpec v) :=
  propsVal_eq_spec v

/-- values without a backslash are their own unescaped value -/
theorem props_unescape_id (v : List Nat) (h : ∀ c ∈ v, c ≠ 92) : propsVal v = some v := by
  rw [propsVal_eq_spec, spec_id v h]

-- non-vacuity: the specification really unescapes   "\u41\q"  ->  "Aq",   "\<nl> z\"  ->  "z\",   "\n\r\t"
example : propsUnescapeSpec [92, 117, 52, 49, 92, 113] = [65, 113] :=
  Option.some.inj ((props_unescape_is_spec _).symm.trans (by decide))
example : propsUnescapeSpec [92, 10, 32, 122, 92] = [122, 92] :=
  Option.some.inj ((props_unescape_is_spec _).symm.trans (by decide))
example : propsUnescapeSpec [92, 110, 92, 114, 92, 116] = [10, 13, 9] :=
  Option.some.inj ((props_unescape_is_spec _).symm.trans (by decide))

/-! ### (2) PO: `eval_stringlist` is the documented one-pass unescape

History: until /repo b81665f the code applied five successive `str.replace`; the fragment `\\n` (escaped backslash,
then the letter n) was evaluated to a NEWLINE (finding C02-po-sequential-unescape, then proved as
`po_unescape_not_one_pass`).  The code now substitutes once with `reEscape`; the statement below is full. -/

/-- `eval_stringlist` on one fragment — `reEscape.sub(lambda m: escapes[m.group(1)], line)` with the regex and the
    `escapes` table generated from the source — never raises and equals, for EVERY text, the one-pass scanner:
    `\\ \t \r \n \"` are backslash, tab, CR, newline, quote; everything else is copied. -/
theorem po_unescape_is_spec (v : List Nat) : poUnescape v = some (poOnePassText v) :=
  poUnescape_eq_spec v

/-- token form: for every fragment that `reListItem` accepts (a list of tokens: an escape `\\ \t \r \n \"` or a plain
    character) the value is the token-wise unescape — no hazard-free hypothesis any more. -/
theorem po_unescape_spec (ts : List PoTok) (hwf : ∀ t ∈ ts, t.wf = true) :
    poUnescape (poRender ts) = some (poOnePass ts) :=
  poUnescape_render ts hwf

/-- the former counterexample is now a positive example: `\\n` is backslash + `n` -/
theorem po_unescape_backslash_n : poUnescape [92, 92, 110] = some [92, 110] := by decide

-- non-vacuity: `a\tb\\\"c` (every kind of token)
example : poUnescape (poRender [.plain 97, .esc 116, .plain 98, .esc 92, .esc 34, .plain 99]) = some [97, 9, 98, 92, 34, 99] := by decide
-- a backslash before any other character, or at the end, is copied (such fragments are not accepted by `reListItem`)
example : poUnescape [92, 120, 92] = some [92, 120, 92] := by decide
-- the rendered tokens are what the generated list-item regex accepts as one quoted fragment (`"a\tb\\"`)
example : (matchAt #[34, 97, 92, 116, 98, 92, 92, 34] PoParser_reListItem 0).map (·.pos) = some 8 := by decide

/-! ### (3) properties round trip for an unbounded class of printed files -/

/-- One record: if at offset `pre.length` the text reads `key=value⏎…` with a safe key (non-empty, no `# ! = :`
    and no white-space) and a safe value (no backslash, no newline, no blank at either end, no CR at the end), then
    `PropertiesParser.getNext` returns the entity whose key span is exactly the key and whose value span is exactly
    the value; no comment is attached. -/
theorem props_single_record (pre key value rest : List Nat) (h : SafeRec (key, value)) :
    propsGetNext (pre ++ (key ++ 61 :: (value ++ [10])) ++ rest).toArray pre.length =
      propsEntity_c02 pre.length key.length value.length := by
  apply props_entity_at
  apply recAt_of_drop _ _ (key, value) rest h
  simp [printRec]

/-- A whole file: for EVERY list of safe records printed as `key=value⏎` one after the other, the walk terminates,
    yields exactly one entity per record, in order, with exactly the printed key, the printed raw value, the same
    unescaped value and no attached comment, and reports no junk. -/
theorem roundtrip_properties_partial (rs : List PRec) (h : ∀ r ∈ rs, SafeRec r) :
    ∃ es, walk .properties (printProps rs).toArray = .done es ∧
      entitiesOf .properties (printProps rs).toArray es = rs.map expectedView ∧
      junkOf (printProps rs).toArray es = [] := by
  refine ⟨expEntries 0 rs, walk_props_printed rs h, ?_⟩
  exact entitiesOf_expEntries (printProps rs).toArray rs 0 (by simp) h

-- non-vacuity: two records  "a.b=x y" and "k=" (empty value)
example : SafeRec ([97, 46, 98], [120, 32, 121]) ∧ SafeRec ([107], []) := by
  constructor <;> constructor <;> simp [propsKeyChar] <;> decide
example : printProps [([97, 46, 98], [120, 32, 121]), ([107], [])] = [97, 46, 98, 61, 120, 32, 121, 10, 107, 61, 10] := by decide

-- NEGATION WITNESSES for the hypotheses on the value (what the code does at the excluded points):
-- a value ending in a blank: the blank is stripped ("a=b ⏎"  ->  value span 2..3)
example : (propsGetNext #[97, 61, 98, 32, 10] 0).ve = 3 := by decide
-- ... even if the blank is escaped ("a=b\ ⏎" -> raw value `b\`): candidate defect, see NOTES-C02
example : (propsGetNext #[97, 61, 98, 92, 32, 10] 0).ve = 4 := by decide
-- a value ending in a backslash swallows the next record ("a=b\⏎c=d⏎" is ONE entity up to offset 8)
example : (propsGetNext #[97, 61, 98, 92, 10, 99, 61, 100, 10] 0).e = 8 := by decide
-- a key character excluded by `propsKeyChar`: ":" ends the key ("a:b=c⏎" -> key span 0..1)
example : (propsGetNext #[97, 58, 98, 61, 99, 10] 0).ke = 1 := by decide

/-! ### (4) the License rule -/

/-- properties: if the comment regex matches at offset 0 and the comment's value contains the word "License",
    the entry returned at offset 0 is that comment, standalone. -/
theorem license_standalone_properties (s : Array Nat) (st : St)
    (hm : matchAt s PropertiesParser_reComment 0 = some st)
    (hl : isInfix licenseWord (commentVal (.offset Gen.Tables.offsetCommentDefault) (slice s 0 st.pos)) = true) :
    propsGetNext s 0 = { kind := .comment, full := 0, s := 0, e := st.pos } := by
  unfold propsGetNext
  simp [hm, hl]

/-- properties: an entry never has a pre-comment that starts before the offset it was parsed at.  Together with
    `license_standalone_properties`: the entry parsed after the leading License comment (at offset `st.pos`)
    cannot have that comment attached. -/
theorem license_first_entity_unattached_properties (s : Array Nat) (off a b : Nat)
    (h : (propsGetNext s off).pc = some (a, b)) : a = off :=
  pc_start s off a b h

/-- the base `Parser.getNext` (used by dtd, ini, po): a comment matched at an offset < 2 whose value contains
    "License" is returned standalone. -/
theorem license_standalone_base (c : BaseCfg) (s : Array Nat) (off : Nat) (st : St) (hoff : off < 2)
    (hm : matchAt s c.reComment off = some st)
    (hl : isInfix licenseWord (commentVal c.commentStyle (slice s off st.pos)) = true) :
    getNext c s off = { kind := .comment, full := off, s := off, e := st.pos } := by
  unfold getNext
  simp [hm, hl, hoff]

/-- po -/
theorem license_standalone_po (s : Array Nat) (off : Nat) (st : St) (hoff : off < 2)
    (hm : matchAt s PoParser_reComment off = some st)
    (hl : isInfix licenseWord (slice s off st.pos) = true) :
    poGetNext s off = { kind := .comment, full := off, s := off, e := st.pos } :=
  license_standalone_base poCfg s off st hoff hm hl

/-- ini: the section test comes first in `IniParser.getNext`, but a comment never starts with `[` — where `reComment`
    matches, the text reads `;` or `#` (`C02P.ini_comment_head`) — so the base rule applies unchanged.  (Round 4: the
    former extra hypothesis "the text at the offset is not `[`" is now proved for every comment.) -/
theorem license_standalone_ini (s : Array Nat) (off : Nat) (st : St) (hoff : off < 2)
    (hm : matchAt s IniParser_reComment off = some st)
    (hl : isInfix licenseWord (commentVal (.offset Gen.Tables.offsetCommentDefault) (slice s off st.pos)) = true) :
    iniGetNext s off = { kind := .comment, full := off, s := off, e := st.pos } := by
  have hsec := C02P.ini_comment_not_section s off st hm
  have : matchAt s IniParser_reSection off = none := by
    simp only [matchAt, IniParser_reSection, m_seq, m_lit]
    simp [hsec]
  unfold iniGetNext
  simp only [this]
  exact license_standalone_base iniCfg s off st hoff hm hl

/-- where an ini comment matches, the text starts with `;` or `#` -/
theorem ini_comment_starts_with_marker (s : Array Nat) (off : Nat) (st : St)
    (hm : matchAt s IniParser_reComment off = some st) : s[off]? = some 59 ∨ s[off]? = some 35 :=
  C02P.ini_comment_head s off st hm

-- non-vacuity: "; License⏎[S]⏎" — the comment at offset 0 is standalone, the section follows
example : iniGetNext #[59, 32, 76, 105, 99, 101, 110, 115, 101, 10, 91, 83, 93, 10] 0 = { kind := .comment, full := 0, s := 0, e := 9 } := by decide

/-- dtd, with or without a byte-order mark: `off` is where `DTDParser.getNext` really starts -/
theorem license_standalone_dtd (s : Array Nat) (off0 : Nat) (st : St)
    (hoff : (if off0 == 0 && (matchAt s DTDParser_reHeader 0).isSome then off0 + 1 else off0) < 2)
    (hm : matchAt s DTDParser_reComment (if off0 == 0 && (matchAt s DTDParser_reHeader 0).isSome then off0 + 1 else off0) = some st)
    (hl : isInfix licenseWord (commentVal .dtd (slice s (if off0 == 0 && (matchAt s DTDParser_reHeader 0).isSome then off0 + 1 else off0) st.pos)) = true) :
    dtdGetNext s off0 =
      { kind := .comment, full := (if off0 == 0 && (matchAt s DTDParser_reHeader 0).isSome then off0 + 1 else off0),
        s := (if off0 == 0 && (matchAt s DTDParser_reHeader 0).isSome then off0 + 1 else off0), e := st.pos } := by
  unfold dtdGetNext
  simp only []
  rw [license_standalone_base dtdCfg s _ st hoff hm hl]
  simp

-- non-vacuity: "# License⏎a=b" : the comment is standalone, the entity that follows has no pre-comment
example : propsGetNext #[35, 32, 76, 105, 99, 101, 110, 115, 101, 10, 97, 61, 98] 0 = { kind := .comment, full := 0, s := 0, e := 9 } := by decide
example : (propsGetNext #[35, 32, 76, 105, 99, 101, 110, 115, 101, 10, 97, 61, 98] 10).pc = none := by decide
-- without the rule the same comment IS attached ("# Licence⏎a=b", other spelling): the rule is what detaches it
example : (propsGetNext #[35, 32, 76, 105, 99, 101, 110, 99, 101, 10, 97, 61, 98] 0).pc = some (0, 9) := by decide
-- NEGATION WITNESS for `offset == 0`: after one leading newline the License comment is attached ("⏎# License⏎a=b")
example : (propsGetNext #[10, 35, 32, 76, 105, 99, 101, 110, 115, 101, 10, 97, 61, 98] 1).pc = some (1, 10) := by decide
-- dtd with BOM: the hypotheses of `license_standalone_dtd` hold for  "﻿<!--License--><!ENTITY a "b">"  (comment at offset 1)
example : ∃ st,
    (if (0 : Nat) == 0 && (matchAt #[65279, 60, 33, 45, 45, 76, 105, 99, 101, 110, 115, 101, 45, 45, 62, 60, 33, 69, 78, 84, 73, 84, 89, 32, 97, 32, 34, 98, 34, 62] DTDParser_reHeader 0).isSome then 0 + 1 else 0) = 1 ∧
    matchAt #[65279, 60, 33, 45, 45, 76, 105, 99, 101, 110, 115, 101, 45, 45, 62, 60, 33, 69, 78, 84, 73, 84, 89, 32, 97, 32, 34, 98, 34, 62] DTDParser_reComment 1 = some st ∧
    isInfix licenseWord (commentVal .dtd (slice #[65279, 60, 33, 45, 45, 76, 105, 99, 101, 110, 115, 101, 45, 45, 62, 60, 33, 69, 78, 84, 73, 84, 89, 32, 97, 32, 34, 98, 34, 62] 1 st.pos)) = true :=
  ⟨⟨15, [(1, 11, 12), (1, 10, 11), (1, 9, 10), (1, 8, 9), (1, 7, 8), (1, 6, 7), (1, 5, 6)]⟩, by decide, by decide, by decide⟩

/-! ### (5) ini: one record -/

/-- ini: if at offset `pre.length` the text reads `key=value` followed by a newline or the end of the text — key
    non-empty, without `=` and newline, not starting with `[ ; #` or white-space; value without newline — then
    `IniParser.getNext` returns the entity with exactly that key span and that value span (the raw value keeps
    leading and trailing blanks), no comment attached. -/
theorem ini_single_record_partial (s : Array Nat) (off klen vlen : Nat) (h : IniRecAt s off klen vlen) :
    iniGetNext s off = iniEntity off klen vlen :=
  ini_entity_at s off klen vlen h

-- non-vacuity: "k = v " at offset 0 of "k = v ⏎x"
example : iniGetNext #[107, 32, 61, 32, 118, 32, 10, 120] 0 = iniEntity 0 2 3 := by decide
-- NEGATION WITNESS for "key does not start with [": "[a]=b" is a section, not an entity
example : (iniGetNext #[91, 97, 93, 61, 98] 0).kind = .section := by decide

/-! ### (6) ini: a whole printed file (section header + records) -/

/-- ini, a whole file: for EVERY section name without `]` and newline and EVERY list of safe ini records (key non-empty,
    without `=` and newline, not starting with `[ ; #` or white-space; value without newline — blanks are kept) printed as
    `[sec]⏎` followed by `key=value⏎` per record, `IniParser.walk` terminates and yields EXACTLY: the section entry
    (span `[sec]`, value span `sec`), a one-newline white-space entry, and per record the entity (span `key=value`, key
    span, value span) followed by a one-newline white-space entry (`C02X.iniExpEntries`); the entities evaluate to exactly
    the printed keys and raw values (value = raw value), no comment attached; there is no junk.
    FULL statement (not proved): all legal layouts (blank lines, comments, no section / several sections, CRLF). -/
theorem roundtrip_ini_partial (sec : List Nat) (rs : List PRec) (hsec : ∀ c ∈ sec, c ≠ 93 ∧ c ≠ 10)
    (h : ∀ r ∈ rs, C02X.SafeIniRec r) :
    walk .ini (C02X.printIni sec rs).toArray = .done (C02X.iniExpEntries sec rs) ∧
      entitiesOf .ini (C02X.printIni sec rs).toArray (C02X.iniExpEntries sec rs) = rs.map expectedView ∧
      junkOf (C02X.printIni sec rs).toArray (C02X.iniExpEntries sec rs) = [] :=
  ⟨C02X.walk_ini_printed sec rs hsec h, C02X.entitiesOf_iniExpEntries sec rs⟩

-- non-vacuity: "[Strings]⏎a b= x ⏎k=⏎"  (blanks inside key and around the value are kept, empty value)
example : C02X.SafeIniRec ([97, 32, 98], [32, 120, 32]) ∧ C02X.SafeIniRec ([107], []) := by
  constructor <;> constructor <;> simp
example : C02X.printIni [83, 116, 114, 105, 110, 103, 115] [([97, 32, 98], [32, 120, 32]), ([107], [])] =
    [91, 83, 116, 114, 105, 110, 103, 115, 93, 10, 97, 32, 98, 61, 32, 120, 32, 10, 107, 61, 10] := by decide
example : C02X.iniExpEntries [83, 116, 114, 105, 110, 103, 115] [([97, 32, 98], [32, 120, 32]), ([107], [])] =
    [{ kind := .section, full := 0, s := 0, e := 9, ks := 1, ke := 8, vs := 1, ve := 8 },
     { kind := .whitespace, full := 9, s := 9, e := 10, ks := 9, ke := 10, vs := 9, ve := 10 },
     { kind := .entity, full := 10, s := 10, e := 17, ks := 10, ke := 13, vs := 14, ve := 17 },
     { kind := .whitespace, full := 17, s := 17, e := 18, ks := 17, ke := 18, vs := 17, ve := 18 },
     { kind := .entity, full := 18, s := 18, e := 20, ks := 18, ke := 19, vs := 20, ve := 20 },
     { kind := .whitespace, full := 20, s := 20, e := 21, ks := 20, ke := 21, vs := 20, ve := 21 }] := by decide
-- NEGATION WITNESSES (what the code does at the excluded points):
-- a key starting with `;` is a comment line ("[S]⏎;a=b⏎": the entry at offset 4 is a comment)
example : (iniGetNext #[91, 83, 93, 10, 59, 97, 61, 98, 10] 4).kind = .comment := by decide
-- a key containing `=`: the key ends at the FIRST `=` ("a=b=c": key span 0..1, value span 2..5)
example : ((iniGetNext #[97, 61, 98, 61, 99] 0).ke, (iniGetNext #[97, 61, 98, 61, 99] 0).vs) = (1, 2) := by decide
-- a section name containing `]` ends at the first `]` ("[a]b]⏎": section value span 1..2, entry ends at 3)
example : ((iniGetNext #[91, 97, 93, 98, 93, 10] 0).ke, (iniGetNext #[91, 97, 93, 98, 93, 10] 0).e) = (2, 3) := by decide
-- a key starting with a blank: the blank goes to the white-space entry, the key loses it ("[S]⏎ a=b": ws entry 3..5)
example : (iniGetNext #[91, 83, 93, 10, 32, 97, 61, 98] 3).e = 5 := by decide

/-! ### (7) .inc (DefinesParser): a whole printed file -/

/-- .inc, a whole file: for EVERY list of safe records (key non-empty, made of ASCII letters / digits / underscore; value
    without newline, possibly empty) printed as `#define KEY value⏎` — resp. `#define KEY⏎` when the value is empty — one
    directly after the other (no blank lines, so the `#filter emptyLines` state is irrelevant; it stays `False`),
    `DefinesParser.walk` terminates and yields EXACTLY, per record, the entity followed by a one-newline white-space entry
    (`C02X.incExpEntries`): entity span = the line without its newline, key span = `KEY`, value span = the text after the ONE
    separating blank; for an EMPTY value the `val` group takes no part in the match and the value span is Python's
    `(-1, -1)` (see `roundtrip_inc_absent_val_span`), whose slice is the empty text.  The entities evaluate to exactly the
    printed keys and raw values (value = raw value), no comment attached; there is no junk.
    FULL statement (not proved): comments, blank lines under `#filter emptyLines`, other instructions, tabs/several
    blanks after `#define`, non-ASCII `\w` keys. -/
theorem roundtrip_inc_partial (rs : List C02X.IRec) (h : ∀ r ∈ rs, C02X.SafeIncRec r) :
    walk .inc (C02X.printInc rs).toArray = .done (C02X.incExpEntries 0 rs) ∧
      entitiesOf .inc (C02X.printInc rs).toArray (C02X.incExpEntries 0 rs) = rs.map expectedView ∧
      junkOf (C02X.printInc rs).toArray (C02X.incExpEntries 0 rs) = [] :=
  ⟨C02X.walk_inc_printed rs h, C02X.entitiesOf_incExpEntries _ rs 0 (by simp)⟩

/-- the spans of one record explicitly: empty value ⇒ value span `(-1, -1)`; otherwise the text after the blank -/
theorem roundtrip_inc_absent_val_span (off klen : Nat) :
    ((C02X.incEntity off klen 0).vs, (C02X.incEntity off klen 0).ve) = (-1, -1) ∧
      ∀ vlen, 0 < vlen → ((C02X.incEntity off klen vlen).vs, (C02X.incEntity off klen vlen).ve) =
        (((off + 8 + klen + 1 : Nat) : Int), ((off + 8 + klen + 1 + vlen : Nat) : Int)) := by
  constructor
  · simp [C02X.incEntity]
  · intro vlen hv
    have : vlen ≠ 0 := by omega
    simp [C02X.incEntity, this]

-- non-vacuity: "#define A_1  x y" (value " x y" keeps its own leading blank) and "#define b" (no value)
example : C02X.SafeIncRec ([65, 95, 49], [32, 120, 32, 121]) ∧ C02X.SafeIncRec ([98], []) := by
  constructor <;> constructor <;> simp <;> decide
example : C02X.printInc [([65, 95, 49], [32, 120, 32, 121]), ([98], [])] =
    [35, 100, 101, 102, 105, 110, 101, 32, 65, 95, 49, 32, 32, 120, 32, 121, 10,
     35, 100, 101, 102, 105, 110, 101, 32, 98, 10] := by decide
example : C02X.incExpEntries 0 [([65, 95, 49], [32, 120, 32, 121]), ([98], [])] =
    [{ kind := .entity, full := 0, s := 0, e := 16, ks := 8, ke := 11, vs := 12, ve := 16 },
     { kind := .whitespace, full := 16, s := 16, e := 17, ks := 16, ke := 17, vs := 16, ve := 17 },
     { kind := .entity, full := 17, s := 17, e := 26, ks := 25, ke := 26, vs := -1, ve := -1 },
     { kind := .whitespace, full := 26, s := 26, e := 27, ks := 26, ke := 27, vs := 26, ve := 27 }] := by decide
-- NEGATION WITNESSES (what the code does at the excluded points):
-- a key character outside `\w` ends the key and the entity: "#define a-b x⏎" is the entity `a` (0..9) followed by junk "-b x⏎"
set_option maxRecDepth 100000 in
example : (definesGetNext #[35, 100, 101, 102, 105, 110, 101, 32, 97, 45, 98, 32, 120, 10] false 0).1 =
    { kind := .entity, full := 0, s := 0, e := 9, ks := 8, ke := 9 } ∧
  (definesGetNext #[35, 100, 101, 102, 105, 110, 101, 32, 97, 45, 98, 32, 120, 10] false 9).1 =
    { kind := .junk, full := 9, s := 9, e := 14 } := by decide
-- an empty value printed WITH the separating blank ("#define b ⏎") gives an empty but present value span (10, 10)
set_option maxRecDepth 100000 in
example : ((definesGetNext #[35, 100, 101, 102, 105, 110, 101, 32, 98, 32, 10] false 0).1.vs,
    (definesGetNext #[35, 100, 101, 102, 105, 110, 101, 32, 98, 32, 10] false 0).1.ve) = (10, 10) := by decide
-- a blank line between records (outside `#filter emptyLines`) is junk: "#define a⏎⏎#define b⏎" at offset 9
set_option maxRecDepth 100000 in
example : (definesGetNext #[35, 100, 101, 102, 105, 110, 101, 32, 97, 10, 10, 35, 100, 101, 102, 105, 110, 101, 32, 98, 10] false 9).1.kind = .junk := by decide

/-! ### (8) DTD: a whole printed file -/

/-- DTD, a whole file: for EVERY list of safe records (key = an ASCII letter followed by ASCII letters / digits / `.` / `-`;
    value without `"` and without `&`; newlines, `<`, `%`, `'` in the value are allowed) printed as
    `<!ENTITY key "value">⏎` one after the other, `DTDParser.walk` terminates and yields EXACTLY, per record, the entity
    followed by a one-newline white-space entry (`C02X.dtdExpEntries`): entity span = `<!ENTITY … >`, key span = `key`,
    value span = the quoted text WITHOUT the two quotes (`createEntity` shrinks the span of the `val` group by one on each
    side).  The entities evaluate to exactly the printed keys and raw values (value = raw value: there is no `&` to
    unescape), no comment attached; there is no junk.
    FULL statement (not proved): single-quoted values, non-ASCII names, other white-space, comments, parameter entities,
    byte-order mark, values with character references (needs `html.unescape`). -/
theorem roundtrip_dtd_partial (rs : List C02X.DRec) (h : ∀ r ∈ rs, C02X.SafeDtdRec r) :
    walk .dtd (C02X.printDtd rs).toArray = .done (C02X.dtdExpEntries 0 rs) ∧
      entitiesOf .dtd (C02X.printDtd rs).toArray (C02X.dtdExpEntries 0 rs) = rs.map expectedView ∧
      junkOf (C02X.printDtd rs).toArray (C02X.dtdExpEntries 0 rs) = [] :=
  ⟨C02X.walk_dtd_printed rs h, C02X.entitiesOf_dtdExpEntries _ rs 0 (by simp) h⟩

-- non-vacuity: `<!ENTITY a.b "x y">` and `<!ENTITY k "">` (empty value)
example : C02X.SafeDtdRec ([97, 46, 98], [120, 32, 121]) ∧ C02X.SafeDtdRec ([107], []) := by
  constructor <;> constructor <;> simp <;> decide
example : C02X.printDtd [([97, 46, 98], [120, 32, 121]), ([107], [])] = [60, 33, 69, 78, 84, 73, 84, 89, 32, 97, 46, 98, 32, 34, 120, 32, 121, 34, 62, 10, 60, 33, 69, 78, 84, 73, 84, 89, 32, 107, 32, 34, 34, 62, 10] := by decide
example : C02X.dtdExpEntries 0 [([97, 46, 98], [120, 32, 121]), ([107], [])] =
    [{ kind := .entity, full := 0, s := 0, e := 19, ks := 9, ke := 12, vs := 14, ve := 17 },
     { kind := .whitespace, full := 19, s := 19, e := 20, ks := 19, ke := 20, vs := 19, ve := 20 },
     { kind := .entity, full := 20, s := 20, e := 34, ks := 29, ke := 30, vs := 32, ve := 32 },
     { kind := .whitespace, full := 34, s := 34, e := 35, ks := 34, ke := 35, vs := 34, ve := 35 }] := by decide
-- NEGATION WITNESSES (what the code does at the excluded points):
-- a key starting with a digit: the whole line is junk (`<!ENTITY 1a "x">⏎`)
example : dtdGetNext #[60, 33, 69, 78, 84, 73, 84, 89, 32, 49, 97, 32, 34, 120, 34, 62, 10] 0 = { kind := .junk, full := 0, s := 0, e := 17 } := by decide
-- a `"` inside the value ends the value, `>` does not follow: junk (`<!ENTITY a "x"y">⏎`)
example : (dtdGetNext #[60, 33, 69, 78, 84, 73, 84, 89, 32, 97, 32, 34, 120, 34, 121, 34, 62, 10] 0).kind = .junk := by decide
-- a `&` in the value: the spans are still exact (value span 12..19) but the VALUE needs `html.unescape` (not modelled: `none`)
example : (entView .dtd #[60, 33, 69, 78, 84, 73, 84, 89, 32, 97, 32, 34, 120, 38, 97, 109, 112, 59, 121, 34, 62, 10] (dtdGetNext #[60, 33, 69, 78, 84, 73, 84, 89, 32, 97, 32, 34, 120, 38, 97, 109, 112, 59, 121, 34, 62, 10] 0)).map (·.val) = some none := by decide

/-! ### (9) properties: records with an attached one-line comment -/

/-- properties with comments, a whole file: every record may carry ONE preceding comment line `# text⏎` (text without any
    line boundary character, see `C02X.SafeCRec`); records are safe as in `roundtrip_properties_partial`.  If the FIRST
    record carries a comment, its text must not contain "License" (otherwise `license_standalone_properties` applies: the
    comment is standalone — the rule only exists at offset 0, so no other comment is restricted).  Then
    `PropertiesParser.walk` terminates and yields EXACTLY, per record, the entity followed by a one-newline white-space
    entry (`C02X.expCEntries`); for a record with a comment the entity's `pre_comment` span is exactly the comment line
    WITHOUT its newline (`attached_comment_span`), the entry's full span starts at the `#`, its own span at the key.
    The entities evaluate to exactly the printed keys, raw values, values (= raw values) and comment values, where the
    comment value is the line without its FIRST character — `OffsetComment` strips `comment_offset = 1` character per
    line, so the blank after `#` is kept: ` text` (`attached_comment_val`).  No junk.
    FULL statement (not proved): multi-line comments, `!` comments, comments separated by blank lines (standalone),
    other layouts. -/
theorem roundtrip_properties_comments_partial (rs : List C02X.CRec) (h : ∀ r ∈ rs, C02X.SafeCRec r)
    (hlic : ∀ r c, rs.head? = some r → r.1 = some c → isInfix licenseWord c = false) :
    walk .properties (C02X.printCProps rs).toArray = .done (C02X.expCEntries 0 rs) ∧
      entitiesOf .properties (C02X.printCProps rs).toArray (C02X.expCEntries 0 rs) = rs.map C02X.expectedCView ∧
      junkOf (C02X.printCProps rs).toArray (C02X.expCEntries 0 rs) = [] :=
  ⟨C02X.walk_cprops_printed rs h hlic, C02X.entitiesOf_expCEntries _ rs 0 (by simp) h⟩

/-- the spans of an entity with an attached comment `# text` (length `|text| + 2`) printed at `off`: the pre-comment span
    is the comment line without its newline; the entry starts at the comment, the entity proper after the newline -/
theorem attached_comment_span (off : Nat) (c : List Nat) (r : PRec) :
    (C02X.crecEntity off (some c, r)).pc = some (off, off + (c.length + 2)) ∧
      (C02X.crecEntity off (some c, r)).full = off ∧ (C02X.crecEntity off (some c, r)).s = off + (c.length + 2) + 1 :=
  ⟨rfl, rfl, rfl⟩

/-- `OffsetComment.val` of a one-line comment `# text`: exactly one character (the `#`) is stripped -/
theorem attached_comment_val (c : List Nat) (hb : ∀ ch ∈ c, isLineBreak ch = false) :
    commentVal (.offset Gen.Tables.offsetCommentDefault) (35 :: 32 :: c) = 32 :: c :=
  C02X.commentVal_oneLine c hb

-- non-vacuity: "# hi⏎a=b⏎c=d⏎": the first record carries the comment "# hi"
example : C02X.SafeCRec (some [104, 105], ([97], [98])) ∧ C02X.SafeCRec (none, ([99], [100])) := by
  refine ⟨⟨?_, ?_⟩, ⟨?_, ?_⟩⟩
  · constructor <;> simp [propsKeyChar]
  · intro c hc; cases hc; decide
  · constructor <;> simp [propsKeyChar]
  · intro c hc; cases hc
example : C02X.printCProps [(some [104, 105], ([97], [98])), (none, ([99], [100]))] =
    [35, 32, 104, 105, 10, 97, 61, 98, 10, 99, 61, 100, 10] := by decide
example : C02X.expCEntries 0 [(some [104, 105], ([97], [98])), (none, ([99], [100]))] =
    [{ kind := .entity, full := 0, s := 5, e := 8, ks := 5, ke := 6, vs := 7, ve := 8, pc := some (0, 4) },
     { kind := .whitespace, full := 8, s := 8, e := 9, ks := 8, ke := 9, vs := 8, ve := 9 },
     { kind := .entity, full := 9, s := 9, e := 12, ks := 9, ke := 10, vs := 11, ve := 12 },
     { kind := .whitespace, full := 12, s := 12, e := 13, ks := 12, ke := 13, vs := 12, ve := 13 }] := by decide
example : (C02X.expectedCView (some [104, 105], ([97], [98]))).map (·.comment) = some (some [32, 104, 105]) := by decide
-- NEGATION WITNESSES (what the code does at the excluded points):
-- the License hypothesis on the first comment: see the `# License⏎a=b` examples of section (4) (standalone comment)
-- a line boundary character other than newline inside the comment text (VT, 0x0b): the regex does not care, but
-- `splitlines` starts a new line there and ONE MORE character is dropped  ("# a\x0bbc"  ->  " a\x0bc")
example : commentVal (.offset Gen.Tables.offsetCommentDefault) [35, 32, 97, 11, 98, 99] = [32, 97, 11, 99] := by decide
-- a blank line between comment and record: the comment is standalone ("# a⏎⏎b=c⏎")
example : propsGetNext #[35, 32, 97, 10, 10, 98, 61, 99, 10] 0 = { kind := .comment, full := 0, s := 0, e := 3 } := by decide
-- two comment lines are ONE pre-comment ("# a⏎# b⏎b=c⏎": pre-comment span 0..7), outside the printed class
example : (propsGetNext #[35, 32, 97, 10, 35, 32, 98, 10, 98, 61, 99, 10] 0).pc = some (0, 7) := by decide

/-! ### (10) properties: junk damage stays local -/

/-- garbage locality, properties: take ANY two lists of safe records (either may be empty) and ANY inert garbage line `g`
    (non-empty, without `= : # !` and newline, not starting with white-space), printed as the first records, then `g⏎`,
    then the other records.  `PropertiesParser.walk` terminates and yields EXACTLY the entries of the first records, ONE
    junk entry, and the entries of the other records (`C02X.garbageExpEntries`): every record is recovered unchanged (key,
    raw value, value, no comment) and the only junk text is exactly `g⏎` (`getJunk` stops where the key regex matches
    next — the start of the following record — or at the end of the text).
    FULL statement (not proved): the fixed garbage family of the harness at every insertion point in every layout, with
    comments, for all formats. -/
theorem garbage_local_properties_partial (rs1 : List PRec) (g : List Nat) (rs2 : List PRec)
    (h1 : ∀ r ∈ rs1, SafeRec r) (hg : C02X.SafeGarbage g) (h2 : ∀ r ∈ rs2, SafeRec r) :
    walk .properties (C02X.printWithGarbage rs1 g rs2).toArray = .done (C02X.garbageExpEntries rs1 g rs2) ∧
      entitiesOf .properties (C02X.printWithGarbage rs1 g rs2).toArray (C02X.garbageExpEntries rs1 g rs2) =
        (rs1 ++ rs2).map expectedView ∧
      junkOf (C02X.printWithGarbage rs1 g rs2).toArray (C02X.garbageExpEntries rs1 g rs2) = [g ++ [10]] :=
  ⟨C02X.walk_garbage_printed rs1 g rs2 h1 hg h2, C02X.views_garbage_printed rs1 g rs2 h1 h2⟩

-- non-vacuity: "a=b⏎x y⏎c=d⏎" (garbage "x y", blanks inside are fine)
example : C02X.SafeGarbage [120, 32, 121] := by constructor <;> simp
example : C02X.printWithGarbage [([97], [98])] [120, 32, 121] [([99], [100])] =
    [97, 61, 98, 10, 120, 32, 121, 10, 99, 61, 100, 10] := by decide
example : C02X.garbageExpEntries [([97], [98])] [120, 32, 121] [([99], [100])] =
    [{ kind := .entity, full := 0, s := 0, e := 3, ks := 0, ke := 1, vs := 2, ve := 3 },
     { kind := .whitespace, full := 3, s := 3, e := 4, ks := 3, ke := 4, vs := 3, ve := 4 },
     { kind := .junk, full := 4, s := 4, e := 8 },
     { kind := .entity, full := 8, s := 8, e := 11, ks := 8, ke := 9, vs := 10, ve := 11 },
     { kind := .whitespace, full := 11, s := 11, e := 12, ks := 11, ke := 12, vs := 11, ve := 12 }] := by decide
-- NEGATION WITNESSES (what the code does at the excluded points):
-- garbage containing `=` is simply another entity ("x=y")
example : (propsGetNext #[97, 61, 98, 10, 120, 61, 121, 10, 99, 61, 100, 10] 4).kind = .entity := by decide
-- garbage containing `#` ("x # y"): the junk ends at the `#` (offset 6) and "# y" becomes the PRE-COMMENT of the next
-- record (its `pc` is 6..9): here the damage is NOT local — the comment regex is not anchored at a line start
example : propsGetNext #[97, 61, 98, 10, 120, 32, 35, 32, 121, 10, 99, 61, 100, 10] 4 = { kind := .junk, full := 4, s := 4, e := 6 } ∧
    (propsGetNext #[97, 61, 98, 10, 120, 32, 35, 32, 121, 10, 99, 61, 100, 10] 6).pc = some (6, 9) := by decide
-- garbage starting with a blank (" x"): the blank joins the preceding white-space entry (3..5), the junk is "x⏎" only
example : (propsGetNext #[97, 61, 98, 10, 32, 120, 10, 99, 61, 100, 10] 3).e = 5 ∧ propsGetNext #[97, 61, 98, 10, 32, 120, 10, 99, 61, 100, 10] 5 = { kind := .junk, full := 5, s := 5, e := 7 } := by decide

/-! ### (11) PO: one record -/

/-- PO, one record: if at offset `|pre|` the text reads `msgid "K"⏎msgstr "V"⏎` — K and V without `"`, backslash and
    newline (either may be empty) — and what follows is the end of the text or starts with something that is neither
    white-space nor a quote (e.g. the next `msgid`, a `#` comment), then `PoParser.getNext` returns the entity whose span is
    `msgid "K"⏎msgstr "V"` (without the final newline), key span `msgid "K"`, value span `msgstr "V"`; `createEntity`
    finds no `msgctxt`, exactly one `msgid` fragment and one `msgstr` fragment (the texts between the quotes), and
    `eval_stringlist` of them is K resp. V; the entity evaluates to key K, context `None`, raw value `msgstr "V"`, value V —
    or K when V is empty (`stringlist_val if stringlist_val else stringlist_key[0]`) — and no comment.
    FULL statement (not proved): lists of records separated by blank lines, several fragments per string list, escapes in
    fragments (their VALUE is `po_unescape_is_spec`), `msgctxt`, comments. -/
theorem po_single_record_partial (pre K V rest : List Nat)
    (hK : ∀ c ∈ K, c ≠ 34 ∧ c ≠ 10 ∧ c ≠ 92) (hV : ∀ c ∈ V, c ≠ 34 ∧ c ≠ 10 ∧ c ≠ 92)
    (hrest : ∀ c, rest.head? = some c → c ≠ 32 ∧ c ≠ 9 ∧ c ≠ 13 ∧ c ≠ 10 ∧ c ≠ 34) :
    poGetNext (pre ++ C02X.printPoRec K V ++ rest).toArray pre.length = C02X.poEntity pre.length K.length V.length ∧
      poCreate (pre ++ C02X.printPoRec K V ++ rest).toArray pre.length = some (C02X.poPartsOf pre.length K.length V.length) ∧
      poEval (pre ++ C02X.printPoRec K V ++ rest).toArray (C02X.poPartsOf pre.length K.length V.length).msgid = some K ∧
      poEval (pre ++ C02X.printPoRec K V ++ rest).toArray (C02X.poPartsOf pre.length K.length V.length).msgstr = some V ∧
      entView .po (pre ++ C02X.printPoRec K V ++ rest).toArray (C02X.poEntity pre.length K.length V.length) =
        C02X.expectedPoView K V := by
  have hrec := C02X.poRecAt_of_drop (pre ++ C02X.printPoRec K V ++ rest).toArray pre.length K V rest hK hV hrest
    (by simp)
  have hK' : ∀ c ∈ K, c ≠ 92 := fun c hc => (hK c hc).2.2
  have hV' : ∀ c ∈ V, c ≠ 92 := fun c hc => (hV c hc).2.2
  exact ⟨C02X.po_entity_at _ _ K V hrec, C02X.po_create _ _ K V hrec, (C02X.po_eval_parts _ _ K V hrec hK' hV').1,
    (C02X.po_eval_parts _ _ K V hrec hK' hV').2, C02X.entView_poEntity _ _ K V hrec hK' hV'⟩

-- non-vacuity: `msgid "a b"⏎msgstr "x"⏎` followed by the next `msgid`, after a two-character prefix "⏎⏎"
example : C02X.printPoRec [97, 32, 98] [120] = [109, 115, 103, 105, 100, 32, 34, 97, 32, 98, 34, 10, 109, 115, 103, 115, 116, 114, 32, 34, 120, 34, 10] := by decide
example : C02X.poEntity 2 3 1 = { kind := .entity, full := 2, s := 2, e := 24, ks := 2, ke := 13, vs := 14, ve := 24 } := by decide
example : C02X.poPartsOf 2 3 1 = { e := 24, idS := 2, idE := 13, valS := 14, msgctxt := none, msgid := [(9, 12)], msgstr := [(22, 23)] } := by decide
example : C02X.expectedPoView [97, 32, 98] [] =
    some { key := [97, 32, 98], ctxt := some none, raw := [109, 115, 103, 115, 116, 114, 32, 34, 34], val := some [97, 32, 98], comment := none } := by
  decide
-- NEGATION WITNESSES (what the code does at the excluded points):
-- a quoted text on the next line is a CONTINUATION fragment of msgstr (hypothesis on `rest`): the entity ends at 25, not 19
example : (poGetNext #[109, 115, 103, 105, 100, 32, 34, 97, 34, 10, 109, 115, 103, 115, 116, 114, 32, 34, 120, 34, 10, 34, 121, 122, 34, 10] 0).e = 25 := by decide
-- a `"` inside K ends the fragment; the record is no entity any more (junk)
example : (poGetNext #[109, 115, 103, 105, 100, 32, 34, 97, 34, 98, 34, 10, 109, 115, 103, 115, 116, 114, 32, 34, 120, 34, 10] 0).kind = .junk := by decide
-- a backslash in V: the spans are as printed, but the value is the unescaped text (`x\ny` -> x, newline, y)
example : (entView .po #[109, 115, 103, 105, 100, 32, 34, 97, 34, 10, 109, 115, 103, 115, 116, 114, 32, 34, 120, 92, 110, 121, 34, 10] (poGetNext #[109, 115, 103, 105, 100, 32, 34, 97, 34, 10, 109, 115, 103, 115, 116, 114, 32, 34, 120, 92, 110, 121, 34, 10] 0)).map (·.val) = some (some [120, 10, 121]) := by decide

/-! ### (12) PO: whole files (round 4) -/

/-- PO, a whole file: take ANY list of blocks, each either
    * a RECORD: optional `#…` comment lines (any text without newline after the `#`: `# `, `#.`, `#:`, `#,` …), optionally
      white-space with at most ONE newline between the comment block and the record, optional `msgctxt` string list,
      `msgid` string list, `msgstr` string list — every string list is one or more quoted fragments, each preceded by
      arbitrary white-space (so `msgid "a"`, `msgid ""⏎"a"⏎"b"`, `msgid"a" "b"` are all covered), every fragment a list of
      tokens `reListItem` accepts (plain characters, the escapes `\\ \t \r \n \"`) — arbitrary white-space between the
      lists, and arbitrary white-space after the record (the "gap"; the header record `msgid ""` is a record like any
      other — the parser does not treat it specially); or
    * a FREE comment: comment lines followed by white-space with at least TWO newlines.
    The License rule must not fire on an attached comment of the FIRST record (`NoLicense 0`: all other blocks start at an
    offset ≥ 2, where the rule does not exist; a free comment is standalone with or without the rule).  Then
    `PoParser.walk` terminates and yields EXACTLY (`C02P.poExpEntries`), per record: the entity — full span from the first
    comment line, span from `msgctxt`/`msgid` to the closing quote of the last `msgstr` fragment, key span = start … end
    of the last `msgid` fragment (it INCLUDES the msgctxt list: `id_start = cursor = m.start()`), value span = `msgstr` …
    end, pre-comment span = the comment lines — followed by one white-space entry for a non-empty gap; per free comment the
    comment entry and the white-space entry.  The entities evaluate (`C02P.PoRec.view`) to: key = the one-pass unescape
    (`po_unescape_is_spec`) of the msgid fragments concatenated, context = the same for msgctxt (or `None`), raw value =
    `msgstr` + its printed fragments, value = the unescaped msgstr fragments — or the msgid when that is empty —, attached
    comment = the comment lines verbatim (`#` and newline included).  There is no junk.
    FULL statement (not proved): a comment separated from its record by white-space is attached iff that white-space has
    at most one newline — proved; what remains outside the class are obsolete `#~` records (they are comments for the
    parser), a final comment without newline, and `\r\n` INSIDE comment lines. -/
theorem roundtrip_po_partial (bs : List C02P.PoBlock) (h : ∀ b ∈ bs, b.Good')
    (hlic : ∀ r, bs.head? = some (.record r) → r.NoLicense 0) :
    walk .po (C02P.printPo bs).toArray = .done (C02P.poExpEntries bs) ∧
      entitiesOf .po (C02P.printPo bs).toArray (C02P.poExpEntries bs) = C02P.poExpViews bs ∧
      junkOf (C02P.printPo bs).toArray (C02P.poExpEntries bs) = [] :=
  C02P.walk_po_printed bs h hlic

/-- the pieces, one record at any offset: `getNext`, `createEntity` and the view -/
theorem po_record_at (s : Array Nat) (off : Nat) (r : C02P.PoRec) (rest : List Nat) (hg : r.Good) (hlic : r.NoLicense off)
    (hfo : C02P.PoFollow rest) (h : s.toList.drop off = r.print ++ rest) :
    poGetNext s off = r.entity off ∧ poCreate s (r.start off) = some (r.parts (r.start off)) ∧
      entView .po s (r.entity off) = r.view := by
  refine ⟨C02P.po_entity_rec s off r rest hg hlic hfo h, ?_, C02P.po_view_rec s off r rest hg hfo h⟩
  have h1 : C02P.At s off (C02P.printComment r.comment ++ (r.cgap ++ (r.body ++ (r.gap ++ rest)))) := by
    simpa [C02P.At, C02P.PoRec.print] using h
  exact C02P.po_create_at s _ r rest hg hfo h1.app.app

-- non-vacuity: `# c⏎⏎⏎#. x⏎msgctxt "c"⏎msgid ""⏎"a\n"⏎msgstr "b"⏎` (free comment; attached `#.` comment, msgctxt, a msgid
-- of two fragments with an escape)
example : (∀ b ∈ C02P.poDemo, b.Good') ∧ ∀ r, C02P.poDemo.head? = some (.record r) → r.NoLicense 0 :=
  ⟨C02P.poDemo_good, C02P.poDemo_lic⟩
example : C02P.printPo C02P.poDemo =
    [35, 32, 99, 10, 10, 10, 35, 46, 32, 120, 10, 109, 115, 103, 99, 116, 120, 116, 32, 34, 99, 34, 10, 109, 115, 103, 105, 100, 32,
     34, 34, 10, 34, 97, 92, 110, 34, 10, 109, 115, 103, 115, 116, 114, 32, 34, 98, 34, 10] := by decide
example : C02P.poExpEntries C02P.poDemo =
    [{ kind := .comment, full := 0, s := 0, e := 4 },
     { kind := .whitespace, full := 4, s := 4, e := 6, ks := 4, ke := 6, vs := 4, ve := 6 },
     { kind := .entity, full := 6, s := 11, e := 48, ks := 11, ke := 37, vs := 38, ve := 48, pc := some (6, 11) },
     { kind := .whitespace, full := 48, s := 48, e := 49, ks := 48, ke := 49, vs := 48, ve := 49 }] := by decide
example : C02P.poExpViews C02P.poDemo =
    [some { key := [97, 10], ctxt := some (some [99]), raw := [109, 115, 103, 115, 116, 114, 32, 34, 98, 34], val := some [98],
            comment := some [35, 46, 32, 120, 10] }] := by decide
-- NEGATION WITNESSES (what the code does at the excluded points):
-- `NoLicense` for the first record: "# License⏎msgid "a"⏎msgstr "b"⏎" — the comment is standalone, not attached
example : poGetNext #[35, 32, 76, 105, 99, 101, 110, 115, 101, 10, 109, 115, 103, 105, 100, 32, 34, 97, 34, 10, 109, 115, 103, 115, 116, 114, 32, 34, 98, 34, 10] 0 =
    { kind := .comment, full := 0, s := 0, e := 10 } := by decide
-- at most one newline between comment and record (`cgap_nl`): with TWO the comment is standalone ("# c⏎⏎⏎msgid …"); with ONE
-- blank line it is still attached (the comment regex eats its own newline) — that layout is inside the class
example : (poGetNext #[35, 32, 99, 10, 10, 10, 109, 115, 103, 105, 100, 32, 34, 97, 34, 10, 109, 115, 103, 115, 116, 114, 32, 34, 98, 34, 10] 0).kind = .comment ∧
    (poGetNext #[35, 32, 99, 10, 10, 109, 115, 103, 105, 100, 32, 34, 97, 34, 10, 109, 115, 103, 115, 116, 114, 32, 34, 98, 34, 10] 0).pc = some (0, 4) := by
  decide
-- a token outside the grammar (`\q`): no list item, the record is junk
example : (poGetNext #[109, 115, 103, 105, 100, 32, 34, 92, 113, 34, 10, 109, 115, 103, 115, 116, 114, 32, 34, 98, 34, 10] 0).kind = .junk := by decide
-- `PoFollow`: see the continuation-fragment witness of section (11)

/-! ### (13) properties: the full record grammar (round 4) -/

/-- properties, a whole file: take ANY list of blocks, each either
    * a RECORD (`C02P.PRecord`): an optional comment block of one or more lines, each `#` or `!` followed by any text
      without a line boundary; if there is a comment, a newline and possibly indentation (no second newline) before the key;
      the key (first character not `# ! = :` or white-space, further characters not `= :`, newline, blank, tab); the
      separator — blanks/tabs, `=` or `:`, blanks/tabs —; the value: zero or more CONTINUED physical lines (any text
      without newline that ends in an ODD number of backslashes) and a last line (ending in an EVEN number of backslashes,
      not ending in white-space), the first line not starting with a blank — so `\n \uXXXX \\ \:` escapes and
      `\`-newline-indentation continuations are all inside —; then the "gap": a newline and any further white-space (blank
      lines, indentation of the next record); or
    * a FREE comment block: comment lines followed by white-space that starts with a newline and has at least two.
    The License rule must not fire on an attached comment of the first record (the rule exists at offset 0 only).  Then
    `PropertiesParser.walk` terminates and yields EXACTLY (`C02P.propsExpEntries`), per record, the entity and one
    white-space entry for the gap, per free comment the comment entry and the white-space entry.  The SPANS of the entity
    are exact: key span = the key, VALUE SPAN = EXACTLY THE PRINTED RAW VALUE (all physical lines, backslashes and
    indentation included: the parity loop over `_escapedEnd` and the `_trailingWS` search are proved), pre-comment span =
    the comment block without its final newline.  The entities evaluate (`C02P.PRecord.view`) to the key, the raw value,
    value = `propsUnescapeSpec raw` (`props_unescape_is_spec`), and the comment lines without their markers.  No junk.
    FULL statement (not proved): keys containing blanks/tabs (legal for the code), a last record without final newline,
    a value whose last physical line is blank, CRLF. -/
theorem roundtrip_properties_full_partial (bs : List C02P.PBlock) (h : ∀ b ∈ bs, b.Good')
    (hlic : ∀ r, bs.head? = some (.record r) → r.NoLicense 0) :
    walk .properties (C02P.printPropsB bs).toArray = .done (C02P.propsExpEntries bs) ∧
      entitiesOf .properties (C02P.printPropsB bs).toArray (C02P.propsExpEntries bs) = C02P.propsExpViews bs ∧
      junkOf (C02P.printPropsB bs).toArray (C02P.propsExpEntries bs) = [] :=
  C02P.walk_props_blocks bs h hlic

/-- THE SPAN SIDE, one record at any offset: `getNext` returns the entity whose value span is exactly the printed raw
    value (`vstart … vstart + |value|`), whatever escapes and continuation lines it contains -/
theorem props_record_span (s : Array Nat) (off : Nat) (r : C02P.PRecord) (rest : List Nat) (hg : r.Good)
    (hlic : r.NoLicense off) (h : s.toList.drop off = r.print ++ rest) :
    propsGetNext s off = r.entity off ∧
      slice s (r.vstart off) (r.vstart off + r.value.length) = r.value ∧
      entView .properties s (r.entity off) = r.view := by
  refine ⟨C02P.props_entity_rec s off r rest hg hlic h, ?_, C02P.props_view_rec s off r rest hg h⟩
  have h1 : C02P.At s off (C02P.printCLines r.comment ++ (r.cgap ++ (r.key.print ++ (r.value ++ (r.gap ++ rest))))) := by
    simpa [C02P.At, C02P.PRecord.print] using h
  exact (h1.app.app.app).slice

/-- the value of a multi-line comment block: every line loses exactly its marker -/
theorem comment_block_val (ls : List C02P.CLine) (h : ∀ l ∈ ls, C02P.isMark l.1 = true ∧ C02P.CLine.NoBreak l) :
    commentVal (.offset Gen.Tables.offsetCommentDefault) (C02P.printCLines ls) = C02P.cvalLines ls :=
  C02P.offsetVal_lines ls h

-- non-vacuity: `# a⏎! b⏎k : x\⏎  yA⏎⏎`
example : (∀ b ∈ C02P.propsDemo, b.Good') ∧ ∀ r, C02P.propsDemo.head? = some (.record r) → r.NoLicense 0 :=
  ⟨C02P.propsDemo_good, C02P.propsDemo_lic⟩
example : C02P.printPropsB C02P.propsDemo =
    [35, 32, 97, 10, 33, 32, 98, 10, 107, 32, 58, 32, 120, 92, 10, 32, 32, 121, 92, 117, 48, 48, 52, 49, 10, 10] := by decide
example : C02P.propsExpEntries C02P.propsDemo =
    [{ kind := .entity, full := 0, s := 8, e := 24, ks := 8, ke := 9, vs := 12, ve := 24, pc := some (0, 7) },
     { kind := .whitespace, full := 24, s := 24, e := 26, ks := 24, ke := 26, vs := 24, ve := 26 }] := by decide
example : (C02P.propsExpViews C02P.propsDemo).map (fun v => v.map (fun x => (x.key, x.raw, x.comment))) =
    [some ([107], [120, 92, 10, 32, 32, 121, 92, 117, 48, 48, 52, 49], some [32, 97, 10, 32, 98])] := by decide
example : propsUnescapeSpec [120, 92, 10, 32, 32, 121, 92, 117, 48, 48, 52, 49] = [120, 121, 65] :=
  Option.some.inj ((props_unescape_is_spec _).symm.trans (by decide))
-- NEGATION WITNESSES (what the code does at the excluded points):
-- `val_head`: a value starting with a blank — the blank belongs to the separator ("a= b⏎": value span 3..4)
example : (propsGetNext #[97, 61, 32, 98, 10] 0).vs = 3 := by decide
-- a key ending in a blank: the blank belongs to the separator ("a =c⏎": key span 0..1); a blank INSIDE a key is kept by
-- the code ("a b=c⏎": key span 0..3) — the hypothesis on `kt` is stronger than necessary there
example : (propsGetNext #[97, 32, 61, 99, 10] 0).ke = 1 ∧ (propsGetNext #[97, 32, 98, 61, 99, 10] 0).ke = 3 := by decide
-- parity of the final backslashes: an EVEN number does not continue ("a=b\\⏎c=d⏎": entity ends at 5), an odd one does
example : (propsGetNext #[97, 61, 98, 92, 92, 10, 99, 61, 100, 10] 0).e = 5 ∧ (propsGetNext #[97, 61, 98, 92, 10, 99, 61, 100, 10] 0).e = 8 := by decide
-- `val_last`, the License rule, a line boundary inside a comment, a second newline before the key: see sections (3), (4), (9)
-- a free comment needs TWO newlines after it: with one it is attached ("# a⏎b=c⏎": pre-comment 0..3)
example : (propsGetNext #[35, 32, 97, 10, 98, 61, 99, 10] 0).pc = some (0, 3) := by decide

/-! ### (14) garbage locality, every regex format, with comments — also comments that contain a complete record (round 4)

`Parser.getJunk` ends the junk at the EARLIEST position where ANY of its expressions matches (`C02P.getJunk_at`: if none of
the expressions matches strictly inside `(off, e)` and one matches at `e` — or `e` is the end of the text and none matches
there — the junk entry is `off … e`; matches of the other expressions further on are irrelevant).  The documents below are
lists of blocks, each optionally preceded by ONE garbage line (with the white-space after it), optionally ending in a garbage
line.  Block texts are arbitrary inside their class; in particular a comment may read `# key=value`, `; key=value`,
`<!-- <!ENTITY old "v"> -->`, `#| msgid "old"`, `# #define OLD v`: the key regex then matches INSIDE the comment, and the
junk in front of the comment still ends exactly at the comment start.  In every theorem: the walk terminates; the entries
are exactly the blocks' entries plus ONE junk entry per garbage line; every record is recovered unchanged (key, raw value,
value, attached comment); the junk texts are exactly the garbage lines with the white-space after them. -/

/-- `getJunk` in general -/
theorem getJunk_earliest (s : Array Nat) (off e : Nat) (exps : List Re) (hoe : off < e)
    (hno : ∀ r ∈ exps, ∀ q, off < q → q < e → matchAt s r q = none)
    (hend : (∃ r ∈ exps, (matchAt s r e).isSome) ∨ (e = s.size ∧ ∀ r ∈ exps, matchAt s r e = none)) (hes : e ≤ s.size) :
    getJunk s off exps = { kind := .junk, full := off, s := off, e := e } :=
  C02P.getJunk_at s off e exps hoe hno hend hes

/-- properties (blocks of section 13; garbage line: non-empty, no `= : # !` and newline, not starting with white-space;
    followed by a newline and any white-space) -/
theorem garbage_local_properties (xs : List C02P.PGBlock) (tail : Option (List Nat × List Nat)) (hg : ∀ x ∈ xs, x.Good')
    (htail : ∀ g gap, tail = some (g, gap) → C02P.PGarbage g gap)
    (hlic : ∀ x r, xs.head? = some x → x.junk = none → x.b = .record r → r.NoLicense 0) :
    walk .properties (C02P.printPropsG xs tail).toArray = .done (C02P.propsGEntries xs tail) ∧
      entitiesOf .properties (C02P.printPropsG xs tail).toArray (C02P.propsGEntries xs tail) = C02P.propsGViews xs ∧
      junkOf (C02P.printPropsG xs tail).toArray (C02P.propsGEntries xs tail) = C02P.propsGJunk xs tail :=
  C02P.walk_props_garbage xs tail hg htail hlic

-- non-vacuity: `a=b⏎garbage⏎#x=y⏎c=d⏎junk⏎` — the comment `#x=y` reads like a record
example : C02P.printPropsG C02P.propsGDemo C02P.propsGTail =
    [97, 61, 98, 10, 103, 97, 114, 98, 97, 103, 101, 10, 35, 120, 61, 121, 10, 99, 61, 100, 10, 106, 117, 110, 107, 10] := by decide
example : C02P.propsGEntries C02P.propsGDemo C02P.propsGTail =
    [{ kind := .entity, full := 0, s := 0, e := 3, ks := 0, ke := 1, vs := 2, ve := 3 },
     { kind := .whitespace, full := 3, s := 3, e := 4, ks := 3, ke := 4, vs := 3, ve := 4 },
     { kind := .junk, full := 4, s := 4, e := 12 },
     { kind := .entity, full := 12, s := 17, e := 20, ks := 17, ke := 18, vs := 19, ve := 20, pc := some (12, 16) },
     { kind := .whitespace, full := 20, s := 20, e := 21, ks := 20, ke := 21, vs := 20, ve := 21 },
     { kind := .junk, full := 21, s := 21, e := 26 }] := by decide
example : C02P.propsGJunk C02P.propsGDemo C02P.propsGTail = [[103, 97, 114, 98, 97, 103, 101, 10], [106, 117, 110, 107, 10]] := by decide
example : (∀ x ∈ C02P.propsGDemo, x.Good') ∧ (∀ g gap, C02P.propsGTail = some (g, gap) → C02P.PGarbage g gap) :=
  ⟨C02P.propsGDemo_good, C02P.propsGTail_ok⟩
-- the key regex DOES match inside that comment (at `x`, offset 13); the junk nevertheless ends at the `#` (offset 12)
example : (matchAt #[97, 61, 98, 10, 103, 97, 114, 98, 97, 103, 101, 10, 35, 120, 61, 121, 10, 99, 61, 100, 10] PropertiesParser_reKey 13).isSome = true ∧
    propsGetNext #[97, 61, 98, 10, 103, 97, 114, 98, 97, 103, 101, 10, 35, 120, 61, 121, 10, 99, 61, 100, 10] 4 = { kind := .junk, full := 4, s := 4, e := 12 } := by decide

/-! ### (15) ini: whole files -/

/-- ini, a whole file: ANY list of blocks, each optionally preceded by a garbage line (non-empty, no `=`, `[`, newline; not
    starting with white-space, `;` or `#`; followed by newlines only), each block either
    * `[name]` (no `]`, `=`, newline in the name), optionally with comment lines directly before it — they are a stand-alone
      comment entry followed by a one-newline white-space entry;
    * a record `key=value` (key non-empty, no `=`/newline, not starting with `[ ; #` or white-space; value without newline,
      blanks kept), optionally with an attached comment block (`;` / `#` lines, then ONE newline and possibly indentation);
    * a free comment block followed by white-space with at least two newlines;
    every block ends with white-space that starts and ends with a newline (the next block starts a line — `^` in the
    comment regex).  The License rule (offset < 2) must not fire on an attached comment of the first block.  Then
    `IniParser.walk` yields exactly the entries (`C02P.iniSpec.gentries`): section / entity / comment / white-space / junk;
    views: key, raw value = value, comment lines without their markers; junk = exactly the garbage lines. -/
theorem roundtrip_ini_full_partial (xs : List (C02P.GB C02P.IBlock)) (tail : Option (List Nat × List Nat))
    (hg : ∀ x ∈ xs, x.b.Good' ∧ ∀ g gap, x.junk = some (g, gap) → C02P.IGarbage g gap)
    (htail : ∀ g gap, tail = some (g, gap) → C02P.IGarbage g gap)
    (hlic : ∀ x, xs.head? = some x → x.junk = none → x.b.NoLicense 0) :
    walk .ini (C02P.iniSpec.gprint xs tail).toArray = .done (C02P.iniSpec.gentries xs tail) ∧
      entitiesOf .ini (C02P.iniSpec.gprint xs tail).toArray (C02P.iniSpec.gentries xs tail) = C02P.iniSpec.gviews xs ∧
      junkOf (C02P.iniSpec.gprint xs tail).toArray (C02P.iniSpec.gentries xs tail) = C02P.gbJunk xs tail :=
  C02P.walk_ini_doc xs tail hg htail hlic

-- non-vacuity: `; c⏎[S]⏎a=b⏎oops⏎; k=v⏎x=y⏎` (comment before the section; garbage in front of the comment `; k=v`)
example : C02P.iniSpec.gprint C02P.iniDemo none =
    [59, 32, 99, 10, 91, 83, 93, 10, 97, 61, 98, 10, 111, 111, 112, 115, 10, 59, 32, 107, 61, 118, 10, 120, 61, 121, 10] := by decide
example : C02P.iniSpec.gentries C02P.iniDemo none =
    [{ kind := .comment, full := 0, s := 0, e := 3 },
     { kind := .whitespace, full := 3, s := 3, e := 4, ks := 3, ke := 4, vs := 3, ve := 4 },
     { kind := .section, full := 4, s := 4, e := 7, ks := 5, ke := 6, vs := 5, ve := 6 },
     { kind := .whitespace, full := 7, s := 7, e := 8, ks := 7, ke := 8, vs := 7, ve := 8 },
     { kind := .entity, full := 8, s := 8, e := 11, ks := 8, ke := 9, vs := 10, ve := 11 },
     { kind := .whitespace, full := 11, s := 11, e := 12, ks := 11, ke := 12, vs := 11, ve := 12 },
     { kind := .junk, full := 12, s := 12, e := 17 },
     { kind := .entity, full := 17, s := 23, e := 26, ks := 23, ke := 24, vs := 25, ve := 26, pc := some (17, 22) },
     { kind := .whitespace, full := 26, s := 26, e := 27, ks := 26, ke := 27, vs := 26, ve := 27 }] := by decide
example : (∀ x ∈ C02P.iniDemo, x.b.Good' ∧ ∀ g gap, x.junk = some (g, gap) → C02P.IGarbage g gap) := C02P.iniDemo_good
-- NEGATION WITNESSES (what the code does at the excluded points):
-- an INDENTED comment is not a comment (`^`): "a=b⏎  ; c⏎x=y⏎" — after the white-space entry, "; c" is junk
example : (iniGetNext #[97, 61, 98, 10, 32, 32, 59, 32, 99, 10, 120, 61, 121, 10] 6).kind = .junk := by decide
-- white-space (not only newlines) after a garbage line belongs to the next record's KEY: "oops⏎  x=y⏎" — junk ends at 5,
-- the entity's key span is 5..8 ("  x")
example : iniGetNext #[111, 111, 112, 115, 10, 32, 32, 120, 61, 121, 10] 0 = { kind := .junk, full := 0, s := 0, e := 5 } ∧
    (iniGetNext #[111, 111, 112, 115, 10, 32, 32, 120, 61, 121, 10] 5).kind = .whitespace := by decide

/-! ### (16) PO: garbage lines -/

/-- PO (blocks of section 12; garbage line: non-empty, without `m`, `#` and newline, not starting with white-space or a
    quote; non-empty white-space after it) -/
theorem garbage_local_po (xs : List (C02P.GB C02P.PoBlock)) (tail : Option (List Nat × List Nat))
    (hg : ∀ x ∈ xs, x.b.Good' ∧ ∀ g gap, x.junk = some (g, gap) → C02P.PoGarbage g gap)
    (htail : ∀ g gap, tail = some (g, gap) → C02P.PoGarbage g gap)
    (hlic : ∀ x r, xs.head? = some x → x.junk = none → x.b = .record r → r.NoLicense 0) :
    walk .po (C02P.poSpec.gprint xs tail).toArray = .done (C02P.poSpec.gentries xs tail) ∧
      entitiesOf .po (C02P.poSpec.gprint xs tail).toArray (C02P.poSpec.gentries xs tail) = C02P.poSpec.gviews xs ∧
      junkOf (C02P.poSpec.gprint xs tail).toArray (C02P.poSpec.gentries xs tail) = C02P.gbJunk xs tail :=
  C02P.walk_po_doc xs tail hg htail hlic

-- non-vacuity: `msgid "a"⏎msgstr "b"⏎⏎junk⏎#| msgid "old"⏎msgid "c"⏎msgstr "d"⏎` (garbage in front of a previous-source comment)
example : C02P.poSpec.gprint C02P.poGDemo none =
    [109, 115, 103, 105, 100, 32, 34, 97, 34, 10, 109, 115, 103, 115, 116, 114, 32, 34, 98, 34, 10, 10, 106, 117, 110, 107, 10,
     35, 124, 32, 109, 115, 103, 105, 100, 32, 34, 111, 108, 100, 34, 10, 109, 115, 103, 105, 100, 32, 34, 99, 34, 10,
     109, 115, 103, 115, 116, 114, 32, 34, 100, 34, 10] := by decide
example : C02P.poSpec.gentries C02P.poGDemo none =
    [{ kind := .entity, full := 0, s := 0, e := 20, ks := 0, ke := 9, vs := 10, ve := 20 },
     { kind := .whitespace, full := 20, s := 20, e := 22, ks := 20, ke := 22, vs := 20, ve := 22 },
     { kind := .junk, full := 22, s := 22, e := 27 },
     { kind := .entity, full := 27, s := 42, e := 62, ks := 42, ke := 51, vs := 52, ve := 62, pc := some (27, 42) },
     { kind := .whitespace, full := 62, s := 62, e := 63, ks := 62, ke := 63, vs := 62, ve := 63 }] := by decide
example : (∀ x ∈ C02P.poGDemo, x.b.Good' ∧ ∀ g gap, x.junk = some (g, gap) → C02P.PoGarbage g gap) := C02P.poGDemo_good
-- NEGATION WITNESS: a garbage line that starts with a quote continues the string list before it ("…msgstr "b"⏎"x"⏎": the
-- entity ends at 24, after the `"x"`)
example : (poGetNext #[109, 115, 103, 105, 100, 32, 34, 97, 34, 10, 109, 115, 103, 115, 116, 114, 32, 34, 98, 34, 10, 34, 120, 34, 10] 0).e = 24 := by decide

/-! ### (17) DTD: whole files -/

/-- DTD, a whole file, optionally starting with a byte-order mark: ANY list of blocks, each optionally preceded by garbage
    (non-empty, no `<`, not starting with white-space or a BOM; non-empty white-space after it; NOT in front of a parameter
    entity), each block either
    * an entity declaration `<!ENTITY` ws+ name ws+ `"value"` or `'value'` ws* `>` (ASCII name; value without its quote
      character), optionally with ONE attached comment `<!-- text -->` (text = characters of the parser's `CharMinusDash`,
      single dashes allowed, no `--`) and white-space with at most one newline between them;
    * a free comment followed by white-space with at least two newlines;
    * a parameter entity `<!ENTITY % name SYSTEM "url"> %ref;` + blanks + newline (any white-space between the parts):
      `Parser.getNext` reports junk there and `DTDParser.getNext` then matches `rePE` (dtd.py lines 110-111);
    any white-space after every block.  Then `DTDParser.walk` yields exactly the entries (`C02P.dtdSpec.gentriesAt`, offsets
    shifted by one after a BOM): the entity's value span is the text BETWEEN the quotes (`createEntity` shrinks the span),
    the parameter entity's value span is the url WITH its quotes and its span includes the reference and the newline; views:
    key, raw value, value (= raw value when it has no `&`), comment text; junk = exactly the garbage. -/
theorem roundtrip_dtd_full_partial (bom : Bool) (xs : List (C02P.GB C02P.DBlock)) (tail : Option (List Nat × List Nat))
    (hg : ∀ x ∈ xs, x.b.Good' ∧ ∀ g gap, x.junk = some (g, gap) → C02P.DGarbage g gap ∧ x.b.JOk)
    (htail : ∀ g gap, tail = some (g, gap) → C02P.DGarbage g gap)
    (hlic : ∀ x, xs.head? = some x → x.junk = none → x.b.NoLicense (if bom then 1 else 0))
    (hne : bom = true → xs ≠ []) :
    walk .dtd ((if bom then [65279] else []) ++ C02P.dtdSpec.gprint xs tail).toArray =
        .done (C02P.dtdSpec.gentriesAt (if bom then 1 else 0) xs tail) ∧
      entitiesOf .dtd ((if bom then [65279] else []) ++ C02P.dtdSpec.gprint xs tail).toArray
        (C02P.dtdSpec.gentriesAt (if bom then 1 else 0) xs tail) = C02P.dtdSpec.gviews xs ∧
      junkOf ((if bom then [65279] else []) ++ C02P.dtdSpec.gprint xs tail).toArray
        (C02P.dtdSpec.gentriesAt (if bom then 1 else 0) xs tail) = C02P.gbJunk xs tail :=
  C02P.walk_dtd_doc bom xs tail hg htail hlic hne

/-- a parameter entity, at any offset -/
theorem dtd_parameter_entity (s : Array Nat) (off : Nat) (d : C02P.DPE) (rest : List Nat) (hg : d.Good)
    (h : s.toList.drop off = d.print ++ rest) : dtdGetNext s off = C02P.dtdPEEntry off d :=
  C02P.dtd_pe_entry s off d rest hg h

-- non-vacuity: BOM `<!-- c --><!ENTITY a 'b'>⏎junk⏎<!-- <!ENTITY o "v"> -->⏎<!ENTITY k "v">⏎<!ENTITY % n SYSTEM "u"> %n;⏎`
example : [65279] ++ C02P.dtdSpec.gprint C02P.dtdDemo none =
    [65279, 60, 33, 45, 45, 32, 99, 32, 45, 45, 62, 60, 33, 69, 78, 84, 73, 84, 89, 32, 97, 32, 39, 98, 39, 62, 10, 106, 117, 110, 107, 10,
     60, 33, 45, 45, 32, 60, 33, 69, 78, 84, 73, 84, 89, 32, 111, 32, 34, 118, 34, 62, 32, 45, 45, 62, 10,
     60, 33, 69, 78, 84, 73, 84, 89, 32, 107, 32, 34, 118, 34, 62, 10,
     60, 33, 69, 78, 84, 73, 84, 89, 32, 37, 32, 110, 32, 83, 89, 83, 84, 69, 77, 32, 34, 117, 34, 62, 32, 37, 110, 59, 10] := by decide
example : C02P.dtdSpec.gentriesAt 1 C02P.dtdDemo none =
    [{ kind := .entity, full := 1, s := 11, e := 26, ks := 20, ke := 21, vs := 23, ve := 24, pc := some (1, 11) },
     { kind := .whitespace, full := 26, s := 26, e := 27, ks := 26, ke := 27, vs := 26, ve := 27 },
     { kind := .junk, full := 27, s := 27, e := 32 },
     { kind := .entity, full := 32, s := 57, e := 72, ks := 66, ke := 67, vs := 69, ve := 70, pc := some (32, 56) },
     { kind := .whitespace, full := 72, s := 72, e := 73, ks := 72, ke := 73, vs := 72, ve := 73 },
     { kind := .entity, full := 73, s := 73, e := 102, ks := 84, ke := 85, vs := 93, ve := 96 }] := by decide
example : (∀ x ∈ C02P.dtdDemo, x.b.Good' ∧ ∀ g gap, x.junk = some (g, gap) → C02P.DGarbage g gap ∧ x.b.JOk) := C02P.dtdDemo_good
-- NEGATION WITNESSES (what the code does at the excluded points):
-- garbage in front of a PARAMETER ENTITY swallows it: neither `reKey` nor `reComment` matches at `<!ENTITY %` (offset 2 of
-- "x⏎<!ENTITY % n SYSTEM "u"> %n;⏎"), so `getJunk` finds no end there and the junk runs on (to the end of the text, see the
-- probe of the real code in the evidence notes): the damage is not local, and the theorem excludes this position (`JOk`)
example : matchAt #[120, 10, 60, 33, 69, 78, 84, 73, 84, 89, 32, 37, 32, 110, 32, 83, 89, 83, 84, 69, 77, 32, 34, 117, 34, 62, 32, 37, 110, 59, 10] DTDParser_reKey 2 = none ∧
    matchAt #[120, 10, 60, 33, 69, 78, 84, 73, 84, 89, 32, 37, 32, 110, 32, 83, 89, 83, 84, 69, 77, 32, 34, 117, 34, 62, 32, 37, 110, 59, 10] DTDParser_reComment 2 = none ∧
    (matchAt #[120, 10, 60, 33, 69, 78, 84, 73, 84, 89, 32, 37, 32, 110, 32, 83, 89, 83, 84, 69, 77, 32, 34, 117, 34, 62, 32, 37, 110, 59, 10] DTDParser_rePE 2).isSome = true := by
  decide
-- `--` inside a comment: the comment regex does not match ("<!-- a--b -->")
example : matchAt #[60, 33, 45, 45, 32, 97, 45, 45, 98, 32, 45, 45, 62, 10] DTDParser_reComment 0 = none := by decide

/-! ### (18) .inc: whole files, the `#filter emptyLines` state -/

/-- .inc, a whole file: ANY list of blocks, each optionally preceded by a garbage line (non-empty, no `#`, no newline;
    newlines after it), each block either
    * `#define KEY[ value]` (ASCII `\w` key, one blank), optionally with an attached comment block of `# text` lines;
    * a free comment block followed by at least two newlines;
    * an instruction `#word␣…arg` (word not starting with `d`) — `#filter emptyLines` switches `ctx.filter_empty_lines` on,
      `#unfilter emptyLines` off;
    every block is followed by newlines: ONE newline, or several if `filter_empty_lines` is on at that point
    (`C02P.NGoodAll` follows the state through the document, starting with `False`).  Then `DefinesParser.walk` yields
    exactly the entries (`C02P.incSpec.gentries`): instruction / entity / comment / white-space / junk; an empty value has
    the span `(-1, -1)`; views: key, raw value, comment = the lines without `# `; junk = exactly the garbage lines. -/
theorem roundtrip_inc_full_partial (xs : List (C02P.GB C02P.NBlock)) (tail : Option (List Nat × List Nat))
    (hg : C02P.NGoodAll false xs) (htail : ∀ g gap, tail = some (g, gap) → C02P.NGarbage g gap) :
    walk .inc (C02P.incSpec.gprint xs tail).toArray = .done (C02P.incSpec.gentries xs tail) ∧
      entitiesOf .inc (C02P.incSpec.gprint xs tail).toArray (C02P.incSpec.gentries xs tail) = C02P.incSpec.gviews xs ∧
      junkOf (C02P.incSpec.gprint xs tail).toArray (C02P.incSpec.gentries xs tail) = C02P.gbJunk xs tail :=
  C02P.walk_inc_doc xs tail hg htail

-- non-vacuity: `#filter emptyLines⏎⏎# c⏎#define A b⏎junk⏎# #define O v⏎#define B⏎#unfilter emptyLines⏎`
example : C02P.incSpec.gprint C02P.incDemo none =
    [35, 102, 105, 108, 116, 101, 114, 32, 101, 109, 112, 116, 121, 76, 105, 110, 101, 115, 10, 10, 35, 32, 99, 10,
     35, 100, 101, 102, 105, 110, 101, 32, 65, 32, 98, 10, 106, 117, 110, 107, 10,
     35, 32, 35, 100, 101, 102, 105, 110, 101, 32, 79, 32, 118, 10, 35, 100, 101, 102, 105, 110, 101, 32, 66, 10,
     35, 117, 110, 102, 105, 108, 116, 101, 114, 32, 101, 109, 112, 116, 121, 76, 105, 110, 101, 115, 10] := by decide
example : C02P.incSpec.gentries C02P.incDemo none =
    [{ kind := .instruction, full := 0, s := 0, e := 18, ks := 1, ke := 18, vs := 1, ve := 18 },
     { kind := .whitespace, full := 18, s := 18, e := 20, ks := 18, ke := 20, vs := 18, ve := 20 },
     { kind := .entity, full := 20, s := 24, e := 35, ks := 32, ke := 33, vs := 34, ve := 35, pc := some (20, 23) },
     { kind := .whitespace, full := 35, s := 35, e := 36, ks := 35, ke := 36, vs := 35, ve := 36 },
     { kind := .junk, full := 36, s := 36, e := 41 },
     { kind := .entity, full := 41, s := 55, e := 64, ks := 63, ke := 64, vs := -1, ve := -1, pc := some (41, 54) },
     { kind := .whitespace, full := 64, s := 64, e := 65, ks := 64, ke := 65, vs := 64, ve := 65 },
     { kind := .instruction, full := 65, s := 65, e := 85, ks := 66, ke := 85, vs := 66, ve := 85 },
     { kind := .whitespace, full := 85, s := 85, e := 86, ks := 85, ke := 86, vs := 85, ve := 86 }] := by decide
example : C02P.NGoodAll false C02P.incDemo := C02P.incDemo_good
-- NEGATION WITNESSES: blank lines are white-space only while `filter_empty_lines` is on: the same two newlines (offset 18 of
-- "#filter emptyLines⏎⏎") are a white-space entry with the flag on and JUNK with the flag off
example : (definesGetNext #[35, 102, 105, 108, 116, 101, 114, 32, 101, 109, 112, 116, 121, 76, 105, 110, 101, 115, 10, 10] true 18).1.kind = .whitespace ∧
    (definesGetNext #[35, 102, 105, 108, 116, 101, 114, 32, 101, 109, 112, 116, 121, 76, 105, 110, 101, 115, 10, 10] false 18).1.kind = .junk := by decide
-- the flag is what the instruction sets (`C02P.NBlock.tr`)
example : C02P.NBlock.tr false (.instr [102, 105, 108, 116, 101, 114] 1 [101, 109, 112, 116, 121, 76, 105, 110, 101, 115] [10]) = true ∧
    C02P.NBlock.tr true (.instr [117, 110, 102, 105, 108, 116, 101, 114] 1 [101, 109, 112, 116, 121, 76, 105, 110, 101, 115] [10]) = false := by decide

/-! ## Round 5: recovery does not depend on what was consumed before (one long-lived parser object)

`C01M.stepG` (Parser/C01Gen.lean) is the parser OBJECT: Context objects, `parser.ctx`, and the generator objects returned
by `walk()` / `iter()` with their suspension points.  A history is any list of `read` (readUnicode), `mk` (a new
generator), `next g k` (k entries consumed), `drain g` (`list(g)`), `close g` (abandoned). -/

open C01M C01P in
/-- Whatever happened on the parser object before (`h`: other files read; passes started, partially consumed,
    interleaved, abandoned), and whatever generator operations `h2` follow `readUnicode(t)` — e.g. a first pass over `t`
    abandoned after one entry —, a COMPLETE pass shows exactly the entries of `walk f t`; with the round-trip theorems:
    exactly the printed records and exactly the garbage as junk. -/
theorem complete_pass_recovers_exactly (f : Fmt) (h h2 : List Op) (t : Array Nat) (es : List Entry)
    (hw : walk f t = .done es) (hnr : ∀ op ∈ h2, ∀ t, op ≠ .read t) (loc : Bool) :
    runG f (execG f {} (h ++ [.read t] ++ h2)) [.mk loc, .drain (countMk (h ++ [.read t] ++ h2))] =
      [.full (.done (if loc then es.filter Entry.localizable else es))] :=
  C02H.hist_recovers f h h2 t es hw hnr loc

open C01M C01P in
/-- properties, the printed class with garbage lines (`garbage_local_properties`), on a used parser object -/
theorem history_roundtrip_properties (h h2 : List Op) (hnr : ∀ op ∈ h2, ∀ t, op ≠ .read t)
    (xs : List C02P.PGBlock) (tail : Option (List Nat × List Nat)) (hg : ∀ x ∈ xs, x.Good')
    (htail : ∀ g gap, tail = some (g, gap) → C02P.PGarbage g gap)
    (hlic : ∀ x r, xs.head? = some x → x.junk = none → x.b = .record r → r.NoLicense 0) :
    runG .properties (execG .properties {} (h ++ [.read (C02P.printPropsG xs tail).toArray] ++ h2))
        [.mk false, .drain (countMk (h ++ [.read (C02P.printPropsG xs tail).toArray] ++ h2))] =
      [.full (.done (C02P.propsGEntries xs tail))] :=
  complete_pass_recovers_exactly .properties h h2 _ _ (garbage_local_properties xs tail hg htail hlic).1 hnr false

open C01M C01P in
/-- PO -/
theorem history_roundtrip_po (h h2 : List Op) (hnr : ∀ op ∈ h2, ∀ t, op ≠ .read t)
    (xs : List (C02P.GB C02P.PoBlock)) (tail : Option (List Nat × List Nat))
    (hg : ∀ x ∈ xs, x.b.Good' ∧ ∀ g gap, x.junk = some (g, gap) → C02P.PoGarbage g gap)
    (htail : ∀ g gap, tail = some (g, gap) → C02P.PoGarbage g gap)
    (hlic : ∀ x r, xs.head? = some x → x.junk = none → x.b = .record r → r.NoLicense 0) :
    runG .po (execG .po {} (h ++ [.read (C02P.poSpec.gprint xs tail).toArray] ++ h2))
        [.mk false, .drain (countMk (h ++ [.read (C02P.poSpec.gprint xs tail).toArray] ++ h2))] =
      [.full (.done (C02P.poSpec.gentries xs tail))] :=
  complete_pass_recovers_exactly .po h h2 _ _ (garbage_local_po xs tail hg htail hlic).1 hnr false

open C01M C01P in
/-- ini -/
theorem history_roundtrip_ini (h h2 : List Op) (hnr : ∀ op ∈ h2, ∀ t, op ≠ .read t)
    (xs : List (C02P.GB C02P.IBlock)) (tail : Option (List Nat × List Nat))
    (hg : ∀ x ∈ xs, x.b.Good' ∧ ∀ g gap, x.junk = some (g, gap) → C02P.IGarbage g gap)
    (htail : ∀ g gap, tail = some (g, gap) → C02P.IGarbage g gap)
    (hlic : ∀ x, xs.head? = some x → x.junk = none → x.b.NoLicense 0) :
    runG .ini (execG .ini {} (h ++ [.read (C02P.iniSpec.gprint xs tail).toArray] ++ h2))
        [.mk false, .drain (countMk (h ++ [.read (C02P.iniSpec.gprint xs tail).toArray] ++ h2))] =
      [.full (.done (C02P.iniSpec.gentries xs tail))] :=
  complete_pass_recovers_exactly .ini h h2 _ _ (roundtrip_ini_full_partial xs tail hg htail hlic).1 hnr false

open C01M C01P in
/-- inc: also when an abandoned pass left `filter_empty_lines` set on the Context (`DefinesParser.walk` resets it) -/
theorem history_roundtrip_inc (h h2 : List Op) (hnr : ∀ op ∈ h2, ∀ t, op ≠ .read t)
    (xs : List (C02P.GB C02P.NBlock)) (tail : Option (List Nat × List Nat))
    (hg : C02P.NGoodAll false xs) (htail : ∀ g gap, tail = some (g, gap) → C02P.NGarbage g gap) :
    runG .inc (execG .inc {} (h ++ [.read (C02P.incSpec.gprint xs tail).toArray] ++ h2))
        [.mk false, .drain (countMk (h ++ [.read (C02P.incSpec.gprint xs tail).toArray] ++ h2))] =
      [.full (.done (C02P.incSpec.gentries xs tail))] :=
  complete_pass_recovers_exactly .inc h h2 _ _ (roundtrip_inc_full_partial xs tail hg htail).1 hnr false

open C01M C01P in
/-- dtd -/
theorem history_roundtrip_dtd (h h2 : List Op) (hnr : ∀ op ∈ h2, ∀ t, op ≠ .read t)
    (bom : Bool) (xs : List (C02P.GB C02P.DBlock)) (tail : Option (List Nat × List Nat))
    (hg : ∀ x ∈ xs, x.b.Good' ∧ ∀ g gap, x.junk = some (g, gap) → C02P.DGarbage g gap ∧ x.b.JOk)
    (htail : ∀ g gap, tail = some (g, gap) → C02P.DGarbage g gap)
    (hlic : ∀ x, xs.head? = some x → x.junk = none → x.b.NoLicense (if bom then 1 else 0))
    (hne : bom = true → xs ≠ []) :
    runG .dtd (execG .dtd {} (h ++ [.read ((if bom then [65279] else []) ++ C02P.dtdSpec.gprint xs tail).toArray] ++ h2))
        [.mk false, .drain (countMk (h ++ [.read ((if bom then [65279] else []) ++ C02P.dtdSpec.gprint xs tail).toArray] ++ h2))] =
      [.full (.done (C02P.dtdSpec.gentriesAt (if bom then 1 else 0) xs tail))] :=
  complete_pass_recovers_exactly .dtd h h2 _ _ (roundtrip_dtd_full_partial bom xs tail hg htail hlic hne).1 hnr false

end C02

/-
C02 — Well-formed entries are recovered exactly; junk damage stays local.
Property theorems only (helper lemmas live in CLModel/Proofs/C02*.lean).

FULL STATEMENT (DESIGN.md "### C02"), per format `fmt`:
  roundtrip_fmt   : entitiesOf (walk fmt (print fmt rs lay)) = rs.map (expected fmt) ∧ junkOf … = []
                    for ALL record lists with unique keys and legal raw values, ALL legal layouts
  unescape_is_spec: val fmt v = specUnescape fmt v                      for all raw values v
  garbage_local   : junkOf (walk fmt (printWithGarbage … i g)) = [g.text] ∧ entities unchanged
  license_standalone_fmt (properties, dtd, ini, po)
What is proved here, and what is not:
  * `props_unescape_is_spec`                       FULL (all texts)
  * `po_unescape_is_spec`, `po_unescape_spec`       FULL (all texts / all well-formed token lists) since the fix b81665f
  * `roundtrip_properties_partial`, `props_single_record`
        restricted to safe keys/values, separator `=`, one newline after each record; no comments,
        no escapes, no continuation lines, no other layouts (those are covered differentially)
  * `roundtrip_properties_comments_partial` (+ `attached_comment_span`, `attached_comment_val`)
        the same records, each with at most ONE preceding `# text` line: pre-comment span and comment value
  * `garbage_local_properties_partial`             records, one inert garbage line, records (properties only)
  * `ini_single_record_partial`, `roundtrip_ini_partial`
        one record / a section header + an unbounded list of records; no comments, no blank lines
  * `roundtrip_inc_partial` (+ `roundtrip_inc_absent_val_span`)   unbounded lists of `#define KEY value`
  * `roundtrip_dtd_partial`                        unbounded lists of `<!ENTITY key "value">`, ASCII names, no `&`
  * `po_single_record_partial`                     ONE `msgid "K"⏎msgstr "V"⏎` record (spans, fragments, eval, view)
  * `license_standalone_*`                         FULL for properties / base getNext / po / dtd; ini under `s[off] ≠ '['`
  * every other layout of these formats, po lists, `garbage_local` for the other formats, Fluent and Android:
    NOT proved (harness only)
  Helper lemmas of sections (6)–(11) live in CLModel/Proofs/C02X*.lean (namespace `C02X`).
-/
import CLModel.Parser.Values
import CLModel.Proofs.C02Props
import CLModel.Proofs.C02Po
import CLModel.Proofs.C02Roundtrip
import CLModel.Proofs.C02Ini
import CLModel.Proofs.C02XIni
import CLModel.Proofs.C02XInc
import CLModel.Proofs.C02XDtd
import CLModel.Proofs.C02XComment
import CLModel.Proofs.C02XGarbage
import CLModel.Proofs.C02XPo
namespace C02
open P Rx Gen.Pat

/-! ### (1) properties: the unescape of the code is the documented one -/

/-- `PropertiesEntityMixin.val` — `escape.sub(unescape, raw_val)` with the escape regex and the `known_escapes`
    table generated from the source — never raises and computes, for EVERY raw value, exactly the documented
    rules: `\uXXXX` with 1–4 hex digits, backslash-newline-indentation removed, `\n \r \t \\`, any other `\c → c`,
    a final lone backslash kept.  (If the regex or the table is edited, this proof breaks.) -/
theorem props_unescape_is_spec (v : List Nat) : propsVal v = some (propsUnescapeSpec v) :=
  propsVal_eq_spec v

/-- values without a backslash are their own unescaped value -/
theorem props_unescape_id (v : List Nat) (h : ∀ c ∈ v, c ≠ 92) : propsVal v = some v := by
  rw [propsVal_eq_spec, spec_id v h]

-- non-vacuity: the specification really unescapes   "\u41\q"  ->  "Aq",   "\<nl> z\"  ->  "z\",   "\n\r\t"
example : propsUnescapeSpec [92, 117, 52, 49, 92, 113] = [65, 113] :=
  Option.some.inj ((props_unescape_is_spec _).symm.trans (by decide))
example : propsUnescapeSpec [92, 10, 32, 122, 92] = [122, 92] :=
  Option.some.inj ((props_unescape_is_spec _).symm.trans (by decide))
example : propsUnescapeSpec [92, 110, 92, 114, 92, 116] = [10, 13, 9] :=
  Option.some.inj ((props_unescape_is_spec _).symm.trans (by decide))

/-! ### (2) PO: `eval_stringlist` is the documented one-pass unescape

History: until /repo b81665f the code applied five successive `str.replace`; the fragment `\\n` (escaped backslash,
then the letter n) was evaluated to a NEWLINE (finding C02-po-sequential-unescape, then proved as
`po_unescape_not_one_pass`).  The code now substitutes once with `reEscape`; the statement below is full. -/

/-- `eval_stringlist` on one fragment — `reEscape.sub(lambda m: escapes[m.group(1)], line)` with the regex and the
    `escapes` table generated from the source — never raises and equals, for EVERY text, the one-pass scanner:
    `\\ \t \r \n \"` are backslash, tab, CR, newline, quote; everything else is copied. -/
theorem po_unescape_is_spec (v : List Nat) : poUnescape v = some (poOnePassText v) :=
  poUnescape_eq_spec v

/-- token form: for every fragment that `reListItem` accepts (a list of tokens: an escape `\\ \t \r \n \"` or a plain
    character) the value is the token-wise unescape — no hazard-free hypothesis any more. -/
theorem po_unescape_spec (ts : List PoTok) (hwf : ∀ t ∈ ts, t.wf = true) :
    poUnescape (poRender ts) = some (poOnePass ts) :=
  poUnescape_render ts hwf

/-- the former counterexample is now a positive example: `\\n` is backslash + `n` -/
theorem po_unescape_backslash_n : poUnescape [92, 92, 110] = some [92, 110] := by decide

-- non-vacuity: `a\tb\\\"c` (every kind of token)
example : poUnescape (poRender [.plain 97, .esc 116, .plain 98, .esc 92, .esc 34, .plain 99]) = some [97, 9, 98, 92, 34, 99] := by decide
-- a backslash before any other character, or at the end, is copied (such fragments are not accepted by `reListItem`)
example : poUnescape [92, 120, 92] = some [92, 120, 92] := by decide
-- the rendered tokens are what the generated list-item regex accepts as one quoted fragment (`"a\tb\\"`)
example : (matchAt #[34, 97, 92, 116, 98, 92, 92, 34] PoParser_reListItem 0).map (·.pos) = some 8 := by decide

/-! ### (3) properties round trip for an unbounded class of printed files -/

/-- One record: if at offset `pre.length` the text reads `key=value⏎…` with a safe key (non-empty, no `# ! = :`
    and no white-space) and a safe value (no backslash, no newline, no blank at either end, no CR at the end), then
    `PropertiesParser.getNext` returns the entity whose key span is exactly the key and whose value span is exactly
    the value; no comment is attached. -/
theorem props_single_record (pre key value rest : List Nat) (h : SafeRec (key, value)) :
    propsGetNext (pre ++ (key ++ 61 :: (value ++ [10])) ++ rest).toArray pre.length =
      propsEntity_c02 pre.length key.length value.length := by
  apply props_entity_at
  apply recAt_of_drop _ _ (key, value) rest h
  simp [printRec]

/-- A whole file: for EVERY list of safe records printed as `key=value⏎` one after the other, the walk terminates,
    yields exactly one entity per record, in order, with exactly the printed key, the printed raw value, the same
    unescaped value and no attached comment, and reports no junk. -/
theorem roundtrip_properties_partial (rs : List PRec) (h : ∀ r ∈ rs, SafeRec r) :
    ∃ es, walk .properties (printProps rs).toArray = .done es ∧
      entitiesOf .properties (printProps rs).toArray es = rs.map expectedView ∧
      junkOf (printProps rs).toArray es = [] := by
  refine ⟨expEntries 0 rs, walk_props_printed rs h, ?_⟩
  exact entitiesOf_expEntries (printProps rs).toArray rs 0 (by simp) h

-- non-vacuity: two records  "a.b=x y" and "k=" (empty value)
example : SafeRec ([97, 46, 98], [120, 32, 121]) ∧ SafeRec ([107], []) := by
  constructor <;> constructor <;> simp [propsKeyChar] <;> decide
example : printProps [([97, 46, 98], [120, 32, 121]), ([107], [])] = [97, 46, 98, 61, 120, 32, 121, 10, 107, 61, 10] := by decide

-- NEGATION WITNESSES for the hypotheses on the value (what the code does at the excluded points):
-- a value ending in a blank: the blank is stripped ("a=b ⏎"  ->  value span 2..3)
example : (propsGetNext #[97, 61, 98, 32, 10] 0).ve = 3 := by decide
-- ... even if the blank is escaped ("a=b\ ⏎" -> raw value `b\`): candidate defect, see NOTES-C02
example : (propsGetNext #[97, 61, 98, 92, 32, 10] 0).ve = 4 := by decide
-- a value ending in a backslash swallows the next record ("a=b\⏎c=d⏎" is ONE entity up to offset 8)
example : (propsGetNext #[97, 61, 98, 92, 10, 99, 61, 100, 10] 0).e = 8 := by decide
-- a key character excluded by `propsKeyChar`: ":" ends the key ("a:b=c⏎" -> key span 0..1)
example : (propsGetNext #[97, 58, 98, 61, 99, 10] 0).ke = 1 := by decide

/-! ### (4) the License rule -/

/-- properties: if the comment regex matches at offset 0 and the comment's value contains the word "License",
    the entry returned at offset 0 is that comment, standalone. -/
theorem license_standalone_properties (s : Array Nat) (st : St)
    (hm : matchAt s PropertiesParser_reComment 0 = some st)
    (hl : isInfix licenseWord (commentVal (.offset Gen.Tables.offsetCommentDefault) (slice s 0 st.pos)) = true) :
    propsGetNext s 0 = { kind := .comment, full := 0, s := 0, e := st.pos } := by
  unfold propsGetNext
  simp [hm, hl]

/-- properties: an entry never has a pre-comment that starts before the offset it was parsed at.  Together with
    `license_standalone_properties`: the entry parsed after the leading License comment (at offset `st.pos`)
    cannot have that comment attached. -/
theorem license_first_entity_unattached_properties (s : Array Nat) (off a b : Nat)
    (h : (propsGetNext s off).pc = some (a, b)) : a = off :=
  pc_start s off a b h

/-- the base `Parser.getNext` (used by dtd, ini, po): a comment matched at an offset < 2 whose value contains
    "License" is returned standalone. -/
theorem license_standalone_base (c : BaseCfg) (s : Array Nat) (off : Nat) (st : St) (hoff : off < 2)
    (hm : matchAt s c.reComment off = some st)
    (hl : isInfix licenseWord (commentVal c.commentStyle (slice s off st.pos)) = true) :
    getNext c s off = { kind := .comment, full := off, s := off, e := st.pos } := by
  unfold getNext
  simp [hm, hl, hoff]

/-- po -/
theorem license_standalone_po (s : Array Nat) (off : Nat) (st : St) (hoff : off < 2)
    (hm : matchAt s PoParser_reComment off = some st)
    (hl : isInfix licenseWord (slice s off st.pos) = true) :
    poGetNext s off = { kind := .comment, full := off, s := off, e := st.pos } :=
  license_standalone_base poCfg s off st hoff hm hl

/-- ini (the section test comes first in `IniParser.getNext`; a comment does not start with `[`) -/
theorem license_standalone_ini (s : Array Nat) (off : Nat) (st : St) (hoff : off < 2) (hsec : s[off]? ≠ some 91)
    (hm : matchAt s IniParser_reComment off = some st)
    (hl : isInfix licenseWord (commentVal (.offset Gen.Tables.offsetCommentDefault) (slice s off st.pos)) = true) :
    iniGetNext s off = { kind := .comment, full := off, s := off, e := st.pos } := by
  have : matchAt s IniParser_reSection off = none := by
    simp only [matchAt, IniParser_reSection, m_seq, m_lit]
    simp [hsec]
  unfold iniGetNext
  simp only [this]
  exact license_standalone_base iniCfg s off st hoff hm hl

/-- dtd, with or without a byte-order mark: `off` is where `DTDParser.getNext` really starts -/
theorem license_standalone_dtd (s : Array Nat) (off0 : Nat) (st : St)
    (hoff : (if off0 == 0 && (matchAt s DTDParser_reHeader 0).isSome then off0 + 1 else off0) < 2)
    (hm : matchAt s DTDParser_reComment (if off0 == 0 && (matchAt s DTDParser_reHeader 0).isSome then off0 + 1 else off0) = some st)
    (hl : isInfix licenseWord (commentVal .dtd (slice s (if off0 == 0 && (matchAt s DTDParser_reHeader 0).isSome then off0 + 1 else off0) st.pos)) = true) :
    dtdGetNext s off0 =
      { kind := .comment, full := (if off0 == 0 && (matchAt s DTDParser_reHeader 0).isSome then off0 + 1 else off0),
        s := (if off0 == 0 && (matchAt s DTDParser_reHeader 0).isSome then off0 + 1 else off0), e := st.pos } := by
  unfold dtdGetNext
  simp only []
  rw [license_standalone_base dtdCfg s _ st hoff hm hl]
  simp

-- non-vacuity: "# License⏎a=b" : the comment is standalone, the entity that follows has no pre-comment
example : propsGetNext #[35, 32, 76, 105, 99, 101, 110, 115, 101, 10, 97, 61, 98] 0 = { kind := .comment, full := 0, s := 0, e := 9 } := by decide
example : (propsGetNext #[35, 32, 76, 105, 99, 101, 110, 115, 101, 10, 97, 61, 98] 10).pc = none := by decide
-- without the rule the same comment IS attached ("# Licence⏎a=b", other spelling): the rule is what detaches it
example : (propsGetNext #[35, 32, 76, 105, 99, 101, 110, 99, 101, 10, 97, 61, 98] 0).pc = some (0, 9) := by decide
-- NEGATION WITNESS for `offset == 0`: after one leading newline the License comment is attached ("⏎# License⏎a=b")
example : (propsGetNext #[10, 35, 32, 76, 105, 99, 101, 110, 115, 101, 10, 97, 61, 98] 1).pc = some (1, 10) := by decide
-- dtd with BOM: the hypotheses of `license_standalone_dtd` hold for  "﻿<!--License--><!ENTITY a "b">"  (comment at offset 1)
example : ∃ st,
    (if (0 : Nat) == 0 && (matchAt #[65279, 60, 33, 45, 45, 76, 105, 99, 101, 110, 115, 101, 45, 45, 62, 60, 33, 69, 78, 84, 73, 84, 89, 32, 97, 32, 34, 98, 34, 62] DTDParser_reHeader 0).isSome then 0 + 1 else 0) = 1 ∧
    matchAt #[65279, 60, 33, 45, 45, 76, 105, 99, 101, 110, 115, 101, 45, 45, 62, 60, 33, 69, 78, 84, 73, 84, 89, 32, 97, 32, 34, 98, 34, 62] DTDParser_reComment 1 = some st ∧
    isInfix licenseWord (commentVal .dtd (slice #[65279, 60, 33, 45, 45, 76, 105, 99, 101, 110, 115, 101, 45, 45, 62, 60, 33, 69, 78, 84, 73, 84, 89, 32, 97, 32, 34, 98, 34, 62] 1 st.pos)) = true :=
  ⟨⟨15, [(1, 11, 12), (1, 10, 11), (1, 9, 10), (1, 8, 9), (1, 7, 8), (1, 6, 7), (1, 5, 6)]⟩, by decide, by decide, by decide⟩

/-! ### (5) ini: one record -/

/-- ini: if at offset `pre.length` the text reads `key=value` followed by a newline or the end of the text — key
    non-empty, without `=` and newline, not starting with `[ ; #` or white-space; value without newline — then
    `IniParser.getNext` returns the entity with exactly that key span and that value span (the raw value keeps
    leading and trailing blanks), no comment attached. -/
theorem ini_single_record_partial (s : Array Nat) (off klen vlen : Nat) (h : IniRecAt s off klen vlen) :
    iniGetNext s off = iniEntity off klen vlen :=
  ini_entity_at s off klen vlen h

-- non-vacuity: "k = v " at offset 0 of "k = v ⏎x"
example : iniGetNext #[107, 32, 61, 32, 118, 32, 10, 120] 0 = iniEntity 0 2 3 := by decide
-- NEGATION WITNESS for "key does not start with [": "[a]=b" is a section, not an entity
example : (iniGetNext #[91, 97, 93, 61, 98] 0).kind = .section := by decide

/-! ### (6) ini: a whole printed file (section header + records) -/

/-- ini, a whole file: for EVERY section name without `]` and newline and EVERY list of safe ini records (key non-empty,
    without `=` and newline, not starting with `[ ; #` or white-space; value without newline — blanks are kept) printed as
    `[sec]⏎` followed by `key=value⏎` per record, `IniParser.walk` terminates and yields EXACTLY: the section entry
    (span `[sec]`, value span `sec`), a one-newline white-space entry, and per record the entity (span `key=value`, key
    span, value span) followed by a one-newline white-space entry (`C02X.iniExpEntries`); the entities evaluate to exactly
    the printed keys and raw values (value = raw value), no comment attached; there is no junk.
    FULL statement (not proved): all legal layouts (blank lines, comments, no section / several sections, CRLF). -/
theorem roundtrip_ini_partial (sec : List Nat) (rs : List PRec) (hsec : ∀ c ∈ sec, c ≠ 93 ∧ c ≠ 10)
    (h : ∀ r ∈ rs, C02X.SafeIniRec r) :
    walk .ini (C02X.printIni sec rs).toArray = .done (C02X.iniExpEntries sec rs) ∧
      entitiesOf .ini (C02X.printIni sec rs).toArray (C02X.iniExpEntries sec rs) = rs.map expectedView ∧
      junkOf (C02X.printIni sec rs).toArray (C02X.iniExpEntries sec rs) = [] :=
  ⟨C02X.walk_ini_printed sec rs hsec h, C02X.entitiesOf_iniExpEntries sec rs⟩

-- non-vacuity: "[Strings]⏎a b= x ⏎k=⏎"  (blanks inside key and around the value are kept, empty value)
example : C02X.SafeIniRec ([97, 32, 98], [32, 120, 32]) ∧ C02X.SafeIniRec ([107], []) := by
  constructor <;> constructor <;> simp
example : C02X.printIni [83, 116, 114, 105, 110, 103, 115] [([97, 32, 98], [32, 120, 32]), ([107], [])] =
    [91, 83, 116, 114, 105, 110, 103, 115, 93, 10, 97, 32, 98, 61, 32, 120, 32, 10, 107, 61, 10] := by decide
example : C02X.iniExpEntries [83, 116, 114, 105, 110, 103, 115] [([97, 32, 98], [32, 120, 32]), ([107], [])] =
    [{ kind := .section, full := 0, s := 0, e := 9, ks := 1, ke := 8, vs := 1, ve := 8 },
     { kind := .whitespace, full := 9, s := 9, e := 10, ks := 9, ke := 10, vs := 9, ve := 10 },
     { kind := .entity, full := 10, s := 10, e := 17, ks := 10, ke := 13, vs := 14, ve := 17 },
     { kind := .whitespace, full := 17, s := 17, e := 18, ks := 17, ke := 18, vs := 17, ve := 18 },
     { kind := .entity, full := 18, s := 18, e := 20, ks := 18, ke := 19, vs := 20, ve := 20 },
     { kind := .whitespace, full := 20, s := 20, e := 21, ks := 20, ke := 21, vs := 20, ve := 21 }] := by decide
-- NEGATION WITNESSES (what the code does at the excluded points):
-- a key starting with `;` is a comment line ("[S]⏎;a=b⏎": the entry at offset 4 is a comment)
example : (iniGetNext #[91, 83, 93, 10, 59, 97, 61, 98, 10] 4).kind = .comment := by decide
-- a key containing `=`: the key ends at the FIRST `=` ("a=b=c": key span 0..1, value span 2..5)
example : ((iniGetNext #[97, 61, 98, 61, 99] 0).ke, (iniGetNext #[97, 61, 98, 61, 99] 0).vs) = (1, 2) := by decide
-- a section name containing `]` ends at the first `]` ("[a]b]⏎": section value span 1..2, entry ends at 3)
example : ((iniGetNext #[91, 97, 93, 98, 93, 10] 0).ke, (iniGetNext #[91, 97, 93, 98, 93, 10] 0).e) = (2, 3) := by decide
-- a key starting with a blank: the blank goes to the white-space entry, the key loses it ("[S]⏎ a=b": ws entry 3..5)
example : (iniGetNext #[91, 83, 93, 10, 32, 97, 61, 98] 3).e = 5 := by decide

/-! ### (7) .inc (DefinesParser): a whole printed file -/

/-- .inc, a whole file: for EVERY list of safe records (key non-empty, made of ASCII letters / digits / underscore; value
    without newline, possibly empty) printed as `#define KEY value⏎` — resp. `#define KEY⏎` when the value is empty — one
    directly after the other (no blank lines, so the `#filter emptyLines` state is irrelevant; it stays `False`),
    `DefinesParser.walk` terminates and yields EXACTLY, per record, the entity followed by a one-newline white-space entry
    (`C02X.incExpEntries`): entity span = the line without its newline, key span = `KEY`, value span = the text after the ONE
    separating blank; for an EMPTY value the `val` group takes no part in the match and the value span is Python's
    `(-1, -1)` (see `roundtrip_inc_absent_val_span`), whose slice is the empty text.  The entities evaluate to exactly the
    printed keys and raw values (value = raw value), no comment attached; there is no junk.
    FULL statement (not proved): comments, blank lines under `#filter emptyLines`, other instructions, tabs/several
    blanks after `#define`, non-ASCII `\w` keys. -/
theorem roundtrip_inc_partial (rs : List C02X.IRec) (h : ∀ r ∈ rs, C02X.SafeIncRec r) :
    walk .inc (C02X.printInc rs).toArray = .done (C02X.incExpEntries 0 rs) ∧
      entitiesOf .inc (C02X.printInc rs).toArray (C02X.incExpEntries 0 rs) = rs.map expectedView ∧
      junkOf (C02X.printInc rs).toArray (C02X.incExpEntries 0 rs) = [] :=
  ⟨C02X.walk_inc_printed rs h, C02X.entitiesOf_incExpEntries _ rs 0 (by simp)⟩

/-- the spans of one record explicitly: empty value ⇒ value span `(-1, -1)`; otherwise the text after the blank -/
theorem roundtrip_inc_absent_val_span (off klen : Nat) :
    ((C02X.incEntity off klen 0).vs, (C02X.incEntity off klen 0).ve) = (-1, -1) ∧
      ∀ vlen, 0 < vlen → ((C02X.incEntity off klen vlen).vs, (C02X.incEntity off klen vlen).ve) =
        (((off + 8 + klen + 1 : Nat) : Int), ((off + 8 + klen + 1 + vlen : Nat) : Int)) := by
  constructor
  · simp [C02X.incEntity]
  · intro vlen hv
    have : vlen ≠ 0 := by omega
    simp [C02X.incEntity, this]

-- non-vacuity: "#define A_1  x y" (value " x y" keeps its own leading blank) and "#define b" (no value)
example : C02X.SafeIncRec ([65, 95, 49], [32, 120, 32, 121]) ∧ C02X.SafeIncRec ([98], []) := by
  constructor <;> constructor <;> simp <;> decide
example : C02X.printInc [([65, 95, 49], [32, 120, 32, 121]), ([98], [])] =
    [35, 100, 101, 102, 105, 110, 101, 32, 65, 95, 49, 32, 32, 120, 32, 121, 10,
     35, 100, 101, 102, 105, 110, 101, 32, 98, 10] := by decide
example : C02X.incExpEntries 0 [([65, 95, 49], [32, 120, 32, 121]), ([98], [])] =
    [{ kind := .entity, full := 0, s := 0, e := 16, ks := 8, ke := 11, vs := 12, ve := 16 },
     { kind := .whitespace, full := 16, s := 16, e := 17, ks := 16, ke := 17, vs := 16, ve := 17 },
     { kind := .entity, full := 17, s := 17, e := 26, ks := 25, ke := 26, vs := -1, ve := -1 },
     { kind := .whitespace, full := 26, s := 26, e := 27, ks := 26, ke := 27, vs := 26, ve := 27 }] := by decide
-- NEGATION WITNESSES (what the code does at the excluded points):
-- a key character outside `\w` ends the key and the entity: "#define a-b x⏎" is the entity `a` (0..9) followed by junk "-b x⏎"
set_option maxRecDepth 100000 in
example : (definesGetNext #[35, 100, 101, 102, 105, 110, 101, 32, 97, 45, 98, 32, 120, 10] false 0).1 =
    { kind := .entity, full := 0, s := 0, e := 9, ks := 8, ke := 9 } ∧
  (definesGetNext #[35, 100, 101, 102, 105, 110, 101, 32, 97, 45, 98, 32, 120, 10] false 9).1 =
    { kind := .junk, full := 9, s := 9, e := 14 } := by decide
-- an empty value printed WITH the separating blank ("#define b ⏎") gives an empty but present value span (10, 10)
set_option maxRecDepth 100000 in
example : ((definesGetNext #[35, 100, 101, 102, 105, 110, 101, 32, 98, 32, 10] false 0).1.vs,
    (definesGetNext #[35, 100, 101, 102, 105, 110, 101, 32, 98, 32, 10] false 0).1.ve) = (10, 10) := by decide
-- a blank line between records (outside `#filter emptyLines`) is junk: "#define a⏎⏎#define b⏎" at offset 9
set_option maxRecDepth 100000 in
example : (definesGetNext #[35, 100, 101, 102, 105, 110, 101, 32, 97, 10, 10, 35, 100, 101, 102, 105, 110, 101, 32, 98, 10] false 9).1.kind = .junk := by decide

/-! ### (8) DTD: a whole printed file -/

/-- DTD, a whole file: for EVERY list of safe records (key = an ASCII letter followed by ASCII letters / digits / `.` / `-`;
    value without `"` and without `&`; newlines, `<`, `%`, `'` in the value are allowed) printed as
    `<!ENTITY key "value">⏎` one after the other, `DTDParser.walk` terminates and yields EXACTLY, per record, the entity
    followed by a one-newline white-space entry (`C02X.dtdExpEntries`): entity span = `<!ENTITY … >`, key span = `key`,
    value span = the quoted text WITHOUT the two quotes (`createEntity` shrinks the span of the `val` group by one on each
    side).  The entities evaluate to exactly the printed keys and raw values (value = raw value: there is no `&` to
    unescape), no comment attached; there is no junk.
    FULL statement (not proved): single-quoted values, non-ASCII names, other white-space, comments, parameter entities,
    byte-order mark, values with character references (needs `html.unescape`). -/
theorem roundtrip_dtd_partial (rs : List C02X.DRec) (h : ∀ r ∈ rs, C02X.SafeDtdRec r) :
    walk .dtd (C02X.printDtd rs).toArray = .done (C02X.dtdExpEntries 0 rs) ∧
      entitiesOf .dtd (C02X.printDtd rs).toArray (C02X.dtdExpEntries 0 rs) = rs.map expectedView ∧
      junkOf (C02X.printDtd rs).toArray (C02X.dtdExpEntries 0 rs) = [] :=
  ⟨C02X.walk_dtd_printed rs h, C02X.entitiesOf_dtdExpEntries _ rs 0 (by simp) h⟩

-- non-vacuity: `<!ENTITY a.b "x y">` and `<!ENTITY k "">` (empty value)
example : C02X.SafeDtdRec ([97, 46, 98], [120, 32, 121]) ∧ C02X.SafeDtdRec ([107], []) := by
  constructor <;> constructor <;> simp <;> decide
example : C02X.printDtd [([97, 46, 98], [120, 32, 121]), ([107], [])] = [60, 33, 69, 78, 84, 73, 84, 89, 32, 97, 46, 98, 32, 34, 120, 32, 121, 34, 62, 10, 60, 33, 69, 78, 84, 73, 84, 89, 32, 107, 32, 34, 34, 62, 10] := by decide
example : C02X.dtdExpEntries 0 [([97, 46, 98], [120, 32, 121]), ([107], [])] =
    [{ kind := .entity, full := 0, s := 0, e := 19, ks := 9, ke := 12, vs := 14, ve := 17 },
     { kind := .whitespace, full := 19, s := 19, e := 20, ks := 19, ke := 20, vs := 19, ve := 20 },
     { kind := .entity, full := 20, s := 20, e := 34, ks := 29, ke := 30, vs := 32, ve := 32 },
     { kind := .whitespace, full := 34, s := 34, e := 35, ks := 34, ke := 35, vs := 34, ve := 35 }] := by decide
-- NEGATION WITNESSES (what the code does at the excluded points):
-- a key starting with a digit: the whole line is junk (`<!ENTITY 1a "x">⏎`)
example : dtdGetNext #[60, 33, 69, 78, 84, 73, 84, 89, 32, 49, 97, 32, 34, 120, 34, 62, 10] 0 = { kind := .junk, full := 0, s := 0, e := 17 } := by decide
-- a `"` inside the value ends the value, `>` does not follow: junk (`<!ENTITY a "x"y">⏎`)
example : (dtdGetNext #[60, 33, 69, 78, 84, 73, 84, 89, 32, 97, 32, 34, 120, 34, 121, 34, 62, 10] 0).kind = .junk := by decide
-- a `&` in the value: the spans are still exact (value span 12..19) but the VALUE needs `html.unescape` (not modelled: `none`)
example : (entView .dtd #[60, 33, 69, 78, 84, 73, 84, 89, 32, 97, 32, 34, 120, 38, 97, 109, 112, 59, 121, 34, 62, 10] (dtdGetNext #[60, 33, 69, 78, 84, 73, 84, 89, 32, 97, 32, 34, 120, 38, 97, 109, 112, 59, 121, 34, 62, 10] 0)).map (·.val) = some none := by decide

/-! ### (9) properties: records with an attached one-line comment -/

/-- properties with comments, a whole file: every record may carry ONE preceding comment line `# text⏎` (text without any
    line boundary character, see `C02X.SafeCRec`); records are safe as in `roundtrip_properties_partial`.  If the FIRST
    record carries a comment, its text must not contain "License" (otherwise `license_standalone_properties` applies: the
    comment is standalone — the rule only exists at offset 0, so no other comment is restricted).  Then
    `PropertiesParser.walk` terminates and yields EXACTLY, per record, the entity followed by a one-newline white-space
    entry (`C02X.expCEntries`); for a record with a comment the entity's `pre_comment` span is exactly the comment line
    WITHOUT its newline (`attached_comment_span`), the entry's full span starts at the `#`, its own span at the key.
    The entities evaluate to exactly the printed keys, raw values, values (= raw values) and comment values, where the
    comment value is the line without its FIRST character — `OffsetComment` strips `comment_offset = 1` character per
    line, so the blank after `#` is kept: ` text` (`attached_comment_val`).  No junk.
    FULL statement (not proved): multi-line comments, `!` comments, comments separated by blank lines (standalone),
    other layouts. -/
theorem roundtrip_properties_comments_partial (rs : List C02X.CRec) (h : ∀ r ∈ rs, C02X.SafeCRec r)
    (hlic : ∀ r c, rs.head? = some r → r.1 = some c → isInfix licenseWord c = false) :
    walk .properties (C02X.printCProps rs).toArray = .done (C02X.expCEntries 0 rs) ∧
      entitiesOf .properties (C02X.printCProps rs).toArray (C02X.expCEntries 0 rs) = rs.map C02X.expectedCView ∧
      junkOf (C02X.printCProps rs).toArray (C02X.expCEntries 0 rs) = [] :=
  ⟨C02X.walk_cprops_printed rs h hlic, C02X.entitiesOf_expCEntries _ rs 0 (by simp) h⟩

/-- the spans of an entity with an attached comment `# text` (length `|text| + 2`) printed at `off`: the pre-comment span
    is the comment line without its newline; the entry starts at the comment, the entity proper after the newline -/
theorem attached_comment_span (off : Nat) (c : List Nat) (r : PRec) :
    (C02X.crecEntity off (some c, r)).pc = some (off, off + (c.length + 2)) ∧
      (C02X.crecEntity off (some c, r)).full = off ∧ (C02X.crecEntity off (some c, r)).s = off + (c.length + 2) + 1 :=
  ⟨rfl, rfl, rfl⟩

/-- `OffsetComment.val` of a one-line comment `# text`: exactly one character (the `#`) is stripped -/
theorem attached_comment_val (c : List Nat) (hb : ∀ ch ∈ c, isLineBreak ch = false) :
    commentVal (.offset Gen.Tables.offsetCommentDefault) (35 :: 32 :: c) = 32 :: c :=
  C02X.commentVal_oneLine c hb

-- non-vacuity: "# hi⏎a=b⏎c=d⏎": the first record carries the comment "# hi"
example : C02X.SafeCRec (some [104, 105], ([97], [98])) ∧ C02X.SafeCRec (none, ([99], [100])) := by
  refine ⟨⟨?_, ?_⟩, ⟨?_, ?_⟩⟩
  · constructor <;> simp [propsKeyChar]
  · intro c hc; cases hc; decide
  · constructor <;> simp [propsKeyChar]
  · intro c hc; cases hc
example : C02X.printCProps [(some [104, 105], ([97], [98])), (none, ([99], [100]))] =
    [35, 32, 104, 105, 10, 97, 61, 98, 10, 99, 61, 100, 10] := by decide
example : C02X.expCEntries 0 [(some [104, 105], ([97], [98])), (none, ([99], [100]))] =
    [{ kind := .entity, full := 0, s := 5, e := 8, ks := 5, ke := 6, vs := 7, ve := 8, pc := some (0, 4) },
     { kind := .whitespace, full := 8, s := 8, e := 9, ks := 8, ke := 9, vs := 8, ve := 9 },
     { kind := .entity, full := 9, s := 9, e := 12, ks := 9, ke := 10, vs := 11, ve := 12 },
     { kind := .whitespace, full := 12, s := 12, e := 13, ks := 12, ke := 13, vs := 12, ve := 13 }] := by decide
example : (C02X.expectedCView (some [104, 105], ([97], [98]))).map (·.comment) = some (some [32, 104, 105]) := by decide
-- NEGATION WITNESSES (what the code does at the excluded points):
-- the License hypothesis on the first comment: see the `# License⏎a=b` examples of section (4) (standalone comment)
-- a line boundary character other than newline inside the comment text (VT, 0x0b): the regex does not care, but
-- `splitlines` starts a new line there and ONE MORE character is dropped  ("# a\x0bbc"  ->  " a\x0bc")
example : commentVal (.offset Gen.Tables.offsetCommentDefault) [35, 32, 97, 11, 98, 99] = [32, 97, 11, 99] := by decide
-- a blank line between comment and record: the comment is standalone ("# a⏎⏎b=c⏎")
example : propsGetNext #[35, 32, 97, 10, 10, 98, 61, 99, 10] 0 = { kind := .comment, full := 0, s := 0, e := 3 } := by decide
-- two comment lines are ONE pre-comment ("# a⏎# b⏎b=c⏎": pre-comment span 0..7), outside the printed class
example : (propsGetNext #[35, 32, 97, 10, 35, 32, 98, 10, 98, 61, 99, 10] 0).pc = some (0, 7) := by decide

/-! ### (10) properties: junk damage stays local -/

/-- garbage locality, properties: take ANY two lists of safe records (either may be empty) and ANY inert garbage line `g`
    (non-empty, without `= : # !` and newline, not starting with white-space), printed as the first records, then `g⏎`,
    then the other records.  `PropertiesParser.walk` terminates and yields EXACTLY the entries of the first records, ONE
    junk entry, and the entries of the other records (`C02X.garbageExpEntries`): every record is recovered unchanged (key,
    raw value, value, no comment) and the only junk text is exactly `g⏎` (`getJunk` stops where the key regex matches
    next — the start of the following record — or at the end of the text).
    FULL statement (not proved): the fixed garbage family of the harness at every insertion point in every layout, with
    comments, for all formats. -/
theorem garbage_local_properties_partial (rs1 : List PRec) (g : List Nat) (rs2 : List PRec)
    (h1 : ∀ r ∈ rs1, SafeRec r) (hg : C02X.SafeGarbage g) (h2 : ∀ r ∈ rs2, SafeRec r) :
    walk .properties (C02X.printWithGarbage rs1 g rs2).toArray = .done (C02X.garbageExpEntries rs1 g rs2) ∧
      entitiesOf .properties (C02X.printWithGarbage rs1 g rs2).toArray (C02X.garbageExpEntries rs1 g rs2) =
        (rs1 ++ rs2).map expectedView ∧
      junkOf (C02X.printWithGarbage rs1 g rs2).toArray (C02X.garbageExpEntries rs1 g rs2) = [g ++ [10]] :=
  ⟨C02X.walk_garbage_printed rs1 g rs2 h1 hg h2, C02X.views_garbage_printed rs1 g rs2 h1 h2⟩

-- non-vacuity: "a=b⏎x y⏎c=d⏎" (garbage "x y", blanks inside are fine)
example : C02X.SafeGarbage [120, 32, 121] := by constructor <;> simp
example : C02X.printWithGarbage [([97], [98])] [120, 32, 121] [([99], [100])] =
    [97, 61, 98, 10, 120, 32, 121, 10, 99, 61, 100, 10] := by decide
example : C02X.garbageExpEntries [([97], [98])] [120, 32, 121] [([99], [100])] =
    [{ kind := .entity, full := 0, s := 0, e := 3, ks := 0, ke := 1, vs := 2, ve := 3 },
     { kind := .whitespace, full := 3, s := 3, e := 4, ks := 3, ke := 4, vs := 3, ve := 4 },
     { kind := .junk, full := 4, s := 4, e := 8 },
     { kind := .entity, full := 8, s := 8, e := 11, ks := 8, ke := 9, vs := 10, ve := 11 },
     { kind := .whitespace, full := 11, s := 11, e := 12, ks := 11, ke := 12, vs := 11, ve := 12 }] := by decide
-- NEGATION WITNESSES (what the code does at the excluded points):
-- garbage containing `=` is simply another entity ("x=y")
example : (propsGetNext #[97, 61, 98, 10, 120, 61, 121, 10, 99, 61, 100, 10] 4).kind = .entity := by decide
-- garbage containing `#` ("x # y"): the junk ends at the `#` (offset 6) and "# y" becomes the PRE-COMMENT of the next
-- record (its `pc` is 6..9): here the damage is NOT local — the comment regex is not anchored at a line start
example : propsGetNext #[97, 61, 98, 10, 120, 32, 35, 32, 121, 10, 99, 61, 100, 10] 4 = { kind := .junk, full := 4, s := 4, e := 6 } ∧
    (propsGetNext #[97, 61, 98, 10, 120, 32, 35, 32, 121, 10, 99, 61, 100, 10] 6).pc = some (6, 9) := by decide
-- garbage starting with a blank (" x"): the blank joins the preceding white-space entry (3..5), the junk is "x⏎" only
example : (propsGetNext #[97, 61, 98, 10, 32, 120, 10, 99, 61, 100, 10] 3).e = 5 ∧ propsGetNext #[97, 61, 98, 10, 32, 120, 10, 99, 61, 100, 10] 5 = { kind := .junk, full := 5, s := 5, e := 7 } := by decide

/-! ### (11) PO: one record -/

/-- PO, one record: if at offset `|pre|` the text reads `msgid "K"⏎msgstr "V"⏎` — K and V without `"`, backslash and
    newline (either may be empty) — and what follows is the end of the text or starts with something that is neither
    white-space nor a quote (e.g. the next `msgid`, a `#` comment), then `PoParser.getNext` returns the entity whose span is
    `msgid "K"⏎msgstr "V"` (without the final newline), key span `msgid "K"`, value span `msgstr "V"`; `createEntity`
    finds no `msgctxt`, exactly one `msgid` fragment and one `msgstr` fragment (the texts between the quotes), and
    `eval_stringlist` of them is K resp. V; the entity evaluates to key K, context `None`, raw value `msgstr "V"`, value V —
    or K when V is empty (`stringlist_val if stringlist_val else stringlist_key[0]`) — and no comment.
    FULL statement (not proved): lists of records separated by blank lines, several fragments per string list, escapes in
    fragments (their VALUE is `po_unescape_is_spec`), `msgctxt`, comments. -/
theorem po_single_record_partial (pre K V rest : List Nat)
    (hK : ∀ c ∈ K, c ≠ 34 ∧ c ≠ 10 ∧ c ≠ 92) (hV : ∀ c ∈ V, c ≠ 34 ∧ c ≠ 10 ∧ c ≠ 92)
    (hrest : ∀ c, rest.head? = some c → c ≠ 32 ∧ c ≠ 9 ∧ c ≠ 13 ∧ c ≠ 10 ∧ c ≠ 34) :
    poGetNext (pre ++ C02X.printPoRec K V ++ rest).toArray pre.length = C02X.poEntity pre.length K.length V.length ∧
      poCreate (pre ++ C02X.printPoRec K V ++ rest).toArray pre.length = some (C02X.poPartsOf pre.length K.length V.length) ∧
      poEval (pre ++ C02X.printPoRec K V ++ rest).toArray (C02X.poPartsOf pre.length K.length V.length).msgid = some K ∧
      poEval (pre ++ C02X.printPoRec K V ++ rest).toArray (C02X.poPartsOf pre.length K.length V.length).msgstr = some V ∧
      entView .po (pre ++ C02X.printPoRec K V ++ rest).toArray (C02X.poEntity pre.length K.length V.length) =
        C02X.expectedPoView K V := by
  have hrec := C02X.poRecAt_of_drop (pre ++ C02X.printPoRec K V ++ rest).toArray pre.length K V rest hK hV hrest
    (by simp)
  have hK' : ∀ c ∈ K, c ≠ 92 := fun c hc => (hK c hc).2.2
  have hV' : ∀ c ∈ V, c ≠ 92 := fun c hc => (hV c hc).2.2
  exact ⟨C02X.po_entity_at _ _ K V hrec, C02X.po_create _ _ K V hrec, (C02X.po_eval_parts _ _ K V hrec hK' hV').1,
    (C02X.po_eval_parts _ _ K V hrec hK' hV').2, C02X.entView_poEntity _ _ K V hrec hK' hV'⟩

-- non-vacuity: `msgid "a b"⏎msgstr "x"⏎` followed by the next `msgid`, after a two-character prefix "⏎⏎"
example : C02X.printPoRec [97, 32, 98] [120] = [109, 115, 103, 105, 100, 32, 34, 97, 32, 98, 34, 10, 109, 115, 103, 115, 116, 114, 32, 34, 120, 34, 10] := by decide
example : C02X.poEntity 2 3 1 = { kind := .entity, full := 2, s := 2, e := 24, ks := 2, ke := 13, vs := 14, ve := 24 } := by decide
example : C02X.poPartsOf 2 3 1 = { e := 24, idS := 2, idE := 13, valS := 14, msgctxt := none, msgid := [(9, 12)], msgstr := [(22, 23)] } := by decide
example : C02X.expectedPoView [97, 32, 98] [] =
    some { key := [97, 32, 98], ctxt := some none, raw := [109, 115, 103, 115, 116, 114, 32, 34, 34], val := some [97, 32, 98], comment := none } := by
  decide
-- NEGATION WITNESSES (what the code does at the excluded points):
-- a quoted text on the next line is a CONTINUATION fragment of msgstr (hypothesis on `rest`): the entity ends at 25, not 19
example : (poGetNext #[109, 115, 103, 105, 100, 32, 34, 97, 34, 10, 109, 115, 103, 115, 116, 114, 32, 34, 120, 34, 10, 34, 121, 122, 34, 10] 0).e = 25 := by decide
-- a `"` inside K ends the fragment; the record is no entity any more (junk)
example : (poGetNext #[109, 115, 103, 105, 100, 32, 34, 97, 34, 98, 34, 10, 109, 115, 103, 115, 116, 114, 32, 34, 120, 34, 10] 0).kind = .junk := by decide
-- a backslash in V: the spans are as printed, but the value is the unescaped text (`x\ny` -> x, newline, y)
example : (entView .po #[109, 115, 103, 105, 100, 32, 34, 97, 34, 10, 109, 115, 103, 115, 116, 114, 32, 34, 120, 92, 110, 121, 34, 10] (poGetNext #[109, 115, 103, 105, 100, 32, 34, 97, 34, 10, 109, 115, 103, 115, 116, 114, 32, 34, 120, 92, 110, 121, 34, 10] 0)).map (·.val) = some (some [120, 10, 121]) := by decide

end C02

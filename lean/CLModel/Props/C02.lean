/-
C02 — Well-formed entries are recovered exactly; junk damage stays local.
Property theorems only (helper lemmas live in CLModel/Proofs/C02*.lean).

FULL STATEMENT (DESIGN.md "### C02"), per format `fmt`:
  roundtrip_fmt   : entitiesOf (walk fmt (print fmt rs lay)) = rs.map (expected fmt) ∧ junkOf … = []
                    for ALL record lists with unique keys and legal raw values, ALL legal layouts
  unescape_is_spec: val fmt v = specUnescape fmt v                      for all raw values v
  garbage_local   : junkOf (walk fmt (printWithGarbage … i g)) = [g.text] ∧ entities unchanged
  license_standalone_fmt (properties, dtd, ini, po)
What is proved here, and what is not:
  * `props_unescape_is_spec`                       FULL (all texts)
  * `po_unescape_is_spec`, `po_unescape_spec`       FULL (all texts / all well-formed token lists) since the fix b81665f
  * `roundtrip_properties_partial`, `props_single_record`
        restricted to safe keys/values, separator `=`, one newline after each record; no comments,
        no escapes, no continuation lines, no other layouts (those are covered differentially)
  * `ini_single_record_partial`                    one record; no list theorem, no comments
  * `license_standalone_*`                         FULL for properties / base getNext / po / dtd; ini under `s[off] ≠ '['`
  * dtd, inc, po round trips, every `garbage_local`, Fluent and Android: NOT proved (harness only)
-/
import CLModel.Parser.Values
import CLModel.Proofs.C02Props
import CLModel.Proofs.C02Po
import CLModel.Proofs.C02Roundtrip
import CLModel.Proofs.C02Ini
namespace C02
open P Rx Gen.Pat

/-! ### (1) properties: the unescape of the code is the documented one -/

/-- `PropertiesEntityMixin.val` — `escape.sub(unescape, raw_val)` with the escape regex and the `known_escapes`
    table generated from the source — never raises and computes, for EVERY raw value, exactly the documented
    rules: `\uXXXX` with 1–4 hex digits, backslash-newline-indentation removed, `\n \r \t \\`, any other `\c → c`,
    a final lone backslash kept.  (If the regex or the table is edited, this proof breaks.) -/
theorem props_unescape_is_spec (v : List Nat) : propsVal v = some (propsUnescapeSpec v) :=
  propsVal_eq_spec v

/-- values without a backslash are their own unescaped value -/
theorem props_unescape_id (v : List Nat) (h : ∀ c ∈ v, c ≠ 92) : propsVal v = some v := by
  rw [propsVal_eq_spec, spec_id v h]

-- non-vacuity: the specification really unescapes   "\u41\q"  ->  "Aq",   "\<nl> z\"  ->  "z\",   "\n\r\t"
example : propsUnescapeSpec [92, 117, 52, 49, 92, 113] = [65, 113] :=
  Option.some.inj ((props_unescape_is_spec _).symm.trans (by decide))
example : propsUnescapeSpec [92, 10, 32, 122, 92] = [122, 92] :=
  Option.some.inj ((props_unescape_is_spec _).symm.trans (by decide))
example : propsUnescapeSpec [92, 110, 92, 114, 92, 116] = [10, 13, 9] :=
  Option.some.inj ((props_unescape_is_spec _).symm.trans (by decide))

/-! ### (2) PO: `eval_stringlist` is the documented one-pass unescape

History: until /repo b81665f the code applied five successive `str.replace`; the fragment `\\n` (escaped backslash,
then the letter n) was evaluated to a NEWLINE (finding C02-po-sequential-unescape, then proved as
`po_unescape_not_one_pass`).  The code now substitutes once with `reEscape`; the statement below is full. -/

/-- `eval_stringlist` on one fragment — `reEscape.sub(lambda m: escapes[m.group(1)], line)` with the regex and the
    `escapes` table generated from the source — never raises and equals, for EVERY text, the one-pass scanner:
    `\\ \t \r \n \"` are backslash, tab, CR, newline, quote; everything else is copied. -/
theorem po_unescape_is_spec (v : List Nat) : poUnescape v = some (poOnePassText v) :=
  poUnescape_eq_spec v

/-- token form: for every fragment that `reListItem` accepts (a list of tokens: an escape `\\ \t \r \n \"` or a plain
    character) the value is the token-wise unescape — no hazard-free hypothesis any more. -/
theorem po_unescape_spec (ts : List PoTok) (hwf : ∀ t ∈ ts, t.wf = true) :
    poUnescape (poRender ts) = some (poOnePass ts) :=
  poUnescape_render ts hwf

/-- the former counterexample is now a positive example: `\\n` is backslash + `n` -/
theorem po_unescape_backslash_n : poUnescape [92, 92, 110] = some [92, 110] := by decide

-- non-vacuity: `a\tb\\\"c` (every kind of token)
example : poUnescape (poRender [.plain 97, .esc 116, .plain 98, .esc 92, .esc 34, .plain 99]) = some [97, 9, 98, 92, 34, 99] := by decide
-- a backslash before any other character, or at the end, is copied (such fragments are not accepted by `reListItem`)
example : poUnescape [92, 120, 92] = some [92, 120, 92] := by decide
-- the rendered tokens are what the generated list-item regex accepts as one quoted fragment (`"a\tb\\"`)
example : (matchAt #[34, 97, 92, 116, 98, 92, 92, 34] PoParser_reListItem 0).map (·.pos) = some 8 := by decide

/-! ### (3) properties round trip for an unbounded class of printed files -/

/-- One record: if at offset `pre.length` the text reads `key=value⏎…` with a safe key (non-empty, no `# ! = :`
    and no white-space) and a safe value (no backslash, no newline, no blank at either end, no CR at the end), then
    `PropertiesParser.getNext` returns the entity whose key span is exactly the key and whose value span is exactly
    the value; no comment is attached. -/
theorem props_single_record (pre key value rest : List Nat) (h : SafeRec (key, value)) :
    propsGetNext (pre ++ (key ++ 61 :: (value ++ [10])) ++ rest).toArray pre.length =
      propsEntity_c02 pre.length key.length value.length := by
  apply props_entity_at
  apply recAt_of_drop _ _ (key, value) rest h
  simp [printRec]

/-- A whole file: for EVERY list of safe records printed as `key=value⏎` one after the other, the walk terminates,
    yields exactly one entity per record, in order, with exactly the printed key, the printed raw value, the same
    unescaped value and no attached comment, and reports no junk. -/
theorem roundtrip_properties_partial (rs : List PRec) (h : ∀ r ∈ rs, SafeRec r) :
    ∃ es, walk .properties (printProps rs).toArray = .done es ∧
      entitiesOf .properties (printProps rs).toArray es = rs.map expectedView ∧
      junkOf (printProps rs).toArray es = [] := by
  refine ⟨expEntries 0 rs, walk_props_printed rs h, ?_⟩
  exact entitiesOf_expEntries (printProps rs).toArray rs 0 (by simp) h

-- non-vacuity: two records  "a.b=x y" and "k=" (empty value)
example : SafeRec ([97, 46, 98], [120, 32, 121]) ∧ SafeRec ([107], []) := by
  constructor <;> constructor <;> simp [propsKeyChar] <;> decide
example : printProps [([97, 46, 98], [120, 32, 121]), ([107], [])] = [97, 46, 98, 61, 120, 32, 121, 10, 107, 61, 10] := by decide

-- NEGATION WITNESSES for the hypotheses on the value (what the code does at the excluded points):
-- a value ending in a blank: the blank is stripped ("a=b ⏎"  ->  value span 2..3)
example : (propsGetNext #[97, 61, 98, 32, 10] 0).ve = 3 := by decide
-- ... even if the blank is escaped ("a=b\ ⏎" -> raw value `b\`): candidate defect, see NOTES-C02
example : (propsGetNext #[97, 61, 98, 92, 32, 10] 0).ve = 4 := by decide
-- a value ending in a backslash swallows the next record ("a=b\⏎c=d⏎" is ONE entity up to offset 8)
example : (propsGetNext #[97, 61, 98, 92, 10, 99, 61, 100, 10] 0).e = 8 := by decide
-- a key character excluded by `propsKeyChar`: ":" ends the key ("a:b=c⏎" -> key span 0..1)
example : (propsGetNext #[97, 58, 98, 61, 99, 10] 0).ke = 1 := by decide

/-! ### (4) the License rule -/

/-- properties: if the comment regex matches at offset 0 and the comment's value contains the word "License",
    the entry returned at offset 0 is that comment, standalone. -/
theorem license_standalone_properties (s : Array Nat) (st : St)
    (hm : matchAt s PropertiesParser_reComment 0 = some st)
    (hl : isInfix licenseWord (commentVal (.offset Gen.Tables.offsetCommentDefault) (slice s 0 st.pos)) = true) :
    propsGetNext s 0 = { kind := .comment, full := 0, s := 0, e := st.pos } := by
  unfold propsGetNext
  simp [hm, hl]

/-- properties: an entry never has a pre-comment that starts before the offset it was parsed at.  Together with
    `license_standalone_properties`: the entry parsed after the leading License comment (at offset `st.pos`)
    cannot have that comment attached. -/
theorem license_first_entity_unattached_properties (s : Array Nat) (off a b : Nat)
    (h : (propsGetNext s off).pc = some (a, b)) : a = off :=
  pc_start s off a b h

/-- the base `Parser.getNext` (used by dtd, ini, po): a comment matched at an offset < 2 whose value contains
    "License" is returned standalone. -/
theorem license_standalone_base (c : BaseCfg) (s : Array Nat) (off : Nat) (st : St) (hoff : off < 2)
    (hm : matchAt s c.reComment off = some st)
    (hl : isInfix licenseWord (commentVal c.commentStyle (slice s off st.pos)) = true) :
    getNext c s off = { kind := .comment, full := off, s := off, e := st.pos } := by
  unfold getNext
  simp [hm, hl, hoff]

/-- po -/
theorem license_standalone_po (s : Array Nat) (off : Nat) (st : St) (hoff : off < 2)
    (hm : matchAt s PoParser_reComment off = some st)
    (hl : isInfix licenseWord (slice s off st.pos) = true) :
    poGetNext s off = { kind := .comment, full := off, s := off, e := st.pos } :=
  license_standalone_base poCfg s off st hoff hm hl

/-- ini (the section test comes first in `IniParser.getNext`; a comment does not start with `[`) -/
theorem license_standalone_ini (s : Array Nat) (off : Nat) (st : St) (hoff : off < 2) (hsec : s[off]? ≠ some 91)
    (hm : matchAt s IniParser_reComment off = some st)
    (hl : isInfix licenseWord (commentVal (.offset Gen.Tables.offsetCommentDefault) (slice s off st.pos)) = true) :
    iniGetNext s off = { kind := .comment, full := off, s := off, e := st.pos } := by
  have : matchAt s IniParser_reSection off = none := by
    simp only [matchAt, IniParser_reSection, m_seq, m_lit]
    simp [hsec]
  unfold iniGetNext
  simp only [this]
  exact license_standalone_base iniCfg s off st hoff hm hl

/-- dtd, with or without a byte-order mark: `off` is where `DTDParser.getNext` really starts -/
theorem license_standalone_dtd (s : Array Nat) (off0 : Nat) (st : St)
    (hoff : (if off0 == 0 && (matchAt s DTDParser_reHeader 0).isSome then off0 + 1 else off0) < 2)
    (hm : matchAt s DTDParser_reComment (if off0 == 0 && (matchAt s DTDParser_reHeader 0).isSome then off0 + 1 else off0) = some st)
    (hl : isInfix licenseWord (commentVal .dtd (slice s (if off0 == 0 && (matchAt s DTDParser_reHeader 0).isSome then off0 + 1 else off0) st.pos)) = true) :
    dtdGetNext s off0 =
      { kind := .comment, full := (if off0 == 0 && (matchAt s DTDParser_reHeader 0).isSome then off0 + 1 else off0),
        s := (if off0 == 0 && (matchAt s DTDParser_reHeader 0).isSome then off0 + 1 else off0), e := st.pos } := by
  unfold dtdGetNext
  simp only []
  rw [license_standalone_base dtdCfg s _ st hoff hm hl]
  simp

-- non-vacuity: "# License⏎a=b" : the comment is standalone, the entity that follows has no pre-comment
example : propsGetNext #[35, 32, 76, 105, 99, 101, 110, 115, 101, 10, 97, 61, 98] 0 = { kind := .comment, full := 0, s := 0, e := 9 } := by decide
example : (propsGetNext #[35, 32, 76, 105, 99, 101, 110, 115, 101, 10, 97, 61, 98] 10).pc = none := by decide
-- without the rule the same comment IS attached ("# Licence⏎a=b", other spelling): the rule is what detaches it
example : (propsGetNext #[35, 32, 76, 105, 99, 101, 110, 99, 101, 10, 97, 61, 98] 0).pc = some (0, 9) := by decide
-- NEGATION WITNESS for `offset == 0`: after one leading newline the License comment is attached ("⏎# License⏎a=b")
example : (propsGetNext #[10, 35, 32, 76, 105, 99, 101, 110, 115, 101, 10, 97, 61, 98] 1).pc = some (1, 10) := by decide
-- dtd with BOM: the hypotheses of `license_standalone_dtd` hold for  "﻿<!--License--><!ENTITY a "b">"  (comment at offset 1)
example : ∃ st,
    (if (0 : Nat) == 0 && (matchAt #[65279, 60, 33, 45, 45, 76, 105, 99, 101, 110, 115, 101, 45, 45, 62, 60, 33, 69, 78, 84, 73, 84, 89, 32, 97, 32, 34, 98, 34, 62] DTDParser_reHeader 0).isSome then 0 + 1 else 0) = 1 ∧
    matchAt #[65279, 60, 33, 45, 45, 76, 105, 99, 101, 110, 115, 101, 45, 45, 62, 60, 33, 69, 78, 84, 73, 84, 89, 32, 97, 32, 34, 98, 34, 62] DTDParser_reComment 1 = some st ∧
    isInfix licenseWord (commentVal .dtd (slice #[65279, 60, 33, 45, 45, 76, 105, 99, 101, 110, 115, 101, 45, 45, 62, 60, 33, 69, 78, 84, 73, 84, 89, 32, 97, 32, 34, 98, 34, 62] 1 st.pos)) = true :=
  ⟨⟨15, [(1, 11, 12), (1, 10, 11), (1, 9, 10), (1, 8, 9), (1, 7, 8), (1, 6, 7), (1, 5, 6)]⟩, by decide, by decide, by decide⟩

/-! ### (5) ini: one record -/

/-- ini: if at offset `pre.length` the text reads `key=value` followed by a newline or the end of the text — key
    non-empty, without `=` and newline, not starting with `[ ; #` or white-space; value without newline — then
    `IniParser.getNext` returns the entity with exactly that key span and that value span (the raw value keeps
    leading and trailing blanks), no comment attached. -/
theorem ini_single_record_partial (s : Array Nat) (off klen vlen : Nat) (h : IniRecAt s off klen vlen) :
    iniGetNext s off = iniEntity off klen vlen :=
  ini_entity_at s off klen vlen h

-- non-vacuity: "k = v " at offset 0 of "k = v ⏎x"
example : iniGetNext #[107, 32, 61, 32, 118, 32, 10, 120] 0 = iniEntity 0 2 3 := by decide
-- NEGATION WITNESS for "key does not start with [": "[a]=b" is a section, not an entity
example : (iniGetNext #[91, 97, 93, 61, 98] 0).kind = .section := by decide

end C02

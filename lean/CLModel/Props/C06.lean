/-
C06 — properties: printf and plural verdicts match the argument model.
Property theorems only (helper lemmas live in CLModel/Proofs/C06*.lean).

Objects: `PropCk.check` is the transliteration of `PropertiesChecker.check` (with `Checker.check`,
`check_plural`, `checkPrintf`, `getPrintfSpecs`, `plurals.get_plural`); `Difflib.opcodes` is the
port of `difflib.SequenceMatcher().set_seqs(a, b); get_opcodes()`.  `none` stands for "the Python
code raises"; the theorems show that it does not.
-/
import CLModel.Checks.Properties
import CLModel.Proofs.C06Printf
import CLModel.Proofs.C06SpecsCor
import CLModel.Proofs.C06RxPrintf
import CLModel.Proofs.C06Plural
import CLModel.Proofs.C06Render
import CLModel.Proofs.C06RCor
import CLModel.Proofs.C06RPluralLex
import CLModel.Proofs.C06Unesc
import CLModel.Proofs.C06Grammar
import CLModel.Proofs.C06PluralExact
import CLModel.Proofs.C06Verdict
import CLModel.Proofs.C06Pos
import CLModel.Proofs.C06Gate
import CLModel.Proofs.C06Disjoint
namespace C06
open PropCk Difflib
open C06R (WfRender WfTok WfFmt Separated LoneOk IsSpec IsDig WShape PShape MixedR GapR rargs tokA sig kindOf
  PTok renderP varsOf WfRenderP WfPTok SeparatedP rePlural)

/-! ## difflib -/

/-- `get_opcodes()` never raises and returns a valid edit script: contiguous ranges from (0,0) to
    (|a|,|b|), `equal` ranges really equal, `delete`/`insert`/`replace` ranges non-empty on the
    sides they touch.  For sequences of ANY length (autojunk heuristic included). -/
theorem difflib_valid {α : Type} [DecidableEq α] (a b : List α) :
    ∃ ops, opcodes a b = some ops ∧ ValidOpcodes a b ops :=
  opcodes_valid a b

/-- If `b` is a proper prefix of `a`, `get_opcodes()` is one `equal` block followed by one trailing
    `delete` — no length bound: the "popular element" heuristic for `len(b) >= 200` cannot break it. -/
theorem difflib_prefix {α : Type} [DecidableEq α] (b t : List α) (ht : t ≠ []) :
    opcodes (b ++ t) b = some
      ((if b.length ≠ 0 then [(⟨.equal, 0, b.length, 0, b.length⟩ : Opcode)] else []) ++
        [⟨.delete, b.length, (b ++ t).length, b.length, b.length⟩]) :=
  opcodes_prefix b t ht

/-! ## getPrintfSpecs -/

/-- Every value has a token list (each regex match is a lone `%`, a `%%`, or an argument with a
    one-character type and, if ordered, a number ≥ 1), and `getPrintfSpecs` is the closed form
    `specsSpec` of it: first lone `%` / first change of style is the error; otherwise unordered
    arguments give the list of their types and ordered arguments give, at position `i`, the type
    of the last token numbered `i+1` (an unused position is the "gap" error). -/
theorem specs_of_tokens (val : Text) :
    ∃ ts, atoks val = some ts ∧ WFToks ts ∧ getPrintfSpecs val = specsSpec ts := by
  obtain ⟨ts, h⟩ := atoks_total val
  exact ⟨ts, h, atoks_wf val ts h, getPrintfSpecs_eq_spec val ts h⟩

/-- `getPrintfSpecs` raises `PrintfException` exactly in the three malformed cases (lone `%`, mixed
    ordered and unordered arguments, a gap in the ordered arguments) and never anything else. -/
theorem specs_error_iff (val : Text) (ts : List (Nat × ATok)) (h : atoks val = some ts) :
    ((∃ e, getPrintfSpecs val = .error e) ↔ HasLone ts ∨ Mixed ts ∨ Gap ts) ∧
    getPrintfSpecs val ≠ .error .other := by
  rw [getPrintfSpecs_eq_spec val ts h]
  refine ⟨specsSpec_error_iff ts (atoks_wf val ts h), ?_⟩
  rw [← getPrintfSpecs_eq_spec val ts h]
  exact getPrintfSpecs_not_other val

/-- `%%` tokens (and text, which is no token at all) do not influence the specifier list. -/
theorem specs_ignore_pct (ts : List (Nat × ATok)) : specsSpec (ts.filter notPct) = specsSpec ts :=
  specsSpec_ignores_pct ts

/-- Reordering ordered arguments (same multiset of tokens, the same number always with the same
    type) does not change the specifier list. -/
theorem specs_reorder (ts ts' : List (Nat × ATok)) (hwf : WFToks ts)
    (hperm : (ts.map (·.2)).Perm (ts'.map (·.2)))
    (hord : ∀ t ∈ ts, t.2 = ATok.pct ∨ ∃ n sp, t.2 = ATok.arg (some n) sp)
    (hcons : Consistent (argsOf ts)) : specsSpec ts = specsSpec ts' :=
  specsSpec_reorder ts ts' hwf hperm hord hcons

/-
The generator's view — a value *assembled from* tokens lexes back to them — was first proved for a
bounded family only (`specs_of_rendered_partial`, by kernel evaluation).  It is now proved for token
lists of ANY length (`atoks_render` … `printf_rendered_error_iff` below, section "values assembled
from tokens"); the bounded theorem is kept as an independent cross-check of the general proof.
-/

/-- `_partial`: every well-formed token list of the bounded family (≤ 2 tokens over
    {"a ", "é", %%, %, %S, %d, %1$S, %2$d, %3$S, %5.2f, %12$*x}, ≤ 3 tokens over
    {"a ", %%, %, %S, %1$S, %2$d, %5.2f}) lexes to exactly its tokens, hence `getPrintfSpecs` of the
    assembled value is the closed form of the intended tokens. -/
theorem specs_of_rendered_partial (ts : List RTok) (hmem : ts ∈ boundedFamily) :
    atoks (render ts) = some (expectedFrom 0 ts) ∧
    getPrintfSpecs (render ts) = specsSpec (expectedFrom 0 ts) := by
  have h := List.all_eq_true.mp boundedFamily_lexes ts hmem
  have h' : atoks (render ts) = some (expectedFrom 0 ts) := by simpa using h
  exact ⟨h', getPrintfSpecs_eq_spec _ _ h'⟩

/-! ## values assembled from tokens (any number of tokens)

`RTok` is the generator's alphabet: text, `%%`, a lone `%`, `%[n$][width][.prec]c`.
`WfRender ts` = every token is well formed (`WfTok`: text contains no `%`; `n ≥ 1`, written by
`"%d" % n`; the format part is `(\*|[0-9]+)?(\.(\*|[0-9]+)?)?`; `c` is one of `duxXosScpfg`) and the
sequence is `Separated`: what follows a lone `%` (the rest of the rendered value) is empty or starts
with a character that is not `%`, not a digit, not `*`, not `.` and not a conversion character.
Nothing is required after `%%` or after an argument (their last character closes the match), and
text may be empty. -/

/-- **A value assembled from well-formed, separated tokens lexes back to exactly those tokens**, with
    their offsets — for token lists of any length.  (Exact, priority-respecting evaluation of
    `finditer` for the generated `printf` regex: every match starts at a `%`, between matches there is
    only `%`-free text, `%10d` first tries `10` and `1` as argument number and falls back to the width.) -/
theorem atoks_render (ts : List RTok) (h : WfRender ts) : atoks (render ts) = some (expectedFrom 0 ts) :=
  C06R.atoks_render ts h

/-- `getPrintfSpecs` of an assembled value is the closed form on the intended tokens (full strength
    version of `specs_of_rendered_partial`). -/
theorem specs_of_rendered (ts : List RTok) (h : WfRender ts) :
    getPrintfSpecs (render ts) = specsSpec (expectedFrom 0 ts) :=
  C06R.specs_of_rendered ts h

/-- **Error classification in terms of the tokens**: `getPrintfSpecs` of the assembled value raises iff
    the token list contains a lone `%`, or both ordered and unordered arguments, or only ordered
    arguments whose numbers have a gap — and what it raises is always `PrintfException`. -/
theorem specs_rendered_error_iff (ts : List RTok) (h : WfRender ts) :
    ((∃ e, getPrintfSpecs (render ts) = .error e) ↔ RTok.lone ∈ ts ∨ MixedR ts ∨ GapR ts) ∧
    (∀ e, getPrintfSpecs (render ts) = .error e → ∃ msg pos, e = .printf msg pos) :=
  C06R.specs_rendered_error_iff ts h

/-- Unordered arguments (with any text and `%%` around them): the list of their types, in order. -/
theorem specs_rendered_unordered (ts : List RTok) (h : WfRender ts)
    (hun : ∀ tok ∈ ts, (∃ t, tok = .text t) ∨ tok = .pct ∨ ∃ fmt c, tok = .arg none fmt c) :
    getPrintfSpecs (render ts) = .ok ((rargs ts).map (fun a => some a.2)) :=
  C06R.specs_rendered_unordered ts h hun

/-- Ordered arguments without a gap: position `i` holds the type of the last token numbered `i + 1`. -/
theorem specs_rendered_ordered (ts : List RTok) (h : WfRender ts)
    (hord : ∀ tok ∈ ts, (∃ t, tok = .text t) ∨ tok = .pct ∨ ∃ n fmt c, tok = .arg (some n) fmt c)
    (hgap : ¬ GapR ts) :
    getPrintfSpecs (render ts) = .ok (positional (rargs ts)) :=
  C06R.specs_rendered_ordered ts h hord hgap

/-- **Reordering invariance**: any permutation of a token list made of text, `%%` and ordered
    arguments (the same number always with the same type) gives the same result.  No hypothesis on
    the permuted list: without lone `%` every order is separated. -/
theorem specs_rendered_reorder (ts ts' : List RTok) (hwf : ∀ t ∈ ts, WfTok t) (hperm : ts.Perm ts')
    (hord : ∀ tok ∈ ts, (∃ t, tok = .text t) ∨ tok = .pct ∨ ∃ n fmt c, tok = .arg (some n) fmt c)
    (hcons : Consistent (rargs ts)) :
    getPrintfSpecs (render ts) = getPrintfSpecs (render ts') :=
  C06R.specs_reorder_perm ts ts' hwf hperm hord hcons

/-- … also when the text between the arguments changes (only the non-text tokens are permuted). -/
theorem specs_rendered_reorder_text (ts ts' : List RTok) (h : WfRender ts) (h' : WfRender ts')
    (hperm : (ts.filterMap tokA).Perm (ts'.filterMap tokA))
    (hord : ∀ tok ∈ ts, (∃ t, tok = .text t) ∨ tok = .pct ∨ ∃ n fmt c, tok = .arg (some n) fmt c)
    (hcons : Consistent (rargs ts)) :
    getPrintfSpecs (render ts) = getPrintfSpecs (render ts') :=
  C06R.specs_reorder_rendered ts ts' h h' hperm hord hcons

/-- **`%%` and text are irrelevant**: two assembled values with the same sequence `sig` of lone-`%` and
    argument tokens have the same specifier list or the same kind of error (`kindOf` forgets the
    offset of the error, the only thing text can move). -/
theorem specs_rendered_ignore_text_pct (ts ts' : List RTok) (h : WfRender ts) (h' : WfRender ts')
    (hsig : sig ts = sig ts') :
    kindOf (getPrintfSpecs (render ts)) = kindOf (getPrintfSpecs (render ts')) :=
  C06R.specs_text_pct_invariant ts ts' h h' hsig

/-! ## checkPrintf -/

/-- **printf verdict.**  For every reference specifier list `R` and localized value: `checkPrintf`
    does not raise, and it reports an error iff the localized value is malformed or its
    specifier list is not a prefix of `R`. -/
theorem printf_error_iff (R : List (Option Text)) (l10nValue : Text) :
    ∃ fs, checkPrintf R l10nValue = some fs ∧
      (hasError fs ↔ (∃ msg pos, getPrintfSpecs l10nValue = .error (.printf msg pos)) ∨
        (∃ L, getPrintfSpecs l10nValue = .ok L ∧ ¬ L <+: R)) :=
  checkPrintf_error_iff R l10nValue (getPrintfSpecs_not_other l10nValue)

/-- Dropping only trailing arguments is exactly one warning (which names the dropped arguments). -/
theorem printf_trailing_warn (L t : List (Option Text)) (l10nValue : Text)
    (h : getPrintfSpecs l10nValue = .ok L) (ht : t ≠ []) :
    checkPrintf (L ++ t) l10nValue = some [⟨.warning, .val 0, trailingMsg (L ++ t) L.length, .printf⟩] :=
  checkPrintf_trailing L t l10nValue h ht

/-- Equal specifier lists: nothing is reported. -/
theorem printf_equal_silent (R : List (Option Text)) (l10nValue : Text)
    (h : getPrintfSpecs l10nValue = .ok R) : checkPrintf R l10nValue = some [] :=
  checkPrintf_equal R l10nValue h

/-- A malformed localized value is one error at the offending offset. -/
theorem printf_malformed_error (R : List (Option Text)) (l10nValue msg : Text) (pos : Nat)
    (h : getPrintfSpecs l10nValue = .error (.printf msg pos)) :
    checkPrintf R l10nValue = some [⟨.error, .val pos, msg, .printf⟩] :=
  checkPrintf_malformed R l10nValue msg pos h

/-- **printf verdict for an assembled localized value**, stated on its tokens: `checkPrintf` never
    raises, and it reports an error iff the tokens contain a lone `%`, mix the two styles, leave a gap
    in the ordered numbers, or the closed-form specifier list of the tokens is not a prefix of `R`. -/
theorem printf_rendered_error_iff (R : List (Option Text)) (ts : List RTok) (h : WfRender ts) :
    ∃ fs, checkPrintf R (render ts) = some fs ∧
      (hasError fs ↔ (RTok.lone ∈ ts ∨ MixedR ts ∨ GapR ts) ∨
        (∃ L, specsSpec (expectedFrom 0 ts) = .ok L ∧ ¬ L <+: R)) := by
  obtain ⟨fs, hfs, hiff⟩ := printf_error_iff R (render ts)
  obtain ⟨herr, hkind⟩ := specs_rendered_error_iff ts h
  refine ⟨fs, hfs, ?_⟩
  rw [hiff, ← herr, ← specs_of_rendered ts h]
  constructor
  · rintro (⟨msg, pos, he⟩ | hL)
    · exact Or.inl ⟨_, he⟩
    · exact Or.inr hL
  · rintro (⟨e, he⟩ | hL)
    · obtain ⟨msg, pos, rfl⟩ := hkind e he
      exact Or.inl ⟨msg, pos, he⟩
    · exact Or.inr hL

/-! ## the whole check -/

/-- **printf branch of `check`.**  When the string is not a plural string and the reference value
    has a non-empty, well-formed specifier list `R`, the result of `check` is: encoding warnings,
    escape warnings, then the `checkPrintf` verdict; and an error is reported iff the localized
    value is malformed or its specifier list is not a prefix of `R`. -/
theorem check_printf (e : Ents) (refValue l10nValue : Text) (R : List (Option Text))
    (hr : unescape e.refRaw = some refValue) (hl : unescape e.l10nRaw = some l10nValue)
    (hg : pluralGate e.refComment e.refKey refValue = false)
    (hR : getPrintfSpecs refValue = .ok R) (hne : R ≠ []) :
    ∃ pf, checkPrintf R l10nValue = some pf ∧
      check e = some (baseCheck e ++ escapeWarnings e.l10nRaw ++ pf) ∧
      (hasError (baseCheck e ++ escapeWarnings e.l10nRaw ++ pf) ↔
        (∃ msg pos, getPrintfSpecs l10nValue = .error (.printf msg pos)) ∨
        (∃ L, getPrintfSpecs l10nValue = .ok L ∧ ¬ L <+: R)) := by
  obtain ⟨pf, hpf, hiff⟩ := printf_error_iff R l10nValue
  refine ⟨pf, hpf, ?_, ?_⟩
  · have hemp : R.isEmpty = false := by cases R with
      | nil => exact absurd rfl hne
      | cons _ _ => rfl
    simp [check, hr, hl, hg, hR, hemp, hpf]
  · rw [← hiff]
    constructor
    · rintro ⟨f, hf, hs⟩
      rcases List.mem_append.mp hf with hf | hf
      · have := (base_esc_warnings e f hf).1
        rw [this] at hs; cases hs
      · exact ⟨f, hf, hs⟩
    · rintro ⟨f, hf, hs⟩
      exact ⟨f, List.mem_append_right _ hf, hs⟩

/-- A reference without (well-formed) printf arguments: no printf finding at all. -/
theorem check_no_reference_args (e : Ents) (refValue l10nValue : Text)
    (hr : unescape e.refRaw = some refValue) (hl : unescape e.l10nRaw = some l10nValue)
    (hg : pluralGate e.refComment e.refKey refValue = false)
    (hR : getPrintfSpecs refValue = .ok [] ∨ ∃ err, getPrintfSpecs refValue = .error err) :
    check e = some (baseCheck e ++ escapeWarnings e.l10nRaw) := by
  rcases hR with hR | ⟨err, hR⟩
  · simp [check, hr, hl, hg, hR]
  · cases err with
    | other => exact absurd hR (getPrintfSpecs_not_other refValue)
    | printf msg pos => simp [check, hr, hl, hg, hR]

/-! ## plurals -/

/-- every locale of the generated table has a non-empty category list -/
theorem plural_table_total :
    ∀ e ∈ Gen.Tables.categoriesByLocale, ∃ c cs, getPlural (some e.1) = some (some (c :: cs)) := by
  have h : Gen.Tables.categoriesByLocale.all (fun e =>
      match getPlural (some e.1) with
      | some (some (_ :: _)) => true
      | _ => false) = true := by decide +kernel
  intro e he
  have := List.all_eq_true.mp h e he
  split at this
  · rename_i c cs hc; exact ⟨c, cs, hc⟩
  · cases this

/-- `get_plural` never raises (every index of the locale table is inside the category table) -/
theorem plural_lookup_total (locale : Option Text) : ∃ known, getPlural locale = some known := by
  have hidx : Gen.Tables.categoriesByLocale.all (fun e => decide (e.2 < Gen.Tables.categoriesByIndex.length)) = true := by
    decide +kernel
  have hlook : ∀ (l : List (Text × Nat)) k v, l.lookup k = some v → (k, v) ∈ l := by
    intro l
    induction l with
    | nil => intro k v h; simp at h
    | cons x xs ih =>
      intro k v h
      obtain ⟨xk, xv⟩ := x
      simp only [List.lookup_cons] at h
      split at h
      · rename_i heq
        simp only [beq_iff_eq] at heq
        cases h; subst heq; simp
      · exact List.mem_cons_of_mem _ (ih k v h)
  unfold getPlural
  cases hr : getPluralRule locale with
  | none => exact ⟨none, rfl⟩
  | some i =>
    have hi : i < Gen.Tables.categoriesByIndex.length := by
      unfold getPluralRule at hr
      split at hr
      · cases hr
      · split at hr
        · rename_i l j hj
          cases hr
          have := List.all_eq_true.mp hidx _ (hlook _ _ _ hj)
          simpa using this
        · have := List.all_eq_true.mp hidx _ (hlook _ _ _ hr)
          simpa using this
    simp only
    rw [List.getElem?_eq_getElem hi]
    exact ⟨_, rfl⟩

/-- **plural branch is taken iff** the comment contains `Localization_and_Plurals`, the key is not
    `pluralRule` and the reference value is not a number. -/
theorem plural_gate (refComment : Option Text) (refKey refValue : Text) :
    pluralGate refComment refKey refValue = true ↔
      (∃ c, refComment = some c ∧ sLocPlurals <:+: c) ∧ refKey ≠ sPluralRule ∧
      Rx.matchAt refValue.toArray Gen.Pat.checks_properties_PropertiesChecker_check_0 0 = none := by
  unfold pluralGate
  simp only [Bool.and_eq_true, bne_iff_ne, ne_eq, Option.isNone_iff_eq_none]
  constructor
  · rintro ⟨⟨h1, h2⟩, h3⟩
    refine ⟨?_, h2, h3⟩
    cases refComment with
    | none => simp at h1
    | some c => exact ⟨c, rfl, (contains_iff _ _).mp h1⟩
  · rintro ⟨⟨c, rfl, hc⟩, h2, h3⟩
    exact ⟨⟨(contains_iff _ _).mpr hc, h2⟩, h3⟩

/-- **plural verdict.**  For a plural string `check` never raises and its result is the encoding
    warnings followed by `formsVerdict` (one warning iff the locale has known plural categories and
    their number differs from the number of `;`-separated forms) and `varsVerdict` (a function of
    the two sets of `#n` variables). -/
theorem plural_verdict (e : Ents) (refValue l10nValue : Text)
    (hr : unescape e.refRaw = some refValue) (hl : unescape e.l10nRaw = some l10nValue)
    (hg : pluralGate e.refComment e.refKey refValue = true) :
    ∃ known pats lpats, getPlural e.locale = some known ∧
      pluralVars Gen.Pat.checks_properties_PropertiesChecker_check_plural_0 refValue = some pats ∧
      pluralVars Gen.Pat.checks_properties_PropertiesChecker_check_plural_1 l10nValue = some lpats ∧
      check e = some (baseCheck e ++ (formsVerdict known (l10nValue.count 59) ++ varsVerdict pats lpats)) := by
  obtain ⟨known, hk⟩ := plural_lookup_total e.locale
  obtain ⟨pats, hp⟩ := pluralVars_total _ rfl refValue
  obtain ⟨lpats, hlp⟩ := pluralVars_total _ rfl l10nValue
  refine ⟨known, pats, lpats, hk, hp, hlp, ?_⟩
  simp [check, hr, hl, hg, checkPlural_eq e.locale refValue l10nValue known pats lpats hk hp hlp]

/-- the variable verdict: nothing without reference variables; a reference variable unused →
    warning; otherwise an extra variable → error -/
theorem plural_vars_verdict (pats lpats : List Nat) :
    varsVerdict pats lpats =
      if pats = [] then []
      else if ∃ x ∈ pats, x ∉ lpats then [⟨.warning, .val 0, sNotAllVars, .plural⟩]
      else if ∃ x ∈ lpats, x ∉ pats then [⟨.error, .val 0, sUnreplaced, .plural⟩]
      else [] :=
  varsVerdict_spec pats lpats

/-- … and it depends on the two sets of variables only (order and repetitions are irrelevant) -/
theorem plural_vars_sets (pats pats' lpats lpats' : List Nat)
    (h1 : ∀ x, x ∈ pats ↔ x ∈ pats') (h2 : ∀ x, x ∈ lpats ↔ x ∈ lpats') :
    varsVerdict pats lpats = varsVerdict pats' lpats' :=
  varsVerdict_congr pats pats' lpats lpats' h1 h2

/-! ### plural values assembled from tokens

`PTok` = text | `#n`.  `WfRenderP ts`: text tokens contain no `#`, and a `#n` token is followed by the
end of the value or by a character that is not a digit (it would extend `n`). -/

/-- **The variables of an assembled plural value are exactly its `#n` tokens** (in order, any number
    of tokens); both regex occurrences of `check_plural` are the regex `rePlural`. -/
theorem plural_vars_rendered (ts : List PTok) (h : WfRenderP ts) :
    pluralVars Gen.Pat.checks_properties_PropertiesChecker_check_plural_0 (renderP ts) = some (varsOf ts) ∧
    pluralVars Gen.Pat.checks_properties_PropertiesChecker_check_plural_1 (renderP ts) = some (varsOf ts) :=
  ⟨C06R.pluralVars_render ts h, C06R.pluralVars_render ts h⟩

/-- **plural verdict on assembled values**: the variable verdict is `varsVerdict` of the `#n` tokens
    of the reference and of the localized value. -/
theorem plural_rendered_verdict (e : Ents) (rts lts : List PTok) (hr : WfRenderP rts) (hl : WfRenderP lts)
    (hur : unescape e.refRaw = some (renderP rts)) (hul : unescape e.l10nRaw = some (renderP lts))
    (hg : pluralGate e.refComment e.refKey (renderP rts) = true) :
    ∃ known, getPlural e.locale = some known ∧
      check e = some (baseCheck e ++
        (formsVerdict known ((renderP lts).count 59) ++ varsVerdict (varsOf rts) (varsOf lts))) := by
  obtain ⟨known, pats, lpats, hk, hp, hlp, hc⟩ := plural_verdict e _ _ hur hul hg
  rw [(plural_vars_rendered rts hr).1] at hp
  rw [(plural_vars_rendered lts hl).2] at hlp
  cases hp; cases hlp
  exact ⟨known, hk, hc⟩

/-! ## non-vacuity: the model evaluated on concrete values -/

-- "%2$d %1$S": ordered arguments, reordered
example : (match getPrintfSpecs [37,50,36,100,32,37,49,36,83] with
    | .ok l => l == [some [83], some [100]]
    | _ => false) = true := by decide +kernel

-- reference [S, d]; "%2$d %1$S" is silent, "%S" is the trailing warning, "%d" is an error
example : checkPrintf [some [83], some [100]] [37,50,36,100,32,37,49,36,83] = some [] := by decide +kernel
example : (checkPrintf [some [83], some [100]] [37,83]).map (·.map (·.sev)) = some [.warning] := by decide +kernel
example : ∃ msg rest, checkPrintf [some [83], some [100]] [37,100] = some (⟨.error, .val 0, msg, .printf⟩ :: rest) :=
  checkPrintf_nonprefix _ [some [100]] _ (by rfl) (by decide)

-- "% d" (lone %), "%1$S %d" (mixed), "%1$S %3$S" (gap): errors at the offending offset
example : (match getPrintfSpecs [37,32,100] with | .error (.printf _ 0) => true | _ => false) = true := by
  decide +kernel
example : (match getPrintfSpecs [37,49,36,83,32,37,100] with | .error (.printf _ 5) => true | _ => false) = true := by
  decide +kernel
example : (match getPrintfSpecs [37,49,36,83,32,37,51,36,83] with | .error (.printf _ 0) => true | _ => false) = true := by
  decide +kernel

-- difflib: the hypotheses of `difflib_prefix` are satisfiable, and a non-prefix pair is a replace
example : opcodes [1, 2, 3] [1, 2] = some [⟨.equal, 0, 2, 0, 2⟩, ⟨.delete, 2, 3, 2, 2⟩] := by
  simpa using difflib_prefix [1, 2] [3] (by simp)
example : opcodes [1, 2, 3] [1, 4, 3] =
    some [⟨.equal, 0, 1, 0, 1⟩, ⟨.replace, 1, 2, 1, 2⟩, ⟨.equal, 2, 3, 2, 3⟩] := by
  simp [opcodes, matchingBlocks, chainB, b2jBuild, b2jAdd, mbLoop, findLongestMatch, outerLoop, innerLoop,
    b2jGet, j2lenGet, extendBack, extendFwd, collapse, opcodesGo, Block.le, List.mergeSort,
    List.MergeSort.Internal.splitInTwo]

-- the bounded family is not trivial: it contains a value with reordered ordered arguments, and the
-- lone-% side condition of the full statement is needed ("%" followed by "%%" lexes as "%%", "%")
example : [RTok.arg (some 2) [] 100, RTok.text [97, 32], RTok.arg (some 1) [] 83] ∈ boundedFamily := by
  decide +kernel
example : atoks (render [RTok.lone, RTok.pct]) = some [(0, ATok.pct), (2, ATok.lone)] ∧
    expectedFrom 0 [RTok.lone, RTok.pct] = [(0, ATok.lone), (1, ATok.pct)] := by decide +kernel

-- plural: "#1 of #2" vs "#1": a reference variable is unused
example : varsVerdict [1, 2] [1] = [⟨.warning, .val 0, sNotAllVars, .plural⟩] := by decide
example : varsVerdict [1] [2, 1, 1] = [⟨.error, .val 0, sUnreplaced, .plural⟩] := by decide

/-! negation witness for `Consistent` in `specs_reorder`: the last token numbered `i` decides, so
    "%1$S %1$d" and "%1$d %1$S" (same multiset of tokens) have different specifier lists -/
example : (match getPrintfSpecs [37,49,36,83,32,37,49,36,100], getPrintfSpecs [37,49,36,100,32,37,49,36,83] with
    | .ok l, .ok l' => l == [some [100]] && l' == [some [83]]
    | _, _ => false) = true := by decide +kernel

/-! negation witness: without the prefix relation `ValidOpcodes` alone does not give the
    warning-only verdict — a valid script for `[S,S]` → `[S]` may delete the first element.
    This is why `difflib_prefix` is proved about the port and not assumed as a contract. -/
example : ValidOpcodes [1, 1] [1] [⟨.delete, 0, 1, 0, 0⟩, ⟨.equal, 1, 2, 0, 1⟩] := by
  simp [ValidOpcodes, ValidFrom]

/-! ### values assembled from tokens: non-vacuity and negation witnesses -/

-- "%2$d a %1$5.2f%%": a well-formed, separated token list with ordered arguments, width and precision
example : WfRender [.arg (some 2) [] 100, .text [32, 97, 32], .arg (some 1) [53, 46, 50] 102, .pct] := by
  refine ⟨?_, by simp [Separated]⟩
  intro t ht
  simp only [List.mem_cons, List.mem_nil_iff, or_false] at ht
  rcases ht with rfl | rfl | rfl | rfl
  · exact ⟨fun n hn => (by cases hn; decide), ⟨[], [], rfl, Or.inl rfl, Or.inl rfl⟩, by decide⟩
  · show 37 ∉ [32, 97, 32]; decide
  · exact ⟨fun n hn => (by cases hn; decide),
      ⟨[53], [46, 50], rfl, Or.inr (Or.inr ⟨by decide, by decide⟩),
        Or.inr (Or.inr (Or.inr ⟨[50], by decide, by decide, rfl⟩))⟩, by decide⟩
  · trivial

-- the family is unbounded: `%S` repeated k times (and `% ` repeated k times) for every k
example (k : Nat) : WfRender (List.replicate k (RTok.arg none [] 83)) := by
  refine ⟨?_, C06R.separated_of_no_lone (by simp [List.mem_replicate])⟩
  intro t ht
  obtain ⟨_, rfl⟩ := List.mem_replicate.mp ht
  exact ⟨fun n hn => (by cases hn), ⟨[], [], rfl, Or.inl rfl, Or.inl rfl⟩, by decide⟩

-- a lone `%` followed by a blank is separated; the classification then reports the error
example : WfRender [.lone, .text [32, 100]] ∧ ∃ e, getPrintfSpecs (render [.lone, .text [32, 100]]) = .error e := by
  have h : WfRender [.lone, .text [32, 100]] := by
    refine ⟨?_, ?_⟩
    · intro t ht
      simp only [List.mem_cons, List.mem_nil_iff, or_false] at ht
      rcases ht with rfl | rfl
      · trivial
      · show 37 ∉ [32, 100]; decide
    · refine ⟨?_, trivial⟩
      intro c hc
      have : c = 32 := by simpa [render, renderTok] using hc.symm
      subst this
      exact ⟨by decide, by decide, by decide, by decide, by decide⟩
  exact ⟨h, (specs_rendered_error_iff _ h).1.mpr (Or.inl (by simp))⟩

/-! negation witnesses for `Separated` / `WfTok` (the value lexes to OTHER tokens than intended):
    * a lone `%` followed by the text `1$S` is the argument `%1$S`;
    * a text token containing `%` (`%S` as text) is an argument;
    * the number `0` (`%0$S`) is not an argument number: the `%` is lone. -/
example : atoks (render [.lone, .text [49, 36, 83]]) = some [(0, ATok.arg (some 1) [83])] ∧
    expectedFrom 0 [.lone, .text [49, 36, 83]] = [(0, ATok.lone)] ∧
    ¬ Separated [.lone, .text [49, 36, 83]] := by
  refine ⟨by decide +kernel, by decide +kernel, ?_⟩
  rintro ⟨h, _⟩
  exact (h 49 (by simp [render, renderTok])).2.1 (by decide)
example : atoks (render [.text [37, 83]]) = some [(0, ATok.arg none [83])] ∧
    expectedFrom 0 [.text [37, 83]] = [] := by decide +kernel
example : atoks (render [.arg (some 0) [] 83]) = some [(0, ATok.lone)] ∧
    expectedFrom 0 [.arg (some 0) [] 83] = [(0, ATok.arg (some 0) [83])] := by decide +kernel

-- plural: "#1 of #22;" is well formed; "#1" followed by the text "2" is the variable 12
example : WfRenderP [.var 1, .text [32, 111, 102, 32], .var 22, .text [59]] := by
  refine ⟨?_, ?_⟩
  · intro t ht
    simp only [List.mem_cons, List.mem_nil_iff, or_false] at ht
    rcases ht with rfl | rfl | rfl | rfl
    · trivial
    · show 35 ∉ [32, 111, 102, 32]; decide
    · trivial
    · show 35 ∉ [59]; decide
  · refine ⟨?_, ?_, trivial⟩
    · intro c hc
      have : c = 32 := by
        have : (renderP [PTok.text [32, 111, 102, 32], PTok.var 22, PTok.text [59]]).head? = some 32 := by
          decide +kernel
        rw [this] at hc; cases hc; rfl
      subst this; decide
    · intro c hc
      have : c = 59 := by
        have : (renderP [PTok.text [59]]).head? = some 59 := by decide +kernel
        rw [this] at hc; cases hc; rfl
      subst this; decide
example : pluralVars rePlural (renderP [.var 1, .text [50]]) = some [12] ∧ varsOf [.var 1, .text [50]] = [1] := by
  decide +kernel

/-! # Round 4

## 1. the lexer of `getPrintfSpecs` is EXACTLY the grammar of printf text (all values)

`C06G.Lex p v ts` (Proofs/C06Grammar.lean) is an inductive grammar that mentions neither the regular expression
nor the model: `v` is a sequence of non-`%` characters, tokens `Tokn` (`%%`, `%[n$][width][.prec]c` with
`n = [1-9][0-9]*`, width `\*|[0-9]+`, precision `\.(\*|[0-9]+)?`, `c ∈ duxXosScpfg`) and lone `%`s, the latter
only where no token starts.  `atoks v` is what `printf.finditer(v)` finds. -/

open C06G (Lex Tokn NumPart HasTok) in
/-- **soundness and completeness of the lexer against the grammar, for EVERY value**: the matches of
    `printf.finditer(v)` are the tokens `ts` iff the grammar tokenises `v` as `ts`. -/
theorem atoks_iff_lex (v : Text) (ts : List (Nat × ATok)) : atoks v = some ts ↔ Lex 0 v ts :=
  ⟨C06G.lex_of_atoks, C06G.atoks_of_lex⟩

open C06G (Lex) in
/-- every value has exactly one tokenisation -/
theorem lex_exists_unique (v : Text) : ∃ ts, Lex 0 v ts ∧ ∀ ts', Lex 0 v ts' → ts' = ts := by
  obtain ⟨ts, h⟩ := C06G.lex_total v.length v (Nat.le_refl _) 0
  exact ⟨ts, h, fun ts' h' => C06G.lex_unique h' h⟩

open C06G (Lex) in
/-- **`getPrintfSpecs v` is the closed form on the tokens of the grammar**, for every value (`specs_of_rendered`
    without `WfRender`: "assembled values" replaced by "every value") -/
theorem specs_of_lex (v : Text) (ts : List (Nat × ATok)) (h : Lex 0 v ts) :
    WFToks ts ∧ getPrintfSpecs v = specsSpec ts := by
  have ha := C06G.atoks_of_lex h
  exact ⟨atoks_wf v ts ha, getPrintfSpecs_eq_spec v ts ha⟩

open C06G (Lex) in
/-- error classification on the grammar's tokens: `getPrintfSpecs` raises iff the tokenisation has a lone `%`,
    mixes the styles, or leaves a gap; and only `PrintfException` -/
theorem specs_error_iff_lex (v : Text) (ts : List (Nat × ATok)) (h : Lex 0 v ts) :
    ((∃ e, getPrintfSpecs v = .error e) ↔ HasLone ts ∨ Mixed ts ∨ Gap ts) ∧
    getPrintfSpecs v ≠ .error .other :=
  specs_error_iff v ts (C06G.atoks_of_lex h)

open C06G (Lex) in
/-- the old rendered-value theorem is an instance: a `WfRender` token list IS a tokenisation by the grammar -/
theorem rendered_lex (ts : List RTok) (h : WfRender ts) : Lex 0 (render ts) (expectedFrom 0 ts) :=
  C06G.lex_of_atoks (atoks_render ts h)

open C06G (Lex) in
/-- `%%` and text never matter — for ALL values: two values whose tokenisations have the same sequence of lone-`%` /
    argument tokens (`%%` dropped) have the same specifier list or the same kind of error -/
theorem specs_lex_ignore_text_pct (v v' : Text) (ts ts' : List (Nat × ATok)) (h : Lex 0 v ts) (h' : Lex 0 v' ts')
    (hsig : (ts.filter notPct).map (·.2) = (ts'.filter notPct).map (·.2)) :
    kindOf (getPrintfSpecs v) = kindOf (getPrintfSpecs v') := by
  rw [(specs_of_lex v ts h).2, (specs_of_lex v' ts' h').2, ← specsSpec_ignores_pct ts, ← specsSpec_ignores_pct ts']
  exact C06R.specsSpec_kind_congr _ _ hsig

open C06G (Lex) in
/-- reordering ordered arguments never matters — for ALL values: if the tokens of `v'` are a permutation of those
    of `v`, all of them `%%` or ordered arguments, the same number always with the same type, the results agree -/
theorem specs_lex_reorder (v v' : Text) (ts ts' : List (Nat × ATok)) (h : Lex 0 v ts) (h' : Lex 0 v' ts')
    (hperm : (ts.map (·.2)).Perm (ts'.map (·.2)))
    (hord : ∀ t ∈ ts, t.2 = ATok.pct ∨ ∃ n sp, t.2 = ATok.arg (some n) sp)
    (hcons : Consistent (argsOf ts)) : getPrintfSpecs v = getPrintfSpecs v' := by
  rw [(specs_of_lex v ts h).2, (specs_of_lex v' ts' h').2]
  exact specs_reorder ts ts' (specs_of_lex v ts h).1 hperm hord hcons

/-! ## 2. from RAW values (what the file contains) to verdicts

`uval raw` is the documented unescaping of a raw `.properties` value (`P.propsUnescapeSpec`, the C02
specification: `\uXXXX`, line continuation, `\n \r \t \\`, any other `\c` is `c`); the unescape model inside
`check` is total and equal to it (`C06U.unescape_eq_spec`, via C02's `propsVal_eq_spec`), so the hypotheses
`unescape raw = some value` of `check_printf` / `plural_verdict` disappear. -/

/-- `PropertiesEntity.val` of a raw value, by the documented rules -/
abbrev uval (raw : Text) : Text := P.propsUnescapeSpec raw

/-- the unescape model never raises and is the documented unescaping -/
theorem unescape_total (raw : Text) : unescape raw = some (uval raw) := C06U.unescape_eq_spec raw

/-- `check_printf` from raw values -/
theorem check_printf_raw (e : Ents) (R : List (Option Text))
    (hg : pluralGate e.refComment e.refKey (uval e.refRaw) = false)
    (hR : getPrintfSpecs (uval e.refRaw) = .ok R) (hne : R ≠ []) :
    ∃ pf, checkPrintf R (uval e.l10nRaw) = some pf ∧
      check e = some (baseCheck e ++ escapeWarnings e.l10nRaw ++ pf) ∧
      (hasError (baseCheck e ++ escapeWarnings e.l10nRaw ++ pf) ↔
        (∃ msg pos, getPrintfSpecs (uval e.l10nRaw) = .error (.printf msg pos)) ∨
        (∃ L, getPrintfSpecs (uval e.l10nRaw) = .ok L ∧ ¬ L <+: R)) :=
  check_printf e _ _ R (unescape_total _) (unescape_total _) hg hR hne

/-- `check_no_reference_args` from raw values -/
theorem check_no_reference_args_raw (e : Ents)
    (hg : pluralGate e.refComment e.refKey (uval e.refRaw) = false)
    (hR : getPrintfSpecs (uval e.refRaw) = .ok [] ∨ ∃ err, getPrintfSpecs (uval e.refRaw) = .error err) :
    check e = some (baseCheck e ++ escapeWarnings e.l10nRaw) :=
  check_no_reference_args e _ _ (unescape_total _) (unescape_total _) hg hR

/-- `plural_verdict` from raw values -/
theorem plural_verdict_raw (e : Ents) (hg : pluralGate e.refComment e.refKey (uval e.refRaw) = true) :
    ∃ known pats lpats, getPlural e.locale = some known ∧
      pluralVars Gen.Pat.checks_properties_PropertiesChecker_check_plural_0 (uval e.refRaw) = some pats ∧
      pluralVars Gen.Pat.checks_properties_PropertiesChecker_check_plural_1 (uval e.l10nRaw) = some lpats ∧
      check e = some (baseCheck e ++ (formsVerdict known ((uval e.l10nRaw).count 59) ++ varsVerdict pats lpats)) :=
  plural_verdict e _ _ (unescape_total _) (unescape_total _) hg

/-- **`check` never raises, and it is exactly one of three things** (decided by the raw reference):
    the plural verdict; encoding + escape warnings only (reference without well-formed arguments); or
    encoding + escape warnings + the `checkPrintf` verdict. -/
theorem check_trichotomy (e : Ents) :
    (pluralGate e.refComment e.refKey (uval e.refRaw) = true ∧
      ∃ pl, checkPlural e.locale (uval e.refRaw) (uval e.l10nRaw) = some pl ∧ check e = some (baseCheck e ++ pl)) ∨
    (pluralGate e.refComment e.refKey (uval e.refRaw) = false ∧
      (getPrintfSpecs (uval e.refRaw) = .ok [] ∨ ∃ err, getPrintfSpecs (uval e.refRaw) = .error err) ∧
      check e = some (baseCheck e ++ escapeWarnings e.l10nRaw)) ∨
    (pluralGate e.refComment e.refKey (uval e.refRaw) = false ∧
      ∃ R pf, R ≠ [] ∧ getPrintfSpecs (uval e.refRaw) = .ok R ∧ checkPrintf R (uval e.l10nRaw) = some pf ∧
        check e = some (baseCheck e ++ escapeWarnings e.l10nRaw ++ pf)) := by
  cases hg : pluralGate e.refComment e.refKey (uval e.refRaw) with
  | true =>
    left
    obtain ⟨known, pats, lpats, hk, hp, hlp, hc⟩ := plural_verdict_raw e hg
    exact ⟨rfl, _, checkPlural_eq e.locale _ _ known pats lpats hk hp hlp, hc⟩
  | false =>
    right
    cases hR : getPrintfSpecs (uval e.refRaw) with
    | error err => exact Or.inl ⟨rfl, Or.inr ⟨err, rfl⟩, check_no_reference_args_raw e hg (Or.inr ⟨err, hR⟩)⟩
    | ok R =>
      cases R with
      | nil => exact Or.inl ⟨rfl, Or.inl rfl, check_no_reference_args_raw e hg (Or.inl hR)⟩
      | cons x xs =>
        obtain ⟨pf, hpf, hc, _⟩ := check_printf_raw e (x :: xs) hg hR (by simp)
        exact Or.inr ⟨rfl, x :: xs, pf, by simp, rfl, hpf, hc⟩

theorem check_never_raises (e : Ents) : ∃ fs, check e = some fs := by
  rcases check_trichotomy e with ⟨_, pl, _, h⟩ | ⟨_, _, h⟩ | ⟨_, R, pf, _, _, _, h⟩ <;> exact ⟨_, h⟩

/-! ## 3. the verdict matrix: ONE decision theorem

`specsVerdict R L` is `checkPrintf` after `l10nSpecs` is known (`checkPrintf_ok`).
`isBad R op`  : `op` is a replace, an insert, or a delete that does not end at `len(refSpecs)`;
`isWarn R op` : `op` is a delete that ends at `len(refSpecs)`.                                          -/

/-- **`check_verdict_iff`**: for reference / localized specifier lists of ANY lengths `checkPrintf` never raises;
    the severities it reports are `sevsOf R L ops` — `[error]?` then `[warning]?` — everything at offset 0, where
    `ops` are the opcodes of the ported `SequenceMatcher` (a valid edit script):
      error   ⇔ the lists differ and some opcode is a replace / an insert / a non-trailing delete,
      warning ⇔ the lists differ and some opcode is a delete ending at `len(refSpecs)`,
      nothing otherwise;
    in closed form: error ⇔ `L` is not a prefix of `R`; `L = R` → nothing; `L` a proper prefix of `R` (trailing
    reference arguments dropped) → exactly one warning; `R` a proper prefix of `L` (the localization extends the
    reference's arguments) → exactly one error listing the additional arguments as obsolete. -/
theorem check_verdict_iff (R L : List (Option Text)) :
    ∃ ops fs, opcodes R L = some ops ∧ ValidOpcodes R L ops ∧ specsVerdict R L = some fs ∧
      fs.map (·.sev) = sevsOf R L ops ∧ (∀ f ∈ fs, f.pos = .val 0 ∧ f.cat = .printf) ∧
      (hasError fs ↔ R ≠ L ∧ ∃ op ∈ ops, isBad R op = true) ∧
      (hasWarning fs ↔ R ≠ L ∧ ∃ op ∈ ops, isWarn R op = true) ∧
      (hasError fs ↔ ¬ L <+: R) ∧
      (L = R → fs = []) ∧
      (∀ t, t ≠ [] → R = L ++ t → fs = [⟨.warning, .val 0, trailingMsg R L.length, .printf⟩]) ∧
      (∀ t, t ≠ [] → L = R ++ t → fs = [⟨.error, .val 0, obsoleteListMsg L R.length, .printf⟩]) := by
  obtain ⟨ops, fs, ho, hv, hs, hsev, hpos, hE, hW⟩ := specsVerdict_opcodes R L
  obtain ⟨fs', hs', hE'⟩ := specsVerdict_error_iff R L
  rw [hs] at hs'
  cases hs'
  refine ⟨ops, fs, ho, hv, hs, hsev, hpos, hE, hW, hE', ?_, ?_, ?_⟩
  · rintro rfl
    have := specsVerdict_equal L
    rw [hs] at this
    exact Option.some.inj this
  · rintro t ht rfl
    have := specsVerdict_trailing L t ht
    rw [hs] at this
    exact Option.some.inj this
  · rintro t ht rfl
    have := specsVerdict_obsolete R t ht
    rw [hs] at this
    exact Option.some.inj this

/-- `checkPrintf` on a VALUE: the malformed-value error (at the offending offset), or the verdict of the two lists -/
theorem printf_verdict_value (R : List (Option Text)) (v : Text) :
    (∃ msg pos, getPrintfSpecs v = .error (.printf msg pos) ∧
        checkPrintf R v = some [⟨.error, .val pos, msg, .printf⟩]) ∨
    (∃ L, getPrintfSpecs v = .ok L ∧ checkPrintf R v = specsVerdict R L) := by
  cases h : getPrintfSpecs v with
  | error e =>
    cases e with
    | other => exact absurd h (getPrintfSpecs_not_other v)
    | printf msg pos => exact Or.inl ⟨msg, pos, rfl, printf_malformed_error R v msg pos h⟩
  | ok L => exact Or.inr ⟨L, rfl, checkPrintf_ok R L v h⟩

/-- corollary (the fast-path regression `all(r == l for r, l in zip(refSpecs, l10nSpecs))` is excluded): a
    localization whose arguments EXTEND the reference's is an error, never silent -/
theorem verdict_extension_is_error (R t : List (Option Text)) (ht : t ≠ []) :
    ∃ fs, specsVerdict R (R ++ t) = some fs ∧ hasError fs ∧ ¬ hasWarning fs := by
  refine ⟨_, specsVerdict_obsolete R t ht, ⟨_, List.mem_singleton.mpr rfl, rfl⟩, ?_⟩
  rintro ⟨f, hf, hs⟩
  simp only [List.mem_singleton] at hf
  subst hf
  cases hs

/-- corollary: dropping only trailing reference arguments is a warning and nothing else -/
theorem verdict_trailing_is_warning (L t : List (Option Text)) (ht : t ≠ []) :
    ∃ fs, specsVerdict (L ++ t) L = some fs ∧ hasWarning fs ∧ ¬ hasError fs := by
  refine ⟨_, specsVerdict_trailing L t ht, ⟨_, List.mem_singleton.mpr rfl, rfl⟩, ?_⟩
  rintro ⟨f, hf, hs⟩
  simp only [List.mem_singleton] at hf
  subst hf
  cases hs

open C06G (Lex) in
/-- corollary (reordering with explicit positions is fine): a localized value whose tokens are a permutation of
    the reference value's — `%%` and ordered arguments, the same number always with the same type — is silent,
    whatever the text between the tokens -/
theorem verdict_reorder_silent (refValue l10nValue : Text) (ts ts' : List (Nat × ATok)) (R : List (Option Text))
    (h : Lex 0 refValue ts) (h' : Lex 0 l10nValue ts')
    (hperm : (ts.map (·.2)).Perm (ts'.map (·.2)))
    (hord : ∀ t ∈ ts, t.2 = ATok.pct ∨ ∃ n sp, t.2 = ATok.arg (some n) sp)
    (hcons : Consistent (argsOf ts)) (hR : getPrintfSpecs refValue = .ok R) :
    checkPrintf R l10nValue = some [] := by
  have := specs_lex_reorder refValue l10nValue ts ts' h h' hperm hord hcons
  exact printf_equal_silent R l10nValue (by rw [← this]; exact hR)

/-- closed form (every argument retyped): reference and localization without a specifier in common, whatever their
    lengths — exactly one error with one "should be" message per position of the shorter list, and NO warning even if
    the localization has fewer arguments -/
theorem verdict_all_retyped (R L : List (Option Text)) (hR : R ≠ []) (hL : L ≠ []) (hd : ∀ x ∈ R, x ∉ L) :
    opcodes R L = some [⟨.replace, 0, R.length, 0, L.length⟩] ∧
    specsVerdict R L = some [⟨.error, .val 0, replaceListMsg R L, .printf⟩] :=
  ⟨Difflib.opcodes_disjoint R L hR hL hd, specsVerdict_disjoint R L hR hL hd⟩

/-- the whole `check` from raw values on the printf branch, with the decision theorem plugged in -/
theorem check_verdict_raw (e : Ents) (R L : List (Option Text))
    (hg : pluralGate e.refComment e.refKey (uval e.refRaw) = false)
    (hR : getPrintfSpecs (uval e.refRaw) = .ok R) (hne : R ≠ [])
    (hL : getPrintfSpecs (uval e.l10nRaw) = .ok L) :
    ∃ ops fs, opcodes R L = some ops ∧ specsVerdict R L = some fs ∧
      check e = some (baseCheck e ++ escapeWarnings e.l10nRaw ++ fs) ∧
      fs.map (·.sev) = sevsOf R L ops ∧ (hasError fs ↔ ¬ L <+: R) := by
  obtain ⟨ops, fs, ho, _, hs, hsev, _, _, _, hE, _⟩ := check_verdict_iff R L
  obtain ⟨pf, hpf, hc, _⟩ := check_printf_raw e R hg hR hne
  rw [checkPrintf_ok R L _ hL, hs] at hpf
  cases hpf
  exact ⟨ops, fs, ho, hs, hc, hsev, hE⟩

/-! ## 3b. the plural gate in closed form -/

open C06Gate (NumericValue UDig) in
/-- **the plural branch is taken iff** the comment contains `Localization_and_Plurals`, the key is not `pluralRule`,
    and the reference value is NOT of the form: one or more Unicode decimal digits (`\d` = category Nd, regenerated
    table) optionally followed by one final newline — `re.match(r"\d+$", refValue)` evaluated exactly, for every value
    (`plural_gate` without the regular expression). -/
theorem plural_gate_closed (refComment : Option Text) (refKey refValue : Text) :
    pluralGate refComment refKey refValue = true ↔
      (∃ c, refComment = some c ∧ sLocPlurals <:+: c) ∧ refKey ≠ sPluralRule ∧ ¬ NumericValue refValue := by
  rw [plural_gate, C06Gate.gate_re_eq, ← C06Gate.numeric_iff]
  cases Rx.matchAt refValue.toArray C06Gate.reNumeric 0 <;> simp

/-! ## 4. plural: which rule applies to EVERY locale string, and the verdict as a function

`C06P.ruleOf tbl` is `get_plural_rule` over ANY table (the shipped one is `Gen.Tables.categoriesByLocale`,
regenerated from plurals.py on every run); `C06P.TableWf` is the well-formedness predicate. -/

open C06P (ruleOf langOf sourceKey TableWf pluralOf formCountOf formsVerdictN LexP joinForms) in
/-- the model's lookup is the generic one on the shipped table -/
theorem plural_rule_lookup (locale : Option Text) :
    getPluralRule locale = ruleOf Gen.Tables.categoriesByLocale locale := C06P.getPluralRule_eq locale

open C06P (TableWf) in
/-- **the shipped tables are well formed**: distinct locale keys, every rule index inside `CATEGORIES_BY_INDEX`,
    every rule with at least one category (kernel evaluation over the regenerated data) -/
theorem plural_table_wf : TableWf Gen.Tables.categoriesByLocale Gen.Tables.categoriesByIndex := by
  decide +kernel

open C06P (ruleOf langOf) in
/-- **prefix lookup law, for EVERY locale string** `l`: the rule is `i` iff `l` itself is a key with value `i`, or
    `l` is no key and its language subtag (the text before the first `-`) is a key with value `i` -/
theorem plural_rule_iff (l : Text) (i : Nat) :
    getPluralRule (some l) = some i ↔
      (l, i) ∈ Gen.Tables.categoriesByLocale ∨
      ((∀ j, (l, j) ∉ Gen.Tables.categoriesByLocale) ∧ (langOf l, i) ∈ Gen.Tables.categoriesByLocale) := by
  rw [plural_rule_lookup]
  exact C06P.rule_iff _ plural_table_wf.1 l i

open C06P (ruleOf langOf) in
/-- the same law over ANY table with distinct keys -/
theorem plural_rule_iff_generic (tbl : List (Text × Nat)) (hnd : (tbl.map (·.1)).Nodup) (l : Text) (i : Nat) :
    ruleOf tbl (some l) = some i ↔ (l, i) ∈ tbl ∨ ((∀ j, (l, j) ∉ tbl) ∧ (langOf l, i) ∈ tbl) :=
  C06P.rule_iff tbl hnd l i

open C06P (ruleOf) in
/-- region subtags are irrelevant (any table): `lang-REST` that is not itself a key has the rule of `lang` -/
theorem plural_rule_region (tbl : List (Text × Nat)) (lang rest : Text) (h : 45 ∉ lang)
    (hk : tbl.lookup (lang ++ 45 :: rest) = none) :
    ruleOf tbl (some (lang ++ 45 :: rest)) = ruleOf tbl (some lang) := C06P.rule_region tbl lang rest h hk

open C06P (sourceKey) in
/-- keys that contain `-` (`zh-CN`, `zh-TW`) are reached by the identical tag only (any table); in the shipped
    table these are the only two such keys -/
theorem plural_hyphen_keys :
    (∀ (tbl : List (Text × Nat)) (l k : Text), sourceKey tbl l = some k → 45 ∈ k → l = k) ∧
    (Gen.Tables.categoriesByLocale.filter (fun e => e.1.contains 45)).map (·.1) =
      [[122, 104, 45, 67, 78], [122, 104, 45, 84, 87]] :=
  ⟨fun tbl _ _ h hk => C06P.hyphen_key_exact tbl h hk, by decide +kernel⟩

open C06P (TableWf pluralOf formCountOf ruleOf) in
/-- over ANY well-formed table `get_plural` never raises, is `None` exactly for tags without a rule, and a known
    rule has at least one form (`plural_lookup_total` / `plural_table_total` generically) -/
theorem plural_lookup_wf (tbl : List (Text × Nat)) (idx : List (List Text)) (hwf : TableWf tbl idx)
    (locale : Option Text) :
    ∃ known, pluralOf tbl idx locale = some known ∧ known.map List.length = formCountOf tbl idx locale ∧
      (known = none ↔ ruleOf tbl locale = none) ∧ (∀ cats, known = some cats → cats ≠ []) :=
  C06P.pluralOf_wf hwf locale

open C06P (LexP) in
/-- **the `#n` variables of EVERY text**: both `re.finditer("#([0-9]+)", …)` calls of `check_plural` find exactly
    the variable list of the grammar `LexP` (longest digit run after each `#`; no hypothesis on the text) -/
theorem plural_vars_exact (v : Text) (ns : List Nat) :
    (pluralVars Gen.Pat.checks_properties_PropertiesChecker_check_plural_0 v = some ns ↔ LexP v ns) ∧
    (pluralVars Gen.Pat.checks_properties_PropertiesChecker_check_plural_1 v = some ns ↔ LexP v ns) :=
  ⟨⟨C06P.lexP_of_pluralVars, C06P.pluralVars_of_lexP⟩, ⟨C06P.lexP_of_pluralVars, C06P.pluralVars_of_lexP⟩⟩

open C06P (LexP) in
theorem plural_vars_exist_unique (v : Text) : ∃ ns, LexP v ns ∧ ∀ ns', LexP v ns' → ns' = ns := by
  obtain ⟨ns, h⟩ := C06P.lexP_total v.length v (Nat.le_refl _)
  exact ⟨ns, h, fun ns' h' => C06P.lexP_unique h' h⟩

open C06P (LexP joinForms) in
/-- **variables per form**: the variables of `";".join(forms)` are the concatenation of the variables of the forms -/
theorem plural_vars_per_form (forms : List (Text × List Nat)) (h : ∀ f ∈ forms, LexP f.1 f.2) :
    LexP (joinForms (forms.map (·.1))) (forms.flatMap (·.2)) := C06P.lexP_join forms h

open C06P (LexP formCountOf formsVerdictN) in
/-- **the plural verdict as a function**, from raw values: for a plural string `check` returns the encoding warnings
    followed by `formsVerdictN n s` — `n` the form count of the rule that applies to the locale (`none`: no rule),
    `s` the number of `;` of the localized value: one warning iff `n = some k`, `k ≠ s + 1` — and
    `varsVerdict pats lpats` of the `#n` variables (grammar `LexP`) of the two values. -/
theorem plural_verdict_fn (e : Ents) (hg : pluralGate e.refComment e.refKey (uval e.refRaw) = true) :
    ∃ pats lpats, LexP (uval e.refRaw) pats ∧ LexP (uval e.l10nRaw) lpats ∧
      check e = some (baseCheck e ++
        (formsVerdictN (formCountOf Gen.Tables.categoriesByLocale Gen.Tables.categoriesByIndex e.locale)
            ((uval e.l10nRaw).count 59) ++ varsVerdict pats lpats)) := by
  obtain ⟨known, pats, lpats, hk, hp, hlp, hc⟩ := plural_verdict_raw e hg
  obtain ⟨known', hk', hcount, _, _⟩ := C06P.pluralOf_wf plural_table_wf e.locale
  rw [C06P.getPlural_eq, hk'] at hk
  cases hk
  refine ⟨pats, lpats, C06P.lexP_of_pluralVars hp, C06P.lexP_of_pluralVars hlp, ?_⟩
  rw [hc, C06P.formsVerdict_eq, hcount]

/-! ## 5. where the findings point (export for C17) -/

/-- **`C06.printf_pos_in_value`** (for C17: the hypothesis `vs + n ≤ s.size` of `check_pos_in_range_value` for the
    properties checker, where `raw_val = s[vs:ve]`): every plain-int offset `n` that `PropertiesChecker.check` reports
    lies inside the raw localized value, `n ≤ len(raw_val)`; and every `EntityPos(n)` lies inside `l10nEnt.all`. -/
theorem printf_pos_in_value (e : Ents) (fs : List Finding) (h : check e = some fs) :
    ∀ f ∈ fs, (∀ n, f.pos = .val n → n ≤ e.l10nRaw.length) ∧ (∀ n, f.pos = .ent n → n < e.l10nAll.length) := by
  have hlen : (uval e.l10nRaw).length ≤ e.l10nRaw.length := C06Pos.unescape_len _ _ (unescape_total _)
  have hbase : ∀ f ∈ baseCheck e, (∀ n, f.pos = .val n → n ≤ e.l10nRaw.length) ∧
      (∀ n, f.pos = .ent n → n < e.l10nAll.length) := by
    intro f hf
    obtain ⟨n, hn, hc⟩ := C06Pos.base_pos e f hf
    refine ⟨fun m hm => (by rw [hn] at hm; cases hm), fun m hm => ?_⟩
    rw [hn] at hm
    cases hm
    exact (List.getElem?_eq_some_iff.mp hc).1
  have hesc : ∀ f ∈ escapeWarnings e.l10nRaw, (∀ n, f.pos = .val n → n ≤ e.l10nRaw.length) ∧
      (∀ n, f.pos = .ent n → n < e.l10nAll.length) := by
    intro f hf
    obtain ⟨n, hn, hc⟩ := C06Pos.esc_pos e.l10nRaw f hf
    refine ⟨fun m hm => ?_, fun m hm => (by rw [hn] at hm; cases hm)⟩
    rw [hn] at hm
    cases hm
    exact Nat.le_of_lt (List.getElem?_eq_some_iff.mp hc).1
  rcases check_trichotomy e with ⟨_, pl, hpl, hc⟩ | ⟨_, _, hc⟩ | ⟨_, R, pf, _, _, hpf, hc⟩
  · rw [hc] at h
    cases h
    intro f hf
    rcases List.mem_append.mp hf with hf | hf
    · exact hbase f hf
    · obtain ⟨known, hk⟩ := plural_lookup_total e.locale
      obtain ⟨pats, hp⟩ := pluralVars_total _ rfl (uval e.refRaw)
      obtain ⟨lpats, hlp⟩ := pluralVars_total _ rfl (uval e.l10nRaw)
      rw [checkPlural_eq e.locale _ _ known pats lpats hk hp hlp] at hpl
      cases hpl
      obtain ⟨h0, _⟩ := C06Pos.plural_pos known _ pats lpats f hf
      refine ⟨fun m hm => ?_, fun m hm => ?_⟩
      · rw [h0] at hm; cases hm; omega
      · rw [h0] at hm; cases hm
  · rw [hc] at h
    cases h
    intro f hf
    rcases List.mem_append.mp hf with hf | hf
    · exact hbase f hf
    · exact hesc f hf
  · rw [hc] at h
    cases h
    intro f hf
    rcases List.mem_append.mp hf with hf | hf
    · rcases List.mem_append.mp hf with hf | hf
      · exact hbase f hf
      · exact hesc f hf
    · obtain ⟨_, n, hn, hcase⟩ := C06Pos.checkPrintf_pos R _ pf hpf f hf
      refine ⟨fun m hm => ?_, fun m hm => (by rw [hn] at hm; cases hm)⟩
      rw [hn] at hm
      cases hm
      rcases hcase with rfl | ⟨h1, _⟩
      · omega
      · omega

/-- **the printf findings point at the offending `%`**: every finding of `checkPrintf` is at offset 0 (verdict of
    the two lists, "Ordered argument missing") or at an offset `n < len(value)` with `value[n] = '%'` (the lone `%`,
    the first argument of the other style) -/
theorem printf_pos_points_at_pct (R : List (Option Text)) (v : Text) (fs : List Finding) (h : checkPrintf R v = some fs) :
    ∀ f ∈ fs, f.cat = .printf ∧ ∃ n, f.pos = .val n ∧ (n = 0 ∨ (n < v.length ∧ v[n]? = some 37)) :=
  C06Pos.checkPrintf_pos R v fs h

/-- the offset of a `PrintfException`: a `%` of the value for "Found single %" / "Mixed ordered and non-ordered
    args", 0 for "Ordered argument missing" -/
theorem printf_exception_pos (v msg : Text) (pos : Nat) (h : getPrintfSpecs v = .error (.printf msg pos)) :
    (pos < v.length ∧ v[pos]? = some 37 ∧ (msg = sFoundSingle ∨ msg = sMixed)) ∨
    (pos = 0 ∧ msg = sOrderedMissing) := C06Pos.specs_error_pos v msg pos h

/-- escape warnings point at the backslash in the RAW value; encoding warnings at the U+FFFD in `all` -/
theorem escape_and_encoding_pos (e : Ents) :
    (∀ f ∈ escapeWarnings e.l10nRaw, ∃ n, f.pos = .val n ∧ e.l10nRaw[n]? = some 92) ∧
    (∀ f ∈ baseCheck e, ∃ n, f.pos = .ent n ∧ e.l10nAll[n]? = some 65533) :=
  ⟨C06Pos.esc_pos e.l10nRaw, C06Pos.base_pos e⟩

/-! ## 6. one checker instance for many entities (history independence)

`PropertiesChecker` keeps `extra_tests`, `locale` and `reference`, none of which `check` writes; the model of a
session is therefore the map of `check` over the entities.  The content of the statement is on the Python side:
the harness runs sequences through ONE instance (also in reverse order, also with `extra_tests`/`set_reference`
variants) and through fresh instances and compares with this model. -/

/-- a session of one checker instance with locale `locale` over a sequence of entity pairs -/
def checkSession (locale : Option Text) (es : List Ents) : List (Option (List Finding)) :=
  es.map (fun e => check { e with locale := locale })

/-- **history independence**: the result for the `i`-th pair of a session does not depend on the other pairs (nor
    on their order): it is `check` of that pair alone; sessions over concatenated / permuted sequences are the
    concatenated / permuted results. -/
theorem session_history_independent (locale : Option Text) (es es' : List Ents) :
    (∀ i (h : i < es.length), (checkSession locale es)[i]? = some (check { es[i] with locale := locale })) ∧
    checkSession locale (es ++ es') = checkSession locale es ++ checkSession locale es' ∧
    checkSession locale es.reverse = (checkSession locale es).reverse := by
  refine ⟨fun i h => by simp [checkSession, h], by simp [checkSession], by simp [checkSession]⟩

/-! ### non-vacuity and negation witnesses of round 4 -/

-- "%1$S %% %2$d" tokenises as arg 1 / %% / arg 2 at offsets 0, 5, 8
example : C06G.Lex 0 [37,49,36,83,32,37,37,32,37,50,36,100]
    [(0, .arg (some 1) [83]), (5, .pct), (8, .arg (some 2) [100])] :=
  C06G.lex_of_atoks (by decide +kernel)

-- "%1 x": not `Separated`, but the grammar (and the lexer) say: a lone `%` at 0 — the case `WfRender` excluded
example : C06G.Lex 0 [37,49,32,120] [(0, .lone)] := C06G.lex_of_atoks (by decide +kernel)

-- `%%` after an ordered argument is neither an argument nor a style switch: "%1$S %%" against "%1$S" is silent
example : checkPrintf [some [83]] [37,49,36,83,32,37,37] = some [] := by decide +kernel
-- … and "%%%1$S" as well
example : checkPrintf [some [83]] [37,37,37,49,36,83] = some [] := by decide +kernel

-- the fast-path regression: reference [S], localization [S, d] is an error ("argument 2 `d` obsolete")
example : ∃ msg, specsVerdict [some [83]] [some [83], some [100]] = some [⟨.error, .val 0, msg, .printf⟩] :=
  ⟨_, specsVerdict_obsolete [some [83]] [some [100]] (by simp)⟩

-- error and warning together: reference [S, d, x], localization [d]: "argument 1 missing" + trailing warning
example : (specsVerdict [some [83], some [100], some [120]] [some [100]]).map (·.map (·.sev)) =
    some [.error, .warning] := by decide +kernel

-- the gate: "12" and "12\n" are numbers (no plural check), "12a", "", "1\n\n" and "٣x" are not; "٣" (Arabic-Indic) is
example : C06Gate.NumericValue [49, 50] ∧ C06Gate.NumericValue [49, 50, 10] ∧ C06Gate.NumericValue [1635] :=
  ⟨⟨[49, 50], by simp, by decide, Or.inl rfl⟩, ⟨[49, 50], by simp, by decide, Or.inr rfl⟩,
   ⟨[1635], by simp, by decide, Or.inl rfl⟩⟩
example : ¬ C06Gate.NumericValue [49, 50, 97] ∧ ¬ C06Gate.NumericValue [] ∧ ¬ C06Gate.NumericValue [49, 10, 10] := by
  refine ⟨?_, ?_, ?_⟩ <;> rw [← C06Gate.numeric_iff] <;> decide +kernel

-- every argument retyped and one dropped: reference [S, S, S], localization [d, d] → one error, no warning
example : (specsVerdict [some [83], some [83], some [83]] [some [100], some [100]]).map (·.map (·.sev)) = some [.error] := by
  rw [(verdict_all_retyped _ _ (by simp) (by simp) (by decide)).2]; rfl

-- lookup: "zh-CN" → rule 0 by its own key; "zh", "zh-HK" → no rule; "en-GB" → rule of "en"; "pt-BR" → "pt"
example : getPluralRule (some [122,104,45,67,78]) = some 0 ∧ getPluralRule (some [122,104]) = none ∧
    getPluralRule (some [122,104,45,72,75]) = none ∧
    getPluralRule (some [101,110,45,71,66]) = getPluralRule (some [101,110]) ∧
    getPluralRule (some [101,110]) = some 1 := by decide +kernel

-- negation witness for `Nodup` in `plural_rule_iff_generic`: with a repeated key the first entry wins
example : C06P.ruleOf [([97], 1), ([97], 2)] (some [97]) = some 1 ∧ ([97], 2) ∈ [(([97] : Text), 1), ([97], 2)] := by
  decide

-- "#1 of #22;#3": variables 1, 22, 3 — per form [1, 22] and [3]
example : C06P.LexP [35,49,32,111,102,32,35,50,50,59,35,51] [1, 22, 3] :=
  C06P.lexP_of_pluralVars (by decide +kernel)

-- a `#` that is not followed by a digit is no variable (the case `WfRenderP` excluded): "# #1"
example : C06P.LexP [35,32,35,49] [1] := C06P.lexP_of_pluralVars (by decide +kernel)

-- positions: "a %" has its lone % at offset 2
example : (match getPrintfSpecs [97,32,37] with | .error (.printf _ 2) => true | _ => false) = true := by
  decide +kernel

end C06

/-
C06 — properties: printf and plural verdicts match the argument model.
Property theorems only (helper lemmas live in CLModel/Proofs/C06*.lean).

Objects: `PropCk.check` is the transliteration of `PropertiesChecker.check` (with `Checker.check`,
`check_plural`, `checkPrintf`, `getPrintfSpecs`, `plurals.get_plural`); `Difflib.opcodes` is the
port of `difflib.SequenceMatcher().set_seqs(a, b); get_opcodes()`.  `none` stands for "the Python
code raises"; the theorems show that it does not.
-/
import CLModel.Checks.Properties
import CLModel.Proofs.C06Printf
import CLModel.Proofs.C06SpecsCor
import CLModel.Proofs.C06RxPrintf
import CLModel.Proofs.C06Plural
import CLModel.Proofs.C06Render
import CLModel.Proofs.C06RCor
import CLModel.Proofs.C06RPluralLex
namespace C06
open PropCk Difflib
open C06R (WfRender WfTok WfFmt Separated LoneOk IsSpec IsDig WShape PShape MixedR GapR rargs tokA sig kindOf
  PTok renderP varsOf WfRenderP WfPTok SeparatedP rePlural)

/-! ## difflib -/

/-- `get_opcodes()` never raises and returns a valid edit script: contiguous ranges from (0,0) to
    (|a|,|b|), `equal` ranges really equal, `delete`/`insert`/`replace` ranges non-empty on the
    sides they touch.  For sequences of ANY length (autojunk heuristic included). -/
theorem difflib_valid {α : Type} [DecidableEq α] (a b : List α) :
    ∃ ops, opcodes a b = some ops ∧ ValidOpcodes a b ops :=
  opcodes_valid a b

/-- If `b` is a proper prefix of `a`, `get_opcodes()` is one `equal` block followed by one trailing
    `delete` — no length bound: the "popular element" heuristic for `len(b) >= 200` cannot break it. -/
theorem difflib_prefix {α : Type} [DecidableEq α] (b t : List α) (ht : t ≠ []) :
    opcodes (b ++ t) b = some
      ((if b.length ≠ 0 then [(⟨.equal, 0, b.length, 0, b.length⟩ : Opcode)] else []) ++
        [⟨.delete, b.length, (b ++ t).length, b.length, b.length⟩]) :=
  opcodes_prefix b t ht

/-! ## getPrintfSpecs -/

/-- Every value has a token list (each regex match is a lone `%`, a `%%`, or an argument with a
    one-character type and, if ordered, a number ≥ 1), and `getPrintfSpecs` is the closed form
    `specsSpec` of it: first lone `%` / first change of style is the error; otherwise unordered
    arguments give the list of their types and ordered arguments give, at position `i`, the type
    of the last token numbered `i+1` (an unused position is the "gap" error). -/
theorem specs_of_tokens (val : Text) :
    ∃ ts, atoks val = some ts ∧ WFToks ts ∧ getPrintfSpecs val = specsSpec ts := by
  obtain ⟨ts, h⟩ := atoks_total val
  exact ⟨ts, h, atoks_wf val ts h, getPrintfSpecs_eq_spec val ts h⟩

/-- `getPrintfSpecs` raises `PrintfException` exactly in the three malformed cases (lone `%`, mixed
    ordered and unordered arguments, a gap in the ordered arguments) and never anything else. -/
theorem specs_error_iff (val : Text) (ts : List (Nat × ATok)) (h : atoks val = some ts) :
    ((∃ e, getPrintfSpecs val = .error e) ↔ HasLone ts ∨ Mixed ts ∨ Gap ts) ∧
    getPrintfSpecs val ≠ .error .other := by
  rw [getPrintfSpecs_eq_spec val ts h]
  refine ⟨specsSpec_error_iff ts (atoks_wf val ts h), ?_⟩
  rw [← getPrintfSpecs_eq_spec val ts h]
  exact getPrintfSpecs_not_other val

/-- `%%` tokens (and text, which is no token at all) do not influence the specifier list. -/
theorem specs_ignore_pct (ts : List (Nat × ATok)) : specsSpec (ts.filter notPct) = specsSpec ts :=
  specsSpec_ignores_pct ts

/-- Reordering ordered arguments (same multiset of tokens, the same number always with the same
    type) does not change the specifier list. -/
theorem specs_reorder (ts ts' : List (Nat × ATok)) (hwf : WFToks ts)
    (hperm : (ts.map (·.2)).Perm (ts'.map (·.2)))
    (hord : ∀ t ∈ ts, t.2 = ATok.pct ∨ ∃ n sp, t.2 = ATok.arg (some n) sp)
    (hcons : Consistent (argsOf ts)) : specsSpec ts = specsSpec ts' :=
  specsSpec_reorder ts ts' hwf hperm hord hcons

/-
The generator's view — a value *assembled from* tokens lexes back to them — was first proved for a
bounded family only (`specs_of_rendered_partial`, by kernel evaluation).  It is now proved for token
lists of ANY length (`atoks_render` … `printf_rendered_error_iff` below, section "values assembled
from tokens"); the bounded theorem is kept as an independent cross-check of the general proof.
-/

/-- `_partial`: every well-formed token list of the bounded family (≤ 2 tokens over
    {"a ", "é", %%, %, %S, %d, %1$S, %2$d, %3$S, %5.2f, %12$*x}, ≤ 3 tokens over
    {"a ", %%, %, %S, %1$S, %2$d, %5.2f}) lexes to exactly its tokens, hence `getPrintfSpecs` of the
    assembled value is the closed form of the intended tokens. -/
theorem specs_of_rendered_partial (ts : List RTok) (hmem : ts ∈ boundedFamily) :
    atoks (render ts) = some (expectedFrom 0 ts) ∧
    getPrintfSpecs (render ts) = specsSpec (expectedFrom 0 ts) := by
  have h := List.all_eq_true.mp boundedFamily_lexes ts hmem
  have h' : atoks (render ts) = some (expectedFrom 0 ts) := by simpa using h
  exact ⟨h', getPrintfSpecs_eq_spec _ _ h'⟩

/-! ## values assembled from tokens (any number of tokens)

`RTok` is the generator's alphabet: text, `%%`, a lone `%`, `%[n$][width][.prec]c`.
`WfRender ts` = every token is well formed (`WfTok`: text contains no `%`; `n ≥ 1`, written by
`"%d" % n`; the format part is `(\*|[0-9]+)?(\.(\*|[0-9]+)?)?`; `c` is one of `duxXosScpfg`) and the
sequence is `Separated`: what follows a lone `%` (the rest of the rendered value) is empty or starts
with a character that is not `%`, not a digit, not `*`, not `.` and not a conversion character.
Nothing is required after `%%` or after an argument (their last character closes the match), and
text may be empty. -/

/-- **A value assembled from well-formed, separated tokens lexes back to exactly those tokens**, with
    their offsets — for token lists of any length.  (Exact, priority-respecting evaluation of
    `finditer` for the generated `printf` regex: every match starts at a `%`, between matches there is
    only `%`-free text, `%10d` first tries `10` and `1` as argument number and falls back to the width.) -/
theorem atoks_render (ts : List RTok) (h : WfRender ts) : atoks (render ts) = some (expectedFrom 0 ts) :=
  C06R.atoks_render ts h

/-- `getPrintfSpecs` of an assembled value is the closed form on the intended tokens (full strength
    version of `specs_of_rendered_partial`). -/
theorem specs_of_rendered (ts : List RTok) (h : WfRender ts) :
    getPrintfSpecs (render ts) = specsSpec (expectedFrom 0 ts) :=
  C06R.specs_of_rendered ts h

/-- **Error classification in terms of the tokens**: `getPrintfSpecs` of the assembled value raises iff
    the token list contains a lone `%`, or both ordered and unordered arguments, or only ordered
    arguments whose numbers have a gap — and what it raises is always `PrintfException`. -/
theorem specs_rendered_error_iff (ts : List RTok) (h : WfRender ts) :
    ((∃ e, getPrintfSpecs (render ts) = .error e) ↔ RTok.lone ∈ ts ∨ MixedR ts ∨ GapR ts) ∧
    (∀ e, getPrintfSpecs (render ts) = .error e → ∃ msg pos, e = .printf msg pos) :=
  C06R.specs_rendered_error_iff ts h

/-- Unordered arguments (with any text and `%%` around them): the list of their types, in order. -/
theorem specs_rendered_unordered (ts : List RTok) (h : WfRender ts)
    (hun : ∀ tok ∈ ts, (∃ t, tok = .text t) ∨ tok = .pct ∨ ∃ fmt c, tok = .arg none fmt c) :
    getPrintfSpecs (render ts) = .ok ((rargs ts).map (fun a => some a.2)) :=
  C06R.specs_rendered_unordered ts h hun

/-- Ordered arguments without a gap: position `i` holds the type of the last token numbered `i + 1`. -/
theorem specs_rendered_ordered (ts : List RTok) (h : WfRender ts)
    (hord : ∀ tok ∈ ts, (∃ t, tok = .text t) ∨ tok = .pct ∨ ∃ n fmt c, tok = .arg (some n) fmt c)
    (hgap : ¬ GapR ts) :
    getPrintfSpecs (render ts) = .ok (positional (rargs ts)) :=
  C06R.specs_rendered_ordered ts h hord hgap

/-- **Reordering invariance**: any permutation of a token list made of text, `%%` and ordered
    arguments (the same number always with the same type) gives the same result.  No hypothesis on
    the permuted list: without lone `%` every order is separated. -/
theorem specs_rendered_reorder (ts ts' : List RTok) (hwf : ∀ t ∈ ts, WfTok t) (hperm : ts.Perm ts')
    (hord : ∀ tok ∈ ts, (∃ t, tok = .text t) ∨ tok = .pct ∨ ∃ n fmt c, tok = .arg (some n) fmt c)
    (hcons : Consistent (rargs ts)) :
    getPrintfSpecs (render ts) = getPrintfSpecs (render ts') :=
  C06R.specs_reorder_perm ts ts' hwf hperm hord hcons

/-- … also when the text between the arguments changes (only the non-text tokens are permuted). -/
theorem specs_rendered_reorder_text (ts ts' : List RTok) (h : WfRender ts) (h' : WfRender ts')
    (hperm : (ts.filterMap tokA).Perm (ts'.filterMap tokA))
    (hord : ∀ tok ∈ ts, (∃ t, tok = .text t) ∨ tok = .pct ∨ ∃ n fmt c, tok = .arg (some n) fmt c)
    (hcons : Consistent (rargs ts)) :
    getPrintfSpecs (render ts) = getPrintfSpecs (render ts') :=
  C06R.specs_reorder_rendered ts ts' h h' hperm hord hcons

/-- **`%%` and text are irrelevant**: two assembled values with the same sequence `sig` of lone-`%` and
    argument tokens have the same specifier list or the same kind of error (`kindOf` forgets the
    offset of the error, the only thing text can move). -/
theorem specs_rendered_ignore_text_pct (ts ts' : List RTok) (h : WfRender ts) (h' : WfRender ts')
    (hsig : sig ts = sig ts') :
    kindOf (getPrintfSpecs (render ts)) = kindOf (getPrintfSpecs (render ts')) :=
  C06R.specs_text_pct_invariant ts ts' h h' hsig

/-! ## checkPrintf -/

/-- **printf verdict.**  For every reference specifier list `R` and localized value: `checkPrintf`
    does not raise, and it reports an error iff the localized value is malformed or its
    specifier list is not a prefix of `R`. -/
theorem printf_error_iff (R : List (Option Text)) (l10nValue : Text) :
    ∃ fs, checkPrintf R l10nValue = some fs ∧
      (hasError fs ↔ (∃ msg pos, getPrintfSpecs l10nValue = .error (.printf msg pos)) ∨
        (∃ L, getPrintfSpecs l10nValue = .ok L ∧ ¬ L <+: R)) :=
  checkPrintf_error_iff R l10nValue (getPrintfSpecs_not_other l10nValue)

/-- Dropping only trailing arguments is exactly one warning (which names the dropped arguments). -/
theorem printf_trailing_warn (L t : List (Option Text)) (l10nValue : Text)
    (h : getPrintfSpecs l10nValue = .ok L) (ht : t ≠ []) :
    checkPrintf (L ++ t) l10nValue = some [⟨.warning, .val 0, trailingMsg (L ++ t) L.length, .printf⟩] :=
  checkPrintf_trailing L t l10nValue h ht

/-- Equal specifier lists: nothing is reported. -/
theorem printf_equal_silent (R : List (Option Text)) (l10nValue : Text)
    (h : getPrintfSpecs l10nValue = .ok R) : checkPrintf R l10nValue = some [] :=
  checkPrintf_equal R l10nValue h

/-- A malformed localized value is one error at the offending offset. -/
theorem printf_malformed_error (R : List (Option Text)) (l10nValue msg : Text) (pos : Nat)
    (h : getPrintfSpecs l10nValue = .error (.printf msg pos)) :
    checkPrintf R l10nValue = some [⟨.error, .val pos, msg, .printf⟩] :=
  checkPrintf_malformed R l10nValue msg pos h

/-- **printf verdict for an assembled localized value**, stated on its tokens: `checkPrintf` never
    raises, and it reports an error iff the tokens contain a lone `%`, mix the two styles, leave a gap
    in the ordered numbers, or the closed-form specifier list of the tokens is not a prefix of `R`. -/
theorem printf_rendered_error_iff (R : List (Option Text)) (ts : List RTok) (h : WfRender ts) :
    ∃ fs, checkPrintf R (render ts) = some fs ∧
      (hasError fs ↔ (RTok.lone ∈ ts ∨ MixedR ts ∨ GapR ts) ∨
        (∃ L, specsSpec (expectedFrom 0 ts) = .ok L ∧ ¬ L <+: R)) := by
  obtain ⟨fs, hfs, hiff⟩ := printf_error_iff R (render ts)
  obtain ⟨herr, hkind⟩ := specs_rendered_error_iff ts h
  refine ⟨fs, hfs, ?_⟩
  rw [hiff, ← herr, ← specs_of_rendered ts h]
  constructor
  · rintro (⟨msg, pos, he⟩ | hL)
    · exact Or.inl ⟨_, he⟩
    · exact Or.inr hL
  · rintro (⟨e, he⟩ | hL)
    · obtain ⟨msg, pos, rfl⟩ := hkind e he
      exact Or.inl ⟨msg, pos, he⟩
    · exact Or.inr hL

/-! ## the whole check -/

/-- **printf branch of `check`.**  When the string is not a plural string and the reference value
    has a non-empty, well-formed specifier list `R`, the result of `check` is: encoding warnings,
    escape warnings, then the `checkPrintf` verdict; and an error is reported iff the localized
    value is malformed or its specifier list is not a prefix of `R`. -/
theorem check_printf (e : Ents) (refValue l10nValue : Text) (R : List (Option Text))
    (hr : unescape e.refRaw = some refValue) (hl : unescape e.l10nRaw = some l10nValue)
    (hg : pluralGate e.refComment e.refKey refValue = false)
    (hR : getPrintfSpecs refValue = .ok R) (hne : R ≠ []) :
    ∃ pf, checkPrintf R l10nValue = some pf ∧
      check e = some (baseCheck e ++ escapeWarnings e.l10nRaw ++ pf) ∧
      (hasError (baseCheck e ++ escapeWarnings e.l10nRaw ++ pf) ↔
        (∃ msg pos, getPrintfSpecs l10nValue = .error (.printf msg pos)) ∨
        (∃ L, getPrintfSpecs l10nValue = .ok L ∧ ¬ L <+: R)) := by
  obtain ⟨pf, hpf, hiff⟩ := printf_error_iff R l10nValue
  refine ⟨pf, hpf, ?_, ?_⟩
  · have hemp : R.isEmpty = false := by cases R with
      | nil => exact absurd rfl hne
      | cons _ _ => rfl
    simp [check, hr, hl, hg, hR, hemp, hpf]
  · rw [← hiff]
    constructor
    · rintro ⟨f, hf, hs⟩
      rcases List.mem_append.mp hf with hf | hf
      · have := (base_esc_warnings e f hf).1
        rw [this] at hs; cases hs
      · exact ⟨f, hf, hs⟩
    · rintro ⟨f, hf, hs⟩
      exact ⟨f, List.mem_append_right _ hf, hs⟩

/-- A reference without (well-formed) printf arguments: no printf finding at all. -/
theorem check_no_reference_args (e : Ents) (refValue l10nValue : Text)
    (hr : unescape e.refRaw = some refValue) (hl : unescape e.l10nRaw = some l10nValue)
    (hg : pluralGate e.refComment e.refKey refValue = false)
    (hR : getPrintfSpecs refValue = .ok [] ∨ ∃ err, getPrintfSpecs refValue = .error err) :
    check e = some (baseCheck e ++ escapeWarnings e.l10nRaw) := by
  rcases hR with hR | ⟨err, hR⟩
  · simp [check, hr, hl, hg, hR]
  · cases err with
    | other => exact absurd hR (getPrintfSpecs_not_other refValue)
    | printf msg pos => simp [check, hr, hl, hg, hR]

/-! ## plurals -/

/-- every locale of the generated table has a non-empty category list -/
theorem plural_table_total :
    ∀ e ∈ Gen.Tables.categoriesByLocale, ∃ c cs, getPlural (some e.1) = some (some (c :: cs)) := by
  have h : Gen.Tables.categoriesByLocale.all (fun e =>
      match getPlural (some e.1) with
      | some (some (_ :: _)) => true
      | _ => false) = true := by decide +kernel
  intro e he
  have := List.all_eq_true.mp h e he
  split at this
  · rename_i c cs hc; exact ⟨c, cs, hc⟩
  · cases this

/-- `get_plural` never raises (every index of the locale table is inside the category table) -/
theorem plural_lookup_total (locale : Option Text) : ∃ known, getPlural locale = some known := by
  have hidx : Gen.Tables.categoriesByLocale.all (fun e => decide (e.2 < Gen.Tables.categoriesByIndex.length)) = true := by
    decide +kernel
  have hlook : ∀ (l : List (Text × Nat)) k v, l.lookup k = some v → (k, v) ∈ l := by
    intro l
    induction l with
    | nil => intro k v h; simp at h
    | cons x xs ih =>
      intro k v h
      obtain ⟨xk, xv⟩ := x
      simp only [List.lookup_cons] at h
      split at h
      · rename_i heq
        simp only [beq_iff_eq] at heq
        cases h; subst heq; simp
      · exact List.mem_cons_of_mem _ (ih k v h)
  unfold getPlural
  cases hr : getPluralRule locale with
  | none => exact ⟨none, rfl⟩
  | some i =>
    have hi : i < Gen.Tables.categoriesByIndex.length := by
      unfold getPluralRule at hr
      split at hr
      · cases hr
      · split at hr
        · rename_i l j hj
          cases hr
          have := List.all_eq_true.mp hidx _ (hlook _ _ _ hj)
          simpa using this
        · have := List.all_eq_true.mp hidx _ (hlook _ _ _ hr)
          simpa using this
    simp only
    rw [List.getElem?_eq_getElem hi]
    exact ⟨_, rfl⟩

/-- **plural branch is taken iff** the comment contains `Localization_and_Plurals`, the key is not
    `pluralRule` and the reference value is not a number. -/
theorem plural_gate (refComment : Option Text) (refKey refValue : Text) :
    pluralGate refComment refKey refValue = true ↔
      (∃ c, refComment = some c ∧ sLocPlurals <:+: c) ∧ refKey ≠ sPluralRule ∧
      Rx.matchAt refValue.toArray Gen.Pat.checks_properties_PropertiesChecker_check_0 0 = none := by
  unfold pluralGate
  simp only [Bool.and_eq_true, bne_iff_ne, ne_eq, Option.isNone_iff_eq_none]
  constructor
  · rintro ⟨⟨h1, h2⟩, h3⟩
    refine ⟨?_, h2, h3⟩
    cases refComment with
    | none => simp at h1
    | some c => exact ⟨c, rfl, (contains_iff _ _).mp h1⟩
  · rintro ⟨⟨c, rfl, hc⟩, h2, h3⟩
    exact ⟨⟨(contains_iff _ _).mpr hc, h2⟩, h3⟩

/-- **plural verdict.**  For a plural string `check` never raises and its result is the encoding
    warnings followed by `formsVerdict` (one warning iff the locale has known plural categories and
    their number differs from the number of `;`-separated forms) and `varsVerdict` (a function of
    the two sets of `#n` variables). -/
theorem plural_verdict (e : Ents) (refValue l10nValue : Text)
    (hr : unescape e.refRaw = some refValue) (hl : unescape e.l10nRaw = some l10nValue)
    (hg : pluralGate e.refComment e.refKey refValue = true) :
    ∃ known pats lpats, getPlural e.locale = some known ∧
      pluralVars Gen.Pat.checks_properties_PropertiesChecker_check_plural_0 refValue = some pats ∧
      pluralVars Gen.Pat.checks_properties_PropertiesChecker_check_plural_1 l10nValue = some lpats ∧
      check e = some (baseCheck e ++ (formsVerdict known (l10nValue.count 59) ++ varsVerdict pats lpats)) := by
  obtain ⟨known, hk⟩ := plural_lookup_total e.locale
  obtain ⟨pats, hp⟩ := pluralVars_total _ rfl refValue
  obtain ⟨lpats, hlp⟩ := pluralVars_total _ rfl l10nValue
  refine ⟨known, pats, lpats, hk, hp, hlp, ?_⟩
  simp [check, hr, hl, hg, checkPlural_eq e.locale refValue l10nValue known pats lpats hk hp hlp]

/-- the variable verdict: nothing without reference variables; a reference variable unused →
    warning; otherwise an extra variable → error -/
theorem plural_vars_verdict (pats lpats : List Nat) :
    varsVerdict pats lpats =
      if pats = [] then []
      else if ∃ x ∈ pats, x ∉ lpats then [⟨.warning, .val 0, sNotAllVars, .plural⟩]
      else if ∃ x ∈ lpats, x ∉ pats then [⟨.error, .val 0, sUnreplaced, .plural⟩]
      else [] :=
  varsVerdict_spec pats lpats

/-- … and it depends on the two sets of variables only (order and repetitions are irrelevant) -/
theorem plural_vars_sets (pats pats' lpats lpats' : List Nat)
    (h1 : ∀ x, x ∈ pats ↔ x ∈ pats') (h2 : ∀ x, x ∈ lpats ↔ x ∈ lpats') :
    varsVerdict pats lpats = varsVerdict pats' lpats' :=
  varsVerdict_congr pats pats' lpats lpats' h1 h2

/-! ### plural values assembled from tokens

`PTok` = text | `#n`.  `WfRenderP ts`: text tokens contain no `#`, and a `#n` token is followed by the
end of the value or by a character that is not a digit (it would extend `n`). -/

/-- **The variables of an assembled plural value are exactly its `#n` tokens** (in order, any number
    of tokens); both regex occurrences of `check_plural` are the regex `rePlural`. -/
theorem plural_vars_rendered (ts : List PTok) (h : WfRenderP ts) :
    pluralVars Gen.Pat.checks_properties_PropertiesChecker_check_plural_0 (renderP ts) = some (varsOf ts) ∧
    pluralVars Gen.Pat.checks_properties_PropertiesChecker_check_plural_1 (renderP ts) = some (varsOf ts) :=
  ⟨C06R.pluralVars_render ts h, C06R.pluralVars_render ts h⟩

/-- **plural verdict on assembled values**: the variable verdict is `varsVerdict` of the `#n` tokens
    of the reference and of the localized value. -/
theorem plural_rendered_verdict (e : Ents) (rts lts : List PTok) (hr : WfRenderP rts) (hl : WfRenderP lts)
    (hur : unescape e.refRaw = some (renderP rts)) (hul : unescape e.l10nRaw = some (renderP lts))
    (hg : pluralGate e.refComment e.refKey (renderP rts) = true) :
    ∃ known, getPlural e.locale = some known ∧
      check e = some (baseCheck e ++
        (formsVerdict known ((renderP lts).count 59) ++ varsVerdict (varsOf rts) (varsOf lts))) := by
  obtain ⟨known, pats, lpats, hk, hp, hlp, hc⟩ := plural_verdict e _ _ hur hul hg
  rw [(plural_vars_rendered rts hr).1] at hp
  rw [(plural_vars_rendered lts hl).2] at hlp
  cases hp; cases hlp
  exact ⟨known, hk, hc⟩

/-! ## non-vacuity: the model evaluated on concrete values -/

-- "%2$d %1$S": ordered arguments, reordered
example : (match getPrintfSpecs [37,50,36,100,32,37,49,36,83] with
    | .ok l => l == [some [83], some [100]]
    | _ => false) = true := by decide +kernel

-- reference [S, d]; "%2$d %1$S" is silent, "%S" is the trailing warning, "%d" is an error
example : checkPrintf [some [83], some [100]] [37,50,36,100,32,37,49,36,83] = some [] := by decide +kernel
example : (checkPrintf [some [83], some [100]] [37,83]).map (·.map (·.sev)) = some [.warning] := by decide +kernel
example : ∃ msg rest, checkPrintf [some [83], some [100]] [37,100] = some (⟨.error, .val 0, msg, .printf⟩ :: rest) :=
  checkPrintf_nonprefix _ [some [100]] _ (by rfl) (by decide)

-- "% d" (lone %), "%1$S %d" (mixed), "%1$S %3$S" (gap): errors at the offending offset
example : (match getPrintfSpecs [37,32,100] with | .error (.printf _ 0) => true | _ => false) = true := by
  decide +kernel
example : (match getPrintfSpecs [37,49,36,83,32,37,100] with | .error (.printf _ 5) => true | _ => false) = true := by
  decide +kernel
example : (match getPrintfSpecs [37,49,36,83,32,37,51,36,83] with | .error (.printf _ 0) => true | _ => false) = true := by
  decide +kernel

-- difflib: the hypotheses of `difflib_prefix` are satisfiable, and a non-prefix pair is a replace
example : opcodes [1, 2, 3] [1, 2] = some [⟨.equal, 0, 2, 0, 2⟩, ⟨.delete, 2, 3, 2, 2⟩] := by
  simpa using difflib_prefix [1, 2] [3] (by simp)
example : opcodes [1, 2, 3] [1, 4, 3] =
    some [⟨.equal, 0, 1, 0, 1⟩, ⟨.replace, 1, 2, 1, 2⟩, ⟨.equal, 2, 3, 2, 3⟩] := by
  simp [opcodes, matchingBlocks, chainB, b2jBuild, b2jAdd, mbLoop, findLongestMatch, outerLoop, innerLoop,
    b2jGet, j2lenGet, extendBack, extendFwd, collapse, opcodesGo, Block.le, List.mergeSort,
    List.MergeSort.Internal.splitInTwo]

-- the bounded family is not trivial: it contains a value with reordered ordered arguments, and the
-- lone-% side condition of the full statement is needed ("%" followed by "%%" lexes as "%%", "%")
example : [RTok.arg (some 2) [] 100, RTok.text [97, 32], RTok.arg (some 1) [] 83] ∈ boundedFamily := by
  decide +kernel
example : atoks (render [RTok.lone, RTok.pct]) = some [(0, ATok.pct), (2, ATok.lone)] ∧
    expectedFrom 0 [RTok.lone, RTok.pct] = [(0, ATok.lone), (1, ATok.pct)] := by decide +kernel

-- plural: "#1 of #2" vs "#1": a reference variable is unused
example : varsVerdict [1, 2] [1] = [⟨.warning, .val 0, sNotAllVars, .plural⟩] := by decide
example : varsVerdict [1] [2, 1, 1] = [⟨.error, .val 0, sUnreplaced, .plural⟩] := by decide

/-! negation witness for `Consistent` in `specs_reorder`: the last token numbered `i` decides, so
    "%1$S %1$d" and "%1$d %1$S" (same multiset of tokens) have different specifier lists -/
example : (match getPrintfSpecs [37,49,36,83,32,37,49,36,100], getPrintfSpecs [37,49,36,100,32,37,49,36,83] with
    | .ok l, .ok l' => l == [some [100]] && l' == [some [83]]
    | _, _ => false) = true := by decide +kernel

/-! negation witness: without the prefix relation `ValidOpcodes` alone does not give the
    warning-only verdict — a valid script for `[S,S]` → `[S]` may delete the first element.
    This is why `difflib_prefix` is proved about the port and not assumed as a contract. -/
example : ValidOpcodes [1, 1] [1] [⟨.delete, 0, 1, 0, 0⟩, ⟨.equal, 1, 2, 0, 1⟩] := by
  simp [ValidOpcodes, ValidFrom]

/-! ### values assembled from tokens: non-vacuity and negation witnesses -/

-- "%2$d a %1$5.2f%%": a well-formed, separated token list with ordered arguments, width and precision
example : WfRender [.arg (some 2) [] 100, .text [32, 97, 32], .arg (some 1) [53, 46, 50] 102, .pct] := by
  refine ⟨?_, by simp [Separated]⟩
  intro t ht
  simp only [List.mem_cons, List.mem_nil_iff, or_false] at ht
  rcases ht with rfl | rfl | rfl | rfl
  · exact ⟨fun n hn => (by cases hn; decide), ⟨[], [], rfl, Or.inl rfl, Or.inl rfl⟩, by decide⟩
  · show 37 ∉ [32, 97, 32]; decide
  · exact ⟨fun n hn => (by cases hn; decide),
      ⟨[53], [46, 50], rfl, Or.inr (Or.inr ⟨by decide, by decide⟩),
        Or.inr (Or.inr (Or.inr ⟨[50], by decide, by decide, rfl⟩))⟩, by decide⟩
  · trivial

-- the family is unbounded: `%S` repeated k times (and `% ` repeated k times) for every k
example (k : Nat) : WfRender (List.replicate k (RTok.arg none [] 83)) := by
  refine ⟨?_, C06R.separated_of_no_lone (by simp [List.mem_replicate])⟩
  intro t ht
  obtain ⟨_, rfl⟩ := List.mem_replicate.mp ht
  exact ⟨fun n hn => (by cases hn), ⟨[], [], rfl, Or.inl rfl, Or.inl rfl⟩, by decide⟩

-- a lone `%` followed by a blank is separated; the classification then reports the error
example : WfRender [.lone, .text [32, 100]] ∧ ∃ e, getPrintfSpecs (render [.lone, .text [32, 100]]) = .error e := by
  have h : WfRender [.lone, .text [32, 100]] := by
    refine ⟨?_, ?_⟩
    · intro t ht
      simp only [List.mem_cons, List.mem_nil_iff, or_false] at ht
      rcases ht with rfl | rfl
      · trivial
      · show 37 ∉ [32, 100]; decide
    · refine ⟨?_, trivial⟩
      intro c hc
      have : c = 32 := by simpa [render, renderTok] using hc.symm
      subst this
      exact ⟨by decide, by decide, by decide, by decide, by decide⟩
  exact ⟨h, (specs_rendered_error_iff _ h).1.mpr (Or.inl (by simp))⟩

/-! negation witnesses for `Separated` / `WfTok` (the value lexes to OTHER tokens than intended):
    * a lone `%` followed by the text `1$S` is the argument `%1$S`;
    * a text token containing `%` (`%S` as text) is an argument;
    * the number `0` (`%0$S`) is not an argument number: the `%` is lone. -/
example : atoks (render [.lone, .text [49, 36, 83]]) = some [(0, ATok.arg (some 1) [83])] ∧
    expectedFrom 0 [.lone, .text [49, 36, 83]] = [(0, ATok.lone)] ∧
    ¬ Separated [.lone, .text [49, 36, 83]] := by
  refine ⟨by decide +kernel, by decide +kernel, ?_⟩
  rintro ⟨h, _⟩
  exact (h 49 (by simp [render, renderTok])).2.1 (by decide)
example : atoks (render [.text [37, 83]]) = some [(0, ATok.arg none [83])] ∧
    expectedFrom 0 [.text [37, 83]] = [] := by decide +kernel
example : atoks (render [.arg (some 0) [] 83]) = some [(0, ATok.lone)] ∧
    expectedFrom 0 [.arg (some 0) [] 83] = [(0, ATok.arg (some 0) [83])] := by decide +kernel

-- plural: "#1 of #22;" is well formed; "#1" followed by the text "2" is the variable 12
example : WfRenderP [.var 1, .text [32, 111, 102, 32], .var 22, .text [59]] := by
  refine ⟨?_, ?_⟩
  · intro t ht
    simp only [List.mem_cons, List.mem_nil_iff, or_false] at ht
    rcases ht with rfl | rfl | rfl | rfl
    · trivial
    · show 35 ∉ [32, 111, 102, 32]; decide
    · trivial
    · show 35 ∉ [59]; decide
  · refine ⟨?_, ?_, trivial⟩
    · intro c hc
      have : c = 32 := by
        have : (renderP [PTok.text [32, 111, 102, 32], PTok.var 22, PTok.text [59]]).head? = some 32 := by
          decide +kernel
        rw [this] at hc; cases hc; rfl
      subst this; decide
    · intro c hc
      have : c = 59 := by
        have : (renderP [PTok.text [59]]).head? = some 59 := by decide +kernel
        rw [this] at hc; cases hc; rfl
      subst this; decide
example : pluralVars rePlural (renderP [.var 1, .text [50]]) = some [12] ∧ varsOf [.var 1, .text [50]] = [1] := by
  decide +kernel

end C06

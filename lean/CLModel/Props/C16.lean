/-
C16 — Serializer writes exactly the requested translations, in reference order.
Property theorems only (helper lemmas live in CLModel/Proofs/C16*.lean).

Vocabulary (CLModel/Proofs/C16Ser.lean, C16Cor.lean), for a reference entry list `ref`, an old
localization `old` and a new-data dict `nd` (association list, `none` = Python `None`):
  `refKeys ref`        keys of the non-junk reference entries keyed by `.key`, first occurrences in order
  `known ref s`        `s in ref_mapping` (some reference *Entity* has key `s`)
  `oldEntry old s`     the last non-junk old entry keyed by `s` (what `OrderedDict(pairs)[s]` holds)
  `removed nd s`       `s in new_data and new_data[s] is None`
  `given ref nd s`     `new_data[s]` is a value and `s in ref_mapping`
  `kept ref old nd s`  `oldEntry old s` is a real Entity, `s in ref_mapping`, not `removed`
  `newValue ref nd s`  `ref_mapping[s].wrap(new_data[s])` when `given`
  `chosen ref old nd s` = `newValue …` if defined, else `oldEntry old s` if `kept`
`Ent.isReal` = Entity that is not a PlaceholderEntity.

Vocabulary of the re-parse theorem `serialize_reparses_properties_partial` (CLModel/Proofs/C02Roundtrip.lean, C16RText.lean):
  `P.printProps rs`                the file `key=value⏎` per record (C02)
  `P.SafeRec (key, value)`         non-empty key without `# ! = :` / white-space; value without backslash / newline that neither
                                   starts nor ends in a blank (nor ends in CR) — the class of C02.roundtrip_properties_partial
  `C16R.expectedRec old nd r`      for the reference record `r`: `(r.key, v)` if `new_data[r.key] = v`; nothing if it is `None`;
                                   else the record of `old` with that key, if any
  `C16R.expectedRecs ref old nd`   `ref.filterMap (expectedRec old nd)`: reference order
-/
import CLModel.Serialize.Serializer
import CLModel.Proofs.C16Ser
import CLModel.Proofs.C16Cor
import CLModel.Proofs.C16Wrap
import CLModel.Proofs.C16RText
import CLModel.Proofs.C16RIni
import CLModel.Proofs.C16Sticky
import CLModel.Proofs.C16WrapX
import CLModel.Proofs.C16GInst
import CLModel.Proofs.C16GInc
namespace C16
open AR Ser C16L

/-- Closed form of what `serialize` emits.  For ALL entry lists `ref`, `old` and every dict `nd`:
    the entities of the pruned entry list (whose texts are concatenated into the file) are exactly,
    for each reference key in reference order, the entity `chosen` for it: the reference entity
    wrapped around the new value if one was given, otherwise the old entity if it is still a
    reference key and not marked for removal, otherwise nothing. -/
theorem serialized_entities (ref old : List Ent) (nd : NewData) (hnd : (nd.map (·.1)).Nodup) :
    (serializeEnts ref old nd).filter Ent.isReal = (refKeys ref).filterMap (chosen ref old nd) :=
  C16L.serialized_entities ref old nd hnd

/-- "entities are exactly the reference keys having a new value or an old localized value not
    marked for removal, in reference order" -/
theorem serialized_keys (ref old : List Ent) (nd : NewData) (hnd : (nd.map (·.1)).Nodup) :
    ((serializeEnts ref old nd).filter Ent.isReal).map (·.key)
      = (refKeys ref).filter (fun s => given ref nd s || kept ref old nd s) :=
  C16L.serialized_keys ref old nd hnd

/-- "each carrying the new value if one was given and the old one otherwise": an emitted entity whose
    key has a new value has that raw value and the reference entity's text around it; any other
    emitted entity IS the old localization's entity for that key. -/
theorem serialized_values (ref old : List Ent) (nd : NewData) (hnd : (nd.map (·.1)).Nodup) :
    ∀ e ∈ (serializeEnts ref old nd).filter Ent.isReal,
      match dget nd e.key with
      | some (some v) => e.val = v ∧ ∃ r, dget (refMapping ref) e.key = some r ∧ e.all = r.pre ++ v ++ r.post
      | _ => oldEntry old e.key = some e :=
  C16L.serialized_values ref old nd hnd

/-- "No reference (English) value, obsolete key, removed key or junk from the old file appears":
    every entry of the output is not a placeholder, not junk, and is either a wrapped new value,
    or an entry of the old file that `sanitize_old` keeps (for an Entity: key known and not removed),
    or a reference entry that is not an Entity (comment, whitespace, section). -/
theorem nothing_foreign (ref old : List Ent) (nd : NewData) :
    ∀ e ∈ serializeEnts ref old nd,
      e.isPlaceholder = false ∧ e.isJunk = false ∧
      ((e ∈ newL10n (refMapping ref) nd) ∨
       (e ∈ old ∧ shouldPlaceholder ((refMapping ref).map (·.1)) nd e = false) ∨
       (e ∈ ref ∧ e.isEntity = false)) :=
  C16L.nothing_foreign ref old nd

/-- no PlaceholderEntity survives `prune_placeholders` -/
theorem no_placeholder (ref old : List Ent) (nd : NewData) :
    ∀ e ∈ serializeEnts ref old nd, e.isPlaceholder = false :=
  C16L.no_placeholder ref old nd

/-- `Entity.wrap`: for an entity whose value span lies inside its span (`_span_start ≤ vs ≤ ve ≤ end`),
    the entity's text is prefix ++ value ++ suffix and the wrapped entity's text is
    prefix ++ new value ++ suffix, with the same key and the new raw value. -/
theorem wrap_spec (f : P.Fmt) (s : Array Nat) (e : P.Entry) (v : List Nat) (a b : Nat)
    (hk : e.kind = .entity) (hvs : e.vs = (a : Int)) (hve : e.ve = (b : Int))
    (h1 : e.full ≤ a) (h2 : a ≤ b) (h3 : b ≤ e.e) (h4 : e.e ≤ s.size) :
    (ofEntry f s e).all = P.slice s e.full a ++ P.slice s a b ++ P.slice s b e.e ∧
    (ofEntry f s e).val = P.slice s a b ∧
    (wrap (ofEntry f s e) v).all = P.slice s e.full a ++ v ++ P.slice s b e.e ∧
    (wrap (ofEntry f s e) v).val = v ∧
    (wrap (ofEntry f s e) v).key = (ofEntry f s e).key ∧
    (wrap (ofEntry f s e) v).isReal = true :=
  C16L.wrap_spec f s e v a b hk hvs hve h1 h2 h3 h4

/-- `ref.wrap(ref.unwrap())` reproduces the entity's text -/
theorem wrap_unwrap (f : P.Fmt) (s : Array Nat) (e : P.Entry) (a b : Nat)
    (hk : e.kind = .entity) (hvs : e.vs = (a : Int)) (hve : e.ve = (b : Int))
    (h1 : e.full ≤ a) (h2 : a ≤ b) (h3 : b ≤ e.e) (h4 : e.e ≤ s.size) :
    (wrap (ofEntry f s e) (ofEntry f s e).val).all = (ofEntry f s e).all :=
  C16L.wrap_unwrap f s e a b hk hvs hve h1 h2 h3 h4

/-- "serializing the output again with no new data yields the same entities" (entry level: the old
    localization of the second run is the entry list of the first; that re-parsing the text gives
    these entries back is checked by correspondence and by the oracle). -/
theorem idempotent_entities (ref old : List Ent) (nd : NewData) (hnd : (nd.map (·.1)).Nodup) :
    (serializeEnts ref (serializeEnts ref old nd) []).filter Ent.isReal
      = (serializeEnts ref old nd).filter Ent.isReal :=
  C16L.idempotent_entities ref old nd hnd

/-
Not proved (`reparse`): "the produced text parses without junk".  It is a statement about the parser
on the concatenated texts; it is checked by the oracle with the real parsers for all six formats and
by the end-to-end correspondence.  For `.inc` it is FALSE whenever the pruned list starts with a
whitespace entry (finding C16-inc-leading-blank, F10): the example `leading_blank` below.
-/

/-- RE-PARSE, `.properties`, printed safe records.  Take ANY reference file and ANY old localization printed from safe
    records (`key=value⏎` per record, distinct keys per file; the old file may have obsolete keys, lack reference keys and be
    in any order) and ANY `new_data` dict whose values for reference keys are safe.  Then `serialize` — the model run end to
    end: both texts parsed by `PropertiesParser.walk`, `serialize`, `serialize_legacy_resource` — returns a text `t` that
    `PropertiesParser.walk` parses, WITHOUT JUNK, into exactly one entity per expected record, in reference order: the
    reference keys having a new value or an old value not marked for removal; key = the reference key, raw value = value =
    the new value if one was given, else the old one; no comment attached.
    Proof route: C02 round trip (the walk of a printed file is known) → `wrap_spec` on these entries → `serialized_entities`
    → every entry of the output that is not whitespace is directly followed by a white-space entry (`C16R.serializeEnts_alt`:
    this shape survives the closed form of `AddRemove`, both `merge_two` reduces and `prune_placeholders`) → the text is a
    sequence of printed records and newlines → `C04R.walk_toks`.
    FULL statement (not proved): all six formats, comments, blank lines, junk and a missing final newline in the old file,
    all legal layouts.  The class excludes the inputs of the known findings (see the witnesses below). -/
theorem serialize_reparses_properties_partial (refRecs oldRecs : List P.PRec) (nd : NewData)
    (href : ∀ r ∈ refRecs, P.SafeRec r) (hold : ∀ r ∈ oldRecs, P.SafeRec r)
    (hrk : (refRecs.map (·.1)).Nodup) (hok : (oldRecs.map (·.1)).Nodup) (hnd : (nd.map (·.1)).Nodup)
    (hv : ∀ r ∈ refRecs, ∀ v, (r.1, some v) ∈ nd → P.SafeRec (r.1, v)) :
    ∃ t es, serializeText .properties (P.printProps refRecs).toArray (P.printProps oldRecs).toArray nd = some t ∧
      P.walk .properties t.toArray = .done es ∧
      P.entitiesOf .properties t.toArray es = (C16R.expectedRecs refRecs oldRecs nd).map P.expectedView ∧
      P.junkOf t.toArray es = [] :=
  C16R.serialize_reparses refRecs oldRecs nd href hold hrk hok hnd hv

/-- RE-PARSE, `.ini`, printed safe records.  Reference `[sec]⏎` + `key=value⏎` per record and old localization of the same
    form with the SAME section name (`C02X.printIni`; safe ini records: key non-empty, without `=` / newline, not starting
    with `[ ; #` or white-space; value without newline — blanks at either end, backslashes, `#` are fine), distinct keys per
    file, none equal to the section name; `new_data` a dict whose values for reference keys contain no newline.  Then the text
    `serialize` returns is parsed by `IniParser.walk`, WITHOUT JUNK, into the section entry and exactly one entity per
    expected record (`C16R.expectedRecs`, as for `.properties`), in reference order.
    Additional step of the proof: the output starts with the section entry (`C16R.serializeEnts_head`: the key diff starts
    with the first template key when the old dict starts with the same key) and contains no second one (dict keys are unique).
    FULL statement (not proved): no section / several sections / another section name in the old file, comments, blank lines. -/
theorem serialize_reparses_ini_partial (sec : List Nat) (refRecs oldRecs : List P.PRec) (nd : NewData)
    (hsec : ∀ c ∈ sec, c ≠ 93 ∧ c ≠ 10)
    (href : ∀ r ∈ refRecs, C02X.SafeIniRec r) (hold : ∀ r ∈ oldRecs, C02X.SafeIniRec r)
    (hrk : (sec :: refRecs.map (·.1)).Nodup) (hok : (sec :: oldRecs.map (·.1)).Nodup) (hnd : (nd.map (·.1)).Nodup)
    (hv : ∀ r ∈ refRecs, ∀ v, (r.1, some v) ∈ nd → ∀ c ∈ v, c ≠ 10) :
    ∃ t es, serializeText .ini (C02X.printIni sec refRecs).toArray (C02X.printIni sec oldRecs).toArray nd = some t ∧
      P.walk .ini t.toArray = .done es ∧
      P.entitiesOf .ini t.toArray es = (C16R.expectedRecs refRecs oldRecs nd).map P.expectedView ∧
      P.junkOf t.toArray es = [] :=
  C16R.serialize_reparses_ini sec refRecs oldRecs nd hsec href hold hrk hok hnd hv

/-- the same for a NEW localization: the old file is empty (no section header there); the expected records are the
    reference keys that have a new value -/
theorem serialize_reparses_ini_new_partial (sec : List Nat) (refRecs : List P.PRec) (nd : NewData)
    (hsec : ∀ c ∈ sec, c ≠ 93 ∧ c ≠ 10) (href : ∀ r ∈ refRecs, C02X.SafeIniRec r)
    (hrk : (sec :: refRecs.map (·.1)).Nodup) (hnd : (nd.map (·.1)).Nodup)
    (hv : ∀ r ∈ refRecs, ∀ v, (r.1, some v) ∈ nd → ∀ c ∈ v, c ≠ 10) :
    ∃ t es, serializeText .ini (C02X.printIni sec refRecs).toArray #[] nd = some t ∧
      P.walk .ini t.toArray = .done es ∧
      P.entitiesOf .ini t.toArray es = (C16R.expectedRecs refRecs [] nd).map P.expectedView ∧
      P.junkOf t.toArray es = [] :=
  C16R.serialize_reparses_ini_new sec refRecs nd hsec href hrk hnd hv

/-- the shape behind it, for ALL entry lists: if in the template dict and in the dict of the sanitized old localization
    every key that is not a Whitespace object is directly followed by one (every entry is followed by white space), the
    same holds for the serialized entry list — no entity is glued to the entry before or after it. -/
theorem serialized_shape (ref old : List Ent) (nd : NewData)
    (h0 : C16R.Alt C16R.wsKey (dkeys (d0Of ref))) (h1 : C16R.Alt C16R.wsKey (dkeys (d1Of ref old nd))) :
    C16R.Alt Ent.isWs (serializeEnts ref old nd) :=
  C16R.serializeEnts_alt ref old nd h0 h1


/-! ## Round 4 -/

/-- `Entity.wrap` writes the raw value VERBATIM between the reference entity's prefix and suffix: no escaping, no
    trimming, whatever the value contains (a newline, a leading blank, the quote of a DTD entity …).  What a re-parse makes
    of such a value is the parser's business: see the negation witnesses below (`.properties`: a trailing or LEADING blank
    is lost, a newline splits the entity; `.dtd`: the reference's quote character ends the value). -/
theorem wrap_verbatim (e : Ent) (raw : List Nat) :
    (wrap e raw).all = e.pre ++ raw ++ e.post ∧ (wrap e raw).val = raw ∧ (wrap e raw).key = e.key ∧
    (wrap e raw).isReal = true :=
  ⟨rfl, rfl, rfl, rfl⟩

/-- For ALL entry lists: the pruned entry list never has two adjacent white-space entries
    (`prune_whitespace` folds them into the longer one). -/
theorem no_adjacent_whitespace (ref old : List Ent) (nd : NewData) :
    C16G.NoAdj Ent.isWs (serializeEnts ref old nd) :=
  C16G.noAdj_serializeEnts ref old nd

/-- For ALL entry lists: THE OUTPUT STARTS WITH A WHITE-SPACE ENTRY (a blank line: Junk for `.inc`) iff, in the key diff of
    template and sanitized old localization, the first pair that is not (still) a placeholder once the new values are
    filled in is white space.  Neither of the two `merge_two` reduces nor `prune_placeholders` changes that. -/
theorem leading_blank_characterised (ref old : List Ent) (nd : NewData) :
    C16R.hw Ent.isWs (serializeEnts ref old nd)
      = C16R.hw pIsWs ((olderPairs (d0Of ref) (d1Of ref old nd)).filter (C16G.q2 (d2Of ref nd))) :=
  C16G.hw_out ref old nd

/-- WHAT `serialize` RETURNS, AS TEXT, for a reference and an old file printed record by record in ANY record syntax
    `pre(key) ++ value ++ post ++ ⏎` (`C16G.RFmt`; instances: `key=value`, `<!ENTITY key "value">`, `#define key value`),
    distinct keys per file, `new_data` a dict: an optional newline followed by EXACTLY the printed expected records. -/
theorem serialized_text_partial (F : C16G.RFmt) (Sf : P.PRec → Prop) (refRecs oldRecs : List P.PRec) (nd : NewData)
    (hold : ∀ r ∈ oldRecs, Sf r)
    (hrk : (refRecs.map (·.1)).Nodup) (hok : (oldRecs.map (·.1)).Nodup) (hnd : (nd.map (·.1)).Nodup)
    (hv : ∀ r ∈ refRecs, ∀ v, (r.1, some v) ∈ nd → Sf (r.1, v)) :
    serializeOut (C16G.entsF F refRecs) (C16G.entsF F oldRecs) nd
      = (if C16R.hw Ent.isWs (serializeEnts (C16G.entsF F refRecs) (C16G.entsF F oldRecs) nd) then [10] else [])
        ++ C16G.printF F (C16R.expectedRecs refRecs oldRecs nd) ∧
    ∀ r ∈ C16R.expectedRecs refRecs oldRecs nd, Sf r :=
  C16G.out_text F Sf refRecs oldRecs nd hold hrk hok hnd hv

/-- RE-PARSE, `.dtd`.  Reference and old localization printed as `<!ENTITY key "value">⏎` per record (`C02X.printDtd`; safe
    records: key = ASCII letter then letters / digits / `.` / `-`; value without `"` and `&`), distinct keys per file, the old
    file in any order, with obsolete keys, lacking keys or empty; `new_data` a dict whose values for reference keys contain
    neither `"` nor `&`.  Then the text `serialize` returns is parsed by `DTDParser.walk`, WITHOUT JUNK, into exactly one
    entity per expected record, in reference order — also when the output starts with a blank line (the first reference
    entity is not emitted).
    FULL statement (not proved): `'`-quoted reference entities (then a new value may contain `"` but not `'`), values with
    `&…;` references, comments, blank lines, parameter entities.  A new value containing the reference's quote character is
    the known finding C16-dtd-quote-conflict (witness below). -/
theorem serialize_reparses_dtd_partial (refRecs oldRecs : List P.PRec) (nd : NewData)
    (href : ∀ r ∈ refRecs, C02X.SafeDtdRec r) (hold : ∀ r ∈ oldRecs, C02X.SafeDtdRec r)
    (hrk : (refRecs.map (·.1)).Nodup) (hok : (oldRecs.map (·.1)).Nodup) (hnd : (nd.map (·.1)).Nodup)
    (hv : ∀ r ∈ refRecs, ∀ v, (r.1, some v) ∈ nd → C02X.SafeDtdRec (r.1, v)) :
    ∃ t es, serializeText .dtd (C02X.printDtd refRecs).toArray (C02X.printDtd oldRecs).toArray nd = some t ∧
      P.walk .dtd t.toArray = .done es ∧
      P.entitiesOf .dtd t.toArray es = (C16R.expectedRecs refRecs oldRecs nd).map P.expectedView ∧
      P.junkOf t.toArray es = [] :=
  C16G.serialize_reparses_dtd refRecs oldRecs nd href hold hrk hok hnd hv

/-- RE-PARSE, `.inc`.  Reference `#define key value⏎` per record with NON-EMPTY values (`C16G.SafeIncV`: key of word
    characters, value non-empty without newline), old localization of the same form, distinct keys per file; new values for
    reference keys non-empty without newline; and — because a leading blank line is Junk for `DefinesParser` — the FIRST
    reference record is emitted (it has a new value, or an old value that is not removed) and the old file is empty or
    starts with a record whose key is a reference key.  Then `DefinesParser.walk` parses the output, WITHOUT JUNK, into
    exactly the expected records in reference order.
    The three extra hypotheses are exactly the known findings: empty reference value = C16-inc-reference-without-value,
    first record not emitted / old file starting with an obsolete key = C16-inc-leading-blank (witnesses below);
    blank lines and `#filter emptyLines` (C16-inc-blank-lines) are outside the printed class. -/
theorem serialize_reparses_inc_partial (r0 : P.PRec) (rs oldRecs : List P.PRec) (nd : NewData)
    (href : ∀ r ∈ r0 :: rs, C16G.SafeIncV r) (hold : ∀ r ∈ oldRecs, C16G.SafeIncV r)
    (hrk : ((r0 :: rs).map (·.1)).Nodup) (hok : (oldRecs.map (·.1)).Nodup) (hnd : (nd.map (·.1)).Nodup)
    (hv : ∀ r ∈ r0 :: rs, ∀ v, (r.1, some v) ∈ nd → C16G.SafeIncV (r.1, v))
    (hfirst : (C16R.expectedRec oldRecs nd r0).isSome = true)
    (hohead : ∀ o, oldRecs.head? = some o → o.1 ∈ (r0 :: rs).map (·.1)) :
    ∃ t es, serializeText .inc (C02X.printInc (r0 :: rs)).toArray (C02X.printInc oldRecs).toArray nd = some t ∧
      P.walk .inc t.toArray = .done es ∧
      P.entitiesOf .inc t.toArray es = (C16R.expectedRecs (r0 :: rs) oldRecs nd).map P.expectedView ∧
      P.junkOf t.toArray es = [] :=
  C16G.serialize_reparses_inc r0 rs oldRecs nd href hold hrk hok hnd hv hfirst hohead

/-- when the output of two printed files starts with a blank line: never if the first reference record is emitted and the
    old file is empty or starts with a reference key … -/
theorem no_leading_blank_partial (F : C16G.RFmt) (r0 : P.PRec) (rs : List P.PRec) (nd : NewData) (oldRecs : List P.PRec)
    (hrk : ((r0 :: rs).map (·.1)).Nodup) (hok : (oldRecs.map (·.1)).Nodup) (hnd : (nd.map (·.1)).Nodup)
    (hfirst : (C16R.expectedRec oldRecs nd r0).isSome = true)
    (hohead : ∀ o, oldRecs.head? = some o → o.1 ∈ (r0 :: rs).map (·.1)) :
    C16R.hw Ent.isWs (serializeEnts (C16G.entsF F (r0 :: rs)) (C16G.entsF F oldRecs) nd) = false :=
  C16G.no_lead_printed F r0 rs nd oldRecs hrk hok hnd hfirst hohead

/-- … always if the first reference record is NOT emitted (this is finding C16-inc-leading-blank as a theorem) -/
theorem leading_blank_partial (F : C16G.RFmt) (r0 : P.PRec) (rs : List P.PRec) (nd : NewData) (oldRecs : List P.PRec)
    (hrk : ((r0 :: rs).map (·.1)).Nodup) (hok : (oldRecs.map (·.1)).Nodup) (hnd : (nd.map (·.1)).Nodup)
    (hfirst : C16R.expectedRec oldRecs nd r0 = none) :
    C16R.hw Ent.isWs (serializeEnts (C16G.entsF F (r0 :: rs)) (C16G.entsF F oldRecs) nd) = true :=
  C16G.lead_printed F r0 rs nd _ oldRecs (C16G.oldOK_entsF F _ nd oldRecs hok) hrk hnd hfirst

/-- TEXT-LEVEL IDEMPOTENCE, `.properties` (printed safe records, the class of `serialize_reparses_properties_partial`):
    serialize; parse the returned text with `PropertiesParser.walk`; serialize again with that as the old localization and
    NO new data: the SAME TEXT is returned — `serialize(ref, parse(serialize(ref, old, new)), {}) == serialize(ref, old, new)`.
    Route: the output text is an optional newline + the printed expected records (`serialized_text_partial`); its parse is
    the same entry list after one white-space entry; the expected records of the second run are the same records
    (`C16G.expectedRecs_again`); and the leading newline is reproduced (`leading_blank_characterised` evaluated on both runs). -/
theorem serialize_idempotent_text_properties_partial (refRecs oldRecs : List P.PRec) (nd : NewData)
    (href : ∀ r ∈ refRecs, P.SafeRec r) (hold : ∀ r ∈ oldRecs, P.SafeRec r)
    (hrk : (refRecs.map (·.1)).Nodup) (hok : (oldRecs.map (·.1)).Nodup) (hnd : (nd.map (·.1)).Nodup)
    (hv : ∀ r ∈ refRecs, ∀ v, (r.1, some v) ∈ nd → P.SafeRec (r.1, v)) :
    ∃ t, serializeText .properties (P.printProps refRecs).toArray (P.printProps oldRecs).toArray nd = some t ∧
      serializeText .properties (P.printProps refRecs).toArray t.toArray [] = some t :=
  C16G.idempotent_text_props refRecs oldRecs nd href hold hrk hok hnd hv

/-- TEXT-LEVEL IDEMPOTENCE, `.dtd` (the class of `serialize_reparses_dtd_partial`) -/
theorem serialize_idempotent_text_dtd_partial (refRecs oldRecs : List P.PRec) (nd : NewData)
    (href : ∀ r ∈ refRecs, C02X.SafeDtdRec r) (hold : ∀ r ∈ oldRecs, C02X.SafeDtdRec r)
    (hrk : (refRecs.map (·.1)).Nodup) (hok : (oldRecs.map (·.1)).Nodup) (hnd : (nd.map (·.1)).Nodup)
    (hv : ∀ r ∈ refRecs, ∀ v, (r.1, some v) ∈ nd → C02X.SafeDtdRec (r.1, v)) :
    ∃ t, serializeText .dtd (C02X.printDtd refRecs).toArray (C02X.printDtd oldRecs).toArray nd = some t ∧
      serializeText .dtd (C02X.printDtd refRecs).toArray t.toArray [] = some t :=
  C16G.idempotent_text_dtd refRecs oldRecs nd href hold hrk hok hnd hv

/-- TEXT-LEVEL IDEMPOTENCE, `.inc` (the class and the no-leading-blank hypotheses of `serialize_reparses_inc_partial`) -/
theorem serialize_idempotent_text_inc_partial (r0 : P.PRec) (rs oldRecs : List P.PRec) (nd : NewData)
    (href : ∀ r ∈ r0 :: rs, C16G.SafeIncV r) (hold : ∀ r ∈ oldRecs, C16G.SafeIncV r)
    (hrk : ((r0 :: rs).map (·.1)).Nodup) (hok : (oldRecs.map (·.1)).Nodup) (hnd : (nd.map (·.1)).Nodup)
    (hv : ∀ r ∈ r0 :: rs, ∀ v, (r.1, some v) ∈ nd → C16G.SafeIncV (r.1, v))
    (hfirst : (C16R.expectedRec oldRecs nd r0).isSome = true)
    (hohead : ∀ o, oldRecs.head? = some o → o.1 ∈ (r0 :: rs).map (·.1)) :
    ∃ t, serializeText .inc (C02X.printInc (r0 :: rs)).toArray (C02X.printInc oldRecs).toArray nd = some t ∧
      serializeText .inc (C02X.printInc (r0 :: rs)).toArray t.toArray [] = some t :=
  C16G.idempotent_text_inc r0 rs oldRecs nd href hold hrk hok hnd hv hfirst hohead

/-! ### sticky entries (`StickyEntry`, Android `DocumentWrapper`) -/

/-- "ALWAYS KEEP THE ONE FROM THE REFERENCE DOCUMENT", part 1 — for ALL entry lists: every sticky entry of the output is an
    entry of the REFERENCE.  A sticky entry of the old localization (its `<?xml?><resources`, its root attributes, its
    `</resources>`) never reaches the output: `get_older_entity` replaces it by the reference's entry under the same key,
    or by `None` when the reference has none (an attribute only the old root element has is dropped). -/
theorem sticky_from_reference (ref old : List Ent) (nd : NewData) :
    ∀ e ∈ serializeEnts ref old nd, e.isSticky = true → e ∈ ref :=
  C16S.sticky_from_reference ref old nd

/-- part 2: if the template holds the sticky entry `r` under key `s`, every non-junk old entry keyed `s` is sticky too, and no
    reference Entity is keyed `s`, then `r` IS in the output — whatever the old document's entry under `s` looks like
    (other attribute value, other XML declaration).  Both side conditions are needed: witnesses below. -/
theorem sticky_kept (ref old : List Ent) (nd : NewData) (s : List Nat) (r : Ent)
    (h0 : dget (d0Of ref) (MKey.str s) = some r) (hr : r.isSticky = true)
    (hold : ∀ e ∈ old, e.isJunk = false → strKeyed e = true → e.key = s → e.isSticky = true)
    (hkn : known ref s = false) :
    r ∈ serializeEnts ref old nd :=
  C16S.sticky_kept ref old nd s r h0 hr hold hkn

/-! ### Fluent `wrap` (model over the printer contract of `serialize_comment`) -/

/-- `FluentEntity.wrap(raw)`: the text of the created entity is the REFERENCE entity's comment, re-created by
    `serialize_comment`, followed by the raw value verbatim (nothing is added when the reference has no comment); same key.
    The comment of the OLD localization or a comment inside `raw` plays no role here (a `raw` that itself starts with a
    comment therefore yields two comment blocks: the oracle compares Fluent values without comments). -/
theorem fluent_wrap_spec (s : Array Nat) (b : FBody) (e : P.Entry) (raw : List Nat) (hk : e.kind = .entity) :
    (wrap (fluentToEnt s b e) raw).all = (match b.comment with | some c => serializeComment c | none => []) ++ raw ∧
    (wrap (fluentToEnt s b e) raw).key = pySlice s e.ks e.ke ∧
    (wrap (fluentToEnt s b e) raw).val = raw ∧
    (wrap (fluentToEnt s b e) raw).isReal = true :=
  C16W.fluent_wrap_spec s b e raw hk

/-- for EVERY comment content: what `serialize_comment` prints reads back (drop the final line break, split into lines,
    drop `#` / `# `) to exactly that content … -/
theorem fluent_comment_roundtrip (c : List Nat) : C16W.commentContent (serializeComment c) = c :=
  C16W.commentContent_serializeComment c

/-- … and every printed line starts with `#` -/
theorem fluent_comment_lines (c : List Nat) :
    ∀ l ∈ splitNl (serializeComment c).dropLast, l.head? = some 35 :=
  C16W.serializeComment_lines c

/-- the entry-level Fluent walk used by the serializer model yields, entry by entry, the texts of the C01 model of
    `FluentParser.walk` (which is tied to the real walk by the `fluentwalk` stream) -/
theorem fluent_walk_texts (s : Array Nat) (body : List FBody) :
    (fluentWalkEnts s body).map (·.all) = (P.fluentWalk s (body.map (·.entry)) false).map (fun e => e.all s) :=
  C16W.fluentWalkEnts_alls s body

/-! ### Android `wrap` (model on the minidom summary) -/

/-- reference `<string …>TEXT</string>`: the new value replaces the whole text, with `& < " >` escaped -/
theorem android_wrap_text (key pre : List Nat) (el : XElem) (d x raw : List Nat)
    (h : el.children = [{ kind := .text, data := d, xml := x }]) :
    androidWrap key pre el raw =
      .ok { kind := .entity, key := key, val := raw,
            all := pre ++ (el.open_ ++ [62] ++ xmlEscape raw ++ [60, 47] ++ el.tag ++ [62]) } :=
  C16W.androidWrap_single_text key pre el d x raw h

/-- reference `<string …><![CDATA[…]]></string>`: the new value replaces the character data verbatim; a value containing
    `]]>` cannot be written (minidom raises `ValueError`) -/
theorem android_wrap_cdata (key pre : List Nat) (el : XElem) (d x raw : List Nat)
    (h : el.children = [{ kind := .cdata, data := d, xml := x }]) :
    androidWrap key pre el raw =
      if P.isInfix cdataClose raw then .error .cdataEnd
      else .ok { kind := .entity, key := key, val := raw,
                 all := pre ++ (el.open_ ++ [62] ++ (cdataOpen ++ raw ++ cdataClose) ++ [60, 47] ++ el.tag ++ [62]) } :=
  C16W.androidWrap_single_cdata key pre el d x raw h

/-- reference `<string name="a"/>` / `<string name="a"></string>`: `wrap` raises (finding C16-android-empty-reference-string) -/
theorem android_wrap_empty_raises (key pre : List Nat) (el : XElem) (raw : List Nat) (h : el.children = []) :
    androidWrap key pre el raw = .error .unboundChild :=
  C16W.androidWrap_empty key pre el raw h

/-- escaping is reversible for ALL raw values (re-parsing the written text node gives the raw value back) and the escaped
    text contains none of `<`, `>`, `"` -/
theorem android_escape_roundtrip (t : List Nat) : C16W.xmlUnescape (xmlEscape t) = t := C16W.xmlUnescape_escape t

theorem android_escape_safe (t : List Nat) : ∀ c ∈ xmlEscape t, c ≠ 60 ∧ c ≠ 62 ∧ c ≠ 34 := C16W.xmlEscape_safe t

/-! ### non-vacuity and witnesses -/

section Examples

def eK (k v : Nat) : Ent := { kind := .entity, key := [k], val := [v], all := [k, 61, v], pre := [k, 61], post := [] }
def wS (n : Nat) : Ent := { kind := .whitespace, key := [], val := List.replicate n 10, all := List.replicate n 10 }
def cM (t : Nat) : Ent := { kind := .comment, key := [t], val := [], all := [35, t] }
def jK : Ent := { kind := .junk, key := [], val := [63], all := [63] }

/-- reference `a=E ⏎ b=F ⏎ c=G ⏎`, old file `c=z ⏎ # ⏎ x=o ⏎ ? a=y` (reordered, with an obsolete
    key, a comment and junk), new data `{b: N, c: None, u: U}`:
    the model itself (no theorem used) gives `a=y ⏎ b=N ⏎ #` … -/
example :
    serializeEntsS [eK 97 69, wS 1, eK 98 70, wS 1, eK 99 71, wS 1]
      [eK 99 122, wS 1, cM 33, wS 2, eK 120 111, wS 1, jK, eK 97 121]
      [([98], some [78]), ([99], none), ([117], some [85])]
    = [eK 97 121, wS 1, { kind := .entity, key := [98], val := [78], all := [98, 61, 78] }, wS 1, cM 33, wS 2] := by
  decide

/-- … and the closed form on the same input: entities `a` (old value) and `b` (new value), in reference order -/
example :
    (serializeEnts [eK 97 69, wS 1, eK 98 70, wS 1, eK 99 71, wS 1]
      [eK 99 122, wS 1, cM 33, wS 2, eK 120 111, wS 1, jK, eK 97 121]
      [([98], some [78]), ([99], none), ([117], some [85])]).filter Ent.isReal
    = [eK 97 121, { kind := .entity, key := [98], val := [78], all := [98, 61, 78] }] := by
  rw [serialized_entities _ _ _ (by decide)]
  decide

/-- finding F10 at the entry level: the first reference entry is not emitted, so the output starts with
    the reference's whitespace entry — a blank line, which `DefinesParser` reports as Junk -/
example : (serializeEntsS [eK 97 69, wS 1, eK 98 70, wS 1] [] [([98], some [78])]).map (·.kind)
    = [.whitespace, .entity, .whitespace] ∧
    serializeLegacy (serializeEntsS [eK 97 69, wS 1, eK 98 70, wS 1] [] [([98], some [78])]) = [10, 98, 61, 78, 10] := by
  decide

/-- `hnd` is needed: a "dict" with a repeated key is not a dict.  With `[(b, None), (b, N)]` the loop
    building `new_l10n` creates the entity while `should_placeholder`/`chosen` see the first item. -/
example :
    (serializeEntsS [eK 98 70] [] [([98], none), ([98], some [78])]).filter Ent.isReal
      = [{ kind := .entity, key := [98], val := [78], all := [98, 61, 78] }] ∧
    (refKeys [eK 98 70]).filterMap (chosen [eK 98 70] [] [([98], none), ([98], some [78])]) = [] := by
  decide

/-- the span hypotheses of `wrap_spec` are needed: `.inc` stores `(-1, -1)` for a missing value
    (`#define k` + newline + `#define j x`): wrap keeps everything up to the last character of the FILE
    (finding C16-inc-reference-without-value) -/
example :
    let s : Array Nat := #[35, 100, 101, 102, 105, 110, 101, 32, 107, 10, 35, 100, 101, 102, 105, 110, 101, 32, 106, 32, 120]
    let e : P.Entry := { kind := .entity, full := 0, s := 0, e := 9, ks := 8, ke := 9, vs := -1, ve := -1 }
    (wrap (ofEntry .inc s e) [118]).all
      = [35, 100, 101, 102, 105, 110, 101, 32, 107, 10, 35, 100, 101, 102, 105, 110, 101, 32, 106, 32, 118] := by
  decide

/-! #### re-parse theorem: non-vacuity and negation witnesses -/

/-- the hypotheses of `serialize_reparses_properties_partial` hold for: reference `a=E ⏎ b=F ⏎ c=G ⏎`, old file
    `c=z ⏎ x=o ⏎ a=y ⏎` (reordered, obsolete key `x`, `b` missing), new data `{b: N w, c: None, u: U}` (value with an inner
    blank, a removal, an unknown key); the expected records are `a=y`, `b=N w` -/
example :
    ∃ t es, serializeText .properties (P.printProps [([97], [69]), ([98], [70]), ([99], [71])]).toArray
        (P.printProps [([99], [122]), ([120], [111]), ([97], [121])]).toArray
        [([98], some [78, 32, 119]), ([99], none), ([117], some [85])] = some t ∧
      P.walk .properties t.toArray = .done es ∧
      P.entitiesOf .properties t.toArray es = [P.expectedView ([97], [121]), P.expectedView ([98], [78, 32, 119])] ∧
      P.junkOf t.toArray es = [] := by
  have h := serialize_reparses_properties_partial [([97], [69]), ([98], [70]), ([99], [71])]
    [([99], [122]), ([120], [111]), ([97], [121])] [([98], some [78, 32, 119]), ([99], none), ([117], some [85])]
    (by intro r hr; simp at hr; rcases hr with rfl | rfl | rfl <;> constructor <;> simp [P.propsKeyChar])
    (by intro r hr; simp at hr; rcases hr with rfl | rfl | rfl <;> constructor <;> simp [P.propsKeyChar])
    (by decide) (by decide) (by decide)
    (by
      intro r hr v hm
      simp at hr hm
      rcases hr with rfl | rfl | rfl <;> simp at hm
      subst hm
      constructor <;> simp [P.propsKeyChar])
  have e : C16R.expectedRecs [([97], [69]), ([98], [70]), ([99], [71])] [([99], [122]), ([120], [111]), ([97], [121])]
      [([98], some [78, 32, 119]), ([99], none), ([117], some [85])] = [([97], [121]), ([98], [78, 32, 119])] := by decide
  rw [e] at h
  exact h

/-- NEGATION WITNESS for "the old file is printed from records" — known finding C16-old-eof-comment-glued: reference
    `a=E ⏎`, old file `#!` (a comment, no final newline: `PropertiesParser.walk` yields the one Comment entry), new data
    `{a: N}`.  The comment is not followed by white space (`serialized_shape` does not apply), the output text is
    `#!a=N ⏎`, and re-parsing it gives ONE comment and no entity: the new translation is swallowed. -/
example :
    P.walk .properties #[35, 33] = .done [{ kind := .comment, full := 0, s := 0, e := 2 }] ∧
    serializeLegacy (serializeEntsS [eK 97 69, wS 1] [cM 33] [([97], some [78])]) = [35, 33, 97, 61, 78, 10] ∧
    ¬ C16R.Alt Ent.isWs (serializeEntsS [eK 97 69, wS 1] [cM 33] [([97], some [78])]) ∧
    P.walk .properties #[35, 33, 97, 61, 78, 10] =
      .done [{ kind := .comment, full := 0, s := 0, e := 5 },
             { kind := .whitespace, full := 5, s := 5, e := 6, ks := 5, ke := 6, vs := 5, ve := 6 }] := by
  refine ⟨by decide, by decide, ?_, by decide⟩
  have e : serializeEntsS [eK 97 69, wS 1] [cM 33] [([97], some [78])]
      = [cM 33, { kind := .entity, key := [97], val := [78], all := [97, 61, 78] }, wS 1] := by decide
  rw [e]
  simp [C16R.Alt, C16R.hw, cM, wS, Ent.isWs]

/-- NEGATION WITNESS for "distinct keys in the old file" (`hok`): with `a=y ⏎ a=z ⏎` the dict of the old file keeps the
    LAST value (`a=z`, at the first position) while `expectedRec` looks the key up from the front -/
example :
    (serializeEntsS [eK 97 69, wS 1] [eK 97 121, wS 1, eK 97 122, wS 1] []).filter Ent.isReal = [eK 97 122] ∧
    C16R.expectedRecs [([97], [69])] [([97], [121]), ([97], [122])] [] = [([97], [121])] := by
  decide

/-- NEGATION WITNESS for "distinct keys in the reference" (`hrk`): `a=E ⏎ a=F ⏎` has ONE template entry for `a`; the
    output has one entity where `expectedRecs` lists one per reference record -/
example :
    (serializeEntsS [eK 97 69, wS 1, eK 97 70, wS 1] [] [([97], some [78])]).filter Ent.isReal
      = [{ kind := .entity, key := [97], val := [78], all := [97, 61, 78] }] ∧
    C16R.expectedRecs [([97], [69]), ([97], [70])] [] [([97], some [78])] = [([97], [78]), ([97], [78])] := by
  decide

/-- NEGATION WITNESSES for "new values are safe" (`hv`): `wrap` copies the raw value verbatim.  A value ending in a blank
    (`N␣`): the text `a=N␣⏎` re-parses with the value span 2..3, the blank is lost.  A value containing a newline
    (`N⏎x`): the text `a=N⏎x⏎` re-parses into the entity `a=N` followed by junk. -/
example : (wrap (eK 97 69) [78, 32]).all = [97, 61, 78, 32] ∧ (P.propsGetNext #[97, 61, 78, 32, 10] 0).ve = 3 := by decide
example : (wrap (eK 97 69) [78, 10, 120]).all = [97, 61, 78, 10, 120] ∧
    (P.propsGetNext #[97, 61, 78, 10, 120, 10] 0).e = 3 ∧ (P.propsGetNext #[97, 61, 78, 10, 120, 10] 4).kind = .junk := by decide

/-- `serialize_reparses_ini_partial`, non-vacuity: `[S]⏎ a=E ⏎ b=F ⏎`, old `[S]⏎ b= z ⏎ x=o ⏎` (value with a leading
    blank, obsolete key), new data `{a: N\ }` (trailing backslash and blank: fine in ini) -/
example :
    ∃ t es, serializeText .ini (C02X.printIni [83] [([97], [69]), ([98], [70])]).toArray
        (C02X.printIni [83] [([98], [32, 122]), ([120], [111])]).toArray [([97], some [78, 92, 32])] = some t ∧
      P.walk .ini t.toArray = .done es ∧
      P.entitiesOf .ini t.toArray es = [P.expectedView ([97], [78, 92, 32]), P.expectedView ([98], [32, 122])] ∧
      P.junkOf t.toArray es = [] := by
  have h := serialize_reparses_ini_partial [83] [([97], [69]), ([98], [70])] [([98], [32, 122]), ([120], [111])]
    [([97], some [78, 92, 32])] (by decide)
    (by intro r hr; simp at hr; rcases hr with rfl | rfl <;> constructor <;> simp)
    (by intro r hr; simp at hr; rcases hr with rfl | rfl <;> constructor <;> simp)
    (by decide) (by decide) (by decide)
    (by
      intro r hr v hm
      simp at hr hm
      rcases hr with rfl | rfl <;> simp at hm
      subst hm
      decide)
  have e : C16R.expectedRecs [([97], [69]), ([98], [70])] [([98], [32, 122]), ([120], [111])] [([97], some [78, 92, 32])]
      = [([97], [78, 92, 32]), ([98], [32, 122])] := by decide
  rw [e] at h
  exact h

/-- NEGATION WITNESS for "no key equals the section name" (`hrk`): `IniSection.key` is the section name and shares the dict
    of `parse_resource` with the entity keys.  Reference `[a]⏎ a=E ⏎`, new data `{a: N}`: the template has ONE entry for `a`
    (the entity's placeholder, at the position of the section), the output is `a=N ⏎` — the section header is LOST.
    The real code does the same (`serialize("x.ini", "[a]\na=E\n", …, {"a": "N"}) == b"a=N\n"`), see NOTES-C16. -/
example :
    serializeLegacy (serializeEntsS [{ kind := .other, key := [97], val := [97], all := [91, 97, 93] }, wS 1, eK 97 69, wS 1] []
      [([97], some [78])]) = [97, 61, 78, 10] := by
  decide

/-- NEGATION WITNESS for "same section name in the old file": the old file's section is an older-only key that follows no
    shared key, so it goes first; the output `[O]⏎[S]⏎a=y⏎` has two headers and the entities sit under the reference's one -/
example :
    serializeLegacy (serializeEntsS [{ kind := .other, key := [83], val := [83], all := [91, 83, 93] }, wS 1, eK 97 69, wS 1]
      [{ kind := .other, key := [79], val := [79], all := [91, 79, 93] }, wS 1, eK 97 121, wS 1] [])
      = [91, 79, 93, 10, 91, 83, 93, 10, 97, 61, 121, 10] := by
  decide


/-! #### round 4: witnesses and non-vacuity -/

def sT (k a : Nat) : Ent := { kind := .sticky, key := [k], val := [a], all := [60, k, a, 62] }

/-- `sticky_from_reference` / `sticky_kept`, non-vacuity: reference `<?r> <a r> ⏎ k=E ⏎`, old document `<?o> <a o> <b o> ⏎ k=y ⏎`
    (other declaration, other value of attribute `a`, an attribute `b` the reference does not have): the output has the
    REFERENCE's `<?r>` and `<a r>`, not `<b o>`, and the old value of `k` -/
example :
    serializeEntsS [sT 63 114, sT 97 114, wS 1, eK 107 69, wS 1] [sT 63 111, sT 97 111, sT 98 111, wS 1, eK 107 121, wS 1] []
      = [sT 63 114, sT 97 114, wS 1, eK 107 121, wS 1] := by
  decide

/-- NEGATION WITNESS for `hold` of `sticky_kept` (every old entry under the key is sticky): the old file has an obsolete
    ENTITY whose key is the key of a sticky reference entry (Android: `<string name="xmlns:a">` against the root attribute
    `xmlns:a`): the entity's placeholder wins the merge and is pruned — the reference's sticky entry is LOST.
    The real code does the same (probe `android.sticky_key_clash`). -/
example :
    serializeEntsS [sT 63 114, sT 97 114, wS 1, eK 107 69, wS 1] [sT 63 111, wS 1, eK 97 121, wS 1] []
      = [sT 63 114, wS 1] := by
  decide

/-- NEGATION WITNESS for `hkn` of `sticky_kept` (no reference Entity under the key): a reference entity `a=E` shares the key of
    the sticky entry and a new value is given for it: the new entity replaces the sticky entry -/
example :
    (serializeEntsS [eK 97 69, wS 1, sT 97 114, wS 1] [] [([97], some [78])]).map (·.kind) = [.entity, .whitespace] := by
  decide

/-- Fluent: reference comment `a⏎⏎b` is re-created as `# a⏎#⏎# b⏎` in front of the raw value -/
example : serializeComment [97, 10, 10, 98] = [35, 32, 97, 10, 35, 10, 35, 32, 98, 10] ∧
    C16W.commentContent [35, 32, 97, 10, 35, 10, 35, 32, 98, 10] = [97, 10, 10, 98] := by decide

/-- Android, finding C16-android-reference-markup: reference `<string name="k">Hello <b>E</b></string>` (a Text node and an
    Element, no CDATA): `wrap` assigns `.data` of the LAST child, an Element — nothing changes, the English text is emitted;
    with a Text node last (`Hello <b>E</b> tail`) only that node is replaced and `Hello <b>E</b>` stays -/
example :
    androidWrap [107] [] { open_ := [60, 115], tag := [115], children := [{ kind := .text, data := [72] }, { kind := .other, xml := [60, 98, 62] }] } [78]
      = .ok { kind := .entity, key := [107], val := [78], all := [60, 115, 62, 72, 60, 98, 62, 60, 47, 115, 62] } ∧
    androidWrap [107] [] { open_ := [60, 115], tag := [115], children := [{ kind := .text, data := [72] }, { kind := .other, xml := [60, 98, 62] }, { kind := .text, data := [116] }] } [78]
      = .ok { kind := .entity, key := [107], val := [78], all := [60, 115, 62, 72, 60, 98, 62, 78, 60, 47, 115, 62] } :=
  ⟨rfl, rfl⟩

/-- Android: a value that needs escaping, `a&"<` → `a&amp;&quot;&lt;` -/
example : xmlEscape [97, 38, 34, 60] = [97, 38, 97, 109, 112, 59, 38, 113, 117, 111, 116, 59, 38, 108, 116, 59] := by decide

/-- `serialize_reparses_dtd_partial`, non-vacuity: reference `a b c`, old file `c x a` (reordered, obsolete `x`, `b` missing),
    new data `{b: N w, c: None, u: U}`: expected records `a=y`, `b=N w` -/
example :
    ∃ t es, serializeText .dtd (C02X.printDtd [([97], [69]), ([98], [70]), ([99], [71])]).toArray
        (C02X.printDtd [([99], [122]), ([120], [111]), ([97], [121])]).toArray
        [([98], some [78, 32, 119]), ([99], none), ([117], some [85])] = some t ∧
      P.walk .dtd t.toArray = .done es ∧
      P.entitiesOf .dtd t.toArray es = [P.expectedView ([97], [121]), P.expectedView ([98], [78, 32, 119])] ∧
      P.junkOf t.toArray es = [] := by
  have hs : ∀ k v : Nat, (k = 97 ∨ k = 98 ∨ k = 99 ∨ k = 120) → v ≠ 34 → v ≠ 38 → C02X.SafeDtdRec ([k], [v]) := by
    intro k v hk h1 h2
    rcases hk with rfl | rfl | rfl | rfl <;>
      exact ⟨by simp, by intro c hc; simp at hc; subst hc; decide, by intro c hc; simp at hc; subst hc; decide,
        by intro c hc; simp at hc; subst hc; exact ⟨h1, h2⟩⟩
  have h := serialize_reparses_dtd_partial [([97], [69]), ([98], [70]), ([99], [71])]
    [([99], [122]), ([120], [111]), ([97], [121])] [([98], some [78, 32, 119]), ([99], none), ([117], some [85])]
    (by intro r hr; simp at hr; rcases hr with rfl | rfl | rfl <;> exact hs _ _ (by simp) (by decide) (by decide))
    (by intro r hr; simp at hr; rcases hr with rfl | rfl | rfl <;> exact hs _ _ (by simp) (by decide) (by decide))
    (by decide) (by decide) (by decide)
    (by
      intro r hr v hm
      simp at hr hm
      rcases hr with rfl | rfl | rfl <;> simp at hm
      subst hm
      exact ⟨by simp, by intro c hc; simp at hc; subst hc; decide, by intro c hc; simp at hc; subst hc; decide,
        by intro c hc; simp at hc; rcases hc with rfl | rfl | rfl <;> decide⟩)
  have e : C16R.expectedRecs [([97], [69]), ([98], [70]), ([99], [71])] [([99], [122]), ([120], [111]), ([97], [121])]
      [([98], some [78, 32, 119]), ([99], none), ([117], some [85])] = [([97], [121]), ([98], [78, 32, 119])] := by decide
  rw [e] at h
  exact h

/-- NEGATION WITNESS for "new values contain no `"`" — known finding C16-dtd-quote-conflict: `wrap` copies the value verbatim
    between the reference's quotes; `<!ENTITY a "x"y">` no longer matches the entity pattern -/
example :
    (wrap (C16G.entF C16G.dtdF ([97], [69])) [120, 34, 121]).all
      = [60, 33, 69, 78, 84, 73, 84, 89, 32, 97, 32, 34, 120, 34, 121, 34, 62] := by decide

/-- `serialize_reparses_inc_partial`: the hypotheses about the head are needed (finding C16-inc-leading-blank) — the old file
    starts with an OBSOLETE key: its placeholder is pruned, its newline stays in front of the first entity -/
example :
    (serializeEntsS [eK 97 69, wS 1] [eK 120 111, wS 1, eK 97 121, wS 1] []).map (·.kind) = [.whitespace, .entity, .whitespace] := by
  decide

/-- NEGATION WITNESS for "a LEADING blank of a new `.properties` value survives": `a=` + ` N` re-parses with the value span
    starting after the blank -/
example : (wrap (eK 97 69) [32, 78]).all = [97, 61, 32, 78] ∧ (P.propsGetNext #[97, 61, 32, 78, 10] 0).vs = 3 := by decide

end Examples

end C16

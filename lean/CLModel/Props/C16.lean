/-
C16 — Serializer writes exactly the requested translations, in reference order.
Property theorems only (helper lemmas live in CLModel/Proofs/C16*.lean).

Vocabulary (CLModel/Proofs/C16Ser.lean, C16Cor.lean), for a reference entry list `ref`, an old
localization `old` and a new-data dict `nd` (association list, `none` = Python `None`):
  `refKeys ref`        keys of the non-junk reference entries keyed by `.key`, first occurrences in order
  `known ref s`        `s in ref_mapping` (some reference *Entity* has key `s`)
  `oldEntry old s`     the last non-junk old entry keyed by `s` (what `OrderedDict(pairs)[s]` holds)
  `removed nd s`       `s in new_data and new_data[s] is None`
  `given ref nd s`     `new_data[s]` is a value and `s in ref_mapping`
  `kept ref old nd s`  `oldEntry old s` is a real Entity, `s in ref_mapping`, not `removed`
  `newValue ref nd s`  `ref_mapping[s].wrap(new_data[s])` when `given`
  `chosen ref old nd s` = `newValue …` if defined, else `oldEntry old s` if `kept`
`Ent.isReal` = Entity that is not a PlaceholderEntity.

Vocabulary of the re-parse theorem `serialize_reparses_properties_partial` (CLModel/Proofs/C02Roundtrip.lean, C16RText.lean):
  `P.printProps rs`                the file `key=value⏎` per record (C02)
  `P.SafeRec (key, value)`         non-empty key without `# ! = :` / white-space; value without backslash / newline that neither
                                   starts nor ends in a blank (nor ends in CR) — the class of C02.roundtrip_properties_partial
  `C16R.expectedRec old nd r`      for the reference record `r`: `(r.key, v)` if `new_data[r.key] = v`; nothing if it is `None`;
                                   else the record of `old` with that key, if any
  `C16R.expectedRecs ref old nd`   `ref.filterMap (expectedRec old nd)`: reference order
-/
import CLModel.Serialize.Serializer
import CLModel.Proofs.C16Ser
import CLModel.Proofs.C16Cor
import CLModel.Proofs.C16Wrap
import CLModel.Proofs.C16RText
import CLModel.Proofs.C16RIni
namespace C16
open AR Ser C16L

/-- Closed form of what `serialize` emits.  For ALL entry lists `ref`, `old` and every dict `nd`:
    the entities of the pruned entry list (whose texts are concatenated into the file) are exactly,
    for each reference key in reference order, the entity `chosen` for it: the reference entity
    wrapped around the new value if one was given, otherwise the old entity if it is still a
    reference key and not marked for removal, otherwise nothing. -/
theorem serialized_entities (ref old : List Ent) (nd : NewData) (hnd : (nd.map (·.1)).Nodup) :
    (serializeEnts ref old nd).filter Ent.isReal = (refKeys ref).filterMap (chosen ref old nd) :=
  C16L.serialized_entities ref old nd hnd

/-- "entities are exactly the reference keys having a new value or an old localized value not
    marked for removal, in reference order" -/
theorem serialized_keys (ref old : List Ent) (nd : NewData) (hnd : (nd.map (·.1)).Nodup) :
    ((serializeEnts ref old nd).filter Ent.isReal).map (·.key)
      = (refKeys ref).filter (fun s => given ref nd s || kept ref old nd s) :=
  C16L.serialized_keys ref old nd hnd

/-- "each carrying the new value if one was given and the old one otherwise": an emitted entity whose
    key has a new value has that raw value and the reference entity's text around it; any other
    emitted entity IS the old localization's entity for that key. -/
theorem serialized_values (ref old : List Ent) (nd : NewData) (hnd : (nd.map (·.1)).Nodup) :
    ∀ e ∈ (serializeEnts ref old nd).filter Ent.isReal,
      match dget nd e.key with
      | some (some v) => e.val = v ∧ ∃ r, dget (refMapping ref) e.key = some r ∧ e.all = r.pre ++ v ++ r.post
      | _ => oldEntry old e.key = some e :=
  C16L.serialized_values ref old nd hnd

/-- "No reference (English) value, obsolete key, removed key or junk from the old file appears":
    every entry of the output is not a placeholder, not junk, and is either a wrapped new value,
    or an entry of the old file that `sanitize_old` keeps (for an Entity: key known and not removed),
    or a reference entry that is not an Entity (comment, whitespace, section). -/
theorem nothing_foreign (ref old : List Ent) (nd : NewData) :
    ∀ e ∈ serializeEnts ref old nd,
      e.isPlaceholder = false ∧ e.isJunk = false ∧
      ((e ∈ newL10n (refMapping ref) nd) ∨
       (e ∈ old ∧ shouldPlaceholder ((refMapping ref).map (·.1)) nd e = false) ∨
       (e ∈ ref ∧ e.isEntity = false)) :=
  C16L.nothing_foreign ref old nd

/-- no PlaceholderEntity survives `prune_placeholders` -/
theorem no_placeholder (ref old : List Ent) (nd : NewData) :
    ∀ e ∈ serializeEnts ref old nd, e.isPlaceholder = false :=
  C16L.no_placeholder ref old nd

/-- `Entity.wrap`: for an entity whose value span lies inside its span (`_span_start ≤ vs ≤ ve ≤ end`),
    the entity's text is prefix ++ value ++ suffix and the wrapped entity's text is
    prefix ++ new value ++ suffix, with the same key and the new raw value. -/
theorem wrap_spec (f : P.Fmt) (s : Array Nat) (e : P.Entry) (v : List Nat) (a b : Nat)
    (hk : e.kind = .entity) (hvs : e.vs = (a : Int)) (hve : e.ve = (b : Int))
    (h1 : e.full ≤ a) (h2 : a ≤ b) (h3 : b ≤ e.e) (h4 : e.e ≤ s.size) :
    (ofEntry f s e).all = P.slice s e.full a ++ P.slice s a b ++ P.slice s b e.e ∧
    (ofEntry f s e).val = P.slice s a b ∧
    (wrap (ofEntry f s e) v).all = P.slice s e.full a ++ v ++ P.slice s b e.e ∧
    (wrap (ofEntry f s e) v).val = v ∧
    (wrap (ofEntry f s e) v).key = (ofEntry f s e).key ∧
    (wrap (ofEntry f s e) v).isReal = true :=
  C16L.wrap_spec f s e v a b hk hvs hve h1 h2 h3 h4

/-- `ref.wrap(ref.unwrap())` reproduces the entity's text -/
theorem wrap_unwrap (f : P.Fmt) (s : Array Nat) (e : P.Entry) (a b : Nat)
    (hk : e.kind = .entity) (hvs : e.vs = (a : Int)) (hve : e.ve = (b : Int))
    (h1 : e.full ≤ a) (h2 : a ≤ b) (h3 : b ≤ e.e) (h4 : e.e ≤ s.size) :
    (wrap (ofEntry f s e) (ofEntry f s e).val).all = (ofEntry f s e).all :=
  C16L.wrap_unwrap f s e a b hk hvs hve h1 h2 h3 h4

/-- "serializing the output again with no new data yields the same entities" (entry level: the old
    localization of the second run is the entry list of the first; that re-parsing the text gives
    these entries back is checked by correspondence and by the oracle). -/
theorem idempotent_entities (ref old : List Ent) (nd : NewData) (hnd : (nd.map (·.1)).Nodup) :
    (serializeEnts ref (serializeEnts ref old nd) []).filter Ent.isReal
      = (serializeEnts ref old nd).filter Ent.isReal :=
  C16L.idempotent_entities ref old nd hnd

/-
Not proved (`reparse`): "the produced text parses without junk".  It is a statement about the parser
on the concatenated texts; it is checked by the oracle with the real parsers for all six formats and
by the end-to-end correspondence.  For `.inc` it is FALSE whenever the pruned list starts with a
whitespace entry (finding C16-inc-leading-blank, F10): the example `leading_blank` below.
-/

/-- RE-PARSE, `.properties`, printed safe records.  Take ANY reference file and ANY old localization printed from safe
    records (`key=value⏎` per record, distinct keys per file; the old file may have obsolete keys, lack reference keys and be
    in any order) and ANY `new_data` dict whose values for reference keys are safe.  Then `serialize` — the model run end to
    end: both texts parsed by `PropertiesParser.walk`, `serialize`, `serialize_legacy_resource` — returns a text `t` that
    `PropertiesParser.walk` parses, WITHOUT JUNK, into exactly one entity per expected record, in reference order: the
    reference keys having a new value or an old value not marked for removal; key = the reference key, raw value = value =
    the new value if one was given, else the old one; no comment attached.
    Proof route: C02 round trip (the walk of a printed file is known) → `wrap_spec` on these entries → `serialized_entities`
    → every entry of the output that is not whitespace is directly followed by a white-space entry (`C16R.serializeEnts_alt`:
    this shape survives the closed form of `AddRemove`, both `merge_two` reduces and `prune_placeholders`) → the text is a
    sequence of printed records and newlines → `C04R.walk_toks`.
    FULL statement (not proved): all six formats, comments, blank lines, junk and a missing final newline in the old file,
    all legal layouts.  The class excludes the inputs of the known findings (see the witnesses below). -/
theorem serialize_reparses_properties_partial (refRecs oldRecs : List P.PRec) (nd : NewData)
    (href : ∀ r ∈ refRecs, P.SafeRec r) (hold : ∀ r ∈ oldRecs, P.SafeRec r)
    (hrk : (refRecs.map (·.1)).Nodup) (hok : (oldRecs.map (·.1)).Nodup) (hnd : (nd.map (·.1)).Nodup)
    (hv : ∀ r ∈ refRecs, ∀ v, (r.1, some v) ∈ nd → P.SafeRec (r.1, v)) :
    ∃ t es, serializeText .properties (P.printProps refRecs).toArray (P.printProps oldRecs).toArray nd = some t ∧
      P.walk .properties t.toArray = .done es ∧
      P.entitiesOf .properties t.toArray es = (C16R.expectedRecs refRecs oldRecs nd).map P.expectedView ∧
      P.junkOf t.toArray es = [] :=
  C16R.serialize_reparses refRecs oldRecs nd href hold hrk hok hnd hv

/-- RE-PARSE, `.ini`, printed safe records.  Reference `[sec]⏎` + `key=value⏎` per record and old localization of the same
    form with the SAME section name (`C02X.printIni`; safe ini records: key non-empty, without `=` / newline, not starting
    with `[ ; #` or white-space; value without newline — blanks at either end, backslashes, `#` are fine), distinct keys per
    file, none equal to the section name; `new_data` a dict whose values for reference keys contain no newline.  Then the text
    `serialize` returns is parsed by `IniParser.walk`, WITHOUT JUNK, into the section entry and exactly one entity per
    expected record (`C16R.expectedRecs`, as for `.properties`), in reference order.
    Additional step of the proof: the output starts with the section entry (`C16R.serializeEnts_head`: the key diff starts
    with the first template key when the old dict starts with the same key) and contains no second one (dict keys are unique).
    FULL statement (not proved): no section / several sections / another section name in the old file, comments, blank lines. -/
theorem serialize_reparses_ini_partial (sec : List Nat) (refRecs oldRecs : List P.PRec) (nd : NewData)
    (hsec : ∀ c ∈ sec, c ≠ 93 ∧ c ≠ 10)
    (href : ∀ r ∈ refRecs, C02X.SafeIniRec r) (hold : ∀ r ∈ oldRecs, C02X.SafeIniRec r)
    (hrk : (sec :: refRecs.map (·.1)).Nodup) (hok : (sec :: oldRecs.map (·.1)).Nodup) (hnd : (nd.map (·.1)).Nodup)
    (hv : ∀ r ∈ refRecs, ∀ v, (r.1, some v) ∈ nd → ∀ c ∈ v, c ≠ 10) :
    ∃ t es, serializeText .ini (C02X.printIni sec refRecs).toArray (C02X.printIni sec oldRecs).toArray nd = some t ∧
      P.walk .ini t.toArray = .done es ∧
      P.entitiesOf .ini t.toArray es = (C16R.expectedRecs refRecs oldRecs nd).map P.expectedView ∧
      P.junkOf t.toArray es = [] :=
  C16R.serialize_reparses_ini sec refRecs oldRecs nd hsec href hold hrk hok hnd hv

/-- the same for a NEW localization: the old file is empty (no section header there); the expected records are the
    reference keys that have a new value -/
theorem serialize_reparses_ini_new_partial (sec : List Nat) (refRecs : List P.PRec) (nd : NewData)
    (hsec : ∀ c ∈ sec, c ≠ 93 ∧ c ≠ 10) (href : ∀ r ∈ refRecs, C02X.SafeIniRec r)
    (hrk : (sec :: refRecs.map (·.1)).Nodup) (hnd : (nd.map (·.1)).Nodup)
    (hv : ∀ r ∈ refRecs, ∀ v, (r.1, some v) ∈ nd → ∀ c ∈ v, c ≠ 10) :
    ∃ t es, serializeText .ini (C02X.printIni sec refRecs).toArray #[] nd = some t ∧
      P.walk .ini t.toArray = .done es ∧
      P.entitiesOf .ini t.toArray es = (C16R.expectedRecs refRecs [] nd).map P.expectedView ∧
      P.junkOf t.toArray es = [] :=
  C16R.serialize_reparses_ini_new sec refRecs nd hsec href hrk hnd hv

/-- the shape behind it, for ALL entry lists: if in the template dict and in the dict of the sanitized old localization
    every key that is not a Whitespace object is directly followed by one (every entry is followed by white space), the
    same holds for the serialized entry list — no entity is glued to the entry before or after it. -/
theorem serialized_shape (ref old : List Ent) (nd : NewData)
    (h0 : C16R.Alt C16R.wsKey (dkeys (d0Of ref))) (h1 : C16R.Alt C16R.wsKey (dkeys (d1Of ref old nd))) :
    C16R.Alt Ent.isWs (serializeEnts ref old nd) :=
  C16R.serializeEnts_alt ref old nd h0 h1

/-! ### non-vacuity and witnesses -/

section Examples

def eK (k v : Nat) : Ent := { kind := .entity, key := [k], val := [v], all := [k, 61, v], pre := [k, 61], post := [] }
def wS (n : Nat) : Ent := { kind := .whitespace, key := [], val := List.replicate n 10, all := List.replicate n 10 }
def cM (t : Nat) : Ent := { kind := .comment, key := [t], val := [], all := [35, t] }
def jK : Ent := { kind := .junk, key := [], val := [63], all := [63] }

/-- reference `a=E ⏎ b=F ⏎ c=G ⏎`, old file `c=z ⏎ # ⏎ x=o ⏎ ? a=y` (reordered, with an obsolete
    key, a comment and junk), new data `{b: N, c: None, u: U}`:
    the model itself (no theorem used) gives `a=y ⏎ b=N ⏎ #` … -/
example :
    serializeEntsS [eK 97 69, wS 1, eK 98 70, wS 1, eK 99 71, wS 1]
      [eK 99 122, wS 1, cM 33, wS 2, eK 120 111, wS 1, jK, eK 97 121]
      [([98], some [78]), ([99], none), ([117], some [85])]
    = [eK 97 121, wS 1, { kind := .entity, key := [98], val := [78], all := [98, 61, 78] }, wS 1, cM 33, wS 2] := by
  decide

/-- … and the closed form on the same input: entities `a` (old value) and `b` (new value), in reference order -/
example :
    (serializeEnts [eK 97 69, wS 1, eK 98 70, wS 1, eK 99 71, wS 1]
      [eK 99 122, wS 1, cM 33, wS 2, eK 120 111, wS 1, jK, eK 97 121]
      [([98], some [78]), ([99], none), ([117], some [85])]).filter Ent.isReal
    = [eK 97 121, { kind := .entity, key := [98], val := [78], all := [98, 61, 78] }] := by
  rw [serialized_entities _ _ _ (by decide)]
  decide

/-- finding F10 at the entry level: the first reference entry is not emitted, so the output starts with
    the reference's whitespace entry — a blank line, which `DefinesParser` reports as Junk -/
example : (serializeEntsS [eK 97 69, wS 1, eK 98 70, wS 1] [] [([98], some [78])]).map (·.kind)
    = [.whitespace, .entity, .whitespace] ∧
    serializeLegacy (serializeEntsS [eK 97 69, wS 1, eK 98 70, wS 1] [] [([98], some [78])]) = [10, 98, 61, 78, 10] := by
  decide

/-- `hnd` is needed: a "dict" with a repeated key is not a dict.  With `[(b, None), (b, N)]` the loop
    building `new_l10n` creates the entity while `should_placeholder`/`chosen` see the first item. -/
example :
    (serializeEntsS [eK 98 70] [] [([98], none), ([98], some [78])]).filter Ent.isReal
      = [{ kind := .entity, key := [98], val := [78], all := [98, 61, 78] }] ∧
    (refKeys [eK 98 70]).filterMap (chosen [eK 98 70] [] [([98], none), ([98], some [78])]) = [] := by
  decide

/-- the span hypotheses of `wrap_spec` are needed: `.inc` stores `(-1, -1)` for a missing value
    (`#define k` + newline + `#define j x`): wrap keeps everything up to the last character of the FILE
    (finding C16-inc-reference-without-value) -/
example :
    let s : Array Nat := #[35, 100, 101, 102, 105, 110, 101, 32, 107, 10, 35, 100, 101, 102, 105, 110, 101, 32, 106, 32, 120]
    let e : P.Entry := { kind := .entity, full := 0, s := 0, e := 9, ks := 8, ke := 9, vs := -1, ve := -1 }
    (wrap (ofEntry .inc s e) [118]).all
      = [35, 100, 101, 102, 105, 110, 101, 32, 107, 10, 35, 100, 101, 102, 105, 110, 101, 32, 106, 32, 118] := by
  decide

/-! #### re-parse theorem: non-vacuity and negation witnesses -/

/-- the hypotheses of `serialize_reparses_properties_partial` hold for: reference `a=E ⏎ b=F ⏎ c=G ⏎`, old file
    `c=z ⏎ x=o ⏎ a=y ⏎` (reordered, obsolete key `x`, `b` missing), new data `{b: N w, c: None, u: U}` (value with an inner
    blank, a removal, an unknown key); the expected records are `a=y`, `b=N w` -/
example :
    ∃ t es, serializeText .properties (P.printProps [([97], [69]), ([98], [70]), ([99], [71])]).toArray
        (P.printProps [([99], [122]), ([120], [111]), ([97], [121])]).toArray
        [([98], some [78, 32, 119]), ([99], none), ([117], some [85])] = some t ∧
      P.walk .properties t.toArray = .done es ∧
      P.entitiesOf .properties t.toArray es = [P.expectedView ([97], [121]), P.expectedView ([98], [78, 32, 119])] ∧
      P.junkOf t.toArray es = [] := by
  have h := serialize_reparses_properties_partial [([97], [69]), ([98], [70]), ([99], [71])]
    [([99], [122]), ([120], [111]), ([97], [121])] [([98], some [78, 32, 119]), ([99], none), ([117], some [85])]
    (by intro r hr; simp at hr; rcases hr with rfl | rfl | rfl <;> constructor <;> simp [P.propsKeyChar])
    (by intro r hr; simp at hr; rcases hr with rfl | rfl | rfl <;> constructor <;> simp [P.propsKeyChar])
    (by decide) (by decide) (by decide)
    (by
      intro r hr v hm
      simp at hr hm
      rcases hr with rfl | rfl | rfl <;> simp at hm
      subst hm
      constructor <;> simp [P.propsKeyChar])
  have e : C16R.expectedRecs [([97], [69]), ([98], [70]), ([99], [71])] [([99], [122]), ([120], [111]), ([97], [121])]
      [([98], some [78, 32, 119]), ([99], none), ([117], some [85])] = [([97], [121]), ([98], [78, 32, 119])] := by decide
  rw [e] at h
  exact h

/-- NEGATION WITNESS for "the old file is printed from records" — known finding C16-old-eof-comment-glued: reference
    `a=E ⏎`, old file `#!` (a comment, no final newline: `PropertiesParser.walk` yields the one Comment entry), new data
    `{a: N}`.  The comment is not followed by white space (`serialized_shape` does not apply), the output text is
    `#!a=N ⏎`, and re-parsing it gives ONE comment and no entity: the new translation is swallowed. -/
example :
    P.walk .properties #[35, 33] = .done [{ kind := .comment, full := 0, s := 0, e := 2 }] ∧
    serializeLegacy (serializeEntsS [eK 97 69, wS 1] [cM 33] [([97], some [78])]) = [35, 33, 97, 61, 78, 10] ∧
    ¬ C16R.Alt Ent.isWs (serializeEntsS [eK 97 69, wS 1] [cM 33] [([97], some [78])]) ∧
    P.walk .properties #[35, 33, 97, 61, 78, 10] =
      .done [{ kind := .comment, full := 0, s := 0, e := 5 },
             { kind := .whitespace, full := 5, s := 5, e := 6, ks := 5, ke := 6, vs := 5, ve := 6 }] := by
  refine ⟨by decide, by decide, ?_, by decide⟩
  have e : serializeEntsS [eK 97 69, wS 1] [cM 33] [([97], some [78])]
      = [cM 33, { kind := .entity, key := [97], val := [78], all := [97, 61, 78] }, wS 1] := by decide
  rw [e]
  simp [C16R.Alt, C16R.hw, cM, wS, Ent.isWs]

/-- NEGATION WITNESS for "distinct keys in the old file" (`hok`): with `a=y ⏎ a=z ⏎` the dict of the old file keeps the
    LAST value (`a=z`, at the first position) while `expectedRec` looks the key up from the front -/
example :
    (serializeEntsS [eK 97 69, wS 1] [eK 97 121, wS 1, eK 97 122, wS 1] []).filter Ent.isReal = [eK 97 122] ∧
    C16R.expectedRecs [([97], [69])] [([97], [121]), ([97], [122])] [] = [([97], [121])] := by
  decide

/-- NEGATION WITNESS for "distinct keys in the reference" (`hrk`): `a=E ⏎ a=F ⏎` has ONE template entry for `a`; the
    output has one entity where `expectedRecs` lists one per reference record -/
example :
    (serializeEntsS [eK 97 69, wS 1, eK 97 70, wS 1] [] [([97], some [78])]).filter Ent.isReal
      = [{ kind := .entity, key := [97], val := [78], all := [97, 61, 78] }] ∧
    C16R.expectedRecs [([97], [69]), ([97], [70])] [] [([97], some [78])] = [([97], [78]), ([97], [78])] := by
  decide

/-- NEGATION WITNESSES for "new values are safe" (`hv`): `wrap` copies the raw value verbatim.  A value ending in a blank
    (`N␣`): the text `a=N␣⏎` re-parses with the value span 2..3, the blank is lost.  A value containing a newline
    (`N⏎x`): the text `a=N⏎x⏎` re-parses into the entity `a=N` followed by junk. -/
example : (wrap (eK 97 69) [78, 32]).all = [97, 61, 78, 32] ∧ (P.propsGetNext #[97, 61, 78, 32, 10] 0).ve = 3 := by decide
example : (wrap (eK 97 69) [78, 10, 120]).all = [97, 61, 78, 10, 120] ∧
    (P.propsGetNext #[97, 61, 78, 10, 120, 10] 0).e = 3 ∧ (P.propsGetNext #[97, 61, 78, 10, 120, 10] 4).kind = .junk := by decide

/-- `serialize_reparses_ini_partial`, non-vacuity: `[S]⏎ a=E ⏎ b=F ⏎`, old `[S]⏎ b= z ⏎ x=o ⏎` (value with a leading
    blank, obsolete key), new data `{a: N\ }` (trailing backslash and blank: fine in ini) -/
example :
    ∃ t es, serializeText .ini (C02X.printIni [83] [([97], [69]), ([98], [70])]).toArray
        (C02X.printIni [83] [([98], [32, 122]), ([120], [111])]).toArray [([97], some [78, 92, 32])] = some t ∧
      P.walk .ini t.toArray = .done es ∧
      P.entitiesOf .ini t.toArray es = [P.expectedView ([97], [78, 92, 32]), P.expectedView ([98], [32, 122])] ∧
      P.junkOf t.toArray es = [] := by
  have h := serialize_reparses_ini_partial [83] [([97], [69]), ([98], [70])] [([98], [32, 122]), ([120], [111])]
    [([97], some [78, 92, 32])] (by decide)
    (by intro r hr; simp at hr; rcases hr with rfl | rfl <;> constructor <;> simp)
    (by intro r hr; simp at hr; rcases hr with rfl | rfl <;> constructor <;> simp)
    (by decide) (by decide) (by decide)
    (by
      intro r hr v hm
      simp at hr hm
      rcases hr with rfl | rfl <;> simp at hm
      subst hm
      decide)
  have e : C16R.expectedRecs [([97], [69]), ([98], [70])] [([98], [32, 122]), ([120], [111])] [([97], some [78, 92, 32])]
      = [([97], [78, 92, 32]), ([98], [32, 122])] := by decide
  rw [e] at h
  exact h

/-- NEGATION WITNESS for "no key equals the section name" (`hrk`): `IniSection.key` is the section name and shares the dict
    of `parse_resource` with the entity keys.  Reference `[a]⏎ a=E ⏎`, new data `{a: N}`: the template has ONE entry for `a`
    (the entity's placeholder, at the position of the section), the output is `a=N ⏎` — the section header is LOST.
    The real code does the same (`serialize("x.ini", "[a]\na=E\n", …, {"a": "N"}) == b"a=N\n"`), see NOTES-C16. -/
example :
    serializeLegacy (serializeEntsS [{ kind := .other, key := [97], val := [97], all := [91, 97, 93] }, wS 1, eK 97 69, wS 1] []
      [([97], some [78])]) = [97, 61, 78, 10] := by
  decide

/-- NEGATION WITNESS for "same section name in the old file": the old file's section is an older-only key that follows no
    shared key, so it goes first; the output `[O]⏎[S]⏎a=y⏎` has two headers and the entities sit under the reference's one -/
example :
    serializeLegacy (serializeEntsS [{ kind := .other, key := [83], val := [83], all := [91, 83, 93] }, wS 1, eK 97 69, wS 1]
      [{ kind := .other, key := [79], val := [79], all := [91, 79, 93] }, wS 1, eK 97 121, wS 1] [])
      = [91, 79, 93, 10, 91, 83, 93, 10, 97, 61, 121, 10] := by
  decide

end Examples

end C16

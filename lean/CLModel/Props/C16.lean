/-
C16 — Serializer writes exactly the requested translations, in reference order.
Property theorems only (helper lemmas live in CLModel/Proofs/C16*.lean).

Vocabulary (CLModel/Proofs/C16Ser.lean, C16Cor.lean), for a reference entry list `ref`, an old
localization `old` and a new-data dict `nd` (association list, `none` = Python `None`):
  `refKeys ref`        keys of the non-junk reference entries keyed by `.key`, first occurrences in order
  `known ref s`        `s in ref_mapping` (some reference *Entity* has key `s`)
  `oldEntry old s`     the last non-junk old entry keyed by `s` (what `OrderedDict(pairs)[s]` holds)
  `removed nd s`       `s in new_data and new_data[s] is None`
  `given ref nd s`     `new_data[s]` is a value and `s in ref_mapping`
  `kept ref old nd s`  `oldEntry old s` is a real Entity, `s in ref_mapping`, not `removed`
  `newValue ref nd s`  `ref_mapping[s].wrap(new_data[s])` when `given`
  `chosen ref old nd s` = `newValue …` if defined, else `oldEntry old s` if `kept`
`Ent.isReal` = Entity that is not a PlaceholderEntity.
-/
import CLModel.Serialize.Serializer
import CLModel.Proofs.C16Ser
import CLModel.Proofs.C16Cor
import CLModel.Proofs.C16Wrap
namespace C16
open AR Ser C16L

/-- Closed form of what `serialize` emits.  For ALL entry lists `ref`, `old` and every dict `nd`:
    the entities of the pruned entry list (whose texts are concatenated into the file) are exactly,
    for each reference key in reference order, the entity `chosen` for it: the reference entity
    wrapped around the new value if one was given, otherwise the old entity if it is still a
    reference key and not marked for removal, otherwise nothing. -/
theorem serialized_entities (ref old : List Ent) (nd : NewData) (hnd : (nd.map (·.1)).Nodup) :
    (serializeEnts ref old nd).filter Ent.isReal = (refKeys ref).filterMap (chosen ref old nd) :=
  C16L.serialized_entities ref old nd hnd

/-- "entities are exactly the reference keys having a new value or an old localized value not
    marked for removal, in reference order" -/
theorem serialized_keys (ref old : List Ent) (nd : NewData) (hnd : (nd.map (·.1)).Nodup) :
    ((serializeEnts ref old nd).filter Ent.isReal).map (·.key)
      = (refKeys ref).filter (fun s => given ref nd s || kept ref old nd s) :=
  C16L.serialized_keys ref old nd hnd

/-- "each carrying the new value if one was given and the old one otherwise": an emitted entity whose
    key has a new value has that raw value and the reference entity's text around it; any other
    emitted entity IS the old localization's entity for that key. -/
theorem serialized_values (ref old : List Ent) (nd : NewData) (hnd : (nd.map (·.1)).Nodup) :
    ∀ e ∈ (serializeEnts ref old nd).filter Ent.isReal,
      match dget nd e.key with
      | some (some v) => e.val = v ∧ ∃ r, dget (refMapping ref) e.key = some r ∧ e.all = r.pre ++ v ++ r.post
      | _ => oldEntry old e.key = some e :=
  C16L.serialized_values ref old nd hnd

/-- "No reference (English) value, obsolete key, removed key or junk from the old file appears":
    every entry of the output is not a placeholder, not junk, and is either a wrapped new value,
    or an entry of the old file that `sanitize_old` keeps (for an Entity: key known and not removed),
    or a reference entry that is not an Entity (comment, whitespace, section). -/
theorem nothing_foreign (ref old : List Ent) (nd : NewData) :
    ∀ e ∈ serializeEnts ref old nd,
      e.isPlaceholder = false ∧ e.isJunk = false ∧
      ((e ∈ newL10n (refMapping ref) nd) ∨
       (e ∈ old ∧ shouldPlaceholder ((refMapping ref).map (·.1)) nd e = false) ∨
       (e ∈ ref ∧ e.isEntity = false)) :=
  C16L.nothing_foreign ref old nd

/-- no PlaceholderEntity survives `prune_placeholders` -/
theorem no_placeholder (ref old : List Ent) (nd : NewData) :
    ∀ e ∈ serializeEnts ref old nd, e.isPlaceholder = false :=
  C16L.no_placeholder ref old nd

/-- `Entity.wrap`: for an entity whose value span lies inside its span (`_span_start ≤ vs ≤ ve ≤ end`),
    the entity's text is prefix ++ value ++ suffix and the wrapped entity's text is
    prefix ++ new value ++ suffix, with the same key and the new raw value. -/
theorem wrap_spec (f : P.Fmt) (s : Array Nat) (e : P.Entry) (v : List Nat) (a b : Nat)
    (hk : e.kind = .entity) (hvs : e.vs = (a : Int)) (hve : e.ve = (b : Int))
    (h1 : e.full ≤ a) (h2 : a ≤ b) (h3 : b ≤ e.e) (h4 : e.e ≤ s.size) :
    (ofEntry f s e).all = P.slice s e.full a ++ P.slice s a b ++ P.slice s b e.e ∧
    (ofEntry f s e).val = P.slice s a b ∧
    (wrap (ofEntry f s e) v).all = P.slice s e.full a ++ v ++ P.slice s b e.e ∧
    (wrap (ofEntry f s e) v).val = v ∧
    (wrap (ofEntry f s e) v).key = (ofEntry f s e).key ∧
    (wrap (ofEntry f s e) v).isReal = true :=
  C16L.wrap_spec f s e v a b hk hvs hve h1 h2 h3 h4

/-- `ref.wrap(ref.unwrap())` reproduces the entity's text -/
theorem wrap_unwrap (f : P.Fmt) (s : Array Nat) (e : P.Entry) (a b : Nat)
    (hk : e.kind = .entity) (hvs : e.vs = (a : Int)) (hve : e.ve = (b : Int))
    (h1 : e.full ≤ a) (h2 : a ≤ b) (h3 : b ≤ e.e) (h4 : e.e ≤ s.size) :
    (wrap (ofEntry f s e) (ofEntry f s e).val).all = (ofEntry f s e).all :=
  C16L.wrap_unwrap f s e a b hk hvs hve h1 h2 h3 h4

/-- "serializing the output again with no new data yields the same entities" (entry level: the old
    localization of the second run is the entry list of the first; that re-parsing the text gives
    these entries back is checked by correspondence and by the oracle). -/
theorem idempotent_entities (ref old : List Ent) (nd : NewData) (hnd : (nd.map (·.1)).Nodup) :
    (serializeEnts ref (serializeEnts ref old nd) []).filter Ent.isReal
      = (serializeEnts ref old nd).filter Ent.isReal :=
  C16L.idempotent_entities ref old nd hnd

/-
Not proved (`reparse`): "the produced text parses without junk".  It is a statement about the parser
on the concatenated texts; it is checked by the oracle with the real parsers for all six formats and
by the end-to-end correspondence.  For `.inc` it is FALSE whenever the pruned list starts with a
whitespace entry (finding C16-inc-leading-blank, F10): the example `leading_blank` below.
-/

/-! ### non-vacuity and witnesses -/

section Examples

def eK (k v : Nat) : Ent := { kind := .entity, key := [k], val := [v], all := [k, 61, v], pre := [k, 61], post := [] }
def wS (n : Nat) : Ent := { kind := .whitespace, key := [], val := List.replicate n 10, all := List.replicate n 10 }
def cM (t : Nat) : Ent := { kind := .comment, key := [t], val := [], all := [35, t] }
def jK : Ent := { kind := .junk, key := [], val := [63], all := [63] }

/-- reference `a=E ⏎ b=F ⏎ c=G ⏎`, old file `c=z ⏎ # ⏎ x=o ⏎ ? a=y` (reordered, with an obsolete
    key, a comment and junk), new data `{b: N, c: None, u: U}`:
    the model itself (no theorem used) gives `a=y ⏎ b=N ⏎ #` … -/
example :
    serializeEntsS [eK 97 69, wS 1, eK 98 70, wS 1, eK 99 71, wS 1]
      [eK 99 122, wS 1, cM 33, wS 2, eK 120 111, wS 1, jK, eK 97 121]
      [([98], some [78]), ([99], none), ([117], some [85])]
    = [eK 97 121, wS 1, { kind := .entity, key := [98], val := [78], all := [98, 61, 78] }, wS 1, cM 33, wS 2] := by
  decide

/-- … and the closed form on the same input: entities `a` (old value) and `b` (new value), in reference order -/
example :
    (serializeEnts [eK 97 69, wS 1, eK 98 70, wS 1, eK 99 71, wS 1]
      [eK 99 122, wS 1, cM 33, wS 2, eK 120 111, wS 1, jK, eK 97 121]
      [([98], some [78]), ([99], none), ([117], some [85])]).filter Ent.isReal
    = [eK 97 121, { kind := .entity, key := [98], val := [78], all := [98, 61, 78] }] := by
  rw [serialized_entities _ _ _ (by decide)]
  decide

/-- finding F10 at the entry level: the first reference entry is not emitted, so the output starts with
    the reference's whitespace entry — a blank line, which `DefinesParser` reports as Junk -/
example : (serializeEntsS [eK 97 69, wS 1, eK 98 70, wS 1] [] [([98], some [78])]).map (·.kind)
    = [.whitespace, .entity, .whitespace] ∧
    serializeLegacy (serializeEntsS [eK 97 69, wS 1, eK 98 70, wS 1] [] [([98], some [78])]) = [10, 98, 61, 78, 10] := by
  decide

/-- `hnd` is needed: a "dict" with a repeated key is not a dict.  With `[(b, None), (b, N)]` the loop
    building `new_l10n` creates the entity while `should_placeholder`/`chosen` see the first item. -/
example :
    (serializeEntsS [eK 98 70] [] [([98], none), ([98], some [78])]).filter Ent.isReal
      = [{ kind := .entity, key := [98], val := [78], all := [98, 61, 78] }] ∧
    (refKeys [eK 98 70]).filterMap (chosen [eK 98 70] [] [([98], none), ([98], some [78])]) = [] := by
  decide

/-- the span hypotheses of `wrap_spec` are needed: `.inc` stores `(-1, -1)` for a missing value
    (`#define k` + newline + `#define j x`): wrap keeps everything up to the last character of the FILE
    (finding C16-inc-reference-without-value) -/
example :
    let s : Array Nat := #[35, 100, 101, 102, 105, 110, 101, 32, 107, 10, 35, 100, 101, 102, 105, 110, 101, 32, 106, 32, 120]
    let e : P.Entry := { kind := .entity, full := 0, s := 0, e := 9, ks := 8, ke := 9, vs := -1, ve := -1 }
    (wrap (ofEntry .inc s e) [118]).all
      = [35, 100, 101, 102, 105, 110, 101, 32, 107, 10, 35, 100, 101, 102, 105, 110, 101, 32, 106, 32, 118] := by
  decide

end Examples

end C16

/-
C18 — Results do not depend on what was processed before.
Property theorems only (model: CLModel/History/State.lean, helper lemmas: CLModel/Proofs/C18*.lean).

The process-wide mutable state of compare-locales is made explicit in `Hist.G`
(`Junk.junkid`, the `ctx` of the parser singletons, every `Context` object) and each tool
operation is a function `Hist.step : G → Op → G × Out`.
-/
import CLModel.History.State
import CLModel.Proofs.C18Digits
import CLModel.Proofs.C18Natural
import CLModel.Proofs.C18State
namespace C18
open Hist P

/-- `Junk.key = "_junk_%d_%d-%d" % (junkid, start, end)` determines the three numbers: two Junk objects have the
    same key only if they were built from the same counter value (and the same span). -/
theorem junkKey_injective {i s e i' s' e' : Nat} (h : junkKey i s e = junkKey i' s' e') :
    i = i' ∧ s = s' ∧ e = e' :=
  junkKey_inj h

/-- Junk keys are pairwise distinct within a run: whatever state the interpreter is in and whatever is
    processed (any formats, any order, compares in between), no two Junk objects returned by the parses of the
    run have the same key — the class-level counter only grows. -/
theorem junk_keys_distinct (g : G) (ops : List Op) :
    (((run g ops).2.flatMap Out.ents).filterMap Ent.junkKeyStr).Nodup :=
  keys_nodup_of_ids _ (run_ids ops g).1

/-- `Junk.junkid` influences a parse only through the junk keys: started with the counter at `g.junkid` (and
    with `g.heap.length` Context objects alive) the parse returns the SAME entries — same classes, spans, key and
    value spans — with every junk id `g.junkid` higher, and the counter ends `g.junkid` higher. -/
theorem junkid_only_in_keys (g : G) (f : Fmt) (text : Array Nat) :
    (step g (.parse f text)).2 = ((step G.init (.parse f text)).2).shift g.junkid g.heap.length ∧
    (step g (.parse f text)).1.junkid = (step G.init (.parse f text)).1.junkid + g.junkid := by
  have h1 := step_closed_out g G.init g.junkid g.heap.length (.parse f text) trivial
    (by simp [G.init]) (by simp [G.init])
  have h2 := step_closed_state g G.init g.junkid g.heap.length (.parse f text) trivial
    (by simp [G.init]) (by simp [G.init])
  exact ⟨h1, h2.1⟩

/-- The report's dependence on keys: `ContentComparer.compare` (duplicate detection with `Counter`, `AddRemove`,
    `KeyedTuple` lookups, the loop over the actions) commutes with every renaming of keys that is injective on
    the keys of the two files and respects the `[kK]ey` test.  Keys matter only up to equality. -/
theorem compare_natural {κ κ' : Type} [BEq κ] [LawfulBEq κ] [BEq κ'] [LawfulBEq κ']
    {f : κ → κ'} {ks : List κ} (hf : InjOn f ks) (isKey : κ → Bool) (isKey' : κ' → Bool)
    (hkey : ∀ k ∈ ks, isKey' (f k) = isKey k) (lc : Nat → Nat × Nat) (ref l10n : List (KEnt κ))
    (href : ∀ e ∈ ref, e.key ∈ ks) (hl10n : ∀ e ∈ l10n, e.key ∈ ks) :
    compareG isKey' lc (ref.map (KEnt.mapKey f)) (l10n.map (KEnt.mapKey f))
      = (compareG isKey lc ref l10n).map (accMap f) :=
  compareG_nat hf isKey isKey' hkey lc ref l10n href hl10n

/-- The report of a file pair is a function of the two contents only: if no real key of either file has the
    shape `_junk_<n>_<a>-<b>`, comparing the pair in ANY global state (any counter value, any parser contexts)
    gives string for string the report of a fresh interpreter — messages, their order, the statistics, or the
    same exception. -/
theorem report_independent (g : G) (f : Fmt) (ref l10n : Array Nat) (h : NoJunkLikeKeys f ref l10n) :
    (step g (.compare f ref l10n)).2 = (step G.init (.compare f ref l10n)).2 := by
  rw [report_indep g f ref l10n h, report_indep G.init f ref l10n h]

/-- Outputs modulo junk-key renaming are independent of the global state: for a parse, and for a compare under
    `NoJunkLikeKeys` (`Op.closed`), the output in state `g` is the output of a fresh interpreter with the junk ids
    shifted by `g.junkid` (reports are not touched by the shift: they contain no junk key). -/
theorem out_independent (g : G) (op : Op) (h : op.closed) :
    (step g op).2 = ((step G.init op).2).shift g.junkid g.heap.length :=
  step_closed_out g G.init g.junkid g.heap.length op h (by simp [G.init]) (by simp [G.init])

/-- The same for whole histories: what a sequence of operations returns does not depend on the state it is
    started in (so it does not depend on what was processed before). -/
theorem run_independent (g : G) (ops : List Op) (h : ∀ op ∈ ops, op.closed) :
    (run g ops).2 = ((run G.init ops).2).map (Out.shift g.junkid g.heap.length) :=
  run_shift ops g G.init g.junkid g.heap.length h (by simp [G.init]) (by simp [G.init])

/-- A multi-file run reports exactly the union of the single-file runs, in any order: every compare of a run
    over several file pairs — started in any state — returns the report the pair gets alone in a fresh
    interpreter; hence the results of any permutation of the files are a permutation of the same reports
    (the Observer only files each report under its path and adds the statistics up). -/
theorem multi_file_union (g : G) (ops : List Op)
    (h : ∀ op ∈ ops, ∃ f ref l10n, op = .compare f ref l10n ∧ NoJunkLikeKeys f ref l10n) :
    (run g ops).2 = ops.map (fun op => (step G.init op).2) ∧
    ∀ ops', ops'.Perm ops → ∀ g', ((run g' ops').2).Perm ((run g ops).2) := by
  have key : ∀ (ops : List Op) (g : G),
      (∀ op ∈ ops, ∃ f ref l10n, op = .compare f ref l10n ∧ NoJunkLikeKeys f ref l10n) →
      (run g ops).2 = ops.map (fun op => (step G.init op).2) := by
    intro ops
    induction ops with
    | nil => intro g _; rfl
    | cons op t ih =>
      intro g h
      obtain ⟨f, ref, l10n, rfl, hn⟩ := h _ List.mem_cons_self
      simp only [run, List.map_cons]
      rw [report_independent g f ref l10n hn, ih _ (fun o ho => h o (List.mem_cons_of_mem _ ho))]
  refine ⟨key ops g h, ?_⟩
  intro ops' hp g'
  rw [key ops g h, key ops' g' (fun op hop => h op (hp.subset hop))]
  exact hp.map _

/-- Entities obtained from one parse remain valid after the same parser has read other files: key, raw value,
    `all` and the positions read off an entry that refers to an existing Context are the same after ANY further
    operations (each `readUnicode` creates a new Context; old ones only get their line cache filled). -/
theorem entities_survive (g : G) (f : Fmt) (e : Ent) (he : e.ctx < g.heap.length) (ops : List Op) :
    obsPure (run g ops).1.heap f e = obsPure g.heap f e ∧
    (step (run g ops).1 (.reobs f e)).2 = .obs (obsPure g.heap f e) := by
  have h := obsPure_le g.heap (run g ops).1.heap (run_heap ops g) f e he
  refine ⟨h, ?_⟩
  simp only [step]
  rw [doObs_eq, h]

/-- ... in particular the entries a parse has just returned. -/
theorem parsed_entities_survive (g : G) (f : Fmt) (text : Array Nat) (ops : List Op) :
    ∀ e ∈ (doParse g f text).2.2,
      (step (run (doParse g f text).1 ops).1 (.reobs f e)).2 = .obs (obsPure (doParse g f text).1.heap f e) :=
  fun e he => (entities_survive _ f e (doParse_ctx g f text e he) ops).2

/-! ### non-vacuity -/

/-- "a=1\nzz\n" -/
def refA : Array Nat := #[97, 61, 49, 10, 122, 122, 10]
/-- "b=2\nyy\nakey=3\n" -/
def l10nA : Array Nat := #[98, 61, 50, 10, 121, 121, 10, 97, 107, 101, 121, 61, 51, 10]

set_option maxRecDepth 100000 in
theorem keysA : (refK .ini refA).map (·.key) ++ (l10nK .ini refA l10nA).map (·.key)
    = [.real [97], .junk 1 4 7, .real [98], .junk 2 4 7, .real [97, 107, 101, 121]] := by decide

/-- the hypothesis holds for a pair with entities, junk on both sides and a `key` key -/
theorem noJunkLikeA : NoJunkLikeKeys .ini refA l10nA := by
  intro t ht hs
  rw [keysA] at ht
  have hh := junkShaped_head t hs
  simp at ht
  rcases ht with rfl | rfl | rfl <;> simp at hh

/-- and the theorem applies to it from a state in which 41 Junk objects were created before -/
example : (step { junkid := 41 } (.compare .ini refA l10nA)).2 = (step G.init (.compare .ini refA l10nA)).2 :=
  report_independent _ _ _ _ noJunkLikeA

set_option maxRecDepth 100000 in
/-- the parse listing of the same text: ids 1 in a fresh interpreter, 42 after 41 earlier Junk objects -/
example : ((step G.init (.parse .ini refA)).2.ents.filterMap Ent.junkKeyStr) = [junkKey 1 4 7] ∧
    ((step { junkid := 41 } (.parse .ini refA)).2.ents.filterMap Ent.junkKeyStr) = [junkKey 42 4 7] := by decide

/-! ### negation witness: `NoJunkLikeKeys` is necessary (finding F8)

A real key that is the key string of the Junk of the same file for ONE value of the counter:
l10n = "_junk_1_16-19=1\nzzz" (the junk "zzz" has span 16-19), reference = "a=1\n". -/

def refW : Array Nat := #[97, 61, 49, 10]
def l10nW : Array Nat := #[95, 106, 117, 110, 107, 95, 49, 95, 49, 54, 45, 49, 57, 61, 49, 10, 122, 122, 122]
/-- "_junk_1_16-19" -/
def K1 : List Nat := [95, 106, 117, 110, 107, 95, 49, 95, 49, 54, 45, 49, 57]
/-- "_junk_2_16-19" -/
def K2 : List Nat := [95, 106, 117, 110, 107, 95, 50, 95, 49, 54, 45, 49, 57]
def rKW : List (KEnt (List Nat)) :=
  [{ key := [97], junk := false, val := [49], s := 0, e := 3, words := 1, moch := [] }]
def lKW (k : List Nat) : List (KEnt (List Nat)) :=
  [{ key := K1, junk := false, val := [49], s := 0, e := 15, words := 1, moch := [] },
   { key := k, junk := true, val := [122, 122, 122], s := 16, e := 19, words := 1, moch := [] }]

example : junkKey 1 16 19 = K1 ∧ junkKey 2 16 19 = K2 := by decide

/-- the excluded case: the hypothesis fails for this pair -/
theorem not_noJunkLikeW : ¬ NoJunkLikeKeys .ini refW l10nW := by
  intro h
  refine h K1 ?_ ⟨1, 16, 19, by decide⟩
  have : Key.real K1 ∈ (l10nK .ini refW l10nW).map (·.key) := by
    set_option maxRecDepth 100000 in decide
  exact List.mem_append_right _ this

set_option maxRecDepth 100000 in
theorem parseW_ref (n : Nat) (h : n = 0 ∨ n = 1) :
    (kents .ini refW (doParse { junkid := n } .ini refW).2.2).map (KEnt.mapKey Key.render) = rKW := by
  rcases h with rfl | rfl <;> decide

set_option maxRecDepth 100000 in
theorem parseW_0 :
    (kents .ini l10nW (doParse (doParse G.init .ini refW).1 .ini l10nW).2.2).map (KEnt.mapKey Key.render)
      = lKW K1 := by decide

set_option maxRecDepth 100000 in
theorem parseW_1 :
    (kents .ini l10nW (doParse (doParse { junkid := 1 } .ini refW).1 .ini l10nW).2.2).map (KEnt.mapKey Key.render)
      = lKW K2 := by decide

theorem arW_0 : AR.addRemove [[97]] [K1, K1] = [(.add, K1), (.delete, [97])] := by
  simp [AR.addRemove, AR.leftMap, AR.rightStep, AR.dset, AR.dget, List.zipIdx, AR.leKey, List.mergeSort,
    List.MergeSort.Internal.splitInTwo, K1]

theorem arW_1 : AR.addRemove [[97]] [K1, K2] = [(.add, K1), (.add, K2), (.delete, [97])] := by
  simp [AR.addRemove, AR.leftMap, AR.rightStep, AR.dset, AR.dget, List.zipIdx, AR.leKey, List.mergeSort,
    List.MergeSort.Internal.splitInTwo, K1, K2]

/-- in a fresh interpreter the junk gets id 1: its key equals the real key, the localization "has a duplicate",
    the real entity is shadowed by the Junk in the keyed lookup: 2 errors, 0 obsolete -/
theorem collision_fresh :
    (step G.init (.compare .ini refW l10nW)).2 = .report (.ok
      ([.dupL10n K1 2, .junkErr [122, 122, 122] (2, 1) (2, 4), .missing [97]], { missing := 1, missing_w := 1 })) := by
  simp only [step]
  congr 1
  unfold reportStr
  rw [parseW_0, show G.init = { junkid := 0 } from rfl, parseW_ref 0 (Or.inl rfl)]
  have h1 : rKW.map (·.key) = [[97]] := rfl
  have h2 : (lKW K1).map (·.key) = [K1, K1] := rfl
  have d1 : findDuplicates [[97]] = [] := by decide
  have d2 : findDuplicates [K1, K1] = [(K1, 2)] := by decide
  simp only [compareG, h1, h2, arW_0, d1, d2]
  rfl

/-- after ONE earlier Junk anywhere in the process the junk gets id 2: no duplicate, the real entity is reported
    obsolete: 1 error, 1 obsolete -/
theorem collision_used :
    (step { junkid := 1 } (.compare .ini refW l10nW)).2 = .report (.ok
      ([.obsolete K1, .junkErr [122, 122, 122] (2, 1) (2, 4), .missing [97]],
        { missing := 1, missing_w := 1, obsolete := 1 })) := by
  simp only [step]
  congr 1
  unfold reportStr
  rw [parseW_1, parseW_ref 1 (Or.inr rfl)]
  have h1 : rKW.map (·.key) = [[97]] := rfl
  have h2 : (lKW K2).map (·.key) = [K1, K2] := rfl
  have d1 : findDuplicates [[97]] = [] := by decide
  have d2 : findDuplicates [K1, K2] = [] := by decide
  simp only [compareG, h1, h2, arW_1, d1, d2]
  rfl

/-- without `NoJunkLikeKeys` the report DOES depend on what was processed before -/
theorem report_depends_on_history_when_keys_clash :
    (step { junkid := 1 } (.compare .ini refW l10nW)).2 ≠ (step G.init (.compare .ini refW l10nW)).2 := by
  rw [collision_fresh, collision_used]
  intro h
  injection h with h
  injection h with h
  injection h with h _
  injection h with h _
  cases h

end C18

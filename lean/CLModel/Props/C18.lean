/-
C18 — Results do not depend on what was processed before.
Property theorems only (model: CLModel/History/State.lean, helper lemmas: CLModel/Proofs/C18*.lean).

The process-wide mutable state of compare-locales is made explicit in `Hist.G`
(`Junk.junkid`, the `ctx` of the parser singletons, every `Context` object) and each tool
operation is a function `Hist.step : G → Op → G × Out`.
-/
import CLModel.History.State
import CLModel.Proofs.C18Digits
import CLModel.Proofs.C18Natural
import CLModel.Proofs.C18State
import CLModel.History.Machine
import CLModel.Proofs.C18MLint
import CLModel.Proofs.C18MCache
import CLModel.Proofs.C18MStep
import CLModel.Proofs.C18MObserver
import CLModel.History.World
import CLModel.Proofs.C18World
import CLModel.Proofs.C18WorldDemo
namespace C18
open Hist P

/-- `Junk.key = "_junk_%d_%d-%d" % (junkid, start, end)` determines the three numbers: two Junk objects have the
    same key only if they were built from the same counter value (and the same span). -/
theorem junkKey_injective {i s e i' s' e' : Nat} (h : junkKey i s e = junkKey i' s' e') :
    i = i' ∧ s = s' ∧ e = e' :=
  junkKey_inj h

/-- Junk keys are pairwise distinct within a run: whatever state the interpreter is in and whatever is
    processed (any formats, any order, compares in between), no two Junk objects returned by the parses of the
    run have the same key — the class-level counter only grows. -/
theorem junk_keys_distinct (g : G) (ops : List Op) :
    (((run g ops).2.flatMap Out.ents).filterMap Ent.junkKeyStr).Nodup :=
  keys_nodup_of_ids _ (run_ids ops g).1

/-- `Junk.junkid` influences a parse only through the junk keys: started with the counter at `g.junkid` (and
    with `g.heap.length` Context objects alive) the parse returns the SAME entries — same classes, spans, key and
    value spans — with every junk id `g.junkid` higher, and the counter ends `g.junkid` higher. -/
theorem junkid_only_in_keys (g : G) (f : Fmt) (text : Array Nat) :
    (step g (.parse f text)).2 = ((step G.init (.parse f text)).2).shift g.junkid g.heap.length ∧
    (step g (.parse f text)).1.junkid = (step G.init (.parse f text)).1.junkid + g.junkid := by
  have h1 := step_closed_out g G.init g.junkid g.heap.length (.parse f text) trivial
    (by simp [G.init]) (by simp [G.init])
  have h2 := step_closed_state g G.init g.junkid g.heap.length (.parse f text) trivial
    (by simp [G.init]) (by simp [G.init])
  exact ⟨h1, h2.1⟩

/-- The report's dependence on keys: `ContentComparer.compare` (duplicate detection with `Counter`, `AddRemove`,
    `KeyedTuple` lookups, the loop over the actions) commutes with every renaming of keys that is injective on
    the keys of the two files and respects the `[kK]ey` test.  Keys matter only up to equality. -/
theorem compare_natural {κ κ' : Type} [BEq κ] [LawfulBEq κ] [BEq κ'] [LawfulBEq κ']
    {f : κ → κ'} {ks : List κ} (hf : InjOn f ks) (isKey : κ → Bool) (isKey' : κ' → Bool)
    (hkey : ∀ k ∈ ks, isKey' (f k) = isKey k) (lc : Nat → Nat × Nat) (ref l10n : List (KEnt κ))
    (href : ∀ e ∈ ref, e.key ∈ ks) (hl10n : ∀ e ∈ l10n, e.key ∈ ks) :
    compareG isKey' lc (ref.map (KEnt.mapKey f)) (l10n.map (KEnt.mapKey f))
      = (compareG isKey lc ref l10n).map (accMap f) :=
  compareG_nat hf isKey isKey' hkey lc ref l10n href hl10n

/-- The report of a file pair is a function of the two contents only: if no real key of either file has the
    shape `_junk_<n>_<a>-<b>`, comparing the pair in ANY global state (any counter value, any parser contexts)
    gives string for string the report of a fresh interpreter — messages, their order, the statistics, or the
    same exception. -/
theorem report_independent (g : G) (f : Fmt) (ref l10n : Array Nat) (h : NoJunkLikeKeys f ref l10n) :
    (step g (.compare f ref l10n)).2 = (step G.init (.compare f ref l10n)).2 := by
  rw [report_indep g f ref l10n h, report_indep G.init f ref l10n h]

/-- Outputs modulo junk-key renaming are independent of the global state: for a parse, and for a compare under
    `NoJunkLikeKeys` (`Op.closed`), the output in state `g` is the output of a fresh interpreter with the junk ids
    shifted by `g.junkid` (reports are not touched by the shift: they contain no junk key). -/
theorem out_independent (g : G) (op : Op) (h : op.closed) :
    (step g op).2 = ((step G.init op).2).shift g.junkid g.heap.length :=
  step_closed_out g G.init g.junkid g.heap.length op h (by simp [G.init]) (by simp [G.init])

/-- The same for whole histories: what a sequence of operations returns does not depend on the state it is
    started in (so it does not depend on what was processed before). -/
theorem run_independent (g : G) (ops : List Op) (h : ∀ op ∈ ops, op.closed) :
    (run g ops).2 = ((run G.init ops).2).map (Out.shift g.junkid g.heap.length) :=
  run_shift ops g G.init g.junkid g.heap.length h (by simp [G.init]) (by simp [G.init])

/-- A multi-file run reports exactly the union of the single-file runs, in any order: every compare of a run
    over several file pairs — started in any state — returns the report the pair gets alone in a fresh
    interpreter; hence the results of any permutation of the files are a permutation of the same reports
    (the Observer only files each report under its path and adds the statistics up). -/
theorem multi_file_union (g : G) (ops : List Op)
    (h : ∀ op ∈ ops, ∃ f ref l10n, op = .compare f ref l10n ∧ NoJunkLikeKeys f ref l10n) :
    (run g ops).2 = ops.map (fun op => (step G.init op).2) ∧
    ∀ ops', ops'.Perm ops → ∀ g', ((run g' ops').2).Perm ((run g ops).2) := by
  have key : ∀ (ops : List Op) (g : G),
      (∀ op ∈ ops, ∃ f ref l10n, op = .compare f ref l10n ∧ NoJunkLikeKeys f ref l10n) →
      (run g ops).2 = ops.map (fun op => (step G.init op).2) := by
    intro ops
    induction ops with
    | nil => intro g _; rfl
    | cons op t ih =>
      intro g h
      obtain ⟨f, ref, l10n, rfl, hn⟩ := h _ List.mem_cons_self
      simp only [run, List.map_cons]
      rw [report_independent g f ref l10n hn, ih _ (fun o ho => h o (List.mem_cons_of_mem _ ho))]
  refine ⟨key ops g h, ?_⟩
  intro ops' hp g'
  rw [key ops g h, key ops' g' (fun op hop => h op (hp.subset hop))]
  exact hp.map _

/-- Entities obtained from one parse remain valid after the same parser has read other files: key, raw value,
    `all` and the positions read off an entry that refers to an existing Context are the same after ANY further
    operations (each `readUnicode` creates a new Context; old ones only get their line cache filled). -/
theorem entities_survive (g : G) (f : Fmt) (e : Ent) (he : e.ctx < g.heap.length) (ops : List Op) :
    obsPure (run g ops).1.heap f e = obsPure g.heap f e ∧
    (step (run g ops).1 (.reobs f e)).2 = .obs (obsPure g.heap f e) := by
  have h := obsPure_le g.heap (run g ops).1.heap (run_heap ops g) f e he
  refine ⟨h, ?_⟩
  simp only [step]
  rw [doObs_eq, h]

/-- ... in particular the entries a parse has just returned. -/
theorem parsed_entities_survive (g : G) (f : Fmt) (text : Array Nat) (ops : List Op) :
    ∀ e ∈ (doParse g f text).2.2,
      (step (run (doParse g f text).1 ops).1 (.reobs f e)).2 = .obs (obsPure (doParse g f text).1.heap f e) :=
  fun e he => (entities_survive _ f e (doParse_ctx g f text e he) ops).2

/-! ### non-vacuity -/

/-- "a=1\nzz\n" -/
def refA : Array Nat := #[97, 61, 49, 10, 122, 122, 10]
/-- "b=2\nyy\nakey=3\n" -/
def l10nA : Array Nat := #[98, 61, 50, 10, 121, 121, 10, 97, 107, 101, 121, 61, 51, 10]

set_option maxRecDepth 100000 in
theorem keysA : (refK .ini refA).map (·.key) ++ (l10nK .ini refA l10nA).map (·.key)
    = [.real [97], .junk 1 4 7, .real [98], .junk 2 4 7, .real [97, 107, 101, 121]] := by decide

/-- the hypothesis holds for a pair with entities, junk on both sides and a `key` key -/
theorem noJunkLikeA : NoJunkLikeKeys .ini refA l10nA := by
  intro t ht hs
  rw [keysA] at ht
  have hh := junkShaped_head t hs
  simp at ht
  rcases ht with rfl | rfl | rfl <;> simp at hh

/-- and the theorem applies to it from a state in which 41 Junk objects were created before -/
example : (step { junkid := 41 } (.compare .ini refA l10nA)).2 = (step G.init (.compare .ini refA l10nA)).2 :=
  report_independent _ _ _ _ noJunkLikeA

set_option maxRecDepth 100000 in
/-- the parse listing of the same text: ids 1 in a fresh interpreter, 42 after 41 earlier Junk objects -/
example : ((step G.init (.parse .ini refA)).2.ents.filterMap Ent.junkKeyStr) = [junkKey 1 4 7] ∧
    ((step { junkid := 41 } (.parse .ini refA)).2.ents.filterMap Ent.junkKeyStr) = [junkKey 42 4 7] := by decide

/-! ### negation witness: `NoJunkLikeKeys` is necessary (finding F8)

A real key that is the key string of the Junk of the same file for ONE value of the counter:
l10n = "_junk_1_16-19=1\nzzz" (the junk "zzz" has span 16-19), reference = "a=1\n". -/

def refW : Array Nat := #[97, 61, 49, 10]
def l10nW : Array Nat := #[95, 106, 117, 110, 107, 95, 49, 95, 49, 54, 45, 49, 57, 61, 49, 10, 122, 122, 122]
/-- "_junk_1_16-19" -/
def K1 : List Nat := [95, 106, 117, 110, 107, 95, 49, 95, 49, 54, 45, 49, 57]
/-- "_junk_2_16-19" -/
def K2 : List Nat := [95, 106, 117, 110, 107, 95, 50, 95, 49, 54, 45, 49, 57]
def rKW : List (KEnt (List Nat)) :=
  [{ key := [97], junk := false, val := [49], s := 0, e := 3, words := 1, moch := [] }]
def lKW (k : List Nat) : List (KEnt (List Nat)) :=
  [{ key := K1, junk := false, val := [49], s := 0, e := 15, words := 1, moch := [] },
   { key := k, junk := true, val := [122, 122, 122], s := 16, e := 19, words := 1, moch := [] }]

example : junkKey 1 16 19 = K1 ∧ junkKey 2 16 19 = K2 := by decide

/-- the excluded case: the hypothesis fails for this pair -/
theorem not_noJunkLikeW : ¬ NoJunkLikeKeys .ini refW l10nW := by
  intro h
  refine h K1 ?_ ⟨1, 16, 19, by decide⟩
  have : Key.real K1 ∈ (l10nK .ini refW l10nW).map (·.key) := by
    set_option maxRecDepth 100000 in decide
  exact List.mem_append_right _ this

set_option maxRecDepth 100000 in
theorem parseW_ref (n : Nat) (h : n = 0 ∨ n = 1) :
    (kents .ini refW (doParse { junkid := n } .ini refW).2.2).map (KEnt.mapKey Key.render) = rKW := by
  rcases h with rfl | rfl <;> decide

set_option maxRecDepth 100000 in
theorem parseW_0 :
    (kents .ini l10nW (doParse (doParse G.init .ini refW).1 .ini l10nW).2.2).map (KEnt.mapKey Key.render)
      = lKW K1 := by decide

set_option maxRecDepth 100000 in
theorem parseW_1 :
    (kents .ini l10nW (doParse (doParse { junkid := 1 } .ini refW).1 .ini l10nW).2.2).map (KEnt.mapKey Key.render)
      = lKW K2 := by decide

theorem arW_0 : AR.addRemove [[97]] [K1, K1] = [(.add, K1), (.delete, [97])] := by
  simp [AR.addRemove, AR.leftMap, AR.rightStep, AR.dset, AR.dget, List.zipIdx, AR.leKey, List.mergeSort,
    List.MergeSort.Internal.splitInTwo, K1]

theorem arW_1 : AR.addRemove [[97]] [K1, K2] = [(.add, K1), (.add, K2), (.delete, [97])] := by
  simp [AR.addRemove, AR.leftMap, AR.rightStep, AR.dset, AR.dget, List.zipIdx, AR.leKey, List.mergeSort,
    List.MergeSort.Internal.splitInTwo, K1, K2]

/-- in a fresh interpreter the junk gets id 1: its key equals the real key, the localization "has a duplicate",
    the real entity is shadowed by the Junk in the keyed lookup: 2 errors, 0 obsolete -/
theorem collision_fresh :
    (step G.init (.compare .ini refW l10nW)).2 = .report (.ok
      ([.dupL10n K1 2, .junkErr [122, 122, 122] (2, 1) (2, 4), .missing [97]], { missing := 1, missing_w := 1 })) := by
  simp only [step]
  congr 1
  unfold reportStr
  rw [parseW_0, show G.init = { junkid := 0 } from rfl, parseW_ref 0 (Or.inl rfl)]
  have h1 : rKW.map (·.key) = [[97]] := rfl
  have h2 : (lKW K1).map (·.key) = [K1, K1] := rfl
  have d1 : findDuplicates [[97]] = [] := by decide
  have d2 : findDuplicates [K1, K1] = [(K1, 2)] := by decide
  simp only [compareG, h1, h2, arW_0, d1, d2]
  rfl

/-- after ONE earlier Junk anywhere in the process the junk gets id 2: no duplicate, the real entity is reported
    obsolete: 1 error, 1 obsolete -/
theorem collision_used :
    (step { junkid := 1 } (.compare .ini refW l10nW)).2 = .report (.ok
      ([.obsolete K1, .junkErr [122, 122, 122] (2, 1) (2, 4), .missing [97]],
        { missing := 1, missing_w := 1, obsolete := 1 })) := by
  simp only [step]
  congr 1
  unfold reportStr
  rw [parseW_1, parseW_ref 1 (Or.inr rfl)]
  have h1 : rKW.map (·.key) = [[97]] := rfl
  have h2 : (lKW K2).map (·.key) = [K1, K2] := rfl
  have d1 : findDuplicates [[97]] = [] := by decide
  have d2 : findDuplicates [K1, K2] = [] := by decide
  simp only [compareG, h1, h2, arW_1, d1, d2]
  rfl

/-- without `NoJunkLikeKeys` the report DOES depend on what was processed before -/
theorem report_depends_on_history_when_keys_clash :
    (step { junkid := 1 } (.compare .ini refW l10nW)).2 ≠ (step G.init (.compare .ini refW l10nW)).2 := by
  rw [collision_fresh, collision_used]
  intro h
  injection h with h
  injection h with h
  injection h with h _
  injection h with h _
  cases h

/-! ## Round 4: the whole state machine `HistM` (model: CLModel/History/Machine.lean)

State components: `Junk.junkid`, the parser singletons and every Context (`S.g`), the inc filter flag of the
DefinesParser singleton's Context (`S.incFlag`), the entry points of `getParser` (`S.ep`), `mozpath.re_cache`
(`S.reCache`), every live `Matcher` with `_cached_re` (`S.matchers`), every live `ProjectConfig` with `_all_locales`
and `_cache` (`S.configs`), every live `DTDChecker` with `__known_entities` (`S.checkers`),
`DTDChecker.texthandler.textcontent` (`S.textcontent`). -/

section machine
open HistM C18M

def T (s : String) : List Nat := s.toList.map Char.toNat

deriving instance DecidableEq for Except

/-- Every memo the tools can have built holds what a fresh computation would return: in every state reachable from
    a fresh interpreter by operations that do not add rules or paths to a configuration whose filter cache is
    filled, `mozpath.re_cache[p]` is the regex of `p`, every `Matcher._cached_re` is the regex of its own pattern and
    environment, every `ProjectConfig._all_locales` / `_cache` (and the regexes of the `with_env` matchers inside)
    is what `all_locales` / `cache(locale)` compute from the current paths and rules, every
    `DTDChecker.__known_entities` is the set computed from its reference. -/
theorem memo_coherent_reachable (ep : EpEnv) (s : S) (h : Reachable ep s) : Inv s :=
  reachable_inv ep s h

/-- `out_independent`, all operations.  In every reachable state the output of an operation is a function of its
    arguments and of the construction data of the objects it names (`s.view`: pattern / environment of a Matcher,
    locales / paths / rules of a ProjectConfig, flags / reference of a DTDChecker, the installed entry points) —
    `pureOut`, the cache-free and counter-free reference semantics built from `PM.mozMatch`, `PM.Matcher.match` /
    `sub`, `FiltM.filterS`, `Ser.serializeText`, `Merge.mergeTexts`, `Dtd.entitiesForValue`, the linter and the
    comparison of a fresh interpreter.  Junk ids of parse listings are shifted by the counter, nothing else shows.
    `Op.closed`: compare / lint / merge under `NoJunkLikeKeys` (finding F8), not `reobs` / `rewalk` (whose argument
    is a piece of the state). -/
theorem out_independent_all (ep : EpEnv) (s : S) (h : Reachable ep s) (op : HistM.Op) (hc : op.closed) :
    (HistM.step s op).2 = (pureOut s.view op).shift s.g.junkid s.g.heap.length :=
  step_out_pure s (reachable_inv ep s h) op hc

/-- … hence two reachable states in which the same objects are alive (same construction data; counters, contexts
    and every cache may differ) return the same result. -/
theorem out_same_in_any_two_states (ep ep' : EpEnv) (s s' : S) (h : Reachable ep s) (h' : Reachable ep' s')
    (hv : s.view = s'.view) (op : HistM.Op) (hc : op.closed) :
    ((HistM.step s op).2).shift s'.g.junkid s'.g.heap.length
      = ((HistM.step s' op).2).shift s.g.junkid s.g.heap.length := by
  rw [out_independent_all ep s h op hc, out_independent_all ep' s' h' op hc, hv, out_shift_shift, out_shift_shift,
    Nat.add_comm s.g.junkid, Nat.add_comm s.g.heap.length]

/-- Whole histories: the results of a sequence of operations (no `add_rules` / `add_paths` after construction) do
    not depend on the state it is started in, only on the objects alive at the start. -/
theorem run_independent_all (ep ep' : EpEnv) (s s' : S) (h : Reachable ep s) (h' : Reachable ep' s')
    (hv : s.view = s'.view) (d a : Nat) (hj : s.g.junkid = s'.g.junkid + d) (hh : s.g.heap.length = s'.g.heap.length + a)
    (ops : List HistM.Op) (hc : ∀ op ∈ ops, op.closed ∧ op.mutatesConfig = false) :
    (HistM.run s ops).2 = ((HistM.run s' ops).2).map (HistM.Out.shift d a) :=
  run_out_indep ops s s' d a (reachable_inv ep s h) (reachable_inv ep' s' h') hv hj hh hc

/-- What the live objects ARE evolves independently of what they have cached: constructors and the three mutators
    change the view, every query leaves it alone. -/
theorem view_independent_of_caches (ep : EpEnv) (s : S) (h : Reachable ep s) (op : HistM.Op) :
    (HistM.step s op).1.view = viewStep s.view op :=
  view_step s (reachable_inv ep s h) op

/-- `config.filter(file, entity)` returns the verdict of the cache-free model `FiltM.filterS` of C14 whatever was
    asked before (other files, other locales, `all_locales`, `set_locales`), and leaves paths and rules as they are. -/
theorem filter_ignores_caches (ep : EpEnv) (s : S) (h : Reachable ep s) (id : Nat) (c : CObj)
    (hg : AR.dget s.configs id = some c) (file : Filt.File) (entity : Option (List Nat)) :
    (HistM.step s (.cFilter id file entity)).2 = .action (FiltM.filterS c.spec file entity) := by
  simp only [HistM.step, hg]
  rw [(CObj.filter_spec c (inv_config (reachable_inv ep s h) hg) file entity).1]

/-- `matcher.match(path)` is `PM.Matcher.match` of the matcher's pattern and environment, with or without a
    compiled regex from an earlier call; `with_env` starts without one. -/
theorem match_ignores_cached_re (ep : EpEnv) (s : S) (h : Reachable ep s) (id : Nat) (o : MObj)
    (hg : AR.dget s.matchers id = some o) (path : List Nat) :
    (HistM.step s (.mMatch id path)).2 = .mres (o.m.match path) := by
  simp only [HistM.step, hg]
  rw [(MObj.match_spec o (inv_matcher (reachable_inv ep s h) hg) path).1]

/-- `mozpath.match(path, pattern)` is `PM.mozMatch` whatever `re_cache` holds. -/
theorem mozmatch_ignores_re_cache (ep : EpEnv) (s : S) (h : Reachable ep s) (path pattern : List Nat) :
    (HistM.step s (.mozMatch path pattern)).2 = .bool (PM.mozMatch path pattern) := by
  simp only [HistM.step]
  rw [(mozMatchS_spec s.reCache (reachable_inv ep s h).1 path pattern).1]

/-- `getParser(path)` reads no mutable state at all: the class returned (and whether it is a shared instance)
    depends on the path and the installed entry points only — in particular a look-alike name or an unknown
    extension is answered the same before and after real files were parsed. -/
theorem getparser_stateless (s s' : S) (he : s.ep = s'.ep) (path : List Nat) :
    (HistM.step s (.getParser path)).2 = (HistM.step s' (.getParser path)).2 := by
  simp only [HistM.step, he]

/-- The class-level text handler never leaks: what `processAndroidContent` is called with is the character data of
    THIS localized value (Android checks) or nothing, whatever `DTDChecker.texthandler.textcontent` held before. -/
theorem texthandler_reset_before_use (d : DObj) (t t' chars) :
    (d.checkText t chars).2 = (d.checkText t' chars).2 ∧
    (d.checkText t chars).2 = if d.android then some (chars.foldl (· ++ ·) []) else none :=
  ⟨DObj.checkText_indep d t t' chars, DObj.checkText_spec d t chars⟩

/-- `inc filter state stored on the context, not the parser`: after reading ANY `.inc` text the flag of the
    singleton's Context is the one a walk from a fresh Context ends with — the flag before does not matter. -/
theorem inc_flag_fresh_per_read (s : S) (t : Array Nat) :
    (HistM.step s (.base (.parse .inc t))).1.incFlag = (incWalk t false).2 ∧ (incWalk t false).1 = walk .inc t :=
  ⟨rfl, incWalk_fresh t⟩

/-- Walking the Context a parser currently holds once more (`rewalk`; not a closed operation: its argument is the
    Context the parser holds) returns the listing of the parse with fresh junk ids, for EVERY format — also `.inc`:
    `DefinesParser.walk` resets `filter_empty_lines` when a pass starts (/repo 0f5119c), so the flag the first pass
    left on the Context is not seen. -/
theorem rewalk_same_listing (s : S) (f : Fmt) (t : Array Nat) :
    (HistM.step (HistM.step s (.base (.parse f t))).1 (.rewalk f)).2
      = .base (.parsed (stuckAt (walk f t))
          ((ents0 f t).map (Ent.shift (s.g.junkid + bump0 f t) s.g.heap.length))) := by
  have hp : (HistM.step s (.base (.parse f t))).1.g = (doParse s.g f t).1 := rfl
  simp only [HistM.step, doRewalk]
  have h1 : (Hist.step s.g (.parse f t)).1 = (doParse s.g f t).1 := rfl
  rw [h1]
  have hpc : (doParse s.g f t).1.pctx f = some s.g.heap.length := by simp [doParse]
  have hheap : (doParse s.g f t).1.heap[s.g.heap.length]? = some { contents := t } := by
    rw [doParse_heap]; simp
  simp only [hpc, hheap]
  have hwf : ∀ fl : Bool, (walkFl f t fl).1 = walk f t := by
    intro fl
    cases f <;> first | rfl | exact incWalk_fresh t
  simp only [hwf]
  have := assign_shift f t 0 s.g.heap.length (s.g.junkid + bump0 f t) (entriesOf (walk f t)) 0 0
  simp only [Nat.zero_add] at this
  rw [doParse_junkid, Nat.add_comm (bump0 f t), this]
  rfl


/-- the kinds of the entries of a parse listing -/
def kindsOf : HistM.Out → List Kind
  | .base (.parsed _ ents) => ents.map (·.entry.kind)
  | _ => []

/-- The filter flag a walk leaves on the Context plays no role for the next walk: `rewalk` returns the same result
    whatever `filter_empty_lines` of the DefinesParser's Context is. -/
theorem rewalk_ignores_flag (s : S) (b : Bool) (f : Fmt) :
    (HistM.step { s with incFlag := b } (.rewalk f)).2 = (HistM.step s (.rewalk f)).2 := by
  simp only [HistM.step, doRewalk]
  cases s.g.pctx f with
  | none => rfl
  | some addr =>
    simp only
    cases s.g.heap[addr]? with
    | none => rfl
    | some c =>
      have hw : (walkFl f c.contents b).1 = (walkFl f c.contents s.incFlag).1 := by cases f <;> rfl
      simp only [hw]

/-- … evaluated on texts that leave the filter switched ON at their end (the inputs of the repaired defect): the
    blank line before `#filter emptyLines` is Junk in the parse AND in a second walk of the same Context, and the
    flag the Context is left with is the same after both. -/
theorem rewalk_inc_same_as_first_walk :
    kindsOf (HistM.step S.init (.base (.parse .inc (T "#define a\n\n#filter emptyLines\n").toArray))).2
      = [.entity, .junk, .instruction, .whitespace] ∧
    kindsOf (HistM.step (HistM.step S.init (.base (.parse .inc (T "#define a\n\n#filter emptyLines\n").toArray))).1
        (.rewalk .inc)).2 = [.entity, .junk, .instruction, .whitespace] ∧
    kindsOf (HistM.step S.init (.base (.parse .inc (T "#a b\n\n#filter emptyLines").toArray))).2
      = kindsOf (HistM.step (HistM.step S.init (.base (.parse .inc (T "#a b\n\n#filter emptyLines").toArray))).1
        (.rewalk .inc)).2 ∧
    (HistM.step (HistM.step S.init (.base (.parse .inc (T "#a b\n\n#filter emptyLines").toArray))).1
        (.rewalk .inc)).1.incFlag = true := by
  decide +kernel

/-- Every `readUnicode` / `readFile` / `readContents` REPLACES the per-parse Context: whatever the shared parser of the
    format held before (any text, a filled line cache, the `.inc` filter switched on), afterwards it holds a NEW
    Context object with the given contents, no line cache, for the DefinesParser `filter_empty_lines = False`; the
    junk counter and all older Context objects (which earlier entities still point to) are untouched. -/
theorem read_replaces_context (s : S) (f : Fmt) (t : Array Nat) :
    (HistM.step s (.read f t)).1.g.pctx f = some s.g.heap.length ∧
    (HistM.step s (.read f t)).1.g.heap[s.g.heap.length]? = some { contents := t, lines := none } ∧
    (f = .inc → (HistM.step s (.read f t)).1.incFlag = false) ∧
    (HistM.step s (.read f t)).1.g.junkid = s.g.junkid ∧
    (∀ (i : Nat) (c : Ctx), s.g.heap[i]? = some c → (HistM.step s (.read f t)).1.g.heap[i]? = some c) := by
  refine ⟨by simp [HistM.step, doRead], by simp [HistM.step, doRead], ?_, rfl, ?_⟩
  · intro hf; subst hf; rfl
  · intro i c hc
    have hlt : i < s.g.heap.length := by
      rw [List.getElem?_eq_some_iff] at hc
      exact hc.1
    simp only [HistM.step, doRead]
    rw [List.getElem?_append_left hlt]
    exact hc

/-- `parse` is `read` followed by a walk of the new Context: same listing, same counter, same contexts, same filter
    flag — so a walk right after a read never sees anything of the text read before, even when it is the SAME text. -/
theorem parse_is_read_then_walk (s : S) (f : Fmt) (t : Array Nat) :
    (HistM.step (HistM.step s (.read f t)).1 (.rewalk f)).2 = (HistM.step s (.base (.parse f t))).2 ∧
    (HistM.step (HistM.step s (.read f t)).1 (.rewalk f)).1.g.junkid = (HistM.step s (.base (.parse f t))).1.g.junkid ∧
    (HistM.step (HistM.step s (.read f t)).1 (.rewalk f)).1.g.heap = (HistM.step s (.base (.parse f t))).1.g.heap ∧
    (HistM.step (HistM.step s (.read f t)).1 (.rewalk f)).1.g.pctx = (HistM.step s (.base (.parse f t))).1.g.pctx ∧
    (HistM.step (HistM.step s (.read f t)).1 (.rewalk f)).1.incFlag = (HistM.step s (.base (.parse f t))).1.incFlag := by
  have hpc : (doRead s f t).g.pctx f = some s.g.heap.length := by simp [doRead]
  have hheap : (doRead s f t).g.heap[s.g.heap.length]? = some { contents := t } := by simp [doRead]
  have hw : ∀ fl : Bool, walkFl f t (readFl f fl) = (walk f t, incFinal f t fl) := by
    intro fl
    cases f <;> first | rfl | (simp only [walkFl, incFinal]; rw [← incWalk_fresh t])
  simp only [HistM.step, doRewalk, hpc, hheap]
  have hfl : (doRead s f t).incFlag = readFl f s.incFlag := rfl
  rw [hfl, hw s.incFlag]
  refine ⟨rfl, rfl, rfl, rfl, rfl⟩

/-- In particular reading the same text twice in a row: the second parse returns the listing of the first (fresh
    junk ids), for every format and every text — also for an `.inc` text that ends with the filter switched on. -/
theorem parse_twice_same_listing (s : S) (f : Fmt) (t : Array Nat) :
    (HistM.step (HistM.step s (.base (.parse f t))).1 (.base (.parse f t))).2
      = ((HistM.step s (.base (.parse f t))).2).shift (bump0 f t) 1 := by
  have h1 := step_closed_out (doParse s.g f t).1 s.g (bump0 f t) 1 (.parse f t) trivial
    (by rw [doParse_junkid]; omega) (by rw [doParse_heap]; simp)
  simp only [HistM.step, HistM.Out.shift]
  congr 1

/-- non-vacuity on the text of the seeded regression: `"#define a\n\n#filter emptyLines\n"` read twice gives Junk for the
    blank line both times (the second Context starts with the filter off again) -/
example : kindsOf (HistM.step (HistM.step S.init (.base (.parse .inc (T "#define a\n\n#filter emptyLines\n").toArray))).1
    (.base (.parse .inc (T "#define a\n\n#filter emptyLines\n").toArray))).2 = [.entity, .junk, .instruction, .whitespace] := by
  decide +kernel

/-! ### negation witness: `add_rules` after a query (Python never resets `_cache`) -/

def actionOf : HistM.Out → Option (Except PM.PyErr Filt.Action)
  | .action r => some r
  | _ => none

def cfgOps : List HistM.Op :=
  [.cNew 1 (some [T "de"]) [] none [⟨T "/l/{locale}/**", none⟩] [],
   .cFilter 1 ⟨T "/l/de/a", T "de"⟩ none,
   .cAddRules 1 [⟨T "/l/de/a", none, .ignore⟩],
   .cFilter 1 ⟨T "/l/de/a", T "de"⟩ none]

/-- the same configuration asked without the earlier query -/
def cfgOpsFresh : List HistM.Op :=
  [.cNew 1 (some [T "de"]) [] none [⟨T "/l/{locale}/**", none⟩] [],
   .cAddRules 1 [⟨T "/l/de/a", none, .ignore⟩],
   .cFilter 1 ⟨T "/l/de/a", T "de"⟩ none]

/-- `Op.safe` is necessary: a rule added AFTER a filter query for the same locale is not seen (the `FilterCache`
    built by the first query is returned again): verdict `error` instead of `ignore`.  The configuration is the same
    in both histories, the answer differs.  (`TOMLParser` builds a configuration completely before it is used, so no
    tool does this; `set_locales` — which the tools do call later — is safe.) -/
theorem filter_stale_after_add_rules :
    (HistM.run S.init cfgOps).2.map actionOf = [none, some (.ok .error), none, some (.ok .error)] ∧
    (HistM.run S.init cfgOpsFresh).2.map actionOf = [none, none, some (.ok .ignore)] := by
  decide +kernel

/-- the third operation of that history is not safe -/
example : ¬ (HistM.Op.cAddRules 1 [⟨T "/l/de/a", none, .ignore⟩]).safe
    (HistM.run S.init (cfgOps.take 2)).1 := by
  intro h
  have hc : ∃ c, AR.dget (HistM.run S.init (cfgOps.take 2)).1.configs 1 = some c ∧ c.cache.isSome = true := by
    decide +kernel
  obtain ⟨c, hg, hs⟩ := hc
  rw [h c hg] at hs
  cases hs

/-! ### negation witness: the linter and F8 -/

def lintOf : HistM.Out → Option (Except String (List (LMsg (List Nat))))
  | .lint r => some r
  | _ => none

/-- without `NoJunkLike1` the linter's result depends on what was processed before (finding F8, second face):
    linting `"_junk_1_16-19=1\nzzz"` in a fresh interpreter reports the real string as a duplicate of the Junk (the
    Junk gets id 1), after one earlier Junk anywhere in the process it does not. -/
theorem lint_depends_on_history_when_keys_clash :
    lintOf (HistM.step S.init (.lint .ini none l10nW)).2
      = some (.ok [.dup K1 (1, 1), .junk [122, 122, 122] (2, 1) (2, 4)]) ∧
    lintOf (HistM.step { g := { junkid := 1 } } (.lint .ini none l10nW)).2
      = some (.ok [.junk [122, 122, 122] (2, 1) (2, 4)]) := by
  decide +kernel

/-! ### non-vacuity of the round-4 theorems -/

/-- a reachable state with a filled `re_cache`, a matcher with a compiled regex, a configuration with both memos
    filled: the theorems apply to it -/
def warmOps : List HistM.Op :=
  [.mozMatch (T "foo/bar") (T "foo/*"),
   .mNew 1 (T "/l/{locale}/*.ini") [] none, .mWithEnv 1 2 [(T "locale", T "de")], .mMatch 2 (T "/l/de/a.ini"),
   .cNew 1 (some [T "de"]) [] none [⟨T "/l/{locale}/**", none⟩] [⟨T "/l/de/a", none, .ignore⟩],
   .cFilter 1 ⟨T "/l/de/a", T "de"⟩ none,
   .base (.parse .ini refA)]

theorem reachable_run (ep : EpEnv) : ∀ (ops : List HistM.Op) (s : S), Reachable ep s →
    (∀ op ∈ ops, op.mutatesConfig = false) → Reachable ep (HistM.run s ops).1 := by
  intro ops
  induction ops with
  | nil => intro s h _; exact h
  | cons op t ih =>
    intro s h hf
    simp only [HistM.run]
    exact ih _ (Reachable.step s op h (safe_of_frozen s op (hf op List.mem_cons_self)))
      (fun o ho => hf o (List.mem_cons_of_mem _ ho))

theorem warm_reachable : Reachable (.plugins []) (HistM.run S.init warmOps).1 :=
  reachable_run _ warmOps _ Reachable.init (by decide)

/-- the caches of that state are really filled … -/
example : (HistM.run S.init warmOps).1.reCache.length = 1 ∧
    ((HistM.run S.init warmOps).1.matchers.map (fun p => (p.1, p.2.cached.isSome))) = [(1, false), (2, true)] ∧
    ((HistM.run S.init warmOps).1.configs.map (fun p => (p.2.allLoc.isSome, p.2.cache.isSome))) = [(true, true)] ∧
    (HistM.run S.init warmOps).1.g.junkid = 1 := by decide +kernel

/-- … and the filter query answered from the warm caches is the verdict of the cache-free model (here: ignore) -/
example : actionOf (HistM.step (HistM.run S.init warmOps).1 (.cFilter 1 ⟨T "/l/de/a", T "de"⟩ none)).2
    = some (.ok .ignore) := by decide +kernel

end machine

/-! ## Round 5: the file system is part of the state (model: CLModel/History/World.lean)

`HistW.W` = the process (`HistM.S`) + the files (`fs : Path ↦ file contents | symbolic link`).  The operations that
read take PATHS and read the world as it is NOW; `write` / `remove` / `rename` / `copy` / `symlink` and l10n-merge
change it.  A cache keyed by a path (parsed reference files, decoded contents, `os.path.exists` answers, checkers)
would be a component of the state that is indexed by `Path`: the theorems below say that the model — the
transliteration of the code — has none, so such a cache in the code is a correspondence disagreement on a history
that rewrites a path between two reads (`c18.wrun`). -/

section world
open HistM HistW C18M C18W

/-- `out_independent_all` with the world explicit: in every reachable world the output of an operation is a
    function of its arguments, of the CURRENT world (`look w.fs`: what is at each path now) and of the construction
    data of the objects it names — `pureOutW`: read the paths now, then the cache-free, counter-free reference
    semantics on the texts read.  Nothing that was read, compared, counted or cached before shows, in particular no
    earlier contents of the same path. -/
theorem out_independent_world (ep : EpEnv) (w : W) (h : HistW.Reachable ep w) (op : HistW.Op)
    (hc : op.closedIn (look w.fs)) :
    (HistW.step w op).2 = (pureOutW (look w.fs) w.s.view op).shift w.s.g.junkid w.s.g.heap.length :=
  step_out_world w (reachable_invW ep w h) op hc

/-- … hence two reachable worlds that hold the same files now (and in which the same objects are alive) return the
    same result, whatever histories led to them. -/
theorem out_same_in_any_two_worlds (ep ep' : EpEnv) (w w' : W) (h : HistW.Reachable ep w) (h' : HistW.Reachable ep' w')
    (hl : look w.fs = look w'.fs) (hv : w.s.view = w'.s.view) (op : HistW.Op) (hc : op.closedIn (look w.fs)) :
    ((HistW.step w op).2).shift w'.s.g.junkid w'.s.g.heap.length
      = ((HistW.step w' op).2).shift w.s.g.junkid w.s.g.heap.length := by
  rw [out_independent_world ep w h op hc, out_independent_world ep' w' h' op (hl ▸ hc), hv, hl, outW_shift_shift,
    outW_shift_shift, Nat.add_comm w.s.g.junkid, Nat.add_comm w.s.g.heap.length]

/-- an operation on files: its result does not even depend on the objects alive -/
def readsFiles : HistW.Op → Bool
  | .lift _ => false
  | _ => true

theorem pureOutW_view (l : Look) (v v' : View) (op : HistW.Op) (hp : readsFiles op = true) :
    pureOutW l v op = pureOutW l v' op := by
  cases op with
  | lift o => simp [readsFiles] at hp
  | lint f c r =>
    simp only [pureOutW]
    cases readAt l c with
    | error e => rfl
    | ok b => cases lintRef l r <;> rfl
  | compare f r lp mg =>
    simp only [pureOutW]
    cases readAt l r with
    | error e => rfl
    | ok a =>
      simp only
      cases readAt l lp with
      | error e => rfl
      | ok b => cases mg <;> rfl
  | readFile f p => simp only [pureOutW]; cases readAt l p <;> rfl
  | _ => rfl

/-- The oracle's statement, proved for the model: the result of an operation on files in ANY reachable world is the
    result of the same operation in a FRESH interpreter started on the files as they are now (junk ids of parse
    listings shifted by the counter). -/
theorem out_equals_fresh_interpreter_on_current_files (ep ep' : EpEnv) (w : W) (h : HistW.Reachable ep w)
    (op : HistW.Op) (hp : readsFiles op = true) (hc : op.closedIn (look w.fs)) :
    (HistW.step w op).2
      = ((HistW.step { s := { S.init with ep := ep' }, fs := w.fs } op).2).shift w.s.g.junkid w.s.g.heap.length := by
  have hf := out_independent_world ep' { s := { S.init with ep := ep' }, fs := w.fs } (HistW.Reachable.init w.fs) op hc
  rw [out_independent_world ep w h op hc, hf, outW_shift_shift,
    pureOutW_view (look w.fs) w.s.view ({ S.init with ep := ep' } : S).view op hp]
  simp [S.init]

/-- No component of the process state is keyed by a path: the state after an operation is a function of the state
    before and of the PATH-FREE operation `textOp` (texts read now; `HistM.Op` of a read carries no path) … -/
theorem state_forgets_paths (w : W) (op : HistW.Op) :
    (HistW.step w op).1.s = sAfter w.s (textOp (look w.fs) op) :=
  step_s w op

/-- … so the same contents under other paths, in another world, leave the process in the same state. -/
theorem state_keyed_by_contents_only (w w' : W) (op op' : HistW.Op) (hs : w.s = w'.s)
    (ht : textOp (look w.fs) op = textOp (look w'.fs) op') :
    (HistW.step w op).1.s = (HistW.step w' op').1.s := by
  rw [step_s, step_s, hs, ht]

/-- frame: the file-system operations leave the process alone … -/
theorem fs_ops_leave_process (w : W) (op : HistW.Op) (h : textOp (look w.fs) op = none) : (HistW.step w op).1.s = w.s := by
  rw [step_s, h]; rfl

/-- … and only `write` / `remove` / `rename` / `copy` / `symlink` and l10n-merge change the world: how the world
    moves is a function of the world before and of the operation (`lookStep`). -/
theorem world_moves_by_lookStep (ep : EpEnv) (w : W) (h : HistW.Reachable ep w) (op : HistW.Op)
    (hc : op.closedIn (look w.fs)) :
    look (HistW.step w op).1.fs = lookStep (look w.fs) op :=
  look_step w (reachable_invW ep w h) op hc

/-- reads (without merge file) leave every file as it is -/
theorem reads_leave_world (w : W) (f : Fmt) (p q : Path) (r : Option Path) :
    (HistW.step w (.readFile f p)).1.fs = w.fs ∧ (HistW.step w (.compare f p q none)).1.fs = w.fs ∧
    (HistW.step w (.add f p)).1.fs = w.fs ∧ (HistW.step w (.lint f p r)).1.fs = w.fs := by
  refine ⟨?_, ?_, ?_, ?_⟩
  · simp only [HistW.step]; cases readAt (look w.fs) p <;> rfl
  · simp only [HistW.step]
    cases readAt (look w.fs) p with
    | error e => rfl
    | ok a => simp only; cases readAt (look w.fs) q <;> rfl
  · simp only [HistW.step]; cases readAt (look w.fs) p <;> rfl
  · simp only [HistW.step]
    cases readAt (look w.fs) p with
    | ok b => rfl
    | error e => simp only; cases lintRef (look w.fs) r <;> rfl

/-- Whole histories: two reachable worlds that hold the same files and the same live objects return the same
    results for every history of closed operations (reads, writes, renames, links, merges interleaved). -/
theorem run_independent_world (ep ep' : EpEnv) (w w' : W) (h : HistW.Reachable ep w) (h' : HistW.Reachable ep' w')
    (hv : w.s.view = w'.s.view) (hl : look w.fs = look w'.fs) (d a : Nat) (hj : w.s.g.junkid = w'.s.g.junkid + d)
    (hh : w.s.g.heap.length = w'.s.g.heap.length + a) (ops : List HistW.Op) (hc : ClosedRun (look w.fs) ops) :
    (HistW.run w ops).2 = ((HistW.run w' ops).2).map (HistW.Out.shift d a) :=
  run_out_world ops w w' d a (reachable_invW ep w h) (reachable_invW ep' w' h') hv hl hj hh hc

/-- The seeded regression, as a theorem: a reference path that was compared before and whose contents have changed
    since.  The second compare of the SAME paths returns the reference semantics of the NEW contents. -/
theorem compare_after_rewrite (ep : EpEnv) (w : W) (h : HistW.Reachable ep w) (f : Fmt) (r lp : Path) (a' : Array Nat)
    (hc : (HistW.Op.compare f r lp none).closedIn (lset (look w.fs) r (.file a'))) :
    (HistW.step (HistW.step (HistW.step w (.compare f r lp none)).1 (.write r a')).1 (.compare f r lp none)).2
      = (pureOutW (lset (look w.fs) r (.file a')) w.s.view (.compare f r lp none)).shift
          (HistW.step (HistW.step w (.compare f r lp none)).1 (.write r a')).1.s.g.junkid
          (HistW.step (HistW.step w (.compare f r lp none)).1 (.write r a')).1.s.g.heap.length := by
  have h1 : HistW.Reachable ep (HistW.step w (.compare f r lp none)).1 := HistW.Reachable.step w _ h trivial
  have h2 : HistW.Reachable ep (HistW.step (HistW.step w (.compare f r lp none)).1 (.write r a')).1 :=
    HistW.Reachable.step _ _ h1 trivial
  have hfs : look (HistW.step (HistW.step w (.compare f r lp none)).1 (.write r a')).1.fs
      = lset (look w.fs) r (.file a') := by
    have e1 : (HistW.step w (.compare f r lp none)).1.fs = w.fs := (reads_leave_world w f r lp none).2.1
    show look (AR.dset (HistW.step w (.compare f r lp none)).1.fs r (.file a')) = _
    rw [e1, look_dset]
  rw [out_independent_world ep _ h2 _ (hfs ▸ hc), hfs]
  exact congrArg (fun o => HistW.Out.shift _ _ o) (pureOutW_view _ _ _ _ rfl)

/-! ### non-vacuity, and what a path-keyed cache would get wrong -/

def pRef : Path := T "ref/a.ini"
def pL10n : Path := T "l10n/a.ini"
def pLink : Path := T "ref/link.ini"

/-- (missing, obsolete, changed, unchanged) of a compare report -/
def statsOf : HistW.Out → Option (Nat × Nat × Nat × Nat)
  | .m (.base (.report (.ok (_, st)))) => some (st.missing, st.obsolete, st.changed, st.unchanged)
  | _ => none

/-- reference `a=1\nb=2\n`, localization `a=1\n` … -/
def wA : W := (HistW.run {} [.write pRef refAB, .write pL10n refA1]).1
/-- … compared once, then the reference is rewritten to `a=1\n` (a working copy is updated, a temp file reused) -/
def wB : W := (HistW.run wA [.compare .ini pRef pL10n none, .write pRef refA1]).1

/-- The two compares name the SAME two paths.  The first reports `b` missing, the second — after the rewrite —
    nothing: an answer taken from a cache keyed by the reference path would be wrong by one missing string.
    (`compare_after_rewrite` applies: `noJunkLikeA_A`.) -/
theorem compare_sees_the_current_files :
    statsOf (HistW.step wA (.compare .ini pRef pL10n none)).2 = some (1, 0, 0, 1) ∧
    statsOf (HistW.step wB (.compare .ini pRef pL10n none)).2 = some (0, 0, 0, 1) := by
  have hrA : readAt (look wA.fs) pRef = .ok refAB := by decide +kernel
  have hlA : readAt (look wA.fs) pL10n = .ok refA1 := by decide +kernel
  have hrB : readAt (look wB.fs) pRef = .ok refA1 := by decide +kernel
  have hlB : readAt (look wB.fs) pL10n = .ok refA1 := by decide +kernel
  refine ⟨?_, ?_⟩
  · simp only [HistW.step, hrA, hlA]
    show statsOf (.m (.base (Hist.step G.init (.compare .ini refAB refA1)).2)) = _
    rw [cmp_AB_A]
    rfl
  · simp only [HistW.step, hrB, hlB]
    show statsOf (.m (.base (Hist.step wB.s.g (.compare .ini refA1 refA1)).2)) = _
    rw [report_independent wB.s.g .ini refA1 refA1 noJunkLikeA_A, cmp_A_A]
    rfl

/-- the hypothesis of `compare_after_rewrite` holds for that rewrite -/
example : (HistW.Op.compare .ini pRef pL10n none).closedIn (lset (look wA.fs) pRef (.file refA1)) := by
  have hr : readAt (lset (look wA.fs) pRef (.file refA1)) pRef = .ok refA1 := by decide +kernel
  have hl : readAt (lset (look wA.fs) pRef (.file refA1)) pL10n = .ok refA1 := by decide +kernel
  simp only [HistW.Op.closedIn, textOp, hr, hl, HistM.Op.closed, Hist.Op.closed]
  exact noJunkLikeA_A

def addedOf : HistW.Out → Option (Nat × Nat)
  | .added n w => some (n, w)
  | _ => none

def lintCount : HistW.Out → Option Nat
  | .m (.lint (.ok ms)) => some ms.length
  | _ => none

def unreadableOf : HistW.Out → Option (Side × RErr)
  | .unreadable sd _ e => some (sd, e)
  | _ => none

/-- rewrite between two reads, swap of two paths, delete, a symbolic link that is followed, re-targeted, dangling, in a
    cycle, the same contents under another path: `add` (strings and words of a file missing in the localization) and
    `lint` with a reference report the files as they are at that moment -/
def fileOps : List HistW.Op :=
  [.write pRef (T "a=1\nb=2 3\n").toArray, .write pL10n (T "a=1\n").toArray,
   .add .ini pRef,                                              -- 2 strings, 3 words
   .lint .ini pL10n (some pRef),                                -- nothing to say
   .write pRef (T "a=4\n").toArray,
   .add .ini pRef,                                              -- 1 string, 1 word
   .lint .ini pL10n (some pRef),                                -- "Changes to string require a new ID: a"
   .rename pRef (T "tmp"), .rename pL10n pRef, .rename (T "tmp") pL10n,
   .lint .ini pL10n (some pRef),                                -- swapped: still one warning
   .add .ini pRef,
   .remove pRef,
   .add .ini pRef,                                              -- unreadable
   .lint .ini pL10n (some pRef),                                -- `os.path.isfile(ref)` is False: no reference
   .symlink pLink pL10n,
   .add .ini pLink,                                             -- through the link: `a=4\n`
   .write pL10n (T "a=4\nc=5 6 7\n").toArray,
   .add .ini pLink,                                             -- the link's target was rewritten
   .symlink pLink (T "nowhere"),
   .add .ini pLink,                                             -- dangling
   .symlink (T "nowhere") pLink,
   .add .ini pLink,                                             -- cycle
   .copy pL10n pRef,
   .add .ini pRef]                                              -- the same contents under another path

theorem reads_see_the_current_files :
    ((HistW.run {} fileOps).2.filterMap addedOf) = [(2, 3), (1, 1), (1, 1), (1, 1), (2, 4), (2, 4)] ∧
    ((HistW.run {} fileOps).2.filterMap lintCount) = [0, 1, 1, 0] ∧
    ((HistW.run {} fileOps).2.filterMap unreadableOf) = [(.ref, .enoent), (.ref, .enoent), (.ref, .eloop)] := by
  decide +kernel

end world

/-! ## `multi_file_union` for the Observer's aggregation (C10 models `ObsM.Obs`, `TreeM.Tree`) -/

section observer
open TreeM ObsM C18M

/-- Order independence of the aggregated report.  A multi-file run hands the Observer one block of notifications
    and one `updateStats` per file pair (`bs`; every block speaks about its own file, different files have different
    tree paths).  For EVERY permutation of the file pairs the observer ends with the same details under every path
    and the same number in every summary cell — for every quiet level and every filter. -/
theorem multi_file_union_observer_order (q : Nat) (flt : Option Filter) (bs bs' : List (File × List Ev))
    (hown : OwnFile bs) (hsep : bs.Pairwise SepPath) (hperm : bs.Perm bs') (o o' : ObsM.Obs)
    (hr : (ObsM.Obs.init q flt).run (flat bs) = .ok o) (hr' : (ObsM.Obs.init q flt).run (flat bs') = .ok o') :
    (∀ p, find o.details p = find o'.details p) ∧
    (∀ loc key, getCount o.summary loc key = getCount o'.summary loc key) :=
  observer_order_independent q flt bs bs' hown hsep hperm o o' hr hr'

/-- … and the aggregated report is exactly the union of the single-file reports: under the path of a file the
    details the run over that file pair alone stores, in every summary cell the sum over the single-file runs. -/
theorem multi_file_union_observer (q : Nat) (flt : Option Filter) (bs : List (File × List Ev))
    (hown : OwnFile bs) (hsep : bs.Pairwise SepPath) (o : ObsM.Obs) (hr : (ObsM.Obs.init q flt).run (flat bs) = .ok o) :
    (∀ b ∈ bs, ∀ ob, (ObsM.Obs.init q flt).run b.2 = .ok ob → ∀ p, hasParts b.1 p = true →
        find o.details p = find ob.details p) ∧
    (∀ (obOf : File × List Ev → ObsM.Obs), (∀ b ∈ bs, (ObsM.Obs.init q flt).run b.2 = .ok (obOf b)) →
        ∀ loc key, getCount o.summary loc key = (bs.map (fun b => getCount (obOf b).summary loc key)).sum) :=
  observer_union q flt bs hown hsep o hr

/-- two files with different tree paths are separated -/
theorem sepPath_of_parts (a b : File × List Ev) (pa pb : List Part) (ha : partsOf a.1 = .ok pa)
    (hb : partsOf b.1 = .ok pb) (hne : pa ≠ pb) : SepPath a b := by
  intro p hp
  obtain ⟨h1, h2⟩ := hp
  simp only [hasParts, ha, hb] at h1 h2
  have e1 : pa = p := by simpa using h1
  have e2 : pb = p := by simpa using h2
  exact hne (e1.trans e2.symm)

def fileA : File := { file := T "a.ini", module := none, locale := some (T "de") }
def fileB : File := { file := T "browser/b.ini", module := none, locale := some (T "de") }
def blocksAB : List (File × List Ev) :=
  [(fileA, [.notify .missingEntity fileA (.str (T "k")), .stats fileA [(.missing, 1), (.unchanged, 2)]]),
   (fileB, [.notify .error fileB (.str (T "Unparsed content")), .stats fileB [(.obsolete, 1)]])]

/-- non-vacuity: the hypotheses hold for a two-file project, both orders run, and the theorem applies -/
example : OwnFile blocksAB ∧ blocksAB.Pairwise SepPath := by
  refine ⟨?_, ?_⟩
  · intro b hb ev hev
    simp only [blocksAB, List.mem_cons, List.mem_nil_iff, or_false] at hb
    rcases hb with rfl | rfl <;> simp only [List.mem_cons, List.mem_nil_iff, or_false] at hev <;>
      rcases hev with rfl | rfl <;> rfl
  · simp only [blocksAB, List.pairwise_cons, List.mem_cons, List.mem_nil_iff, or_false, forall_eq, List.Pairwise.nil,
      and_true, false_imp_iff, implies_true]
    exact sepPath_of_parts _ _ [T "a.ini"] [T "browser", T "b.ini"] (by decide +kernel) (by decide +kernel) (by decide)

end observer

end C18

/-
C07 — DTD: malformed XML values are errors, well-formed ones never are.
Property theorems only (helper lemmas live in CLModel/Proofs/C07Model.lean and C07Xml.lean).

`Dtd.check xmlParse i` is the model of `DTDChecker.check(refEnt, l10nEnt)`; `xmlParse` stands for
expat (external): for a document it gives the error (line, column, message), if any.  Every theorem
holds for ALL `xmlParse`, all reference sets and all entities.
-/
import CLModel.Checks.Dtd
import CLModel.Checks.XmlGrammar
import CLModel.Proofs.C07Model
import CLModel.Proofs.C07Xml
import CLModel.Proofs.C07Num
import CLModel.Proofs.C07ERx
import CLModel.Proofs.C07EGrammar
import CLModel.Proofs.C08CReject
namespace C07
open Dtd

/-! ## the template plumbing -/

/-- Every entity reference the checker's `eref` scan finds in the localized value is one of the five
    XML built-ins or is declared in the internal subset of the documents built for that value:
    the template can never be the cause of an "undefined entity" error. -/
theorem all_refs_declared (i : Inp) :
    ∀ name ∈ erefNames i.l10n.val, name ∈ Gen.Tables.xmllist ∨ name ∈ declaredNames i := by
  intro name hn
  by_cases hx : name ∈ Gen.Tables.xmllist
  · exact Or.inl hx
  · right
    by_cases hk : name ∈ knownEntities i
    · exact List.mem_append_left _ hk
    · exact List.mem_append_right _ (mem_missingOf.mpr ⟨hn, hx, hk⟩)

/-- The declared names are literally what stands between `<!DOCTYPE elem [` and `]>` of the first
    document parsed for the localized value: one `<!ENTITY name "">` per declared name, then the
    value inside `<elem>…</elem>`. -/
theorem declared_in_document (i : Inp) (d : Bytes) (h : docValue (l10nDecls i) i.l10n.val = some d) :
    ∃ e v, utf8 (entityDecls (declaredNames i)) = some e ∧ utf8 i.l10n.val = some v ∧
      d = Gen.Tables.dtdTmplPre ++ e ++ Gen.Tables.dtdTmplMid ++ v ++ Gen.Tables.dtdTmplPost := by
  rw [l10nDecls_eq] at h
  unfold docValue at h
  split at h
  · rename_i e v he hv
    exact ⟨e, v, he, hv, by simpa [tmpl] using h.symm⟩
  · simp at h

/-! ## unknown entity references -/

/-- the "Referencing unknown entity" warnings -/
def isUnknownWarning (r : Result) : Bool :=
  r.level == .warning && r.cat == .xmlparse && msgRefUnknown.isPrefixOf r.msg

/-- A name is warned about iff the localized value references it, it is not an XML built-in and
    no reference value (of the whole reference file if one is set, else of the reference entity)
    references it. -/
theorem missing_iff (i : Inp) (name : Text) :
    name ∈ missingOf i ↔
      name ∈ erefNames i.l10n.val ∧ name ∉ Gen.Tables.xmllist ∧
        ¬ ∃ v ∈ refValsOf i, name ∈ erefNames v ∧ name ∉ Gen.Tables.xmllist := by
  rw [mem_missingOf, mem_knownEntities]

/-- Unless the check raises, its "Referencing unknown entity" warnings are exactly one per missing
    name (each name once), in the order of `missingOf`, each naming its entity. -/
theorem unknown_ref_warned (xmlParse : Bytes → ParseRes) (i : Inp) (h : (check xmlParse i).exc = none) :
    (check xmlParse i).results.filter isUnknownWarning
        = (missingOf i).map (unknownWarning (reflistOf i) (inContextOf i)) ∧
      (missingOf i).Nodup ∧
      ∀ key, (unknownWarning (reflistOf i) (inContextOf i) key).msg
        = msgRefUnknown ++ key ++ [96] ++ warnSuffix (reflistOf i) (inContextOf i) := by
  refine ⟨?_, nodup_missingOf i, fun _ => rfl⟩
  rw [check_results xmlParse i h]
  simp only [List.filter_append, staticSections]
  have z1 : (baseCheck i.l10n).filter isUnknownWarning = [] :=
    List.filter_eq_nil_iff.mpr (fun r hr => by simp [isUnknownWarning, cat_baseCheck _ r hr])
  have z2 : (refSection xmlParse i).results.filter isUnknownWarning = [] :=
    List.filter_eq_nil_iff.mpr (fun r hr => by
      rw [refSection_results xmlParse i r hr]; decide)
  have z3 : (l10nSection xmlParse i).1.results.filter isUnknownWarning = [] := by
    obtain ⟨_, h1, _⟩ := andThen_ok (by unfold check at h; exact h)
    obtain ⟨_, h2, _⟩ := andThen_ok h1
    obtain ⟨h3, _, _⟩ := andThen_ok h2
    rw [l10nSection_results xmlParse i h3]
    unfold verdictResults
    split
    · exact List.filter_eq_nil_iff.mpr (fun r hr => by
        have := xmlErrorResult_all _ _ r hr
        simp only [isXmlError, Bool.and_eq_true, beq_iff_eq] at this
        simp [isUnknownWarning, this.1])
    · rfl
  have z4 : (unknownSection i).filter isUnknownWarning = unknownSection i :=
    List.filter_eq_self.mpr (fun r hr => by
      simp only [unknownSection, List.mem_map] at hr
      obtain ⟨k, _, rfl⟩ := hr
      simp only [isUnknownWarning, unknownWarning, beq_self_eq_true, Bool.true_and, List.append_assoc]
      exact List.isPrefixOf_iff_prefix.mpr (List.prefix_append _ _))
  have z5 : (mismatchSection i).filter isUnknownWarning = [] :=
    List.filter_eq_nil_iff.mpr (fun r hr => by
      obtain ⟨_, _, t, ht⟩ := level_mismatchSection i r hr
      simp [isUnknownWarning, ht, msgRefUnknown, List.isPrefixOf])
  have z6 : (numberSection i.ref.val i.l10n.val).filter isUnknownWarning = [] :=
    List.filter_eq_nil_iff.mpr (fun r hr => by simp [isUnknownWarning, cat_numberSection _ _ r hr])
  have z7 : (lengthSection i.ref.val i.l10n.val).filter isUnknownWarning = [] :=
    List.filter_eq_nil_iff.mpr (fun r hr => by simp [isUnknownWarning, cat_lengthSection _ _ r hr])
  have z8 : (maybeStyle i.ref.val i.l10n.val).filter isUnknownWarning = [] :=
    List.filter_eq_nil_iff.mpr (fun r hr => by simp [isUnknownWarning, cat_maybeStyle _ _ r hr])
  have z9 : (androidResults xmlParse i).filter isUnknownWarning = [] :=
    List.filter_eq_nil_iff.mpr (fun r hr => by
      unfold androidResults at hr
      split at hr
      · simp [isUnknownWarning, cat_androidSection _ r hr]
      · simp at hr)
  rw [z1, z2, z3, z4, z5, z6, z7, z8, z9]
  simp [unknownSection]

/-- References to the five XML built-ins are never reported as unknown (whatever the reference says). -/
theorem builtins_never_warned (i : Inp) : ∀ n ∈ XmlContent.predefined, n ∉ missingOf i := by
  intro n hn hm
  have := (mem_missingOf.mp hm).2.1
  apply this
  simp only [XmlContent.predefined, List.mem_cons, List.not_mem_nil, or_false] at hn
  rcases hn with rfl | rfl | rfl | rfl | rfl <;> decide

/-! ## parse errors -/

/-- The error position arithmetic is total (after the upstream fix: an empty value has no lines):
    a SAXParseException can always be turned into a result. -/
theorem error_position_total (l10nVal : Text) (line col : Nat) : (errorPos l10nVal line col).isSome = true :=
  errorPos_isSome l10nVal line col

/-- Unless the check raises (UnicodeEncodeError on lone surrogates), expat's verdict on the two
    documents of the localized value decides the xmlparse errors: a parse error of either document
    (first in program order) yields exactly one result ("error", (line, col), message, "xmlparse")
    with the post-processed position; no parse error, no such result — whatever else is reported. -/
theorem xml_error_is_error (xmlParse : Bytes → ParseRes) (i : Inp) (h : (check xmlParse i).exc = none) :
    (check xmlParse i).results.filter isXmlError = verdictResults i.l10n.val (l10nVerdict xmlParse i) := by
  obtain ⟨_, h1, _⟩ := andThen_ok (by unfold check at h; exact h)
  obtain ⟨_, h2, _⟩ := andThen_ok h1
  obtain ⟨h3, _, _⟩ := andThen_ok h2
  rw [check_results xmlParse i h]
  simp only [List.filter_append, staticSections]
  have z1 : (baseCheck i.l10n).filter isXmlError = [] :=
    List.filter_eq_nil_iff.mpr (fun r hr => by simp [isXmlError, cat_baseCheck _ r hr])
  have z2 : (refSection xmlParse i).results.filter isXmlError = [] :=
    List.filter_eq_nil_iff.mpr (fun r hr => by rw [refSection_results xmlParse i r hr]; decide)
  have z3 : (l10nSection xmlParse i).1.results.filter isXmlError = (l10nSection xmlParse i).1.results := by
    rw [l10nSection_results xmlParse i h3]
    unfold verdictResults
    split
    · exact List.filter_eq_self.mpr (xmlErrorResult_all _ _)
    · rfl
  have z4 : (unknownSection i).filter isXmlError = [] :=
    List.filter_eq_nil_iff.mpr (fun r hr => by simp [isXmlError, (level_unknownSection i r hr).1])
  have z5 : (mismatchSection i).filter isXmlError = [] :=
    List.filter_eq_nil_iff.mpr (fun r hr => by simp [isXmlError, (level_mismatchSection i r hr).1])
  have z6 : (numberSection i.ref.val i.l10n.val).filter isXmlError = [] :=
    List.filter_eq_nil_iff.mpr (fun r hr => by simp [isXmlError, cat_numberSection _ _ r hr])
  have z7 : (lengthSection i.ref.val i.l10n.val).filter isXmlError = [] :=
    List.filter_eq_nil_iff.mpr (fun r hr => by simp [isXmlError, cat_lengthSection _ _ r hr])
  have z8 : (maybeStyle i.ref.val i.l10n.val).filter isXmlError = [] :=
    List.filter_eq_nil_iff.mpr (fun r hr => by simp [isXmlError, cat_maybeStyle _ _ r hr])
  have z9 : (androidResults xmlParse i).filter isXmlError = [] :=
    List.filter_eq_nil_iff.mpr (fun r hr => by
      unfold androidResults at hr
      split at hr
      · simp [isXmlError, cat_androidSection _ r hr]
      · simp at hr)
  rw [z1, z2, z3, z4, z5, z6, z7, z8, z9, l10nSection_results xmlParse i h3]
  simp

/-- … and that one result has level error, category xmlparse, expat's message, and the position
    computed by `errorPos` (last line's end when expat points past the value, otherwise expat's
    column minus the template prefix on lines 0 and 1). -/
theorem xml_error_result_shape (l10nVal : Text) (e : Nat × Nat × Text) :
    ∃ p, errorPos l10nVal e.1 e.2.1 = some p ∧
      xmlErrorResult l10nVal e = [⟨.error, .lc p.1 p.2, e.2.2, .xmlparse⟩] := by
  have h := errorPos_isSome l10nVal e.1 e.2.1
  cases hp : errorPos l10nVal e.1 e.2.1 with
  | none => simp [hp] at h
  | some p => exact ⟨p, rfl, by simp [xmlErrorResult, hp]⟩

/-! ## numbers, lengths, CSS specs -/

/-- Unless the check raises: the results of category "number" are one warning if the reference
    value matches `num` and the localized value does not, none otherwise; the results of category
    "css" are the length error (reference matches `length`, localization does not) followed by the
    CSS spec results. -/
theorem number_length_rules (xmlParse : Bytes → ParseRes) (i : Inp) (h : (check xmlParse i).exc = none) :
    (check xmlParse i).results.filter (fun r => r.cat == .number)
        = (if isNum i.ref.val && !isNum i.l10n.val then [⟨.warning, .num 0, msgNumber, .number⟩] else []) ∧
    (check xmlParse i).results.filter (fun r => r.cat == .css)
        = (if isLength i.ref.val && !isLength i.l10n.val then [⟨.error, .num 0, msgLength, .css⟩] else []) ++
          maybeStyle i.ref.val i.l10n.val := by
  obtain ⟨_, h1, _⟩ := andThen_ok (by unfold check at h; exact h)
  obtain ⟨_, h2, _⟩ := andThen_ok h1
  obtain ⟨h3, _, _⟩ := andThen_ok h2
  have hl : ∀ r ∈ (l10nSection xmlParse i).1.results, r.cat = .xmlparse := by
    intro r hr
    rw [l10nSection_results xmlParse i h3] at hr
    unfold verdictResults at hr
    split at hr
    · have := xmlErrorResult_all _ _ r hr
      simp only [isXmlError, Bool.and_eq_true, beq_iff_eq] at this
      exact this.2
    · simp at hr
  have ha : ∀ r ∈ androidResults xmlParse i, r.cat = .android := by
    intro r hr
    unfold androidResults at hr
    split at hr
    · exact cat_androidSection _ r hr
    · simp at hr
  rw [check_results xmlParse i h]
  simp only [List.filter_append, staticSections]
  constructor
  · have z1 : (baseCheck i.l10n).filter (fun r => r.cat == .number) = [] :=
      List.filter_eq_nil_iff.mpr (fun r hr => by simp [cat_baseCheck _ r hr])
    have z2 : (refSection xmlParse i).results.filter (fun r => r.cat == .number) = [] :=
      List.filter_eq_nil_iff.mpr (fun r hr => by rw [refSection_results xmlParse i r hr]; decide)
    have z3 : (l10nSection xmlParse i).1.results.filter (fun r => r.cat == .number) = [] :=
      List.filter_eq_nil_iff.mpr (fun r hr => by simp [hl r hr])
    have z4 : (unknownSection i).filter (fun r => r.cat == .number) = [] :=
      List.filter_eq_nil_iff.mpr (fun r hr => by simp [(level_unknownSection i r hr).2])
    have z5 : (mismatchSection i).filter (fun r => r.cat == .number) = [] :=
      List.filter_eq_nil_iff.mpr (fun r hr => by simp [(level_mismatchSection i r hr).2.1])
    have z6 : (numberSection i.ref.val i.l10n.val).filter (fun r => r.cat == .number) = numberSection i.ref.val i.l10n.val :=
      List.filter_eq_self.mpr (fun r hr => by simp [cat_numberSection _ _ r hr])
    have z7 : (lengthSection i.ref.val i.l10n.val).filter (fun r => r.cat == .number) = [] :=
      List.filter_eq_nil_iff.mpr (fun r hr => by simp [cat_lengthSection _ _ r hr])
    have z8 : (maybeStyle i.ref.val i.l10n.val).filter (fun r => r.cat == .number) = [] :=
      List.filter_eq_nil_iff.mpr (fun r hr => by simp [cat_maybeStyle _ _ r hr])
    have z9 : (androidResults xmlParse i).filter (fun r => r.cat == .number) = [] :=
      List.filter_eq_nil_iff.mpr (fun r hr => by simp [ha r hr])
    rw [z1, z2, z3, z4, z5, z6, z7, z8, z9]
    simp [numberSection]
  · have z1 : (baseCheck i.l10n).filter (fun r => r.cat == .css) = [] :=
      List.filter_eq_nil_iff.mpr (fun r hr => by simp [cat_baseCheck _ r hr])
    have z2 : (refSection xmlParse i).results.filter (fun r => r.cat == .css) = [] :=
      List.filter_eq_nil_iff.mpr (fun r hr => by rw [refSection_results xmlParse i r hr]; decide)
    have z3 : (l10nSection xmlParse i).1.results.filter (fun r => r.cat == .css) = [] :=
      List.filter_eq_nil_iff.mpr (fun r hr => by simp [hl r hr])
    have z4 : (unknownSection i).filter (fun r => r.cat == .css) = [] :=
      List.filter_eq_nil_iff.mpr (fun r hr => by simp [(level_unknownSection i r hr).2])
    have z5 : (mismatchSection i).filter (fun r => r.cat == .css) = [] :=
      List.filter_eq_nil_iff.mpr (fun r hr => by simp [(level_mismatchSection i r hr).2.1])
    have z6 : (numberSection i.ref.val i.l10n.val).filter (fun r => r.cat == .css) = [] :=
      List.filter_eq_nil_iff.mpr (fun r hr => by simp [cat_numberSection _ _ r hr])
    have z7 : (lengthSection i.ref.val i.l10n.val).filter (fun r => r.cat == .css) = lengthSection i.ref.val i.l10n.val :=
      List.filter_eq_self.mpr (fun r hr => by simp [cat_lengthSection _ _ r hr])
    have z8 : (maybeStyle i.ref.val i.l10n.val).filter (fun r => r.cat == .css) = maybeStyle i.ref.val i.l10n.val :=
      List.filter_eq_self.mpr (fun r hr => by simp [cat_maybeStyle _ _ r hr])
    have z9 : (androidResults xmlParse i).filter (fun r => r.cat == .css) = [] :=
      List.filter_eq_nil_iff.mpr (fun r hr => by simp [ha r hr])
    rw [z1, z2, z3, z4, z5, z6, z7, z8, z9]
    simp [lengthSection]

/-- What "is a number" means, without the regex engine: `DTDChecker.num.match(v)` succeeds iff `v` is
    one or more digits, or optional digits, a dot and one or more digits — up to the end of the text
    or a single final newline (`$` without MULTILINE).  Proved about the generated regex
    `Gen.Pat.DTDChecker_num` run by the regex-engine model. -/
theorem num_shape (v : Text) :
    isNum v = ((decide (digitsLen v ≥ 1) && atEnd v (digitsLen v)) ||
      (v[digitsLen v]? == some 46 && decide (digitsLen (v.drop (digitsLen v + 1)) ≥ 1) &&
        atEnd v (digitsLen v + 1 + digitsLen (v.drop (digitsLen v + 1))))) :=
  isNum_eq_numShape v

/-- What "is a CSS length" means: such a number immediately followed by em, px, ch, cm or in, then the
    end of the text or a single final newline. -/
theorem length_shape (v : Text) :
    isLength v = numThen v (fun j => unitAt v j && atEnd v (j + 2)) :=
  isLength_eq_lengthShape v

/-- If the reference value contains a CSS size spec (`parse_css_spec` gives a non-empty property map):
    a localized value without any spec, or with junk / a missing semicolon between specs, yields
    exactly the error "reference is a CSS spec"; a parseable one yields exactly one warning listing
    the differences, or nothing if there are none. -/
theorem css_rules (refVal l10nVal : Text) (refMap : List (Text × Text)) (hne : refMap ≠ [])
    (href : (parseCssSpec refVal).1 = some refMap) :
    maybeStyle refVal l10nVal =
      match (parseCssSpec l10nVal).1, (parseCssSpec l10nVal).2 with
      | none, _ => [specError]
      | some [], _ => [specError]
      | some (_ :: _), some (_ :: _) => [specError]
      | some lm, _ =>
        if styleMsgs refMap lm = [] then []
        else [⟨.warning, .num 0, join commaSp (styleMsgs refMap lm), .css⟩] := by
  unfold maybeStyle
  rw [href]
  cases refMap with
  | nil => exact absurd rfl hne
  | cons a as =>
    simp only
    unfold checkStyle
    cases (parseCssSpec l10nVal).1 with
    | none => rfl
    | some lm =>
      cases lm with
      | nil => rfl
      | cons b bs =>
        cases (parseCssSpec l10nVal).2 with
        | none => simp only; split <;> simp_all
        | some er =>
          cases er with
          | nil => simp only; split <;> simp_all
          | cons e es => rfl

/-- The CSS comparison is silent iff the two property maps agree: every localized property has the
    unit the reference gives it, and every reference property occurs in the localization.
    (`parse_css_spec` maps are dicts: their keys are pairwise distinct, `parseCssSpec_nodup`.) -/
theorem css_silent_iff (l10nVal : Text) (refMap lm : List (Text × Text))
    (hl : (parseCssSpec l10nVal).1 = some lm) :
    styleMsgs refMap lm = [] ↔
      (∀ pu ∈ lm, dget refMap pu.1 = some pu.2) ∧ (∀ q ∈ refMap, q.1 ∈ lm.map Prod.fst) :=
  styleMsgs_nil_iff refMap lm (parseCssSpec_nodup l10nVal lm hl)

/-! ## the recogniser for well-formed values -/

open XmlContent in
/-- grammar_accepts: every value generated by `ValueGrammar declared` (text, references to declared or
    predefined entities, character references to legal characters, balanced elements with
    attributes, comments, CDATA sections, processing instructions) is well-formed content. -/
theorem grammar_accepts (declared : List XmlContent.Text) (v : XmlContent.Text)
    (h : ValueGrammar declared v) : wf declared v = true :=
  grammar_wf declared h

open XmlContent in
/-- Every item boundary of a grammar value, at any nesting depth, is a content position of the
    recogniser, the open elements being exactly the enclosing ones. -/
theorem grammar_positions_are_content (declared : List XmlContent.Text) (p : XmlContent.Text)
    (stk : List XmlContent.Text) (h : ContentPrefix declared p stk) :
    run declared init p = some ⟨.content 0, stk⟩ :=
  contentPrefix_run declared h

open XmlContent in
/-- edits_reject (partial): at EVERY content position — reached by any prefix `p` whatsoever, in
    particular every item boundary of a grammar value — inserting a bare `&`, a bare `<`, an
    unterminated entity or character reference, an end tag that does not match the innermost open
    element, or a mis-nested pair makes the value ill-formed, whatever follows (`s` arbitrary).

    Full statement of the design: `∀ v ∈ ValueGrammar, ∀ edit, ∀ pos, ¬ wf (apply edit pos v)`.
    That is false for positions inside comments, CDATA sections, processing instructions and
    attribute values (witnesses below), so it is proved for content positions.  An unclosed start
    tag is no `BreakingEdit` (the suffix may close it): see `unclosed_at_end` and
    `unclosed_insert_rejected` (insertion into a well-formed value). -/
theorem edits_reject_partial (declared : List XmlContent.Text) (p e s : XmlContent.Text) (br : Nat)
    (stk : List XmlContent.Text) (hp : run declared init p = some ⟨.content br, stk⟩)
    (he : BreakingEdit stk e) : wf declared (p ++ e ++ s) = false :=
  edit_not_wf declared p e s br stk hp he

open XmlContent in
/-- the same at the item boundaries of grammar values (top level and nested) -/
theorem edits_reject_at_boundaries (declared : List XmlContent.Text) (p e s : XmlContent.Text)
    (stk : List XmlContent.Text) (hp : ContentPrefix declared p stk) (he : BreakingEdit stk e) :
    wf declared (p ++ e ++ s) = false :=
  edit_not_wf declared p e s 0 stk (contentPrefix_run declared hp) he

open XmlContent in
/-- a value that stops inside a reference or markup, or with elements still open, is ill-formed -/
theorem unclosed_at_end (declared : List XmlContent.Text) (p n : XmlContent.Text) (br : Nat)
    (stk : List XmlContent.Text) (hp : run declared init p = some ⟨.content br, stk⟩) (hn : isName n = true) :
    wf declared (p ++ (60 :: n ++ [62])) = false :=
  unclosed_at_end_not_wf declared p br stk n hp hn

open XmlContent in
/-- Inserting an unclosed start tag at a content position (no pending `]`; e.g. any grammar item
    boundary) of a WELL-FORMED value makes it ill-formed — proved by simulation: with one extra open
    element in the stack the automaton dies or ends with that element still open. -/
theorem unclosed_insert_rejected (declared : List XmlContent.Text) (p s n : XmlContent.Text)
    (stk : List XmlContent.Text) (hp : run declared init p = some ⟨.content 0, stk⟩)
    (hwf : wf declared (p ++ s) = true) (hn : isName n = true) :
    wf declared (p ++ (60 :: n ++ [62]) ++ s) = false :=
  unclosed_insert_not_wf declared p s n stk hp hwf hn

/-! ## well-formed values and the shipped checker -/

/-- the monitored contract: expat accepts the first template document iff the value is well-formed
    content relative to the declared names -/
def ExpatContract (xmlParse : Bytes → ParseRes) : Prop :=
  ∀ (names : List Text) (v : Text) (d : Bytes), docValue (entityDecls names) v = some d →
    ((xmlParse d).err = none ↔ XmlContent.wf names v = true)

theorem xmllist_predefined (n : Text) (h : n ∈ Gen.Tables.xmllist) : XmlContent.predefined.contains n = true := by
  simp only [Gen.Tables.xmllist, List.mem_cons, List.not_mem_nil, or_false] at h
  rcases h with rfl | rfl | rfl | rfl | rfl <;> decide

/-- wellformed_never_error (partial): under the expat contract, a localized value generated by the
    grammar from the entity names the checker finds in it (and the built-ins) passes the first
    document — the checker declares all it needs.

    Missing for the full claim "no xmlparse error at all": (1) that the `eref` scan finds every
    reference of a grammar value (hypothesis `hg` states the grammar over `erefNames`), a statement
    about the regex engine; (2) the second document (entity literal rules, stray `%`), covered by
    the executable `XmlContent.wfValue` and the differential contract only. -/
theorem wellformed_never_error_partial (xmlParse : Bytes → ParseRes) (i : Inp) (hc : ExpatContract xmlParse)
    (hg : XmlContent.ValueGrammar (erefNames i.l10n.val) i.l10n.val)
    (d3 : Bytes) (h3 : docValue (l10nDecls i) i.l10n.val = some d3) :
    (xmlParse d3).err = none := by
  rw [l10nDecls_eq] at h3
  rw [hc (declaredNames i) i.l10n.val d3 h3]
  apply XmlContent.grammar_wf
  apply hg.mono
  intro n hn
  have hn' : n ∈ erefNames i.l10n.val := by simpa using hn
  rcases all_refs_declared i n hn' with h | h
  · rw [xmllist_predefined n h, Bool.or_true]
  · have : (declaredNames i).contains n = true := by simpa using h
    rw [this, Bool.true_or]

/-! ## non-vacuity and negation witnesses -/

section examples
open XmlContent

/-- "a&foo;<b x='1'>t</b>" is in the grammar over [foo] … -/
example : ValueGrammar [[102, 111, 111]]
    ([97] ++ ([38, 102, 111, 111, 59] ++ (60 :: [98] ++ [32, 120, 61, 39, 49, 39] ++ [] ++ [62] ++ [116] ++ [60, 47] ++ [98] ++ [] ++ [62] ++ []))) :=
  .text 97 _ (by decide) <| .ref [38, 102, 111, 111, 59] _ (.ent [102, 111, 111] (by decide) (by decide)) <|
    .elem [98] [32, 120, 61, 39, 49, 39] [] [] [116] [] [[120]] (by decide)
      (.cons [] [120] 32 [] [] [] 39 [49] [] [[120]] (by decide) (by decide) (by decide) (by decide) (by decide) (by decide)
        (Or.inr rfl) (.char 49 [] (by decide) (by decide) (by decide) (by decide) .nil) (.nil _))
      (by decide) (by decide) (.text 116 [] (by decide) .nil) .nil

/-- … and the recogniser, evaluated directly, accepts it and rejects the edits -/
example : wf [[102, 111, 111]] [97, 38, 102, 111, 111, 59, 60, 98, 32, 120, 61, 39, 49, 39, 62, 116, 60, 47, 98, 62] = true := by decide
example : wf [[102, 111, 111]] [97, 38, 32, 102, 111, 111, 59] = false := by decide                 -- "a& foo;"
example : wf [[102, 111, 111]] [97, 38, 102, 111, 111, 32] = false := by decide                      -- "a&foo "
example : wf [] [60, 98, 62, 60, 105, 62, 60, 47, 98, 62, 60, 47, 105, 62] = false := by decide      -- "<b><i></b></i>"
example : wf [] [60, 98, 62] = false := by decide                                                    -- "<b>"
example : wf [] [97, 60, 122, 62, 60, 98, 62, 60, 47, 98, 62] = false := by decide                   -- "a<z><b></b>" : unclosed <z> inserted into "a<b></b>"
example : wf [] [38, 98, 97, 114, 59] = false := by decide                                           -- "&bar;" undeclared
example : wf [[98, 97, 114]] [38, 98, 97, 114, 59] = true := by decide                               -- "&bar;" declared

/-- negation witnesses for "every position": the same insertions INSIDE a comment, a CDATA section or
    an attribute value leave the value well-formed content -/
example : wf [] [60, 33, 45, 45, 38, 32, 45, 45, 62] = true := by decide                             -- "<!--& -->"
example : wf [] [60, 33, 91, 67, 68, 65, 84, 65, 91, 60, 32, 93, 93, 62] = true := by decide         -- "<![CDATA[< ]]>"
example : wf [] [60, 98, 32, 120, 61, 39, 60, 47, 122, 62, 39, 47, 62] = false := by decide          -- "<b x='</z>'/>" : `<` in an attribute value IS rejected
example : wf [] [60, 63, 112, 32, 38, 32, 63, 62] = true := by decide                                -- "<?p & ?>"

/-- … but the second template document (the value as an entity literal) rejects `&` there: `wfValue` -/
example : wfValue [] [107] [60, 33, 45, 45, 38, 32, 45, 45, 62] = false := by decide
example : wfValue [] [107] [49, 48, 48, 37] = false := by decide                                     -- "100%"
example : wfValue [] [107] [38, 35, 51, 56, 59] = false := by decide                                 -- "&#38;" expands to a bare &
example : wfValue [] [107] [38, 35, 48, 51, 55, 59] = true := by decide                              -- "&#037;"

/-- a breaking edit instance: "& " -/
example : BreakingEdit [] [38, 32] := .bareAmp 32 (by decide) (by decide)
example : BreakingEdit [[98]] ([60, 47] ++ [122] ++ [] ++ [62]) := .strayClose [122] [] (by decide) (by decide) (by decide)

/-- the error position arithmetic on the unit tests' cases: "This is </bad> stuff" line 2 col 16 → (1, 10) -/
example : errorPos [84, 104, 105, 115] 2 16 = some (1, 10) := by decide
/-- error reported on the fake closing element after a two-line value: end of the last line -/
example : errorPos [97, 10, 98, 99] 4 3 = some (2, 2) := by decide
/-- empty value, error on a later line (the former IndexError): (0, 0) -/
example : errorPos [] 3 7 = some (0, 0) := by decide

/-- CSS comparison on concrete maps: missing property and different unit -/
example : styleMsgs [([119], [101, 109]), ([104], [112, 120])] [([119], [99, 104])]
    = [[104] ++ msgOnlyRef, msgUnitsFor ++ [119] ++ msgDontMatch ++ [99, 104] ++ msgNe ++ [101, 109] ++ [41]] := by decide
example : styleMsgs [([119], [101, 109])] [([119], [101, 109])] = [] := by decide

/-- the shapes, evaluated without any regex -/
example : numShape [49, 50] = true ∧ numShape [46, 53] = true ∧ numShape [49, 46] = false ∧ numShape [49, 50, 10] = true ∧
    numShape [49, 50, 10, 10] = false ∧ numShape [] = false := by decide
example : lengthShape [49, 46, 53, 112, 120] = true ∧ lengthShape [49, 48, 101, 120] = false ∧
    lengthShape [46, 53, 99, 104, 10] = true ∧ lengthShape [112, 120] = false := by decide

/-! regression pins: the generated regexes evaluated on the shapes the property names (a changed
    regex or table in /repo changes `Gen.*` and breaks these) -/
/-- `num` / `length` on the shapes the property names -/
example : isNum [49, 50] = true ∧ isNum [46, 53] = true ∧ isNum [49, 46] = false ∧ isNum [] = false ∧ isNum [49, 101, 109] = false := by decide  -- "12" ".5" "1." "" "1em"
example : isLength [49, 48, 101, 109] = true ∧ isLength [49, 46, 53, 112, 120] = true ∧ isLength [46, 53, 99, 104] = true ∧ isLength [51, 99, 109] = true ∧ isLength [50, 105, 110] = true ∧ isLength [49, 48, 101, 120] = false ∧ isLength [49, 48] = false := by decide  -- em px ch cm in / ex, bare number
/-- CSS specs: units of the spec regex, separator rules -/
example : maybeStyle [119, 105, 100, 116, 104, 58, 49, 101, 109] [119, 105, 100, 116, 104, 58, 49, 101, 109, 59, 59] = [specError] := by decide +kernel  -- "width:1em" vs "width:1em;;" : stray semicolon is bad content
example : maybeStyle [119, 105, 100, 116, 104, 58, 49, 101, 109] [119, 105, 100, 116, 104, 58, 50, 101, 109] = [] := by decide +kernel  -- same unit, other length: silent
example : maybeStyle [119, 105, 100, 116, 104, 58, 49, 101, 109, 59, 104, 101, 105, 103, 104, 116, 58, 50, 112, 120] [119, 105, 100, 116, 104, 58, 49, 101, 109, 32, 104, 101, 105, 103, 104, 116, 58, 50, 112, 120] = [specError] := by decide +kernel  -- missing semicolon
example : maybeStyle [119, 105, 100, 116, 104, 58, 49, 101, 109] [32, 119, 105, 100, 116, 104, 32, 58, 32, 49, 101, 109, 32, 59, 32] = [] := by decide +kernel  -- white space around tokens and a trailing semicolon are fine
example : maybeStyle [119, 105, 100, 116, 104, 58, 49, 101, 109] [106, 117, 110, 107] = [specError] := by decide +kernel  -- no spec at all
example : maybeStyle [119, 105, 100, 116, 104, 58, 49, 112, 116] [119, 105, 100, 116, 104, 58, 49, 112, 99] = [⟨.warning, .num 0, msgUnitsFor ++ [119, 105, 100, 116, 104] ++ msgDontMatch ++ [112, 99] ++ msgNe ++ [112, 116] ++ [41], .css⟩] := by decide +kernel  -- pt vs pc
example : maybeStyle [119, 105, 100, 116, 104, 58, 49, 114, 101, 109, 59, 109, 105, 110, 45, 104, 101, 105, 103, 104, 116, 58, 50, 109, 109] [109, 105, 110, 45, 104, 101, 105, 103, 104, 116, 58, 50, 109, 109, 59, 119, 105, 100, 116, 104, 58, 49, 114, 101, 109] = [] := by decide +kernel  -- order does not matter; rem and mm are units
example : maybeStyle [49, 48, 101, 109] [120] = [] := by decide +kernel  -- a plain length is not a CSS spec

example : maybeStyle [119, 105, 100, 116, 104, 58, 49, 101, 109, 59, 104, 101, 105, 103, 104, 116, 58, 50, 112, 120] [119, 105, 100, 116, 104, 58, 49, 101, 109, 104, 101, 105, 103, 104, 116, 58, 50, 112, 120] = [specError] := by decide +kernel  -- touching declarations "width:1emheight:2px" (upstream fix 6de2763)
example : maybeStyle [119, 105, 100, 116, 104, 58, 49, 101, 109] [119, 105, 100, 116, 104, 58, 49, 101, 109, 32] = [] := by decide +kernel  -- "width:1em " : trailing white space after the last declaration is fine (upstream fix 7c75698, former finding F14)
example : maybeStyle [119, 105, 100, 116, 104, 58, 49, 101, 109, 59, 104, 101, 105, 103, 104, 116, 58, 50, 112, 120] [119, 105, 100, 116, 104, 58, 49, 101, 109, 59, 104, 101, 105, 103, 104, 116, 58, 50, 112, 120, 9, 10] = [] := by decide +kernel  -- "width:1em;height:2px\t\n"
example : maybeStyle [119, 105, 100, 116, 104, 58, 49, 101, 109] [119, 105, 100, 116, 104, 58, 49, 101, 109, 32, 120] = [specError] := by decide +kernel  -- "width:1em x" : trailing junk is still bad content

/-- `all_refs_declared` is not vacuous: the model finds the reference of "a&foo;b" -/
example : erefNames [97, 38, 102, 111, 111, 59, 98] = [[102, 111, 111]] := by decide

end examples

/-! ## extension E: the `eref` regex scan and the grammar

The link that `wellformed_never_error_partial` had to assume — "the `eref` scan (`finditer` of the generated
`&(Name);`) finds every entity reference of a grammar value" — is proved here about the regex-engine model
run on the generated regex. -/

/-- The generated `eref` regex is `&(NameStartChar NameChar*);` and its two character classes, evaluated item by
    item (`ClsItem.has`), are the XML 1.0 (5th edition) classes of the specification restricted to the Basic
    Multilingual Plane: `DTDParser.NameStartChar` leaves out U+10000–U+EFFFF. -/
theorem eref_name_classes :
    Gen.Pat.DTDChecker_eref = .seq (.lit 38) (.seq (.group 1 (.seq (.cls false C07E.nsCls)
      (.rep 0 none true (.cls false C07E.ncCls)))) (.lit 59)) ∧
    (∀ c, Rx.inC false C07E.nsCls c = (XmlContent.isNameStart c && decide (c < 65536))) ∧
    (∀ c, Rx.inC false C07E.ncCls c = (XmlContent.isNameChar c && decide (c < 65536))) :=
  ⟨C07E.eref_shape, C07E.inC_ns, C07E.inC_nc⟩

/-- What `{m.group(1) for m in eref.finditer(v)}` is, for EVERY text `v`, without the regex engine: the output of a
    one-pass scanner (`C07E.plainRefs`: after `&`, a name start and name characters, emitted at `;`), in order. -/
theorem erefNames_regex_free (v : Text) : erefNames v = C07E.plainRefs v :=
  C07E.erefNames_eq_plainRefs v

/-- … and as a set, without any scanning: the checker finds the name `n` in `v` iff `n` is an XML Name whose
    characters are in the BMP and the text `&n;` stands somewhere in `v`. -/
theorem erefNames_iff_occurs (v n : Text) :
    n ∈ erefNames v ↔
      (XmlContent.isName n = true ∧ ∀ c ∈ n, c < 65536) ∧ ∃ a b, v = a ++ (38 :: n ++ [59]) ++ b := by
  rw [C07E.mem_erefNames_iff, C07E.isBmpName_iff]

/-- `C07E.ValueN d v ns` is `ValueGrammar d v` together with the list `ns` of the names of the `&name;` items of
    the derivation (element content and attribute values, in order; comment / CDATA / PI bodies contribute the
    `&name;` texts they contain): every grammar value has such a list, and forgetting it gives the grammar back. -/
theorem grammar_names (d : List XmlContent.Text) (v : XmlContent.Text) :
    XmlContent.ValueGrammar d v ↔ ∃ ns, C07E.ValueN d v ns :=
  ⟨C07E.ValueN.ofGrammar, fun ⟨_, h⟩ => h.toGrammar⟩

/-- erefNames_of_grammar: on a value of the grammar, the checker's `eref` scan returns exactly the names of the
    reference items of the value, in order — provided these names are in the BMP (forced: see the witness below). -/
theorem erefNames_of_grammar (d : List XmlContent.Text) (v : XmlContent.Text) (ns : List XmlContent.Text)
    (h : C07E.ValueN d v ns) (hb : ∀ n ∈ ns, ∀ c ∈ n, c < 65536) : erefNames v = ns :=
  C07E.erefNames_of_valueN h hb

/-- wellformed_never_error (first document, no hypothesis about the scan any more): under the expat contract,
    EVERY value of the grammar — over whatever declared names `d` — whose characters are in the BMP passes the
    first template document: the checker's regex finds all its references and declares them.

    Still missing for "no xmlparse error at all": the second document (entity literal rules, stray `%`), covered
    by the executable `XmlContent.wfValue` and the differential contract only.  expat stays a hypothesis
    (`ExpatContract`): it is external. -/
theorem wellformed_never_error (xmlParse : Bytes → ParseRes) (i : Inp) (hc : ExpatContract xmlParse)
    (d : List XmlContent.Text) (hg : XmlContent.ValueGrammar d i.l10n.val) (hb : ∀ c ∈ i.l10n.val, c < 65536)
    (d3 : Bytes) (h3 : docValue (l10nDecls i) i.l10n.val = some d3) :
    (xmlParse d3).err = none :=
  wellformed_never_error_partial xmlParse i hc (C07E.grammar_over_erefNames hg hb) d3 h3

/-- unknown_ref_complete: if the localized value contains `&n;` (n a Name in the BMP, not one of the five
    built-ins) and no reference string contains `&n;`, then — unless the check raises — the warning
    "Referencing unknown entity `n`" is among the results. -/
theorem unknown_ref_complete (xmlParse : Bytes → ParseRes) (i : Inp) (h : (check xmlParse i).exc = none)
    (n a b : Text) (hn : XmlContent.isName n = true) (hb : ∀ c ∈ n, c < 65536)
    (hocc : i.l10n.val = a ++ (38 :: n ++ [59]) ++ b) (hp : n ∉ XmlContent.predefined)
    (hr : ∀ rv ∈ refValsOf i, ¬ ∃ a' b', rv = a' ++ (38 :: n ++ [59]) ++ b') :
    unknownWarning (reflistOf i) (inContextOf i) n ∈ (check xmlParse i).results ∧
      (unknownWarning (reflistOf i) (inContextOf i) n).msg
        = msgRefUnknown ++ n ++ [96] ++ warnSuffix (reflistOf i) (inContextOf i) := by
  have hx : n ∉ Gen.Tables.xmllist := fun hm => hp (by simpa using xmllist_predefined n hm)
  have hm : n ∈ missingOf i := by
    rw [missing_iff]
    refine ⟨C07E.mem_erefNames_of_occurs _ a b n hn hb hocc, hx, ?_⟩
    rintro ⟨rv, hrv, hin, _⟩
    exact hr rv hrv ((C07E.mem_erefNames_iff rv n).mp hin).2
  obtain ⟨hw, _, hmsg⟩ := unknown_ref_warned xmlParse i h
  refine ⟨?_, hmsg n⟩
  have : unknownWarning (reflistOf i) (inContextOf i) n ∈ (check xmlParse i).results.filter isUnknownWarning := by
    rw [hw]; exact List.mem_map_of_mem hm
  exact (List.mem_filter.mp this).1

/-- the same for the reference items of a grammar value: every `&n;` item of a value of the grammar (BMP) whose
    name is not built in and is used by no reference string is warned about -/
theorem unknown_ref_complete_grammar (xmlParse : Bytes → ParseRes) (i : Inp) (h : (check xmlParse i).exc = none)
    (d ns : List XmlContent.Text) (hg : C07E.ValueN d i.l10n.val ns) (hb : ∀ c ∈ i.l10n.val, c < 65536)
    (n : Text) (hn : n ∈ ns) (hp : n ∉ XmlContent.predefined)
    (hr : ∀ rv ∈ refValsOf i, n ∉ erefNames rv) :
    unknownWarning (reflistOf i) (inContextOf i) n ∈ (check xmlParse i).results := by
  have hx : n ∉ Gen.Tables.xmllist := fun hm => hp (by simpa using xmllist_predefined n hm)
  have hm : n ∈ missingOf i := by
    rw [missing_iff]
    refine ⟨?_, hx, ?_⟩
    · rw [C07E.erefNames_of_valueN hg (hg.chars (fun c => c < 65536) hb)]; exact hn
    · rintro ⟨rv, hrv, hin, _⟩; exact hr rv hrv hin
  obtain ⟨hw, _, _⟩ := unknown_ref_warned xmlParse i h
  have : unknownWarning (reflistOf i) (inContextOf i) n ∈ (check xmlParse i).results.filter isUnknownWarning := by
    rw [hw]; exact List.mem_map_of_mem hm
  exact (List.mem_filter.mp this).1

section examplesE
open XmlContent

/-- non-vacuity: "a&foo;<b x='&bar;'>&#38;</b>" with its names [foo, bar] … -/
example : C07E.ValueN [[102, 111, 111], [98, 97, 114]]
    (97 :: ((38 :: [102, 111, 111] ++ [59]) ++ (60 :: [98] ++ (32 :: [] ++ [120] ++ [] ++ [61] ++ [] ++ [39] ++ ((38 :: [98, 97, 114] ++ [59]) ++ []) ++ [39] ++ []) ++ [] ++ [62] ++ ((38 :: 35 :: 51 :: [56] ++ [59]) ++ []) ++ [60, 47] ++ [98] ++ [] ++ [62] ++ [])))
    ([[102, 111, 111]] ++ (([[98, 97, 114]] ++ []) ++ [] ++ ([] ++ []) ++ [])) :=
  .text 97 _ _ (by decide) <|
    .ref (38 :: [102, 111, 111] ++ [59]) _ [[102, 111, 111]] _
      (@C07E.RefN.ent [[102, 111, 111], [98, 97, 114]] [102, 111, 111] (by decide) (by decide)) <|
    .elem [98] (32 :: [] ++ [120] ++ [] ++ [61] ++ [] ++ [39] ++ ((38 :: [98, 97, 114] ++ [59]) ++ []) ++ [39] ++ [])
      [] [] ((38 :: 35 :: 51 :: [56] ++ [59]) ++ []) [] [[120]] ([[98, 97, 114]] ++ []) ([] ++ []) [] (by decide)
      (.cons [] [120] 32 [] [] [] 39 ((38 :: [98, 97, 114] ++ [59]) ++ []) [] [[120]] ([[98, 97, 114]] ++ []) []
        (by decide) (by decide) (by decide) (by decide) (by decide) (by decide) (Or.inr rfl)
        (.ref (38 :: [98, 97, 114] ++ [59]) [] [[98, 97, 114]] []
          (@C07E.RefN.ent [[102, 111, 111], [98, 97, 114]] [98, 97, 114] (by decide) (by decide)) .nil) (.nil _))
      (by decide) (by decide)
      (.ref (38 :: 35 :: 51 :: [56] ++ [59]) [] [] [] (.dec 51 [56] (by decide) (by decide) (by decide)) .nil) .nil

/-- … and the regex-engine model, evaluated directly, finds exactly these -/
example : erefNames [97, 38, 102, 111, 111, 59, 60, 98, 32, 120, 61, 39, 38, 98, 97, 114, 59, 39, 62, 38, 35, 51, 56, 59, 60, 47, 98, 62]
    = [[102, 111, 111], [98, 97, 114]] := by decide

/-- why comment / CDATA / PI bodies contribute to the list: the regex cannot tell `<!--&x;-->` from a reference -/
example : erefNames [60, 33, 45, 45, 38, 120, 59, 45, 45, 62] = [[120]] := by decide
example : C07E.plainRefs [38, 120, 59] = [[120]] := by decide

/-- negation witness for the BMP hypothesis: `&\U00010000;` is a reference of the grammar (5th edition Name),
    the regex does not find it, so the value is NOT in the grammar over the names the checker finds: the checker
    would not declare the entity.  (Such a key cannot be written in a DTD file compare-locales parses either:
    `DTDParser` uses the same Name class; expat implements the 4th edition.) -/
example : ValueGrammar [[65536]] ((38 :: [65536] ++ [59]) ++ []) :=
  .ref _ [] (.ent [65536] (by decide) (by decide)) .nil
example : erefNames [38, 65536, 59] = [] := by decide
example : ¬ ValueGrammar (erefNames [38, 65536, 59]) [38, 65536, 59] := by
  intro h
  have := grammar_wf _ h
  revert this
  decide

/-- `unknown_ref_complete` is not vacuous: reference "x", localization "&foo;" -/
example : unknownWarning [] [] [102, 111, 111] ∈
    (check (fun _ => ⟨none, []⟩) ⟨false, none, ⟨[107], [], [120]⟩, ⟨[107], [], [38, 102, 111, 111, 59]⟩⟩).results := by
  decide

end examplesE

/-! ## extension C: `parse_css_spec` and an independent grammar of CSS size specs

`css_rules` speaks about `parseCssSpec` = the generated regexes run by the engine model.  Here its verdicts are related
to the grammar `C08C.CssSpec` (see Props/C08.lean for its description; the same theorems hold for the Fluent-side
model by `C08.css_models_agree`). -/

/-- css_grammar_accepts: every grammatical spec is parsed without errors into exactly the map of its declarations
    (`ref_map[prop] = unit` in their order, Python dict semantics). -/
theorem css_grammar_accepts (ds : List C08C.Decl) (v : Text) (h : C08C.CssSpec ds v) :
    (parseCssSpec v).2 = none ∧ (parseCssSpec v).1 = some (C08C.declMap ds) := by
  rw [C08C.css_grammar_accepts_dtd ds v h]
  exact ⟨rfl, rfl⟩

/-- … so, against a reference with a CSS spec, a grammatical localized value never yields the error
    "reference is a CSS spec": the outcome is one warning listing the differences of the two maps, or nothing. -/
theorem css_grammar_never_error (refVal l10nVal : Text) (refMap : List (Text × Text)) (hne : refMap ≠ [])
    (href : (parseCssSpec refVal).1 = some refMap) (ds : List C08C.Decl) (h : C08C.CssSpec ds l10nVal) :
    maybeStyle refVal l10nVal =
      if styleMsgs refMap (C08C.declMap ds) = [] then []
      else [⟨.warning, .num 0, join commaSp (styleMsgs refMap (C08C.declMap ds)), .css⟩] := by
  rw [css_rules refVal l10nVal refMap hne href, C08C.css_grammar_accepts_dtd ds l10nVal h]
  have hnn := C08C.declMap_ne_nil (C08C.cssSpec_ne_nil h)
  cases hm : C08C.declMap ds with
  | nil => exact absurd hm hnn
  | cons x xs => rfl

/-- two grammatical specs: silent iff every localized declaration has the unit the reference gives its property and
    every reference property occurs in the localization (for the final value per property: dict semantics) -/
theorem css_grammar_silent_iff (refVal l10nVal : Text) (dr dl : List C08C.Decl) (hr : C08C.CssSpec dr refVal)
    (hl : C08C.CssSpec dl l10nVal) :
    maybeStyle refVal l10nVal = [] ↔
      (∀ pu ∈ C08C.declMap dl, dget (C08C.declMap dr) pu.1 = some pu.2) ∧
      (∀ q ∈ C08C.declMap dr, q.1 ∈ (C08C.declMap dl).map Prod.fst) := by
  have hne := C08C.declMap_ne_nil (C08C.cssSpec_ne_nil hr)
  rw [css_grammar_never_error refVal l10nVal _ hne (css_grammar_accepts dr refVal hr).2 dl hl,
    ← css_silent_iff l10nVal _ _ (css_grammar_accepts dl l10nVal hl).2]
  split <;> simp_all

/-- css_spec_errors: on a spec with defects (`C08C.SpecE`) the map of all declarations and exactly one error per
    defective gap, in order -/
theorem css_spec_errors (ds : List C08C.Decl) (v : Text) (errs : List CssErr) (h : C08C.SpecE true 0 ds v errs) :
    parseCssSpec v = (some (C08C.declMap ds), C08C.optOf errs) :=
  C08C.css_spec_errors ds v errs h

/-- … so a defective localized spec (missing semicolon between declarations, declarations that touch, junk before,
    between or after) yields exactly the error "reference is a CSS spec" -/
theorem css_defect_is_error (refVal l10nVal : Text) (refMap : List (Text × Text)) (hne : refMap ≠ [])
    (href : (parseCssSpec refVal).1 = some refMap) (ds : List C08C.Decl) (errs : List CssErr)
    (h : C08C.SpecE true 0 ds l10nVal errs) (he : errs ≠ []) :
    maybeStyle refVal l10nVal = [specError] := by
  rw [css_rules refVal l10nVal refMap hne href, C08C.css_spec_errors ds l10nVal errs h]
  have hds : ds ≠ [] := by cases h <;> simp
  have hnn := C08C.declMap_ne_nil hds
  cases hm : C08C.declMap ds with
  | nil => exact absurd hm hnn
  | cons x xs =>
    cases errs with
    | nil => exact absurd rfl he
    | cons e es => rfl

/-- the three breaking edits of the harness, as instances -/
theorem css_missing_semicolon (ds1 ds2 : List C08C.Decl) (lead t1 ws t2 trail : Text) (hl : C08C.IsEdge lead)
    (h1 : C08C.DeclsText ds1 t1) (hws : ws.all C08C.isWs = true) (h2 : C08C.DeclsText ds2 t2) (htr : C08C.IsEdge trail) :
    parseCssSpec (lead ++ (t1 ++ (ws ++ (t2 ++ trail)))) =
      (some (C08C.declMap (ds1 ++ ds2)), some [⟨lead.length + t1.length, .missingSemicolon⟩]) :=
  C08C.css_missing_semicolon ds1 ds2 lead t1 ws t2 trail hl h1 hws h2 htr

theorem css_junk_after (ds : List C08C.Decl) (lead t junk : Text) (hl : C08C.IsEdge lead) (h : C08C.DeclsText ds t)
    (hj : C08C.IsJunk junk) :
    parseCssSpec (lead ++ (t ++ junk)) = (some (C08C.declMap ds), some [⟨lead.length + t.length, .badContent⟩]) :=
  C08C.css_junk_after ds lead t junk hl h hj

theorem css_junk_before (ds : List C08C.Decl) (junk t trail : Text) (hj : C08C.IsJunk junk) (h : C08C.DeclsText ds t)
    (htr : C08C.IsEdge trail) :
    parseCssSpec (junk ++ (t ++ trail)) = (some (C08C.declMap ds), some [⟨0, .badContent⟩]) :=
  C08C.css_junk_before ds junk t trail hj h htr

section examplesC
open C08C

private def tx (s : String) : List Nat := s.toList.map Char.toNat
private def d1 : Decl := ⟨tx "width", [], [], tx "1", tx "em"⟩
private theorem d1ok : d1.Ok := ⟨by decide, by decide, by decide, .int (tx "1") (by decide) (by decide), by decide⟩

/-- non-vacuity: "width:1em \n" (the former finding F14) is in the grammar; the regex code, evaluated, agrees -/
example : CssSpec [d1] ([] ++ (d1.text ++ tx " \n")) := .mk [] _ (tx " \n") _ (Or.inl (by decide)) (.one d1 d1ok) (Or.inl (by decide))
example : parseCssSpec (tx "width:1em \n") = (some [(tx "width", tx "em")], none) := by decide +kernel
/-- a defect instance: "width:1em x" is `d1` followed by the junk " x" -/
example : IsJunk (tx " x") := ⟨by decide, ⟨120, by decide, by decide, by decide⟩⟩
example : parseCssSpec (tx "width:1em x") = (some [(tx "width", tx "em")], some [⟨9, CssCode.badContent⟩]) := by decide +kernel

end examplesC
end C07

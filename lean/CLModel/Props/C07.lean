/-
C07 — DTD: malformed XML values are errors, well-formed ones never are.
Property theorems only (helper lemmas live in CLModel/Proofs/C07Model.lean and C07Xml.lean).

`Dtd.check xmlParse i` is the model of `DTDChecker.check(refEnt, l10nEnt)`; `xmlParse` stands for
expat (external): for a document it gives the error (line, column, message), if any.  Every theorem
holds for ALL `xmlParse`, all reference sets and all entities.
-/
import CLModel.Checks.Dtd
import CLModel.Checks.XmlGrammar
import CLModel.Proofs.C07Model
import CLModel.Proofs.C07Xml
import CLModel.Proofs.C07Num
import CLModel.Proofs.C07ERx
import CLModel.Proofs.C07EGrammar
import CLModel.Proofs.C08CReject
import CLModel.Proofs.C07State
import CLModel.Proofs.C07Lit
import CLModel.Proofs.C07Android
import CLModel.Proofs.C07CssComplete
namespace C07
open Dtd

/-! ## the template plumbing -/

/-- Every entity reference the checker's `eref` scan finds in the localized value is one of the five
    XML built-ins or is declared in the internal subset of the documents built for that value:
    the template can never be the cause of an "undefined entity" error. -/
theorem all_refs_declared (i : Inp) :
    ∀ name ∈ erefNames i.l10n.val, name ∈ Gen.Tables.xmllist ∨ name ∈ declaredNames i := by
  intro name hn
  by_cases hx : name ∈ Gen.Tables.xmllist
  · exact Or.inl hx
  · right
    by_cases hk : name ∈ knownEntities i
    · exact List.mem_append_left _ hk
    · exact List.mem_append_right _ (mem_missingOf.mpr ⟨hn, hx, hk⟩)

/-- The declared names are literally what stands between `<!DOCTYPE elem [` and `]>` of the first
    document parsed for the localized value: one `<!ENTITY name "">` per declared name, then the
    value inside `<elem>…</elem>`. -/
theorem declared_in_document (i : Inp) (d : Bytes) (h : docValue (l10nDecls i) i.l10n.val = some d) :
    ∃ e v, utf8 (entityDecls (declaredNames i)) = some e ∧ utf8 i.l10n.val = some v ∧
      d = Gen.Tables.dtdTmplPre ++ e ++ Gen.Tables.dtdTmplMid ++ v ++ Gen.Tables.dtdTmplPost := by
  rw [l10nDecls_eq] at h
  unfold docValue at h
  split at h
  · rename_i e v he hv
    exact ⟨e, v, he, hv, by simpa [tmpl] using h.symm⟩
  · simp at h

/-! ## unknown entity references -/

/-- the "Referencing unknown entity" warnings -/
def isUnknownWarning (r : Result) : Bool :=
  r.level == .warning && r.cat == .xmlparse && msgRefUnknown.isPrefixOf r.msg

/-- A name is warned about iff the localized value references it, it is not an XML built-in and
    no reference value (of the whole reference file if one is set, else of the reference entity)
    references it. -/
theorem missing_iff (i : Inp) (name : Text) :
    name ∈ missingOf i ↔
      name ∈ erefNames i.l10n.val ∧ name ∉ Gen.Tables.xmllist ∧
        ¬ ∃ v ∈ refValsOf i, name ∈ erefNames v ∧ name ∉ Gen.Tables.xmllist := by
  rw [mem_missingOf, mem_knownEntities]

/-- Unless the check raises, its "Referencing unknown entity" warnings are exactly one per missing
    name (each name once), in the order of `missingOf`, each naming its entity. -/
theorem unknown_ref_warned (xmlParse : Bytes → ParseRes) (i : Inp) (h : (check xmlParse i).exc = none) :
    (check xmlParse i).results.filter isUnknownWarning
        = (missingOf i).map (unknownWarning (reflistOf i) (inContextOf i)) ∧
      (missingOf i).Nodup ∧
      ∀ key, (unknownWarning (reflistOf i) (inContextOf i) key).msg
        = msgRefUnknown ++ key ++ [96] ++ warnSuffix (reflistOf i) (inContextOf i) := by
  refine ⟨?_, nodup_missingOf i, fun _ => rfl⟩
  rw [check_results xmlParse i h]
  simp only [List.filter_append, staticSections]
  have z1 : (baseCheck i.l10n).filter isUnknownWarning = [] :=
    List.filter_eq_nil_iff.mpr (fun r hr => by simp [isUnknownWarning, cat_baseCheck _ r hr])
  have z2 : (refSection xmlParse i).results.filter isUnknownWarning = [] :=
    List.filter_eq_nil_iff.mpr (fun r hr => by
      rw [refSection_results xmlParse i r hr]; decide)
  have z3 : (l10nSection xmlParse i).1.results.filter isUnknownWarning = [] := by
    obtain ⟨_, h1, _⟩ := andThen_ok (by unfold check at h; exact h)
    obtain ⟨_, h2, _⟩ := andThen_ok h1
    obtain ⟨h3, _, _⟩ := andThen_ok h2
    rw [l10nSection_results xmlParse i h3]
    unfold verdictResults
    split
    · exact List.filter_eq_nil_iff.mpr (fun r hr => by
        have := xmlErrorResult_all _ _ r hr
        simp only [isXmlError, Bool.and_eq_true, beq_iff_eq] at this
        simp [isUnknownWarning, this.1])
    · rfl
  have z4 : (unknownSection i).filter isUnknownWarning = unknownSection i :=
    List.filter_eq_self.mpr (fun r hr => by
      simp only [unknownSection, List.mem_map] at hr
      obtain ⟨k, _, rfl⟩ := hr
      simp only [isUnknownWarning, unknownWarning, beq_self_eq_true, Bool.true_and, List.append_assoc]
      exact List.isPrefixOf_iff_prefix.mpr (List.prefix_append _ _))
  have z5 : (mismatchSection i).filter isUnknownWarning = [] :=
    List.filter_eq_nil_iff.mpr (fun r hr => by
      obtain ⟨_, _, t, ht⟩ := level_mismatchSection i r hr
      simp [isUnknownWarning, ht, msgRefUnknown, List.isPrefixOf])
  have z6 : (numberSection i.ref.val i.l10n.val).filter isUnknownWarning = [] :=
    List.filter_eq_nil_iff.mpr (fun r hr => by simp [isUnknownWarning, cat_numberSection _ _ r hr])
  have z7 : (lengthSection i.ref.val i.l10n.val).filter isUnknownWarning = [] :=
    List.filter_eq_nil_iff.mpr (fun r hr => by simp [isUnknownWarning, cat_lengthSection _ _ r hr])
  have z8 : (maybeStyle i.ref.val i.l10n.val).filter isUnknownWarning = [] :=
    List.filter_eq_nil_iff.mpr (fun r hr => by simp [isUnknownWarning, cat_maybeStyle _ _ r hr])
  have z9 : (androidResults xmlParse i).filter isUnknownWarning = [] :=
    List.filter_eq_nil_iff.mpr (fun r hr => by
      unfold androidResults at hr
      split at hr
      · simp [isUnknownWarning, cat_androidSection _ r hr]
      · simp at hr)
  rw [z1, z2, z3, z4, z5, z6, z7, z8, z9]
  simp [unknownSection]

/-- References to the five XML built-ins are never reported as unknown (whatever the reference says). -/
theorem builtins_never_warned (i : Inp) : ∀ n ∈ XmlContent.predefined, n ∉ missingOf i := by
  intro n hn hm
  have := (mem_missingOf.mp hm).2.1
  apply this
  simp only [XmlContent.predefined, List.mem_cons, List.not_mem_nil, or_false] at hn
  rcases hn with rfl | rfl | rfl | rfl | rfl <;> decide

/-! ## parse errors -/

/-- The error position arithmetic is total (after the upstream fix: an empty value has no lines):
    a SAXParseException can always be turned into a result. -/
theorem error_position_total (l10nVal : Text) (line col : Nat) : (errorPos l10nVal line col).isSome = true :=
  errorPos_isSome l10nVal line col

/-- Unless the check raises (UnicodeEncodeError on lone surrogates), expat's verdict on the two
    documents of the localized value decides the xmlparse errors: a parse error of either document
    (first in program order) yields exactly one result ("error", (line, col), message, "xmlparse")
    with the post-processed position; no parse error, no such result — whatever else is reported. -/
theorem xml_error_is_error (xmlParse : Bytes → ParseRes) (i : Inp) (h : (check xmlParse i).exc = none) :
    (check xmlParse i).results.filter isXmlError = verdictResults i.l10n.val (l10nVerdict xmlParse i) := by
  obtain ⟨_, h1, _⟩ := andThen_ok (by unfold check at h; exact h)
  obtain ⟨_, h2, _⟩ := andThen_ok h1
  obtain ⟨h3, _, _⟩ := andThen_ok h2
  rw [check_results xmlParse i h]
  simp only [List.filter_append, staticSections]
  have z1 : (baseCheck i.l10n).filter isXmlError = [] :=
    List.filter_eq_nil_iff.mpr (fun r hr => by simp [isXmlError, cat_baseCheck _ r hr])
  have z2 : (refSection xmlParse i).results.filter isXmlError = [] :=
    List.filter_eq_nil_iff.mpr (fun r hr => by rw [refSection_results xmlParse i r hr]; decide)
  have z3 : (l10nSection xmlParse i).1.results.filter isXmlError = (l10nSection xmlParse i).1.results := by
    rw [l10nSection_results xmlParse i h3]
    unfold verdictResults
    split
    · exact List.filter_eq_self.mpr (xmlErrorResult_all _ _)
    · rfl
  have z4 : (unknownSection i).filter isXmlError = [] :=
    List.filter_eq_nil_iff.mpr (fun r hr => by simp [isXmlError, (level_unknownSection i r hr).1])
  have z5 : (mismatchSection i).filter isXmlError = [] :=
    List.filter_eq_nil_iff.mpr (fun r hr => by simp [isXmlError, (level_mismatchSection i r hr).1])
  have z6 : (numberSection i.ref.val i.l10n.val).filter isXmlError = [] :=
    List.filter_eq_nil_iff.mpr (fun r hr => by simp [isXmlError, cat_numberSection _ _ r hr])
  have z7 : (lengthSection i.ref.val i.l10n.val).filter isXmlError = [] :=
    List.filter_eq_nil_iff.mpr (fun r hr => by simp [isXmlError, cat_lengthSection _ _ r hr])
  have z8 : (maybeStyle i.ref.val i.l10n.val).filter isXmlError = [] :=
    List.filter_eq_nil_iff.mpr (fun r hr => by simp [isXmlError, cat_maybeStyle _ _ r hr])
  have z9 : (androidResults xmlParse i).filter isXmlError = [] :=
    List.filter_eq_nil_iff.mpr (fun r hr => by
      unfold androidResults at hr
      split at hr
      · simp [isXmlError, cat_androidSection _ r hr]
      · simp at hr)
  rw [z1, z2, z3, z4, z5, z6, z7, z8, z9, l10nSection_results xmlParse i h3]
  simp

/-- … and that one result has level error, category xmlparse, expat's message, and the position
    computed by `errorPos` (last line's end when expat points past the value, otherwise expat's
    column minus the template prefix on lines 0 and 1). -/
theorem xml_error_result_shape (l10nVal : Text) (e : Nat × Nat × Text) :
    ∃ p, errorPos l10nVal e.1 e.2.1 = some p ∧
      xmlErrorResult l10nVal e = [⟨.error, .lc p.1 p.2, e.2.2, .xmlparse⟩] := by
  have h := errorPos_isSome l10nVal e.1 e.2.1
  cases hp : errorPos l10nVal e.1 e.2.1 with
  | none => simp [hp] at h
  | some p => exact ⟨p, rfl, by simp [xmlErrorResult, hp]⟩

/-! ## numbers, lengths, CSS specs -/

/-- Unless the check raises: the results of category "number" are one warning if the reference
    value matches `num` and the localized value does not, none otherwise; the results of category
    "css" are the length error (reference matches `length`, localization does not) followed by the
    CSS spec results. -/
theorem number_length_rules (xmlParse : Bytes → ParseRes) (i : Inp) (h : (check xmlParse i).exc = none) :
    (check xmlParse i).results.filter (fun r => r.cat == .number)
        = (if isNum i.ref.val && !isNum i.l10n.val then [⟨.warning, .num 0, msgNumber, .number⟩] else []) ∧
    (check xmlParse i).results.filter (fun r => r.cat == .css)
        = (if isLength i.ref.val && !isLength i.l10n.val then [⟨.error, .num 0, msgLength, .css⟩] else []) ++
          maybeStyle i.ref.val i.l10n.val := by
  obtain ⟨_, h1, _⟩ := andThen_ok (by unfold check at h; exact h)
  obtain ⟨_, h2, _⟩ := andThen_ok h1
  obtain ⟨h3, _, _⟩ := andThen_ok h2
  have hl : ∀ r ∈ (l10nSection xmlParse i).1.results, r.cat = .xmlparse := by
    intro r hr
    rw [l10nSection_results xmlParse i h3] at hr
    unfold verdictResults at hr
    split at hr
    · have := xmlErrorResult_all _ _ r hr
      simp only [isXmlError, Bool.and_eq_true, beq_iff_eq] at this
      exact this.2
    · simp at hr
  have ha : ∀ r ∈ androidResults xmlParse i, r.cat = .android := by
    intro r hr
    unfold androidResults at hr
    split at hr
    · exact cat_androidSection _ r hr
    · simp at hr
  rw [check_results xmlParse i h]
  simp only [List.filter_append, staticSections]
  constructor
  · have z1 : (baseCheck i.l10n).filter (fun r => r.cat == .number) = [] :=
      List.filter_eq_nil_iff.mpr (fun r hr => by simp [cat_baseCheck _ r hr])
    have z2 : (refSection xmlParse i).results.filter (fun r => r.cat == .number) = [] :=
      List.filter_eq_nil_iff.mpr (fun r hr => by rw [refSection_results xmlParse i r hr]; decide)
    have z3 : (l10nSection xmlParse i).1.results.filter (fun r => r.cat == .number) = [] :=
      List.filter_eq_nil_iff.mpr (fun r hr => by simp [hl r hr])
    have z4 : (unknownSection i).filter (fun r => r.cat == .number) = [] :=
      List.filter_eq_nil_iff.mpr (fun r hr => by simp [(level_unknownSection i r hr).2])
    have z5 : (mismatchSection i).filter (fun r => r.cat == .number) = [] :=
      List.filter_eq_nil_iff.mpr (fun r hr => by simp [(level_mismatchSection i r hr).2.1])
    have z6 : (numberSection i.ref.val i.l10n.val).filter (fun r => r.cat == .number) = numberSection i.ref.val i.l10n.val :=
      List.filter_eq_self.mpr (fun r hr => by simp [cat_numberSection _ _ r hr])
    have z7 : (lengthSection i.ref.val i.l10n.val).filter (fun r => r.cat == .number) = [] :=
      List.filter_eq_nil_iff.mpr (fun r hr => by simp [cat_lengthSection _ _ r hr])
    have z8 : (maybeStyle i.ref.val i.l10n.val).filter (fun r => r.cat == .number) = [] :=
      List.filter_eq_nil_iff.mpr (fun r hr => by simp [cat_maybeStyle _ _ r hr])
    have z9 : (androidResults xmlParse i).filter (fun r => r.cat == .number) = [] :=
      List.filter_eq_nil_iff.mpr (fun r hr => by simp [ha r hr])
    rw [z1, z2, z3, z4, z5, z6, z7, z8, z9]
    simp [numberSection]
  · have z1 : (baseCheck i.l10n).filter (fun r => r.cat == .css) = [] :=
      List.filter_eq_nil_iff.mpr (fun r hr => by simp [cat_baseCheck _ r hr])
    have z2 : (refSection xmlParse i).results.filter (fun r => r.cat == .css) = [] :=
      List.filter_eq_nil_iff.mpr (fun r hr => by rw [refSection_results xmlParse i r hr]; decide)
    have z3 : (l10nSection xmlParse i).1.results.filter (fun r => r.cat == .css) = [] :=
      List.filter_eq_nil_iff.mpr (fun r hr => by simp [hl r hr])
    have z4 : (unknownSection i).filter (fun r => r.cat == .css) = [] :=
      List.filter_eq_nil_iff.mpr (fun r hr => by simp [(level_unknownSection i r hr).2])
    have z5 : (mismatchSection i).filter (fun r => r.cat == .css) = [] :=
      List.filter_eq_nil_iff.mpr (fun r hr => by simp [(level_mismatchSection i r hr).2.1])
    have z6 : (numberSection i.ref.val i.l10n.val).filter (fun r => r.cat == .css) = [] :=
      List.filter_eq_nil_iff.mpr (fun r hr => by simp [cat_numberSection _ _ r hr])
    have z7 : (lengthSection i.ref.val i.l10n.val).filter (fun r => r.cat == .css) = lengthSection i.ref.val i.l10n.val :=
      List.filter_eq_self.mpr (fun r hr => by simp [cat_lengthSection _ _ r hr])
    have z8 : (maybeStyle i.ref.val i.l10n.val).filter (fun r => r.cat == .css) = maybeStyle i.ref.val i.l10n.val :=
      List.filter_eq_self.mpr (fun r hr => by simp [cat_maybeStyle _ _ r hr])
    have z9 : (androidResults xmlParse i).filter (fun r => r.cat == .css) = [] :=
      List.filter_eq_nil_iff.mpr (fun r hr => by simp [ha r hr])
    rw [z1, z2, z3, z4, z5, z6, z7, z8, z9]
    simp [lengthSection]

/-- What "is a number" means, without the regex engine: `DTDChecker.num.match(v)` succeeds iff `v` is
    one or more digits, or optional digits, a dot and one or more digits — up to the end of the text
    or a single final newline (`$` without MULTILINE).  Proved about the generated regex
    `Gen.Pat.DTDChecker_num` run by the regex-engine model. -/
theorem num_shape (v : Text) :
    isNum v = ((decide (digitsLen v ≥ 1) && atEnd v (digitsLen v)) ||
      (v[digitsLen v]? == some 46 && decide (digitsLen (v.drop (digitsLen v + 1)) ≥ 1) &&
        atEnd v (digitsLen v + 1 + digitsLen (v.drop (digitsLen v + 1))))) :=
  isNum_eq_numShape v

/-- What "is a CSS length" means: such a number immediately followed by em, px, ch, cm or in, then the
    end of the text or a single final newline. -/
theorem length_shape (v : Text) :
    isLength v = numThen v (fun j => unitAt v j && atEnd v (j + 2)) :=
  isLength_eq_lengthShape v

/-- If the reference value contains a CSS size spec (`parse_css_spec` gives a non-empty property map):
    a localized value without any spec, or with junk / a missing semicolon between specs, yields
    exactly the error "reference is a CSS spec"; a parseable one yields exactly one warning listing
    the differences, or nothing if there are none. -/
theorem css_rules (refVal l10nVal : Text) (refMap : List (Text × Text)) (hne : refMap ≠ [])
    (href : (parseCssSpec refVal).1 = some refMap) :
    maybeStyle refVal l10nVal =
      match (parseCssSpec l10nVal).1, (parseCssSpec l10nVal).2 with
      | none, _ => [specError]
      | some [], _ => [specError]
      | some (_ :: _), some (_ :: _) => [specError]
      | some lm, _ =>
        if styleMsgs refMap lm = [] then []
        else [⟨.warning, .num 0, join commaSp (styleMsgs refMap lm), .css⟩] := by
  unfold maybeStyle
  rw [href]
  cases refMap with
  | nil => exact absurd rfl hne
  | cons a as =>
    simp only
    unfold checkStyle
    cases (parseCssSpec l10nVal).1 with
    | none => rfl
    | some lm =>
      cases lm with
      | nil => rfl
      | cons b bs =>
        cases (parseCssSpec l10nVal).2 with
        | none => simp only; split <;> simp_all
        | some er =>
          cases er with
          | nil => simp only; split <;> simp_all
          | cons e es => rfl

/-- The CSS comparison is silent iff the two property maps agree: every localized property has the
    unit the reference gives it, and every reference property occurs in the localization.
    (`parse_css_spec` maps are dicts: their keys are pairwise distinct, `parseCssSpec_nodup`.) -/
theorem css_silent_iff (l10nVal : Text) (refMap lm : List (Text × Text))
    (hl : (parseCssSpec l10nVal).1 = some lm) :
    styleMsgs refMap lm = [] ↔
      (∀ pu ∈ lm, dget refMap pu.1 = some pu.2) ∧ (∀ q ∈ refMap, q.1 ∈ lm.map Prod.fst) :=
  styleMsgs_nil_iff refMap lm (parseCssSpec_nodup l10nVal lm hl)

/-! ## the recogniser for well-formed values -/

open XmlContent in
/-- grammar_accepts: every value generated by `ValueGrammar declared` (text, references to declared or
    predefined entities, character references to legal characters, balanced elements with
    attributes, comments, CDATA sections, processing instructions) is well-formed content. -/
theorem grammar_accepts (declared : List XmlContent.Text) (v : XmlContent.Text)
    (h : ValueGrammar declared v) : wf declared v = true :=
  grammar_wf declared h

open XmlContent in
/-- Every item boundary of a grammar value, at any nesting depth, is a content position of the
    recogniser, the open elements being exactly the enclosing ones. -/
theorem grammar_positions_are_content (declared : List XmlContent.Text) (p : XmlContent.Text)
    (stk : List XmlContent.Text) (h : ContentPrefix declared p stk) :
    run declared init p = some ⟨.content 0, stk⟩ :=
  contentPrefix_run declared h

open XmlContent in
/-- edits_reject (partial): at EVERY content position — reached by any prefix `p` whatsoever, in
    particular every item boundary of a grammar value — inserting a bare `&`, a bare `<`, an
    unterminated entity or character reference, an end tag that does not match the innermost open
    element, or a mis-nested pair makes the value ill-formed, whatever follows (`s` arbitrary).

    Full statement of the design: `∀ v ∈ ValueGrammar, ∀ edit, ∀ pos, ¬ wf (apply edit pos v)`.
    That is false for positions inside comments, CDATA sections, processing instructions and
    attribute values (witnesses below), so it is proved for content positions.  An unclosed start
    tag is no `BreakingEdit` (the suffix may close it): see `unclosed_at_end` and
    `unclosed_insert_rejected` (insertion into a well-formed value). -/
theorem edits_reject_partial (declared : List XmlContent.Text) (p e s : XmlContent.Text) (br : Nat)
    (stk : List XmlContent.Text) (hp : run declared init p = some ⟨.content br, stk⟩)
    (he : BreakingEdit stk e) : wf declared (p ++ e ++ s) = false :=
  edit_not_wf declared p e s br stk hp he

open XmlContent in
/-- the same at the item boundaries of grammar values (top level and nested) -/
theorem edits_reject_at_boundaries (declared : List XmlContent.Text) (p e s : XmlContent.Text)
    (stk : List XmlContent.Text) (hp : ContentPrefix declared p stk) (he : BreakingEdit stk e) :
    wf declared (p ++ e ++ s) = false :=
  edit_not_wf declared p e s 0 stk (contentPrefix_run declared hp) he

open XmlContent in
/-- a value that stops inside a reference or markup, or with elements still open, is ill-formed -/
theorem unclosed_at_end (declared : List XmlContent.Text) (p n : XmlContent.Text) (br : Nat)
    (stk : List XmlContent.Text) (hp : run declared init p = some ⟨.content br, stk⟩) (hn : isName n = true) :
    wf declared (p ++ (60 :: n ++ [62])) = false :=
  unclosed_at_end_not_wf declared p br stk n hp hn

open XmlContent in
/-- Inserting an unclosed start tag at a content position (no pending `]`; e.g. any grammar item
    boundary) of a WELL-FORMED value makes it ill-formed — proved by simulation: with one extra open
    element in the stack the automaton dies or ends with that element still open. -/
theorem unclosed_insert_rejected (declared : List XmlContent.Text) (p s n : XmlContent.Text)
    (stk : List XmlContent.Text) (hp : run declared init p = some ⟨.content 0, stk⟩)
    (hwf : wf declared (p ++ s) = true) (hn : isName n = true) :
    wf declared (p ++ (60 :: n ++ [62]) ++ s) = false :=
  unclosed_insert_not_wf declared p s n stk hp hwf hn

/-! ## well-formed values and the shipped checker -/

/-- the monitored contract: expat accepts the first template document iff the value is well-formed
    content relative to the declared names -/
def ExpatContract (xmlParse : Bytes → ParseRes) : Prop :=
  ∀ (names : List Text) (v : Text) (d : Bytes), docValue (entityDecls names) v = some d →
    ((xmlParse d).err = none ↔ XmlContent.wf names v = true)

theorem xmllist_predefined (n : Text) (h : n ∈ Gen.Tables.xmllist) : XmlContent.predefined.contains n = true := by
  simp only [Gen.Tables.xmllist, List.mem_cons, List.not_mem_nil, or_false] at h
  rcases h with rfl | rfl | rfl | rfl | rfl <;> decide

/-- wellformed_never_error (partial): under the expat contract, a localized value generated by the
    grammar from the entity names the checker finds in it (and the built-ins) passes the first
    document — the checker declares all it needs.

    Missing for the full claim "no xmlparse error at all": (1) that the `eref` scan finds every
    reference of a grammar value (hypothesis `hg` states the grammar over `erefNames`), a statement
    about the regex engine; (2) the second document (entity literal rules, stray `%`), covered by
    the executable `XmlContent.wfValue` and the differential contract only. -/
theorem wellformed_never_error_partial (xmlParse : Bytes → ParseRes) (i : Inp) (hc : ExpatContract xmlParse)
    (hg : XmlContent.ValueGrammar (erefNames i.l10n.val) i.l10n.val)
    (d3 : Bytes) (h3 : docValue (l10nDecls i) i.l10n.val = some d3) :
    (xmlParse d3).err = none := by
  rw [l10nDecls_eq] at h3
  rw [hc (declaredNames i) i.l10n.val d3 h3]
  apply XmlContent.grammar_wf
  apply hg.mono
  intro n hn
  have hn' : n ∈ erefNames i.l10n.val := by simpa using hn
  rcases all_refs_declared i n hn' with h | h
  · rw [xmllist_predefined n h, Bool.or_true]
  · have : (declaredNames i).contains n = true := by simpa using h
    rw [this, Bool.true_or]

/-! ## non-vacuity and negation witnesses -/

section examples
open XmlContent

/-- "a&foo;<b x='1'>t</b>" is in the grammar over [foo] … -/
example : ValueGrammar [[102, 111, 111]]
    ([97] ++ ([38, 102, 111, 111, 59] ++ (60 :: [98] ++ [32, 120, 61, 39, 49, 39] ++ [] ++ [62] ++ [116] ++ [60, 47] ++ [98] ++ [] ++ [62] ++ []))) :=
  .text 97 _ (by decide) <| .ref [38, 102, 111, 111, 59] _ (.ent [102, 111, 111] (by decide) (by decide)) <|
    .elem [98] [32, 120, 61, 39, 49, 39] [] [] [116] [] [[120]] (by decide)
      (.cons [] [120] 32 [] [] [] 39 [49] [] [[120]] (by decide) (by decide) (by decide) (by decide) (by decide) (by decide)
        (Or.inr rfl) (.char 49 [] (by decide) (by decide) (by decide) (by decide) .nil) (.nil _))
      (by decide) (by decide) (.text 116 [] (by decide) .nil) .nil

/-- … and the recogniser, evaluated directly, accepts it and rejects the edits -/
example : wf [[102, 111, 111]] [97, 38, 102, 111, 111, 59, 60, 98, 32, 120, 61, 39, 49, 39, 62, 116, 60, 47, 98, 62] = true := by decide
example : wf [[102, 111, 111]] [97, 38, 32, 102, 111, 111, 59] = false := by decide                 -- "a& foo;"
example : wf [[102, 111, 111]] [97, 38, 102, 111, 111, 32] = false := by decide                      -- "a&foo "
example : wf [] [60, 98, 62, 60, 105, 62, 60, 47, 98, 62, 60, 47, 105, 62] = false := by decide      -- "<b><i></b></i>"
example : wf [] [60, 98, 62] = false := by decide                                                    -- "<b>"
example : wf [] [97, 60, 122, 62, 60, 98, 62, 60, 47, 98, 62] = false := by decide                   -- "a<z><b></b>" : unclosed <z> inserted into "a<b></b>"
example : wf [] [38, 98, 97, 114, 59] = false := by decide                                           -- "&bar;" undeclared
example : wf [[98, 97, 114]] [38, 98, 97, 114, 59] = true := by decide                               -- "&bar;" declared

/-- negation witnesses for "every position": the same insertions INSIDE a comment, a CDATA section or
    an attribute value leave the value well-formed content -/
example : wf [] [60, 33, 45, 45, 38, 32, 45, 45, 62] = true := by decide                             -- "<!--& -->"
example : wf [] [60, 33, 91, 67, 68, 65, 84, 65, 91, 60, 32, 93, 93, 62] = true := by decide         -- "<![CDATA[< ]]>"
example : wf [] [60, 98, 32, 120, 61, 39, 60, 47, 122, 62, 39, 47, 62] = false := by decide          -- "<b x='</z>'/>" : `<` in an attribute value IS rejected
example : wf [] [60, 63, 112, 32, 38, 32, 63, 62] = true := by decide                                -- "<?p & ?>"

/-- … but the second template document (the value as an entity literal) rejects `&` there: `wfValue` -/
example : wfValue [] [107] [60, 33, 45, 45, 38, 32, 45, 45, 62] = false := by decide
example : wfValue [] [107] [49, 48, 48, 37] = false := by decide                                     -- "100%"
example : wfValue [] [107] [38, 35, 51, 56, 59] = false := by decide                                 -- "&#38;" expands to a bare &
example : wfValue [] [107] [38, 35, 48, 51, 55, 59] = true := by decide                              -- "&#037;"

/-- a breaking edit instance: "& " -/
example : BreakingEdit [] [38, 32] := .bareAmp 32 (by decide) (by decide)
example : BreakingEdit [[98]] ([60, 47] ++ [122] ++ [] ++ [62]) := .strayClose [122] [] (by decide) (by decide) (by decide)

/-- the error position arithmetic on the unit tests' cases: "This is </bad> stuff" line 2 col 16 → (1, 10) -/
example : errorPos [84, 104, 105, 115] 2 16 = some (1, 10) := by decide
/-- error reported on the fake closing element after a two-line value: end of the last line -/
example : errorPos [97, 10, 98, 99] 4 3 = some (2, 2) := by decide
/-- empty value, error on a later line (the former IndexError): (0, 0) -/
example : errorPos [] 3 7 = some (0, 0) := by decide

/-- CSS comparison on concrete maps: missing property and different unit -/
example : styleMsgs [([119], [101, 109]), ([104], [112, 120])] [([119], [99, 104])]
    = [[104] ++ msgOnlyRef, msgUnitsFor ++ [119] ++ msgDontMatch ++ [99, 104] ++ msgNe ++ [101, 109] ++ [41]] := by decide
example : styleMsgs [([119], [101, 109])] [([119], [101, 109])] = [] := by decide

/-- the shapes, evaluated without any regex -/
example : numShape [49, 50] = true ∧ numShape [46, 53] = true ∧ numShape [49, 46] = false ∧ numShape [49, 50, 10] = true ∧
    numShape [49, 50, 10, 10] = false ∧ numShape [] = false := by decide
example : lengthShape [49, 46, 53, 112, 120] = true ∧ lengthShape [49, 48, 101, 120] = false ∧
    lengthShape [46, 53, 99, 104, 10] = true ∧ lengthShape [112, 120] = false := by decide

/-! regression pins: the generated regexes evaluated on the shapes the property names (a changed
    regex or table in /repo changes `Gen.*` and breaks these) -/
/-- `num` / `length` on the shapes the property names -/
example : isNum [49, 50] = true ∧ isNum [46, 53] = true ∧ isNum [49, 46] = false ∧ isNum [] = false ∧ isNum [49, 101, 109] = false := by decide  -- "12" ".5" "1." "" "1em"
example : isLength [49, 48, 101, 109] = true ∧ isLength [49, 46, 53, 112, 120] = true ∧ isLength [46, 53, 99, 104] = true ∧ isLength [51, 99, 109] = true ∧ isLength [50, 105, 110] = true ∧ isLength [49, 48, 101, 120] = false ∧ isLength [49, 48] = false := by decide  -- em px ch cm in / ex, bare number
/-- CSS specs: units of the spec regex, separator rules -/
example : maybeStyle [119, 105, 100, 116, 104, 58, 49, 101, 109] [119, 105, 100, 116, 104, 58, 49, 101, 109, 59, 59] = [specError] := by decide +kernel  -- "width:1em" vs "width:1em;;" : stray semicolon is bad content
example : maybeStyle [119, 105, 100, 116, 104, 58, 49, 101, 109] [119, 105, 100, 116, 104, 58, 50, 101, 109] = [] := by decide +kernel  -- same unit, other length: silent
example : maybeStyle [119, 105, 100, 116, 104, 58, 49, 101, 109, 59, 104, 101, 105, 103, 104, 116, 58, 50, 112, 120] [119, 105, 100, 116, 104, 58, 49, 101, 109, 32, 104, 101, 105, 103, 104, 116, 58, 50, 112, 120] = [specError] := by decide +kernel  -- missing semicolon
example : maybeStyle [119, 105, 100, 116, 104, 58, 49, 101, 109] [32, 119, 105, 100, 116, 104, 32, 58, 32, 49, 101, 109, 32, 59, 32] = [] := by decide +kernel  -- white space around tokens and a trailing semicolon are fine
example : maybeStyle [119, 105, 100, 116, 104, 58, 49, 101, 109] [106, 117, 110, 107] = [specError] := by decide +kernel  -- no spec at all
example : maybeStyle [119, 105, 100, 116, 104, 58, 49, 112, 116] [119, 105, 100, 116, 104, 58, 49, 112, 99] = [⟨.warning, .num 0, msgUnitsFor ++ [119, 105, 100, 116, 104] ++ msgDontMatch ++ [112, 99] ++ msgNe ++ [112, 116] ++ [41], .css⟩] := by decide +kernel  -- pt vs pc
example : maybeStyle [119, 105, 100, 116, 104, 58, 49, 114, 101, 109, 59, 109, 105, 110, 45, 104, 101, 105, 103, 104, 116, 58, 50, 109, 109] [109, 105, 110, 45, 104, 101, 105, 103, 104, 116, 58, 50, 109, 109, 59, 119, 105, 100, 116, 104, 58, 49, 114, 101, 109] = [] := by decide +kernel  -- order does not matter; rem and mm are units
example : maybeStyle [49, 48, 101, 109] [120] = [] := by decide +kernel  -- a plain length is not a CSS spec

example : maybeStyle [119, 105, 100, 116, 104, 58, 49, 101, 109, 59, 104, 101, 105, 103, 104, 116, 58, 50, 112, 120] [119, 105, 100, 116, 104, 58, 49, 101, 109, 104, 101, 105, 103, 104, 116, 58, 50, 112, 120] = [specError] := by decide +kernel  -- touching declarations "width:1emheight:2px" (upstream fix 6de2763)
example : maybeStyle [119, 105, 100, 116, 104, 58, 49, 101, 109] [119, 105, 100, 116, 104, 58, 49, 101, 109, 32] = [] := by decide +kernel  -- "width:1em " : trailing white space after the last declaration is fine (upstream fix 7c75698, former finding F14)
example : maybeStyle [119, 105, 100, 116, 104, 58, 49, 101, 109, 59, 104, 101, 105, 103, 104, 116, 58, 50, 112, 120] [119, 105, 100, 116, 104, 58, 49, 101, 109, 59, 104, 101, 105, 103, 104, 116, 58, 50, 112, 120, 9, 10] = [] := by decide +kernel  -- "width:1em;height:2px\t\n"
example : maybeStyle [119, 105, 100, 116, 104, 58, 49, 101, 109] [119, 105, 100, 116, 104, 58, 49, 101, 109, 32, 120] = [specError] := by decide +kernel  -- "width:1em x" : trailing junk is still bad content

/-- `all_refs_declared` is not vacuous: the model finds the reference of "a&foo;b" -/
example : erefNames [97, 38, 102, 111, 111, 59, 98] = [[102, 111, 111]] := by decide

end examples

/-! ## extension E: the `eref` regex scan and the grammar

The link that `wellformed_never_error_partial` had to assume — "the `eref` scan (`finditer` of the generated
`&(Name);`) finds every entity reference of a grammar value" — is proved here about the regex-engine model
run on the generated regex. -/

/-- The generated `eref` regex is `&(NameStartChar NameChar*);` and its two character classes, evaluated item by
    item (`ClsItem.has`), are the XML 1.0 (5th edition) classes of the specification restricted to the Basic
    Multilingual Plane: `DTDParser.NameStartChar` leaves out U+10000–U+EFFFF. -/
theorem eref_name_classes :
    Gen.Pat.DTDChecker_eref = .seq (.lit 38) (.seq (.group 1 (.seq (.cls false C07E.nsCls)
      (.rep 0 none true (.cls false C07E.ncCls)))) (.lit 59)) ∧
    (∀ c, Rx.inC false C07E.nsCls c = (XmlContent.isNameStart c && decide (c < 65536))) ∧
    (∀ c, Rx.inC false C07E.ncCls c = (XmlContent.isNameChar c && decide (c < 65536))) :=
  ⟨C07E.eref_shape, C07E.inC_ns, C07E.inC_nc⟩

/-- What `{m.group(1) for m in eref.finditer(v)}` is, for EVERY text `v`, without the regex engine: the output of a
    one-pass scanner (`C07E.plainRefs`: after `&`, a name start and name characters, emitted at `;`), in order. -/
theorem erefNames_regex_free (v : Text) : erefNames v = C07E.plainRefs v :=
  C07E.erefNames_eq_plainRefs v

/-- … and as a set, without any scanning: the checker finds the name `n` in `v` iff `n` is an XML Name whose
    characters are in the BMP and the text `&n;` stands somewhere in `v`. -/
theorem erefNames_iff_occurs (v n : Text) :
    n ∈ erefNames v ↔
      (XmlContent.isName n = true ∧ ∀ c ∈ n, c < 65536) ∧ ∃ a b, v = a ++ (38 :: n ++ [59]) ++ b := by
  rw [C07E.mem_erefNames_iff, C07E.isBmpName_iff]

/-- `C07E.ValueN d v ns` is `ValueGrammar d v` together with the list `ns` of the names of the `&name;` items of
    the derivation (element content and attribute values, in order; comment / CDATA / PI bodies contribute the
    `&name;` texts they contain): every grammar value has such a list, and forgetting it gives the grammar back. -/
theorem grammar_names (d : List XmlContent.Text) (v : XmlContent.Text) :
    XmlContent.ValueGrammar d v ↔ ∃ ns, C07E.ValueN d v ns :=
  ⟨C07E.ValueN.ofGrammar, fun ⟨_, h⟩ => h.toGrammar⟩

/-- erefNames_of_grammar: on a value of the grammar, the checker's `eref` scan returns exactly the names of the
    reference items of the value, in order — provided these names are in the BMP (forced: see the witness below). -/
theorem erefNames_of_grammar (d : List XmlContent.Text) (v : XmlContent.Text) (ns : List XmlContent.Text)
    (h : C07E.ValueN d v ns) (hb : ∀ n ∈ ns, ∀ c ∈ n, c < 65536) : erefNames v = ns :=
  C07E.erefNames_of_valueN h hb

/-- wellformed_never_error (first document, no hypothesis about the scan any more): under the expat contract,
    EVERY value of the grammar — over whatever declared names `d` — whose characters are in the BMP passes the
    first template document: the checker's regex finds all its references and declares them.

    Still missing for "no xmlparse error at all": the second document (entity literal rules, stray `%`), covered
    by the executable `XmlContent.wfValue` and the differential contract only.  expat stays a hypothesis
    (`ExpatContract`): it is external. -/
theorem wellformed_never_error (xmlParse : Bytes → ParseRes) (i : Inp) (hc : ExpatContract xmlParse)
    (d : List XmlContent.Text) (hg : XmlContent.ValueGrammar d i.l10n.val) (hb : ∀ c ∈ i.l10n.val, c < 65536)
    (d3 : Bytes) (h3 : docValue (l10nDecls i) i.l10n.val = some d3) :
    (xmlParse d3).err = none :=
  wellformed_never_error_partial xmlParse i hc (C07E.grammar_over_erefNames hg hb) d3 h3

/-- unknown_ref_complete: if the localized value contains `&n;` (n a Name in the BMP, not one of the five
    built-ins) and no reference string contains `&n;`, then — unless the check raises — the warning
    "Referencing unknown entity `n`" is among the results. -/
theorem unknown_ref_complete (xmlParse : Bytes → ParseRes) (i : Inp) (h : (check xmlParse i).exc = none)
    (n a b : Text) (hn : XmlContent.isName n = true) (hb : ∀ c ∈ n, c < 65536)
    (hocc : i.l10n.val = a ++ (38 :: n ++ [59]) ++ b) (hp : n ∉ XmlContent.predefined)
    (hr : ∀ rv ∈ refValsOf i, ¬ ∃ a' b', rv = a' ++ (38 :: n ++ [59]) ++ b') :
    unknownWarning (reflistOf i) (inContextOf i) n ∈ (check xmlParse i).results ∧
      (unknownWarning (reflistOf i) (inContextOf i) n).msg
        = msgRefUnknown ++ n ++ [96] ++ warnSuffix (reflistOf i) (inContextOf i) := by
  have hx : n ∉ Gen.Tables.xmllist := fun hm => hp (by simpa using xmllist_predefined n hm)
  have hm : n ∈ missingOf i := by
    rw [missing_iff]
    refine ⟨C07E.mem_erefNames_of_occurs _ a b n hn hb hocc, hx, ?_⟩
    rintro ⟨rv, hrv, hin, _⟩
    exact hr rv hrv ((C07E.mem_erefNames_iff rv n).mp hin).2
  obtain ⟨hw, _, hmsg⟩ := unknown_ref_warned xmlParse i h
  refine ⟨?_, hmsg n⟩
  have : unknownWarning (reflistOf i) (inContextOf i) n ∈ (check xmlParse i).results.filter isUnknownWarning := by
    rw [hw]; exact List.mem_map_of_mem hm
  exact (List.mem_filter.mp this).1

/-- the same for the reference items of a grammar value: every `&n;` item of a value of the grammar (BMP) whose
    name is not built in and is used by no reference string is warned about -/
theorem unknown_ref_complete_grammar (xmlParse : Bytes → ParseRes) (i : Inp) (h : (check xmlParse i).exc = none)
    (d ns : List XmlContent.Text) (hg : C07E.ValueN d i.l10n.val ns) (hb : ∀ c ∈ i.l10n.val, c < 65536)
    (n : Text) (hn : n ∈ ns) (hp : n ∉ XmlContent.predefined)
    (hr : ∀ rv ∈ refValsOf i, n ∉ erefNames rv) :
    unknownWarning (reflistOf i) (inContextOf i) n ∈ (check xmlParse i).results := by
  have hx : n ∉ Gen.Tables.xmllist := fun hm => hp (by simpa using xmllist_predefined n hm)
  have hm : n ∈ missingOf i := by
    rw [missing_iff]
    refine ⟨?_, hx, ?_⟩
    · rw [C07E.erefNames_of_valueN hg (hg.chars (fun c => c < 65536) hb)]; exact hn
    · rintro ⟨rv, hrv, hin, _⟩; exact hr rv hrv hin
  obtain ⟨hw, _, _⟩ := unknown_ref_warned xmlParse i h
  have : unknownWarning (reflistOf i) (inContextOf i) n ∈ (check xmlParse i).results.filter isUnknownWarning := by
    rw [hw]; exact List.mem_map_of_mem hm
  exact (List.mem_filter.mp this).1

section examplesE
open XmlContent

/-- non-vacuity: "a&foo;<b x='&bar;'>&#38;</b>" with its names [foo, bar] … -/
example : C07E.ValueN [[102, 111, 111], [98, 97, 114]]
    (97 :: ((38 :: [102, 111, 111] ++ [59]) ++ (60 :: [98] ++ (32 :: [] ++ [120] ++ [] ++ [61] ++ [] ++ [39] ++ ((38 :: [98, 97, 114] ++ [59]) ++ []) ++ [39] ++ []) ++ [] ++ [62] ++ ((38 :: 35 :: 51 :: [56] ++ [59]) ++ []) ++ [60, 47] ++ [98] ++ [] ++ [62] ++ [])))
    ([[102, 111, 111]] ++ (([[98, 97, 114]] ++ []) ++ [] ++ ([] ++ []) ++ [])) :=
  .text 97 _ _ (by decide) <|
    .ref (38 :: [102, 111, 111] ++ [59]) _ [[102, 111, 111]] _
      (@C07E.RefN.ent [[102, 111, 111], [98, 97, 114]] [102, 111, 111] (by decide) (by decide)) <|
    .elem [98] (32 :: [] ++ [120] ++ [] ++ [61] ++ [] ++ [39] ++ ((38 :: [98, 97, 114] ++ [59]) ++ []) ++ [39] ++ [])
      [] [] ((38 :: 35 :: 51 :: [56] ++ [59]) ++ []) [] [[120]] ([[98, 97, 114]] ++ []) ([] ++ []) [] (by decide)
      (.cons [] [120] 32 [] [] [] 39 ((38 :: [98, 97, 114] ++ [59]) ++ []) [] [[120]] ([[98, 97, 114]] ++ []) []
        (by decide) (by decide) (by decide) (by decide) (by decide) (by decide) (Or.inr rfl)
        (.ref (38 :: [98, 97, 114] ++ [59]) [] [[98, 97, 114]] []
          (@C07E.RefN.ent [[102, 111, 111], [98, 97, 114]] [98, 97, 114] (by decide) (by decide)) .nil) (.nil _))
      (by decide) (by decide)
      (.ref (38 :: 35 :: 51 :: [56] ++ [59]) [] [] [] (.dec 51 [56] (by decide) (by decide) (by decide)) .nil) .nil

/-- … and the regex-engine model, evaluated directly, finds exactly these -/
example : erefNames [97, 38, 102, 111, 111, 59, 60, 98, 32, 120, 61, 39, 38, 98, 97, 114, 59, 39, 62, 38, 35, 51, 56, 59, 60, 47, 98, 62]
    = [[102, 111, 111], [98, 97, 114]] := by decide

/-- why comment / CDATA / PI bodies contribute to the list: the regex cannot tell `<!--&x;-->` from a reference -/
example : erefNames [60, 33, 45, 45, 38, 120, 59, 45, 45, 62] = [[120]] := by decide
example : C07E.plainRefs [38, 120, 59] = [[120]] := by decide

/-- negation witness for the BMP hypothesis: `&\U00010000;` is a reference of the grammar (5th edition Name),
    the regex does not find it, so the value is NOT in the grammar over the names the checker finds: the checker
    would not declare the entity.  (Such a key cannot be written in a DTD file compare-locales parses either:
    `DTDParser` uses the same Name class; expat implements the 4th edition.) -/
example : ValueGrammar [[65536]] ((38 :: [65536] ++ [59]) ++ []) :=
  .ref _ [] (.ent [65536] (by decide) (by decide)) .nil
example : erefNames [38, 65536, 59] = [] := by decide
example : ¬ ValueGrammar (erefNames [38, 65536, 59]) [38, 65536, 59] := by
  intro h
  have := grammar_wf _ h
  revert this
  decide

/-- `unknown_ref_complete` is not vacuous: reference "x", localization "&foo;" -/
example : unknownWarning [] [] [102, 111, 111] ∈
    (check (fun _ => ⟨none, []⟩) ⟨false, none, ⟨[107], [], [120]⟩, ⟨[107], [], [38, 102, 111, 111, 59]⟩⟩).results := by
  decide

end examplesE

/-! ## extension C: `parse_css_spec` and an independent grammar of CSS size specs

`css_rules` speaks about `parseCssSpec` = the generated regexes run by the engine model.  Here its verdicts are related
to the grammar `C08C.CssSpec` (see Props/C08.lean for its description; the same theorems hold for the Fluent-side
model by `C08.css_models_agree`). -/

/-- css_grammar_accepts: every grammatical spec is parsed without errors into exactly the map of its declarations
    (`ref_map[prop] = unit` in their order, Python dict semantics). -/
theorem css_grammar_accepts (ds : List C08C.Decl) (v : Text) (h : C08C.CssSpec ds v) :
    (parseCssSpec v).2 = none ∧ (parseCssSpec v).1 = some (C08C.declMap ds) := by
  rw [C08C.css_grammar_accepts_dtd ds v h]
  exact ⟨rfl, rfl⟩

/-- … so, against a reference with a CSS spec, a grammatical localized value never yields the error
    "reference is a CSS spec": the outcome is one warning listing the differences of the two maps, or nothing. -/
theorem css_grammar_never_error (refVal l10nVal : Text) (refMap : List (Text × Text)) (hne : refMap ≠ [])
    (href : (parseCssSpec refVal).1 = some refMap) (ds : List C08C.Decl) (h : C08C.CssSpec ds l10nVal) :
    maybeStyle refVal l10nVal =
      if styleMsgs refMap (C08C.declMap ds) = [] then []
      else [⟨.warning, .num 0, join commaSp (styleMsgs refMap (C08C.declMap ds)), .css⟩] := by
  rw [css_rules refVal l10nVal refMap hne href, C08C.css_grammar_accepts_dtd ds l10nVal h]
  have hnn := C08C.declMap_ne_nil (C08C.cssSpec_ne_nil h)
  cases hm : C08C.declMap ds with
  | nil => exact absurd hm hnn
  | cons x xs => rfl

/-- two grammatical specs: silent iff every localized declaration has the unit the reference gives its property and
    every reference property occurs in the localization (for the final value per property: dict semantics) -/
theorem css_grammar_silent_iff (refVal l10nVal : Text) (dr dl : List C08C.Decl) (hr : C08C.CssSpec dr refVal)
    (hl : C08C.CssSpec dl l10nVal) :
    maybeStyle refVal l10nVal = [] ↔
      (∀ pu ∈ C08C.declMap dl, dget (C08C.declMap dr) pu.1 = some pu.2) ∧
      (∀ q ∈ C08C.declMap dr, q.1 ∈ (C08C.declMap dl).map Prod.fst) := by
  have hne := C08C.declMap_ne_nil (C08C.cssSpec_ne_nil hr)
  rw [css_grammar_never_error refVal l10nVal _ hne (css_grammar_accepts dr refVal hr).2 dl hl,
    ← css_silent_iff l10nVal _ _ (css_grammar_accepts dl l10nVal hl).2]
  split <;> simp_all

/-- css_spec_errors: on a spec with defects (`C08C.SpecE`) the map of all declarations and exactly one error per
    defective gap, in order -/
theorem css_spec_errors (ds : List C08C.Decl) (v : Text) (errs : List CssErr) (h : C08C.SpecE true 0 ds v errs) :
    parseCssSpec v = (some (C08C.declMap ds), C08C.optOf errs) :=
  C08C.css_spec_errors ds v errs h

/-- … so a defective localized spec (missing semicolon between declarations, declarations that touch, junk before,
    between or after) yields exactly the error "reference is a CSS spec" -/
theorem css_defect_is_error (refVal l10nVal : Text) (refMap : List (Text × Text)) (hne : refMap ≠ [])
    (href : (parseCssSpec refVal).1 = some refMap) (ds : List C08C.Decl) (errs : List CssErr)
    (h : C08C.SpecE true 0 ds l10nVal errs) (he : errs ≠ []) :
    maybeStyle refVal l10nVal = [specError] := by
  rw [css_rules refVal l10nVal refMap hne href, C08C.css_spec_errors ds l10nVal errs h]
  have hds : ds ≠ [] := by cases h <;> simp
  have hnn := C08C.declMap_ne_nil hds
  cases hm : C08C.declMap ds with
  | nil => exact absurd hm hnn
  | cons x xs =>
    cases errs with
    | nil => exact absurd rfl he
    | cons e es => rfl

/-- the three breaking edits of the harness, as instances -/
theorem css_missing_semicolon (ds1 ds2 : List C08C.Decl) (lead t1 ws t2 trail : Text) (hl : C08C.IsEdge lead)
    (h1 : C08C.DeclsText ds1 t1) (hws : ws.all C08C.isWs = true) (h2 : C08C.DeclsText ds2 t2) (htr : C08C.IsEdge trail) :
    parseCssSpec (lead ++ (t1 ++ (ws ++ (t2 ++ trail)))) =
      (some (C08C.declMap (ds1 ++ ds2)), some [⟨lead.length + t1.length, .missingSemicolon⟩]) :=
  C08C.css_missing_semicolon ds1 ds2 lead t1 ws t2 trail hl h1 hws h2 htr

theorem css_junk_after (ds : List C08C.Decl) (lead t junk : Text) (hl : C08C.IsEdge lead) (h : C08C.DeclsText ds t)
    (hj : C08C.IsJunk junk) :
    parseCssSpec (lead ++ (t ++ junk)) = (some (C08C.declMap ds), some [⟨lead.length + t.length, .badContent⟩]) :=
  C08C.css_junk_after ds lead t junk hl h hj

theorem css_junk_before (ds : List C08C.Decl) (junk t trail : Text) (hj : C08C.IsJunk junk) (h : C08C.DeclsText ds t)
    (htr : C08C.IsEdge trail) :
    parseCssSpec (junk ++ (t ++ trail)) = (some (C08C.declMap ds), some [⟨0, .badContent⟩]) :=
  C08C.css_junk_before ds junk t trail hj h htr

section examplesC
open C08C

private def tx (s : String) : List Nat := s.toList.map Char.toNat
private def d1 : Decl := ⟨tx "width", [], [], tx "1", tx "em"⟩
private theorem d1ok : d1.Ok := ⟨by decide, by decide, by decide, .int (tx "1") (by decide) (by decide), by decide⟩

/-- non-vacuity: "width:1em \n" (the former finding F14) is in the grammar; the regex code, evaluated, agrees -/
example : CssSpec [d1] ([] ++ (d1.text ++ tx " \n")) := .mk [] _ (tx " \n") _ (Or.inl (by decide)) (.one d1 d1ok) (Or.inl (by decide))
example : parseCssSpec (tx "width:1em \n") = (some [(tx "width", tx "em")], none) := by decide +kernel
/-- a defect instance: "width:1em x" is `d1` followed by the junk " x" -/
example : IsJunk (tx " x") := ⟨by decide, ⟨120, by decide, by decide, by decide⟩⟩
example : parseCssSpec (tx "width:1em x") = (some [(tx "width", tx "em")], some [⟨9, CssCode.badContent⟩]) := by decide +kernel

end examplesC
/-! ## round 4: the checker INSTANCE (one `DTDChecker` per file, `check` per entity)

`DtdState.step` is `DTDChecker.check` with the state of the object threaded through (`self.reference`, the memo
`self.__known_entities`, `self.processContent`, the shared `texthandler.textcontent`, the lazily compiled CSS
regexes).  `C07S.Inv` is what `__init__` + at most one `set_reference` before the first `check` establish. -/

section instance_
open DtdState

/-- the state in which `ContentComparer.compare` / `L10nLinter.lint_file` start checking: `getChecker`, then
    `set_reference` iff the checker `needs_reference`; `t0` = whatever the shared text handler holds -/
def startState (android : Bool) (t0 : Text) : Option (List Text) → State
  | some vals => setReference (init android t0) vals
  | none => init android t0

theorem startState_inv (android : Bool) (t0 : Text) (reference : Option (List Text)) :
    C07S.Inv (startState android t0 reference) := by
  cases reference with
  | none => exact C07S.inv_init android t0
  | some vals => exact C07S.inv_setReference _ vals (C07S.inv_init android t0) rfl

/-- checker_step_is_stateless: in every state reachable by the real callers the verdict of `check` is the stateless
    `Dtd.check` of (extra tests, reference, the two entities) — the state only memoises — and the state stays reachable. -/
theorem checker_step_is_stateless (xmlParse : Bytes → ParseRes) (st : State) (ref l10n : Ent) (h : C07S.Inv st) :
    (step xmlParse st ref l10n).2 = check xmlParse (inpOf st ref l10n) ∧ C07S.Inv (step xmlParse st ref l10n).1 ∧
      (step xmlParse st ref l10n).1.extraAndroid = st.extraAndroid ∧
      (step xmlParse st ref l10n).1.reference = st.reference :=
  ⟨C07S.step_snd xmlParse st ref l10n h, C07S.inv_step xmlParse st ref l10n h, C07S.step_frame xmlParse st ref l10n h⟩

/-- checker_sequence_is_pointwise: ONE checker over any list of (reference entity, localized entity) pairs — repeated
    keys, textually equal reference values, the same pair again — yields for every pair exactly the verdict a fresh
    checker gives for that pair alone; whatever the shared text buffer held before. -/
theorem checker_sequence_is_pointwise (xmlParse : Bytes → ParseRes) (android : Bool) (t0 : Text)
    (reference : Option (List Text)) (pairs : List (Ent × Ent)) :
    (runSeq xmlParse (startState android t0 reference) pairs).map (·.2)
      = pairs.map (fun p => check xmlParse ⟨android, reference, p.1, p.2⟩) := by
  rw [C07S.runSeq_snd xmlParse pairs _ (startState_inv android t0 reference)]
  apply List.map_congr_left
  intro p _
  cases reference <;> rfl

/-- checker_history_independent: the verdict for a pair does not depend on what the same checker checked before -/
theorem checker_history_independent (xmlParse : Bytes → ParseRes) (android : Bool) (t0 t0' : Text)
    (reference : Option (List Text)) (before before' : List (Ent × Ent)) (p : Ent × Ent) :
    ((runSeq xmlParse (startState android t0 reference) (before ++ [p])).map (·.2)).getLast?
      = ((runSeq xmlParse (startState android t0' reference) (before' ++ [p])).map (·.2)).getLast? := by
  rw [checker_sequence_is_pointwise, checker_sequence_is_pointwise]
  simp

/-- the memo is real state: after the first `check` with a reference set, `__known_entities` holds the union of
    the names the reference values use, and later calls read it -/
theorem checker_memo_filled (xmlParse : Bytes → ParseRes) (android : Bool) (t0 : Text) (vals : List Text)
    (ref l10n : Ent) :
    (step xmlParse (startState android t0 (some vals)) ref l10n).1.known = some (C07S.knownOf vals) :=
  C07S.step_fills_memo xmlParse _ ref l10n vals rfl rfl

section examplesS
private def okParse : Bytes → ParseRes := fun _ => ⟨none, []⟩
private def tx' (s : String) : List Nat := s.toList.map Char.toNat
private def ent (k v : String) : Ent := ⟨tx' k, tx' ("<!ENTITY " ++ k ++ " \"" ++ v ++ "\">"), tx' v⟩

/-- non-vacuity: two entities with the SAME reference CSS spec through one checker; the second (junk) is an error
    exactly as for a fresh checker (the seeded "memo of the parsed reference spec" regression returned nothing here) -/
example : ((runSeq okParse (startState false [] (some [tx' "width: 4em; height: 3em;", tx' "width: 4em; height: 3em;"]))
      [(ent "a" "width: 4em; height: 3em;", ent "a" "width: 5em; height: 2em;"),
       (ent "b" "width: 4em; height: 3em;", ent "b" "junk")]).map (fun so => so.2.results))
    = [[], [specError]] := by decide +kernel

/-- negation witness for `Inv.memo` (forced): `set_reference` AGAIN after a check leaves the memo of the OLD
    reference in place — the object then answers from stale state and differs from the stateless verdict.
    (The real callers never do this; the harness probes nothing there.) -/
example :
    let st1 := (step okParse (startState false [] (some [tx' "&foo;"])) (ent "k" "x") (ent "k" "y")).1
    let st2 := setReference st1 [tx' "no refs"]
    (step okParse st2 (ent "k" "x") (ent "k" "&foo;")).2.results = [] ∧
    (check okParse (inpOf st2 (ent "k" "x") (ent "k" "&foo;"))).results
      = [unknownWarning [] [] (tx' "foo")] := by decide +kernel

/-- negation witness for `Inv.pc` (forced): an object whose `processContent` disagrees with its extra tests reads a
    stale text buffer in the android section -/
example :
    let st : State := ⟨true, false, none, none, [39], false⟩
    (step okParse st (ent "k" "x") (ent "k" "y")).2.results ≠ (check okParse (inpOf st (ent "k" "x") (ent "k" "y"))).results := by
  decide +kernel

end examplesS
end instance_

/-! ## round 4: the second template document (`<!ENTITY key q value q>` + `&key;`)

`XmlContent.wfValue declared key v` = `wf declared v` and the value is an entity LITERAL whose replacement text is
well-formed content.  `C07L.Lit v rt` is the grammar of entity literals (XML 1.0 `EntityValue` inside the internal
subset: no `%`, every `&` begins a complete reference, character references are expanded, entity references are
bypassed) with the replacement text `rt`. -/

section second_document
open XmlContent

/-- literal_grammar: the scanner `litExpand` (with the fuel `wfValue` gives it) decides the grammar `Lit` and computes
    the replacement text -/
theorem literal_grammar (v rt : XmlContent.Text) : litExpand (v.length + 1) v = some rt ↔ C07L.Lit v rt :=
  C07L.litExpand_iff v rt

/-- second_document_iff: what the two documents of a value demand together -/
theorem second_document_iff (declared : List XmlContent.Text) (key v : XmlContent.Text) :
    wfValue declared key v = true ↔
      wf declared v = true ∧ ∃ rt, C07L.Lit v rt ∧ wf (declared.filter (fun d => !(d == key))) rt = true :=
  C07L.wfValue_iff declared key v

/-- percent_rejected: a `%` ANYWHERE in the value — in text, inside a comment, a CDATA section, a processing
    instruction, an attribute value, as `%foo;` — makes the value unacceptable for the second document
    (`&#037;` is the only way to write it) -/
theorem percent_rejected (declared : List XmlContent.Text) (key a b : XmlContent.Text) :
    wfValue declared key (a ++ 37 :: b) = false :=
  C07L.wfValue_false_of_not_lit declared key _ (fun ⟨_, hl⟩ => C07L.lit_no_percent hl (by simp))

/-- amp_must_begin_reference: an `&` ANYWHERE in the value that is not the beginning of a complete reference
    (`&name;`, `&#digits;`, `&#xhex;` with a legal character number) is rejected by the second document — also where
    the first document does not mind it (comment, CDATA section, processing instruction: witnesses below) -/
theorem amp_must_begin_reference (declared : List XmlContent.Text) (key a b : XmlContent.Text) (h : ¬ C07L.RefStart b) :
    wfValue declared key (a ++ 38 :: b) = false :=
  C07L.wfValue_false_of_not_lit declared key _ (fun ⟨_, hl⟩ => h (C07L.lit_amp_is_reference hl a b rfl))

/-- … in particular `&` at the end, or followed by anything but `#` or a name start character -/
theorem bare_amp_rejected_anywhere (declared : List XmlContent.Text) (key a b : XmlContent.Text)
    (h : b = [] ∨ ∃ c t, b = c :: t ∧ c ≠ 35 ∧ isNameStart c = false) :
    wfValue declared key (a ++ 38 :: b) = false := by
  apply amp_must_begin_reference
  rcases h with rfl | ⟨c, t, rfl, h1, h2⟩
  · exact C07L.not_refStart_nil
  · exact C07L.not_refStart_head c t h1 h2

/-- second_document_bytes: the second document is `tmpl % (all + entities, "&key;")` byte for byte -/
theorem second_document_bytes (entities : Dtd.Text) (e : Ent) (d : Bytes) (h : docDecl entities e = some d) :
    ∃ a dcl k, utf8 e.all = some a ∧ utf8 entities = some dcl ∧ utf8 e.key = some k ∧
      d = Gen.Tables.dtdTmplPre ++ (a ++ dcl) ++ Gen.Tables.dtdTmplMid ++ (38 :: k ++ [59]) ++ Gen.Tables.dtdTmplPost :=
  C07L.docDecl_bytes entities e d h

/-- second_document_keeps_delimiter: if the entity's source text (`l10nEnt.all`) is `<!ENTITY` S key S q value q S? `>`
    — q the quotation mark OR the apostrophe — then the declaration standing in the second document is that text
    with the SAME delimiter q around the UTF-8 bytes of the value: the checker never re-quotes the value. -/
theorem second_document_keeps_delimiter (entities : Dtd.Text) (e : Ent) (ws1 ws2 ws3 : Dtd.Text) (q : Nat)
    (hq : q = 34 ∨ q = 39) (h1 : ∀ c ∈ ws1, c < 128) (h2 : ∀ c ∈ ws2, c < 128) (h3 : ∀ c ∈ ws3, c < 128)
    (hall : e.all = C07L.declText ws1 e.key ws2 q e.val ws3) (d : Bytes) (h : docDecl entities e = some d) :
    ∃ k v dcl, utf8 e.key = some k ∧ utf8 e.val = some v ∧ utf8 entities = some dcl ∧
      d = Gen.Tables.dtdTmplPre ++ (C07L.declText ws1 k ws2 q v ws3 ++ dcl) ++ Gen.Tables.dtdTmplMid ++
        (38 :: k ++ [59]) ++ Gen.Tables.dtdTmplPost :=
  C07L.docDecl_keeps_delimiter entities e ws1 ws2 ws3 q hq h1 h2 h3 hall d h

/-- the monitored contract for the second document (expat is external): given that the first document of the
    localized value was accepted, expat accepts the second one iff the value is an acceptable entity literal -/
def ExpatContract2 (xmlParse : Bytes → ParseRes) (i : Inp) : Prop :=
  ∀ d4, docDecl (l10nDecls i) i.l10n = some d4 → wf (declaredNames i) i.l10n.val = true →
    ((xmlParse d4).err = none ↔ wfValue (declaredNames i) i.l10n.key i.l10n.val = true)

/-- no_xml_error_iff_wfValue: under the two monitored expat contracts and unless the check raises, the check reports
    NO xmlparse error iff the value passes `wfValue` relative to the names the template declares — the first sentence
    of the property with both documents, expat being the only hypothesis. -/
theorem no_xml_error_iff_wfValue (xmlParse : Bytes → ParseRes) (i : Inp) (h : (check xmlParse i).exc = none)
    (hc : ExpatContract xmlParse) (hc2 : ExpatContract2 xmlParse i) :
    (check xmlParse i).results.filter isXmlError = [] ↔
      wfValue (declaredNames i) i.l10n.key i.l10n.val = true := by
  rw [xml_error_is_error xmlParse i h]
  obtain ⟨_, h1, _⟩ := andThen_ok (by unfold check at h; exact h)
  obtain ⟨_, h2, _⟩ := andThen_ok h1
  obtain ⟨h3, _, _⟩ := andThen_ok h2
  have hnil : ∀ o, verdictResults i.l10n.val o = [] ↔ o = none := by
    intro o
    cases o with
    | none => simp [verdictResults]
    | some e =>
      simp only [verdictResults, reduceCtorEq, iff_false]
      intro hn
      have := (xmlError_eq i.l10n.val e).2
      rw [hn] at this
      cases this
  rw [hnil]
  have hwf1 : wfValue (declaredNames i) i.l10n.key i.l10n.val = true → wf (declaredNames i) i.l10n.val = true := by
    intro hw; unfold wfValue at hw; simp only [Bool.and_eq_true] at hw; exact hw.1
  unfold l10nSection at h3
  unfold l10nVerdict
  cases hd3 : docValue (l10nDecls i) i.l10n.val with
  | none => simp [hd3] at h3
  | some d3 =>
    simp only [hd3] at h3 ⊢
    have hc3 := hc (declaredNames i) i.l10n.val d3 (by rw [← l10nDecls_eq]; exact hd3)
    cases he3 : (xmlParse d3).err with
    | some e =>
      simp only [reduceCtorEq, false_iff]
      intro hw
      have := hc3.mpr (hwf1 hw)
      rw [he3] at this; cases this
    | none =>
      simp only [he3] at h3 ⊢
      have hwf := hc3.mp he3
      cases hd4 : docDecl (l10nDecls i) i.l10n with
      | none => simp [hd4] at h3
      | some d4 => exact hc2 d4 hd4 hwf

/-- percent_is_error: under the contracts, a localized value containing `%` is reported as an xmlparse error
    (exactly one result, by `xml_error_is_error`) — "a stray percent reference in its declaration is always reported" -/
theorem percent_is_error (xmlParse : Bytes → ParseRes) (i : Inp) (h : (check xmlParse i).exc = none)
    (hc : ExpatContract xmlParse) (hc2 : ExpatContract2 xmlParse i) (a b : Dtd.Text) (hv : i.l10n.val = a ++ 37 :: b) :
    (check xmlParse i).results.filter isXmlError ≠ [] := by
  intro hn
  have := (no_xml_error_iff_wfValue xmlParse i h hc hc2).mp hn
  rw [hv, percent_rejected] at this
  cases this

/-- bare_amp_is_error: the same for an `&` that does not begin a reference, wherever it stands -/
theorem bare_amp_is_error (xmlParse : Bytes → ParseRes) (i : Inp) (h : (check xmlParse i).exc = none)
    (hc : ExpatContract xmlParse) (hc2 : ExpatContract2 xmlParse i) (a b : Dtd.Text) (hv : i.l10n.val = a ++ 38 :: b)
    (hb : ¬ C07L.RefStart b) :
    (check xmlParse i).results.filter isXmlError ≠ [] := by
  intro hn
  have := (no_xml_error_iff_wfValue xmlParse i h hc hc2).mp hn
  rw [hv, amp_must_begin_reference _ _ _ _ hb] at this
  cases this

section examplesL
private def ty (s : String) : List Nat := s.toList.map Char.toNat

/-- non-vacuity of `Lit`: "a&#65;&foo;" has the replacement text "aA&foo;" -/
example : C07L.Lit ([97] ++ ((38 :: 35 :: ([54, 53] ++ [59])) ++ ((38 :: 102 :: ([111, 111] ++ [59])) ++ [])))
    ([97] ++ ([C07L.decVal [54, 53]] ++ ((38 :: 102 :: ([111, 111] ++ [59])) ++ []))) :=
  .cons _ _ _ _ (.char 97 (by decide) (by decide) (by decide)) <|
  .cons _ _ _ _ (.dec [54, 53] (by decide) (by decide) (by decide)) <|
  .cons _ _ _ _ (.ent 102 [111, 111] (by decide) (by decide)) .nil
example : litExpand 12 (ty "a&#65;&foo;") = some (ty "aA&foo;") := by decide
/-- `<!--& -->`, `<![CDATA[50%]]>`, `<?p & ?>` are well-formed CONTENT, and rejected as literals -/
example : wf [] (ty "<!--& -->") = true ∧ wfValue [] [107] (ty "<!--& -->") = false := by decide
example : wf [] (ty "<![CDATA[50%]]>") = true ∧ wfValue [] [107] (ty "<![CDATA[50%]]>") = false := by decide
/-- the premise of `bare_amp_rejected_anywhere` on "& " -/
example : ¬ C07L.RefStart (ty " -->") := C07L.not_refStart_head 32 _ (by decide) (by decide)
/-- both delimiters: the declarations `<!ENTITY k "it's">` and `<!ENTITY k 'say "hi"'>` are `declText` instances -/
example : ty "<!ENTITY k \"it's\">" = C07L.declText [32] [107] [32] 34 (ty "it's") [] := by decide
example : ty "<!ENTITY k 'say \"hi\"'>" = C07L.declText [32] [107] [32] 39 (ty "say \"hi\"") [] := by decide
/-- why the delimiter must be kept (seeded change C07-1): re-quoting `'say "hi"'` with `"` gives another document,
    whose literal ends at the first inner quote -/
example : docDecl [] ⟨[107], ty "<!ENTITY k 'say \"hi\"'>", ty "say \"hi\""⟩
    ≠ docDecl [] ⟨[107], ty "<!ENTITY k \"say \"hi\"\">", ty "say \"hi\""⟩ := by decide
end examplesL
end second_document

/-! ## round 4: `processAndroidContent` (extra test `android-dtd`)

The property mentions the android checks only as part of the mechanism; these theorems say what the method guarantees
for the text content `val` the XML parser delivered for the localized value.  `androidSection val` is the model of
`processAndroidContent(val)`: first the result of `unicode_escape` (at most one error), then one error per unescaped
quote/apostrophe. -/

section android
open C07A

/-- android_quotes_regex_free: the second half of `processAndroidContent` without any regex.  `qkind val` says whether
    the whole string is quoted (`quoted.match`): if not, `val` is scanned for `"` and `'` and positions are shifted by
    -1; if it is quoted with `q`, `val[1:-1]` is scanned for `q` only.  `strayList` skips the maximal run of
    backslashes, looks at the next character, reports it (position after it) iff it is of the class and the run is even. -/
theorem android_quotes_regex_free (val : Text) :
    androidSection val = (escOut val).andThen fun _ =>
      .ok ((strayList (qkind val).1.cls ((qkind val).2.length + 1) 0 (qkind val).2).map (mkRes (qkind val).1.offset)) :=
  androidSection_quotes val

/-- android_quote_rule (the apostrophe rule in plain words): the scan reports a quote character at index `j` — as
    position `j + 1` — iff the number of consecutive backslashes immediately before it is EVEN: `'`, `\\'` are
    reported, `\'`, `\\\'` are not.  (`isQ` = the class scanned for; a backslash is never in it.) -/
theorem android_quote_rule (isQ : Nat → Bool) (hq : isQ 92 = false) (l : Text) (e c : Nat) :
    (e, c) ∈ strayList isQ (l.length + 1) 0 l ↔
      ∃ j, e = j + 1 ∧ l[j]? = some c ∧ isQ c = true ∧ bsBefore l j % 2 = 0 := by
  have := mem_strayList isQ hq l.length l (l.length + 1) 0 (Nat.le_refl _) (by omega) e c
  simpa using this

/-- android_unquoted_kind: a value that does not begin with `"` or `'` is scanned as a whole for both characters -/
theorem android_unquoted_kind (val : Text) (h : val.head? ≠ some 34 ∧ val.head? ≠ some 39) :
    qkind val = (.any, val) :=
  qkind_unquoted val h

/-- android_plain_text_fine: text without backslashes never has an escape error — non-ASCII characters are protected
    by `encode("ascii", "backslashreplace")`, whose `\xhh`, `\uhhhh`, `\Uhhhhhhhh` decode again -/
theorem android_plain_text_fine (val : Text) (h92 : 92 ∉ val) (hlt : ∀ c ∈ val, c < 0x110000) :
    unicodeEscape val = some .fine :=
  unicodeEscape_plain val h92 hlt

/-- android_escape_position: characters before the first backslash count ONE each, whatever they are: the scan of
    `pre ++ rest` is the scan of `rest` with the character counter started at `pre.length` — so an error in the first
    escape is reported at the index of its backslash in the ORIGINAL string (the point of `unicode_escape`'s
    re-computation of `args[2]`).  After a valid escape the counter is the number of DECODED characters (witness below). -/
theorem android_escape_position (pre rest : Text) (h92 : 92 ∉ pre) (hlt : ∀ c ∈ pre, c < 0x110000) :
    unicodeEscape (pre ++ rest) = (backslashReplace rest).map (fun b => ueScan (b.length + 1) pre.length b) :=
  unicodeEscape_skip pre rest h92 hlt

/-- android_escapes_decoded: `\\`, `\'`, `\"`, `\b`, `\f`, `\t`, `\n`, `\r`, `\v`, `\a` are one decoded character … -/
theorem android_escapes_decoded (f n e : Nat) (tail : Bytes)
    (he : e = 92 ∨ e = 39 ∨ e = 34 ∨ e = 98 ∨ e = 102 ∨ e = 116 ∨ e = 110 ∨ e = 114 ∨ e = 118 ∨ e = 97) :
    ueScan (f + 1) n (92 :: e :: tail) = ueScan f (n + 1) tail :=
  scan_escaped_simple f n e tail he

/-- … `\uXXXX` with four hex digits is one decoded character … -/
theorem android_u4_decoded (f n : Nat) (ds tail : Bytes) (hl : ds.length = 4) (hh : ∀ d ∈ ds, (hexVal d).isSome = true) :
    ueScan (f + 1) n (92 :: 117 :: (ds ++ tail)) = ueScan f (n + 1) tail :=
  scan_u4_ok f n ds tail hl hh

/-- … and `\u` followed by fewer than four hex digits (then the end, or a character that is no hex digit) is THE
    error "truncated \uXXXX escape" at the counter of its backslash -/
theorem android_u4_truncated (f n : Nat) (hs rest : Bytes) (hl : hs.length < 4)
    (hr : rest = [] ∨ ∃ c t, rest = c :: t ∧ hexVal c = none) :
    ueScan (f + 1) n (92 :: 117 :: (hs ++ rest)) = .error n msgTruncU4 :=
  scan_u4_trunc f n _ (ueHex4_none hs rest hl hr)

/-- android_named_escape: what the MODEL does with `\N{name}` (non-empty name, closing brace): it gives up
    (`unsupported`, the harness skips the comparison) — the real decoder asks the Unicode name database: a known name
    is one decoded character, an unknown one is the error "unknown Unicode character name".  `\N` not followed by
    `{` is the error "malformed \N character escape" in model and code. -/
theorem android_named_escape (f n : Nat) (name tail : Bytes) (hne : name ≠ []) (h125 : 125 ∉ name) :
    ueScan (f + 1) n (92 :: 78 :: 123 :: (name ++ 125 :: tail)) = .unsupported ∧
    (∀ bytes, (∀ t, bytes ≠ 123 :: t) → ueScan (f + 1) n (92 :: 78 :: bytes) = .error n msgMalformedN) :=
  ⟨scan_named f n name tail hne h125, fun bytes h => scan_named_malformed f n bytes h⟩

/-- android_named_with_database: `DtdNamed.ueScanN known` is the scan with the Unicode name database as a parameter (a
    known name is one decoded character, an unknown one is the error "unknown Unicode character name"; tied to the
    real `unicode_escape` by the `c07.uescape` correspondence).  Wherever the database-free model answers at all, both
    agree: the database matters only at well-formed `\\N{name}` escapes. -/
theorem android_named_with_database (known : Bytes → Bool) (f n : Nat) (b : Bytes) (h : ueScan f n b ≠ .unsupported) :
    DtdNamed.ueScanN known f n b = ueScan f n b :=
  named_agrees known f n b h

/-- android_silent: no backslash, no quote, no apostrophe (characters being code points): nothing is reported -/
theorem android_silent (val : Text) (h92 : 92 ∉ val) (h34 : 34 ∉ val) (h39 : 39 ∉ val) (hlt : ∀ c ∈ val, c < 0x110000) :
    androidSection val = .ok [] :=
  androidSection_silent val h92 h34 h39 hlt

section examplesA
private def tz (s : String) : List Nat := s.toList.map Char.toNat

/-- the rule, evaluated: in `it's \'ok\' \\'` the first and the last apostrophe are reported (positions 3 and 15 = index + 1) -/
example : strayList (fun c => c == 34 || c == 39) 30 0 (tz "it's \\'ok\\' \\\\'") = [(3, 39), (15, 39)] := by decide
example : (androidSection (tz "it's")).results = [⟨.error, .num 2, msgApos, .android⟩] := by decide +kernel
example : (androidSection (tz "it\\'s")).results = [] := by decide +kernel
/-- non-ASCII text is fine, a truncated escape after it is reported at the index of its backslash in the original text -/
example : unicodeEscape (tz "日本\\u00") = some (.error 2 msgTruncU4) := by decide +kernel
/-- … but after a VALID escape the counter is in decoded characters: `\\u0041\\u00` reports 1, the backslash stands at 6
    (observation; positions are outside the property) -/
example : unicodeEscape (tz "\\u0041\\u00") = some (.error 1 msgTruncU4) := by decide +kernel
/-- a quoted string ending in a newline: `val[1:-1]` strips the newline, not the closing quote, which is then reported
    (observation; `$` in `quoted` accepts the final newline) -/
example : (androidSection (tz "\"ab\"\n")).results = [⟨.error, .num 3, msgQuotes, .android⟩] := by decide +kernel
end examplesA
end android

/-! ## round 4: `parse_css_spec` on ALL texts — completeness of the grammar, Unicode white space

`css_grammar_accepts` was the direction grammar ⇒ no errors.  Here: for EVERY text what `parse_css_spec` returns, the
converse direction, and hence: the error "reference is a CSS spec" is reported iff the localized value is NOT a text of
the grammar `C08C.CssSpec` (white space = exactly SPACE, TAB, CR, LF; digits = exactly 0-9). -/

section css_complete

/-- css_parse_total: for every text, either no declaration `prop ws* : ws* number unit` stands anywhere in it and
    `parse_css_spec` returns `(None, None)`, or the text is the chain `C07G.SpecT` of its leftmost declarations and
    `parse_css_spec` returns exactly their dict and one error per gap that is not a correct separator (first gap and
    trail: `ws* ;? ws*`; between declarations: `ws* ; ws*`, white space alone = css-missing-semicolon, anything else =
    css-bad-content).  No hypothesis on the text. -/
theorem css_parse_total (v : Text) :
    (C07G.NoDeclIn v.length v ∧ parseCssSpec v = (none, none)) ∨
    ∃ ds errs, C07G.SpecT true 0 ds v errs ∧ parseCssSpec v = (some (C08C.declMap ds), C08C.optOf errs) :=
  C07G.parse_total v

/-- css_complete: whatever text `parse_css_spec` turns into a map without errors is a text of the grammar, and the
    map is the dict of its declarations -/
theorem css_complete (v : Text) (mp : List (Text × Text)) (h : parseCssSpec v = (some mp, none)) :
    ∃ ds, C08C.CssSpec ds v ∧ mp = C08C.declMap ds :=
  C07G.css_complete v mp h

/-- css_language_iff: `parse_css_spec v` has a map and no errors ⟺ `v` is in the grammar language — for ALL texts -/
theorem css_language_iff (v : Text) : (∃ mp, parseCssSpec v = (some mp, none)) ↔ ∃ ds, C08C.CssSpec ds v :=
  C07G.css_language v

/-- css_match_is_declaration: wherever the generated `_css_spec` matches non-emptily, a grammatical declaration
    stands (soundness of the regex against the grammar, by inversion of the engine on the generated regex) -/
theorem css_match_is_declaration (s : Array Nat) (q : Nat) (st : Rx.St) (hq : q < s.size)
    (h : Rx.matchAt s Gen.Pat.CSSCheckMixin__css_spec q = some st) :
    ∃ (d : C08C.Decl) (rest : Text), d.Ok ∧ s.toList.drop q = d.text ++ rest ∧ st = C08C.declSt q d := by
  obtain ⟨d, rest, hd, hdr⟩ := C07G.spec_match_inv s q st hq h
  refine ⟨d, rest, hd, hdr, ?_⟩
  have := C08C.decl_match s q d hd rest hdr
  rw [h] at this
  exact Option.some.inj this

/-- css_sep_match_is_edge: whenever `_css_sep` matches a gap, the gap is `ws* ;? ws*` -/
theorem css_sep_match_is_edge (s : Array Nat) (e : Nat) (sp : Rx.St) (he : e ≤ s.size)
    (h : Rx.matchAt s Gen.Pat.CSSCheckMixin__css_sep e = some sp) : C08C.IsEdge (s.toList.drop e) :=
  C07G.sep_match_edge s e sp he h

/-- css_error_iff_not_grammar: against a reference with a CSS spec, the error "reference is a CSS spec" is reported
    iff the localized value is not a text of the grammar — both directions, every localized text -/
theorem css_error_iff_not_grammar (refVal l10nVal : Text) (refMap : List (Text × Text)) (hne : refMap ≠ [])
    (href : (parseCssSpec refVal).1 = some refMap) :
    maybeStyle refVal l10nVal = [specError] ↔ ¬ ∃ ds, C08C.CssSpec ds l10nVal := by
  constructor
  · rintro h ⟨ds, hg⟩
    rw [css_grammar_never_error refVal l10nVal refMap hne href ds hg] at h
    split at h
    · cases h
    · have := congrArg (fun l => l.map (·.level)) h
      simp [specError] at this
  · intro hng
    rw [css_rules refVal l10nVal refMap hne href]
    cases h1 : (parseCssSpec l10nVal).1 with
    | none => rfl
    | some lm =>
      cases lm with
      | nil => rfl
      | cons x xs =>
        cases h2 : (parseCssSpec l10nVal).2 with
        | none =>
          exfalso
          apply hng
          obtain ⟨ds, hc, _⟩ := css_complete l10nVal (x :: xs) (by rw [← h1, ← h2])
          exact ⟨ds, hc⟩
        | some er =>
          cases er with
          | nil => exact absurd h2 (C07G.parse_errors_ne_nil l10nVal)
          | cons e es => rfl

/-- css_alphabet: every character of a text that is parsed without errors is SPACE, TAB, CR, LF, `;`, `:`, `.`, a digit
    0-9 or a letter of a property name / unit … -/
theorem css_alphabet (v : Text) (mp : List (Text × Text)) (h : parseCssSpec v = (some mp, none)) :
    ∀ c ∈ v, C07G.cssChar c = true := by
  obtain ⟨ds, hc, _⟩ := css_complete v mp h
  exact C07G.cssSpec_chars hc

/-- unicode_space_is_no_separator: … so a character outside that alphabet ANYWHERE in the localized value makes it an
    error against a reference with a CSS spec; in particular (second part) NBSP, IDEOGRAPHIC SPACE, EM SPACE, LINE
    SEPARATOR, NEL, VT, FF, US, an ARABIC-INDIC and a FULLWIDTH digit — what `\\s` / `\\d` would add to the explicit
    classes `[ \\t\\r\\n]` / `[0-9]` of the code -/
theorem unicode_space_is_no_separator :
    (∀ (refVal l10nVal : Text) (refMap : List (Text × Text)), refMap ≠ [] → (parseCssSpec refVal).1 = some refMap →
      ∀ c ∈ l10nVal, C07G.cssChar c = false → maybeStyle refVal l10nVal = [specError]) ∧
    (C07G.cssChar 160 = false ∧ C07G.cssChar 0x3000 = false ∧ C07G.cssChar 0x2003 = false ∧ C07G.cssChar 0x2028 = false ∧
     C07G.cssChar 0x85 = false ∧ C07G.cssChar 11 = false ∧ C07G.cssChar 12 = false ∧ C07G.cssChar 0x1f = false ∧
     C07G.cssChar 0x663 = false ∧ C07G.cssChar 0xFF13 = false) := by
  refine ⟨?_, C07G.foreign_chars⟩
  intro refVal l10nVal refMap hne href c hc hfalse
  rw [css_error_iff_not_grammar refVal l10nVal refMap hne href]
  rintro ⟨ds, hg⟩
  have := C07G.cssSpec_chars hg c hc
  rw [hfalse] at this
  cases this

section examplesG
private def tw (s : String) : List Nat := s.toList.map Char.toNat
/-- regression pins on the generated regexes: NBSP after the colon, IDEOGRAPHIC SPACE after the semicolon, a
    FULLWIDTH digit — all errors; the same with SPACE / a digit — silent -/
example : maybeStyle (tw "width:1em") (tw "width:\u00a01em") = [specError] := by decide +kernel
example : maybeStyle (tw "width:1em;height:2px") (tw "width:1em;\u3000height:2px") = [specError] := by decide +kernel
example : maybeStyle (tw "width:1em") (tw "width:\uff11em") = [specError] := by decide +kernel
example : maybeStyle (tw "width:1em;height:2px") (tw "width:1em; height:2px") = [] := by decide +kernel
/-- a text with a declaration and junk: the chain and the verdict, evaluated -/
example : parseCssSpec (tw "xwidth:1em") = (some [(tw "width", tw "em")], some [⟨0, .badContent⟩]) := by decide +kernel
/-- no declaration anywhere -/
example : parseCssSpec (tw "width: 1 em") = (none, none) := by decide +kernel
end examplesG
end css_complete

end C07

/-
C01 — Parsing is total, terminating and lossless for every text format.
Property theorems only; helper lemmas live in CLModel/Proofs/.
All statements quantify over every text `s` (array of code points), no length bound.
-/
import CLModel.Parser.Formats
import CLModel.Parser.Fluent
import CLModel.Proofs.Walk
namespace C01
open P Rx

/-- 1 iff the text starts with a byte-order mark (only the DTD parser skips it) -/
def bomSkip (s : Array Nat) : Nat := if s[0]? = some 0xFEFF then 1 else 0

/-- properties: the walk terminates (never `stuck`), its entries tile the text and the
    concatenation of their source texts is the input. -/
theorem walk_lossless_properties (s : Array Nat) :
    ∃ es, walk .properties s = .done es ∧ Tiles s.size 0 0 es ∧
      (es.map (Entry.all s)).flatten = s.toList := by
  sorry

/-- DTD: same, except that a leading byte-order mark is dropped. -/
theorem walk_lossless_dtd (s : Array Nat) :
    ∃ es, walk .dtd s = .done es ∧ Tiles s.size (bomSkip s) 0 es ∧
      (es.map (Entry.all s)).flatten = s.toList.drop (bomSkip s) := by
  sorry

theorem walk_lossless_ini (s : Array Nat) :
    ∃ es, walk .ini s = .done es ∧ Tiles s.size 0 0 es ∧
      (es.map (Entry.all s)).flatten = s.toList := by
  sorry

theorem walk_lossless_inc (s : Array Nat) :
    ∃ es, walk .inc s = .done es ∧ Tiles s.size 0 0 es ∧
      (es.map (Entry.all s)).flatten = s.toList := by
  sorry

theorem walk_lossless_po (s : Array Nat) :
    ∃ es, walk .po s = .done es ∧ Tiles s.size 0 0 es ∧
      (es.map (Entry.all s)).flatten = s.toList := by
  sorry

/-- the localizable-only view is exactly the entity and junk entries of the full view -/
theorem localizable_is_filter (f : Fmt) (s : Array Nat) (es : List Entry) (h : walk f s = .done es) :
    walkLoc f s = .done (es.filter Entry.localizable) := by
  sorry

/-- contract of the external fluent.syntax parser: body spans are increasing, disjoint and inside the text -/
def BodyContract (s : Array Nat) : List FEntry → Nat → Prop
  | [], _ => True
  | b :: rest, last => last ≤ b.s ∧ b.s ≤ b.e ∧ b.e ≤ s.size ∧ BodyContract s rest b.e

/-- Fluent: under the body contract the walk is lossless, whatever the body kinds.
    (`other` entries — none exist in fluent.syntax 0.19 besides Message/Term/Junk/comments — must be empty.) -/
theorem fluent_lossless (s : Array Nat) (body : List FEntry) (hc : BodyContract s body 0)
    (hk : ∀ b ∈ body, b.kind = .other → b.s = b.e) :
    ((fluentWalk s body false).map (Entry.all s)).flatten = s.toList := by
  sorry

theorem fluent_localizable_is_filter (s : Array Nat) (body : List FEntry) :
    fluentWalk s body true = (fluentWalk s body false).filter Entry.localizable := by
  sorry

/-- every entity's key span lies inside its own span (regex formats) -/
theorem key_inside (f : Fmt) (s : Array Nat) (es : List Entry) (h : walk f s = .done es) :
    ∀ e ∈ es, e.kind = .entity → (e.s : Int) ≤ e.ks ∧ e.ks ≤ e.ke ∧ e.ke ≤ (e.e : Int) := by
  sorry

end C01

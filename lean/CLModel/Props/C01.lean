/-
C01 — Parsing is total, terminating and lossless for every text format.
Property theorems only; helper lemmas live in CLModel/Proofs/.
All statements quantify over every text `s` (array of code points), no length bound.
-/
import CLModel.Parser.Formats
import CLModel.Parser.Fluent
import CLModel.Proofs.Walk
import CLModel.Proofs.WalkLoc
import CLModel.Proofs.ParserProgress
import CLModel.Proofs.FluentWalk
namespace C01
open P Rx

/-- 1 iff the text starts with a byte-order mark (only the DTD parser skips it) -/
def bomSkip (s : Array Nat) : Nat := if s[0]? = some 0xFEFF then 1 else 0

/-- properties: the walk terminates (never `stuck`), its entries tile the text and the
    concatenation of their source texts is the input. -/
theorem walk_lossless_properties (s : Array Nat) :
    ∃ es, walk .properties s = .done es ∧ Tiles s.size 0 0 es ∧
      (es.map (Entry.all s)).flatten = s.toList := by
  simpa [walk] using walk_lossless _ s 0 ()
    (progress_of_eok _ _ (fun _ off h => propsGetNext_eok s off h))

/-- DTD: same, except that a leading byte-order mark is dropped. -/
theorem walk_lossless_dtd (s : Array Nat) :
    ∃ es, walk .dtd s = .done es ∧ Tiles s.size (bomSkip s) 0 es ∧
      (es.map (Entry.all s)).flatten = s.toList.drop (bomSkip s) := by
  refine walk_lossless _ s (bomSkip s) () (fun _ off h => ?_)
  obtain ⟨h1, h2, h3, h4, _⟩ := dtdGetNext_ok s off h
  exact ⟨h1, h2, h3, h4⟩

theorem walk_lossless_ini (s : Array Nat) :
    ∃ es, walk .ini s = .done es ∧ Tiles s.size 0 0 es ∧
      (es.map (Entry.all s)).flatten = s.toList := by
  simpa [walk] using walk_lossless _ s 0 ()
    (progress_of_eok _ _ (fun _ off h => iniGetNext_eok s off h))

theorem walk_lossless_inc (s : Array Nat) :
    ∃ es, walk .inc s = .done es ∧ Tiles s.size 0 0 es ∧
      (es.map (Entry.all s)).flatten = s.toList := by
  simpa [walk] using walk_lossless _ s 0 false
    (progress_of_eok _ _ (fun fel off h => definesGetNext_eok s fel off h))

theorem walk_lossless_po (s : Array Nat) :
    ∃ es, walk .po s = .done es ∧ Tiles s.size 0 0 es ∧
      (es.map (Entry.all s)).flatten = s.toList := by
  simpa [walk] using walk_lossless _ s 0 ()
    (progress_of_eok _ _ (fun _ off h => getNext_eok poCfg _ poCfg_ok s off h))

/-- the localizable-only view is exactly the entity and junk entries of the full view -/
theorem localizable_is_filter (f : Fmt) (s : Array Nat) (es : List Entry) (h : walk f s = .done es) :
    walkLoc f s = .done (es.filter Entry.localizable) := by
  cases f <;> simp only [walk, walkLoc] at h ⊢ <;> rw [walkFromLoc_eq, h] <;> rfl

/-- contract of the external fluent.syntax parser: body spans are increasing, disjoint and inside the text -/
def BodyContract (s : Array Nat) : List FEntry → Nat → Prop
  | [], _ => True
  | b :: rest, last => last ≤ b.s ∧ b.s ≤ b.e ∧ b.e ≤ s.size ∧ BodyContract s rest b.e

/-- Fluent: under the body contract the walk is lossless, whatever the body kinds.
    (`other` entries — none exist in fluent.syntax 0.19 besides Message/Term/Junk/comments — must be empty.) -/
theorem fluent_lossless (s : Array Nat) (body : List FEntry) (hc : BodyContract s body 0)
    (hk : ∀ b ∈ body, b.kind = .other → b.s = b.e) :
    ((fluentWalk s body false).map (Entry.all s)).flatten = s.toList := by
  have hb : ∀ body last, BodyContract s body last → BodyOK s body last := by
    intro body
    induction body with
    | nil => intro _ _; trivial
    | cons b rest ih => intro last h; exact ⟨h.1, h.2.1, h.2.2.1, ih _ h.2.2.2⟩
  simpa [fluentWalk, slice_full] using fluentWalkFrom_all s body 0 (hb _ _ hc) (Nat.zero_le _) hk

/-- non-vacuity: a body with a junk (leading and trailing blanks), a gap and a message satisfies the contract -/
example : BodyContract #[32, 120, 10, 10, 97, 61, 98]
    [{ kind := .junk, s := 0, e := 3 }, { kind := .message, s := 4, e := 7 }] 0 :=
  ⟨by decide, by decide, by decide, by decide, by decide, by decide, trivial⟩

/-- negation witness for `hk`: a non-empty `other` entry is dropped by the walk, so its text is lost -/
example : ((fluentWalk #[120] [{ kind := .other, s := 0, e := 1 }] false).map (Entry.all #[120])).flatten
    ≠ #[120].toList := by decide

theorem fluent_localizable_is_filter (s : Array Nat) (body : List FEntry) :
    fluentWalk s body true = (fluentWalk s body false).filter Entry.localizable := by
  exact fluentWalkFrom_filter s body 0

/-- every entity's key span lies inside its own span (regex formats) -/
theorem key_inside (f : Fmt) (s : Array Nat) (es : List Entry) (h : walk f s = .done es) :
    ∀ e ∈ es, e.kind = .entity → (e.s : Int) ≤ e.ks ∧ e.ks ≤ e.ke ∧ e.ke ≤ (e.e : Int) := by
  cases f <;> simp only [walk] at h
  · exact walkFrom_all _ _ KeyIn (fun _ off ho => (propsGetNext_eok s off ho).keyIn) _ _ _ _ h
  · exact walkFrom_all _ _ KeyIn (fun _ off ho => (dtdGetNext_ok s off ho).2.2.2.2.1) _ _ _ _ h
  · exact walkFrom_all _ _ KeyIn (fun _ off ho => (iniGetNext_eok s off ho).keyIn) _ _ _ _ h
  · exact walkFrom_all _ _ KeyIn (fun fel off ho => (definesGetNext_eok s fel off ho).keyIn) _ _ _ _ h
  · exact walkFrom_all _ _ KeyIn (fun _ off ho => (getNext_eok poCfg _ poCfg_ok s off ho).keyIn) _ _ _ _ h

/-- the value span lies inside the entity span -/
def ValNormal (e : Entry) : Prop := (e.s : Int) ≤ e.vs ∧ e.vs ≤ e.ve ∧ e.ve ≤ (e.e : Int)

/-- defines (.inc): the optional `val` group took no part in the match (`#define a`), Python's `m.span('val')` is (-1, -1) -/
def ValAbsent (e : Entry) : Prop := e.vs = -1 ∧ e.ve = -1

/-- DTD: the value is a lone apostrophe (`'[^']*'?` with the closing apostrophe missing, `<!ENTITY a '>`);
    trimming the quotes gives the inverted span (p+1, p), still inside the entity -/
def ValLoneQuote (e : Entry) : Prop := e.ve + 1 = e.vs ∧ (e.s : Int) ≤ e.ve ∧ e.vs ≤ (e.e : Int)

/-- per format: only defines can produce `ValAbsent`, only DTD can produce `ValLoneQuote` -/
def ValInsideFor (f : Fmt) (e : Entry) : Prop :=
  match f with
  | .inc => ValNormal e ∨ ValAbsent e
  | .dtd => ValNormal e ∨ ValLoneQuote e
  | _ => ValNormal e

def ValInside (e : Entry) : Prop := ValNormal e ∨ ValAbsent e ∨ ValLoneQuote e

/-- every entity's value span lies inside its own span, up to the degenerate encoding of its format -/
theorem val_inside_fmt (f : Fmt) (s : Array Nat) (es : List Entry) (h : walk f s = .done es) :
    ∀ e ∈ es, e.kind = .entity → ValInsideFor f e := by
  cases f <;> simp only [walk] at h
  · exact walkFrom_all _ _ (ValIn VNormal) (fun _ off ho => (propsGetNext_eok s off ho).valIn) _ _ _ _ h
  · exact walkFrom_all _ _ (ValIn VDtd) (fun _ off ho => (dtdGetNext_ok s off ho).2.2.2.2.2) _ _ _ _ h
  · exact walkFrom_all _ _ (ValIn VNormal) (fun _ off ho => (iniGetNext_eok s off ho).valIn) _ _ _ _ h
  · exact walkFrom_all _ _ (ValIn VInc) (fun fel off ho => (definesGetNext_eok s fel off ho).valIn) _ _ _ _ h
  · exact walkFrom_all _ _ (ValIn VNormal) (fun _ off ho => (getNext_eok poCfg _ poCfg_ok s off ho).valIn) _ _ _ _ h

/-- every entity's value span lies inside its own span, or is one of the two degenerate encodings (regex formats) -/
theorem val_inside (f : Fmt) (s : Array Nat) (es : List Entry) (h : walk f s = .done es) :
    ∀ e ∈ es, e.kind = .entity → ValInside e := by
  intro e he hk
  have := val_inside_fmt f s es h e he hk
  cases f <;> simp only [ValInsideFor] at this
  · exact Or.inl this
  · exact this.elim Or.inl (fun h => Or.inr (Or.inr h))
  · exact Or.inl this
  · exact this.elim Or.inl (fun h => Or.inr (Or.inl h))
  · exact Or.inl this

/-- non-vacuity, defines: `#define a` is an entity without value group, encoded (-1, -1) -/
example : walk .inc #[35, 100, 101, 102, 105, 110, 101, 32, 97] =
    .done [{ kind := .entity, full := 0, s := 0, e := 9, ks := 8, ke := 9, vs := -1, ve := -1 }] := by decide

/-- non-vacuity, DTD: `<!ENTITY a '>` is an entity whose trimmed value span is inverted, (12, 11) -/
example : walk .dtd #[60, 33, 69, 78, 84, 73, 84, 89, 32, 97, 32, 39, 62] =
    .done [{ kind := .entity, full := 0, s := 0, e := 13, ks := 9, ke := 10, vs := 12, ve := 11 }] := by decide

end C01

/-
C01 — Parsing is total, terminating and lossless for every text format.
Property theorems only; helper lemmas live in CLModel/Proofs/.
All statements quantify over every text `s` (array of code points), no length bound.
-/
import CLModel.Parser.Formats
import CLModel.Parser.Fluent
import CLModel.Proofs.Walk
import CLModel.Proofs.WalkLoc
import CLModel.Proofs.ParserProgress
import CLModel.Proofs.FluentWalk
import CLModel.Parser.C01Sess
import CLModel.Proofs.C01Sess
import CLModel.Proofs.C01Dead
import CLModel.Proofs.C01FluentC
import CLModel.Proofs.C01Engine
import CLModel.Parser.C01Gen
import CLModel.Proofs.C01Gen
namespace C01
open P Rx

/-- 1 iff the text starts with a byte-order mark (only the DTD parser skips it) -/
def bomSkip (s : Array Nat) : Nat := if s[0]? = some 0xFEFF then 1 else 0

/-- properties: the walk terminates (never `stuck`), its entries tile the text and the
    concatenation of their source texts is the input. -/
theorem walk_lossless_properties (s : Array Nat) :
    ∃ es, walk .properties s = .done es ∧ Tiles s.size 0 0 es ∧
      (es.map (Entry.all s)).flatten = s.toList := by
  simpa [walk] using walk_lossless _ s 0 ()
    (progress_of_eok _ _ (fun _ off h => propsGetNext_eok s off h))

/-- DTD: same, except that a leading byte-order mark is dropped. -/
theorem walk_lossless_dtd (s : Array Nat) :
    ∃ es, walk .dtd s = .done es ∧ Tiles s.size (bomSkip s) 0 es ∧
      (es.map (Entry.all s)).flatten = s.toList.drop (bomSkip s) := by
  refine walk_lossless _ s (bomSkip s) () (fun _ off h => ?_)
  obtain ⟨h1, h2, h3, h4, _⟩ := dtdGetNext_ok s off h
  exact ⟨h1, h2, h3, h4⟩

theorem walk_lossless_ini (s : Array Nat) :
    ∃ es, walk .ini s = .done es ∧ Tiles s.size 0 0 es ∧
      (es.map (Entry.all s)).flatten = s.toList := by
  simpa [walk] using walk_lossless _ s 0 ()
    (progress_of_eok _ _ (fun _ off h => iniGetNext_eok s off h))

theorem walk_lossless_inc (s : Array Nat) :
    ∃ es, walk .inc s = .done es ∧ Tiles s.size 0 0 es ∧
      (es.map (Entry.all s)).flatten = s.toList := by
  simpa [walk] using walk_lossless _ s 0 false
    (progress_of_eok _ _ (fun fel off h => definesGetNext_eok s fel off h))

theorem walk_lossless_po (s : Array Nat) :
    ∃ es, walk .po s = .done es ∧ Tiles s.size 0 0 es ∧
      (es.map (Entry.all s)).flatten = s.toList := by
  simpa [walk] using walk_lossless _ s 0 ()
    (progress_of_eok _ _ (fun _ off h => getNext_eok poCfg _ poCfg_ok s off h))

/-- the localizable-only view is exactly the entity and junk entries of the full view -/
theorem localizable_is_filter (f : Fmt) (s : Array Nat) (es : List Entry) (h : walk f s = .done es) :
    walkLoc f s = .done (es.filter Entry.localizable) := by
  cases f <;> simp only [walk, walkLoc] at h ⊢ <;> rw [walkFromLoc_eq, h] <;> rfl

/-- contract of the external fluent.syntax parser: body spans are increasing, disjoint and inside the text -/
def BodyContract (s : Array Nat) : List FEntry → Nat → Prop
  | [], _ => True
  | b :: rest, last => last ≤ b.s ∧ b.s ≤ b.e ∧ b.e ≤ s.size ∧ BodyContract s rest b.e

/-- Fluent: under the body contract the walk is lossless, whatever the body kinds.
    (`other` entries — none exist in fluent.syntax 0.19 besides Message/Term/Junk/comments — must be empty.) -/
theorem fluent_lossless (s : Array Nat) (body : List FEntry) (hc : BodyContract s body 0)
    (hk : ∀ b ∈ body, b.kind = .other → b.s = b.e) :
    ((fluentWalk s body false).map (Entry.all s)).flatten = s.toList := by
  have hb : ∀ body last, BodyContract s body last → BodyOK s body last := by
    intro body
    induction body with
    | nil => intro _ _; trivial
    | cons b rest ih => intro last h; exact ⟨h.1, h.2.1, h.2.2.1, ih _ h.2.2.2⟩
  simpa [fluentWalk, slice_full] using fluentWalkFrom_all s body 0 (hb _ _ hc) (Nat.zero_le _) hk

/-- non-vacuity: a body with a junk (leading and trailing blanks), a gap and a message satisfies the contract -/
example : BodyContract #[32, 120, 10, 10, 97, 61, 98]
    [{ kind := .junk, s := 0, e := 3 }, { kind := .message, s := 4, e := 7 }] 0 :=
  ⟨by decide, by decide, by decide, by decide, by decide, by decide, trivial⟩

/-- negation witness for `hk`: a non-empty `other` entry is dropped by the walk, so its text is lost -/
example : ((fluentWalk #[120] [{ kind := .other, s := 0, e := 1 }] false).map (Entry.all #[120])).flatten
    ≠ #[120].toList := by decide

theorem fluent_localizable_is_filter (s : Array Nat) (body : List FEntry) :
    fluentWalk s body true = (fluentWalk s body false).filter Entry.localizable := by
  exact fluentWalkFrom_filter s body 0

/-- every entity's key span lies inside its own span (regex formats) -/
theorem key_inside (f : Fmt) (s : Array Nat) (es : List Entry) (h : walk f s = .done es) :
    ∀ e ∈ es, e.kind = .entity → (e.s : Int) ≤ e.ks ∧ e.ks ≤ e.ke ∧ e.ke ≤ (e.e : Int) := by
  cases f <;> simp only [walk] at h
  · exact walkFrom_all _ _ KeyIn (fun _ off ho => (propsGetNext_eok s off ho).keyIn) _ _ _ _ h
  · exact walkFrom_all _ _ KeyIn (fun _ off ho => (dtdGetNext_ok s off ho).2.2.2.2.1) _ _ _ _ h
  · exact walkFrom_all _ _ KeyIn (fun _ off ho => (iniGetNext_eok s off ho).keyIn) _ _ _ _ h
  · exact walkFrom_all _ _ KeyIn (fun fel off ho => (definesGetNext_eok s fel off ho).keyIn) _ _ _ _ h
  · exact walkFrom_all _ _ KeyIn (fun _ off ho => (getNext_eok poCfg _ poCfg_ok s off ho).keyIn) _ _ _ _ h

/-- the value span lies inside the entity span -/
def ValNormal (e : Entry) : Prop := (e.s : Int) ≤ e.vs ∧ e.vs ≤ e.ve ∧ e.ve ≤ (e.e : Int)

/-- defines (.inc): the optional `val` group took no part in the match (`#define a`), Python's `m.span('val')` is (-1, -1) -/
def ValAbsent (e : Entry) : Prop := e.vs = -1 ∧ e.ve = -1

/-- DTD: the value is a lone apostrophe (`'[^']*'?` with the closing apostrophe missing, `<!ENTITY a '>`);
    trimming the quotes gives the inverted span (p+1, p), still inside the entity -/
def ValLoneQuote (e : Entry) : Prop := e.ve + 1 = e.vs ∧ (e.s : Int) ≤ e.ve ∧ e.vs ≤ (e.e : Int)

/-- per format: only defines can produce `ValAbsent`, only DTD can produce `ValLoneQuote` -/
def ValInsideFor (f : Fmt) (e : Entry) : Prop :=
  match f with
  | .inc => ValNormal e ∨ ValAbsent e
  | .dtd => ValNormal e ∨ ValLoneQuote e
  | _ => ValNormal e

def ValInside (e : Entry) : Prop := ValNormal e ∨ ValAbsent e ∨ ValLoneQuote e

/-- every entity's value span lies inside its own span, up to the degenerate encoding of its format -/
theorem val_inside_fmt (f : Fmt) (s : Array Nat) (es : List Entry) (h : walk f s = .done es) :
    ∀ e ∈ es, e.kind = .entity → ValInsideFor f e := by
  cases f <;> simp only [walk] at h
  · exact walkFrom_all _ _ (ValIn VNormal) (fun _ off ho => (propsGetNext_eok s off ho).valIn) _ _ _ _ h
  · exact walkFrom_all _ _ (ValIn VDtd) (fun _ off ho => (dtdGetNext_ok s off ho).2.2.2.2.2) _ _ _ _ h
  · exact walkFrom_all _ _ (ValIn VNormal) (fun _ off ho => (iniGetNext_eok s off ho).valIn) _ _ _ _ h
  · exact walkFrom_all _ _ (ValIn VInc) (fun fel off ho => (definesGetNext_eok s fel off ho).valIn) _ _ _ _ h
  · exact walkFrom_all _ _ (ValIn VNormal) (fun _ off ho => (getNext_eok poCfg _ poCfg_ok s off ho).valIn) _ _ _ _ h

/-- every entity's value span lies inside its own span, or is one of the two degenerate encodings (regex formats) -/
theorem val_inside (f : Fmt) (s : Array Nat) (es : List Entry) (h : walk f s = .done es) :
    ∀ e ∈ es, e.kind = .entity → ValInside e := by
  intro e he hk
  have := val_inside_fmt f s es h e he hk
  cases f <;> simp only [ValInsideFor] at this
  · exact Or.inl this
  · exact this.elim Or.inl (fun h => Or.inr (Or.inr h))
  · exact Or.inl this
  · exact this.elim Or.inl (fun h => Or.inr (Or.inl h))
  · exact Or.inl this

/-- non-vacuity, defines: `#define a` is an entity without value group, encoded (-1, -1) -/
example : walk .inc #[35, 100, 101, 102, 105, 110, 101, 32, 97] =
    .done [{ kind := .entity, full := 0, s := 0, e := 9, ks := 8, ke := 9, vs := -1, ve := -1 }] := by decide

/-- non-vacuity, DTD: `<!ENTITY a '>` is an entity whose trimmed value span is inverted, (12, 11) -/
example : walk .dtd #[60, 33, 69, 78, 84, 73, 84, 89, 32, 97, 32, 39, 62] =
    .done [{ kind := .entity, full := 0, s := 0, e := 13, ks := 9, ke := 10, vs := 12, ve := 11 }] := by decide

/-! ## Round 4 -/

open C01M C01P

/-! ### the localizable-only view, for all texts and per format -/

/-- for every text and each of the five regex formats: both views exist (both walks terminate) and the
    localizable-only view (`list(parser)`) is exactly the Entity/Junk entries of the full view
    (`list(parser.walk())`), each taken on a FRESH context (`readUnicode`) -/
theorem localizable_view_eq_filter (f : Fmt) (s : Array Nat) :
    ∃ es, walk f s = .done es ∧ walkLoc f s = .done (es.filter Entry.localizable) := by
  have h : ∃ es, walk f s = .done es := by
    cases f
    · obtain ⟨es, h, _⟩ := walk_lossless_properties s; exact ⟨es, h⟩
    · obtain ⟨es, h, _⟩ := walk_lossless_dtd s; exact ⟨es, h⟩
    · obtain ⟨es, h, _⟩ := walk_lossless_ini s; exact ⟨es, h⟩
    · obtain ⟨es, h, _⟩ := walk_lossless_inc s; exact ⟨es, h⟩
    · obtain ⟨es, h, _⟩ := walk_lossless_po s; exact ⟨es, h⟩
  obtain ⟨es, h⟩ := h
  exact ⟨es, h, localizable_is_filter f s es h⟩

/-- the same for a context in ANY state (`fel` = `ctx.filter_empty_lines` when the walk starts): the two
    views of a context in the same state agree, and both leave the context in the same state -/
theorem ctx_localizable_is_filter (f : Fmt) (s : Array Nat) (fel : Bool) :
    (walkSt f s true fel).1 = (walkSt f s false fel).1.filterLoc ∧
    (walkSt f s true fel).2 = (walkSt f s false fel).2 :=
  walkSt_filter f s fel

/-- `readUnicode(t); list(p.walk()); list(p)` on ONE parser object, all five formats, all texts: the
    localizable view of the same context is exactly the Entity/Junk entries of the full view.
    (properties, DTD, ini, PO walks are stateless; `DefinesParser.walk` resets `filter_empty_lines` when a walk
    starts — /repo 0f5119c.  Before that fix the second walk started from the flag the first one left and the
    clause failed on `#a b\n\n#filter emptyLines`: finding C01-inc-filter-state-leaks-between-walks, fixed.) -/
theorem sess_walk_then_iter (f : Fmt) (t : Array Nat) :
    C01M.run f none [.read t, .walk false, .walk true] = [walk f t, (walk f t).filterLoc] := by
  cases f <;> simp only [C01M.run, step] <;>
    (try rw [walkSt_fst_stateless _ (by decide) t true]) <;>
    rw [(walkSt_filter _ t false).1, (walkSt_fresh _ t).1]

/-- the other order, and any number of walks: every walk of one context gives the entries of a fresh one -/
theorem sess_iter_then_walk (f : Fmt) (t : Array Nat) :
    C01M.run f none [.read t, .walk true, .walk false] = [(walk f t).filterLoc, walk f t] := by
  cases f <;> simp only [C01M.run, step] <;>
    (try rw [walkSt_fst_stateless _ (by decide) t false (walkSt _ t true false).2]) <;>
    rw [(walkSt_filter _ t false).1, (walkSt_fresh _ t).1]

/-- positive example (the input of the former finding): `#a b\n\n#filter emptyLines` — the blank lines are
    Junk in the full view and in the localizable view of the same context -/
example :
    C01M.run .inc none [.read #[35, 97, 32, 98, 10, 10, 35, 102, 105, 108, 116, 101, 114, 32, 101, 109, 112, 116, 121, 76, 105, 110, 101, 115],
      .walk false, .walk true] =
    [.done [{ kind := .instruction, full := 0, s := 0, e := 4, ks := 1, ke := 4, vs := 1, ve := 4 },
            { kind := .junk, full := 4, s := 4, e := 6 },
            { kind := .instruction, full := 6, s := 6, e := 24, ks := 7, ke := 24, vs := 7, ve := 24 }],
     .done [{ kind := .junk, full := 4, s := 4, e := 6 }]] := by decide +kernel

/-- why the reset matters: WITHOUT it (a walk started with the flag the previous one left, `walkSt … true`)
    the localizable view of that text has no Junk -/
example :
    (walkSt .inc #[35, 97, 32, 98, 10, 10, 35, 102, 105, 108, 116, 101, 114, 32, 101, 109, 112, 116, 121, 76, 105, 110, 101, 115]
      false false).2 = true ∧
    (walkSt .inc #[35, 97, 32, 98, 10, 10, 35, 102, 105, 108, 116, 101, 114, 32, 101, 109, 112, 116, 121, 76, 105, 110, 101, 115]
      true true).1 = .done [] := by decide +kernel

/-- `readUnicode` always starts from a fresh context -/
theorem sess_read_resets (f : Fmt) (ctx : PCtx) (t : Array Nat) (cs : List Cmd) :
    C01M.run f ctx (.read t :: cs) = C01M.run f (some (t, false)) cs := rfl

/-- a parser without a loaded context yields nothing (`if not self.ctx: return`), in both views -/
theorem sess_noctx (f : Fmt) (l : Bool) : C01M.run f none [.walk l] = [.done []] := rfl

/-! ### dead branches (coverage): the late `return white_space` of the three getNext functions -/

/-- base.py:417 — replacing the value of the branch by ANY entry does not change `Parser.getNext` -/
theorem dead_base_late_whitespace (d : Entry) (c : BaseCfg) (s : Array Nat) (off : Nat) :
    getNextD d c s off = getNext c s off := getNextD_eq d c s off
/-- properties.py:107 -/
theorem dead_props_late_whitespace (d : Entry) (s : Array Nat) (off : Nat) :
    propsGetNextD d s off = propsGetNext s off := propsGetNextD_eq d s off
/-- defines.py:91 -/
theorem dead_defines_late_whitespace (d : Entry) (s : Array Nat) (fel : Bool) (off : Nat) :
    definesGetNextD d s fel off = definesGetNext s fel off := definesGetNextD_eq d s fel off

/-! ### Fluent: the contract of fluent.syntax as a decidable predicate -/

/-- for every text and every body that satisfies `contractB`, the walk that reads `entry.content` is
    lossless.  No hypothesis on entry kinds is left: an unknown entry class must be empty by the contract. -/
theorem fluentC_lossless (s : Array Nat) (body : List FBody) (hc : contractB s body 0 = true) :
    ((fluentWalkC (some s) body false).map (Entry.all s)).flatten = s.toList := by
  have hk : ∀ b ∈ body.map (·.b), b.kind = .other → b.s = b.e := by
    intro b hb ho
    obtain ⟨x, hx, rfl⟩ := List.mem_map.mp hb
    exact entryOKB_other (contractB_mem s body 0 hc x hx).1 ho
  simp only [fluentWalkC, fluentWalkFromC_eq s false body 0 hc]
  simpa [slice_full] using fluentWalkFrom_all s (body.map (·.b)) 0 (contractB_bodyOK s body 0 hc) (Nat.zero_le _) hk

/-- stronger than the concatenation: the entries are a chain over `[0, len)` — each entry starts where
    the previous one ended, none is inverted (no character duplicated or reordered) -/
theorem fluentC_chain (s : Array Nat) (body : List FBody) (hc : contractB s body 0 = true) :
    Chain 0 (fluentWalkC (some s) body false) s.size := by
  have hk : ∀ b ∈ body.map (·.b), b.kind = .other → b.s = b.e := by
    intro b hb ho
    obtain ⟨x, hx, rfl⟩ := List.mem_map.mp hb
    exact entryOKB_other (contractB_mem s body 0 hc x hx).1 ho
  simp only [fluentWalkC, fluentWalkFromC_eq s false body 0 hc]
  exact fluentWalkFrom_chain s (body.map (·.b)) 0 (contractB_bodyOK s body 0 hc) (Nat.zero_le _) hk

/-- every Fluent entity's key lies inside its own text and so does its value (or it has none) -/
theorem fluentC_inside (s : Array Nat) (body : List FBody) (l : Bool) (hc : contractB s body 0 = true) :
    ∀ e ∈ fluentWalkC (some s) body l, EntIn e := by
  simp only [fluentWalkC, fluentWalkFromC_eq s l body 0 hc]
  refine fluentWalkFrom_entIn s l (body.map (·.b)) 0 ?_
  intro b hb hk
  obtain ⟨x, hx, rfl⟩ := List.mem_map.mp hb
  exact entryOKB_ent (contractB_mem s body 0 hc x hx).1 hk

/-- the localizable-only view is the Entity/Junk entries of the full view -/
theorem fluentC_localizable_is_filter (s : Array Nat) (body : List FBody) (hc : contractB s body 0 = true) :
    fluentWalkC (some s) body true = (fluentWalkC (some s) body false).filter Entry.localizable := by
  simp only [fluentWalkC, fluentWalkFromC_eq s _ body 0 hc]
  exact fluentWalkFrom_filter s _ 0

theorem fluentC_noctx (body : List FBody) (l : Bool) : fluentWalkC none body l = [] := rfl

/-- non-vacuity / the seeded regression class: a junk line that is Unicode white-space but not
    ` \t\r\n` (form feed, newline): it is NOT "white-space only" for the walk, the form feed stays Junk,
    only the newline is trimmed -/
example : contractB #[12, 10] [{ b := { kind := .junk, s := 0, e := 2 }, content := [12, 10] }] 0 = true ∧
    fluentWalkC (some #[12, 10]) [{ b := { kind := .junk, s := 0, e := 2 }, content := [12, 10] }] false =
      [{ kind := .junk, full := 0, s := 0, e := 1 },
       { kind := .whitespace, full := 1, s := 1, e := 2, ks := 1, ke := 2, vs := 1, ve := 2 }] := by decide

/-- no-break space around junk: stays inside the Junk entry -/
example : fluentWalkC (some #[160, 120, 160, 10]) [{ b := { kind := .junk, s := 0, e := 4 }, content := [160, 120, 160, 10] }] false =
      [{ kind := .junk, full := 0, s := 0, e := 3 },
       { kind := .whitespace, full := 3, s := 3, e := 4, ks := 3, ke := 4, vs := 3, ve := 4 }] := by decide

/-- negation witness for the contract: a junk whose `content` is not the text of its span (here: shorter)
    makes the walk lose a character -/
example : contractB #[120, 121] [{ b := { kind := .junk, s := 0, e := 2 }, content := [32] }] 0 = false ∧
    ((fluentWalkC (some #[120, 121]) [{ b := { kind := .junk, s := 0, e := 2 }, content := [32] }] false).map
      (Entry.all #[120, 121])).flatten = #[120, 121].toList := by decide

/-! ### complexity guard: no ambiguous nested quantifier in the parser regexes -/

/-- the regexes the five regex parsers (and the Fluent junk trimming) match with -/
def parserRegexes : List (String × Re) := [
  ("Parser.reWhitespace", Gen.Pat.Parser_reWhitespace),
  ("PropertiesParser.reKey", Gen.Pat.PropertiesParser_reKey),
  ("PropertiesParser.reComment", Gen.Pat.PropertiesParser_reComment),
  ("PropertiesParser._escapedEnd", Gen.Pat.PropertiesParser__escapedEnd),
  ("PropertiesParser._trailingWS", Gen.Pat.PropertiesParser__trailingWS),
  ("DTDParser.reKey", Gen.Pat.DTDParser_reKey),
  ("DTDParser.reComment", Gen.Pat.DTDParser_reComment),
  ("DTDParser.reHeader", Gen.Pat.DTDParser_reHeader),
  ("IniParser.reComment", Gen.Pat.IniParser_reComment),
  ("IniParser.reSection", Gen.Pat.IniParser_reSection),
  ("IniParser.reKey", Gen.Pat.IniParser_reKey),
  ("DefinesParser.reWhitespace", Gen.Pat.DefinesParser_reWhitespace),
  ("DefinesParser.reComment", Gen.Pat.DefinesParser_reComment),
  ("DefinesParser.reKey", Gen.Pat.DefinesParser_reKey),
  ("DefinesParser.rePI", Gen.Pat.DefinesParser_rePI),
  ("PoParser.reKey", Gen.Pat.PoParser_reKey),
  ("PoParser.reComment", Gen.Pat.PoParser_reComment),
  ("PoParser.reListItem", Gen.Pat.PoParser_reListItem),
  ("po.reEscape", Gen.Pat.parser_po_reEscape),
  ("FluentParser.walk[0]", Gen.Pat.parser_fluent_FluentParser_walk_0),
  ("FluentParser.walk[1]", Gen.Pat.parser_fluent_FluentParser_walk_1)]

/-- DECIDED on the regenerated regexes: every repeat of every parser regex has a body with at most one
    outcome per state (`Safe`).  A regex edit that introduces an ambiguous nested quantifier
    (`(a|b+)*`, `(x*)*`, `(a|a)*` …) makes this `decide` fail. -/
theorem parser_regexes_safe : ∀ p ∈ parserRegexes, Safe p.2 = true := by decide

/-- PROVED for every text: one match attempt of a parser regex at any position explores a search tree of
    at most `cC r * (len+2)^(dC r)` nodes; constant and degree depend on the regex only -/
theorem parser_regex_steps_poly (p : String × Re) (hp : p ∈ parserRegexes) (s : Array Nat) (st : St) :
    steps s p.2 st ≤ cC p.2 * (s.size + 2) ^ dC p.2 :=
  steps_poly s p.2 (parser_regexes_safe p hp) st

/-- the same for the engine itself: the instrumented copy `matchAtT` of `matchAt` (same result,
    `matchAtT_result`) makes at most `cC r * (len+2)^(dC r)` calls -/
theorem parser_regex_match_poly (p : String × Re) (hp : p ∈ parserRegexes) (s : Array Nat) (pos : Nat) :
    (matchAtT s p.2 pos).2 = matchAt s p.2 pos ∧ (matchAtT s p.2 pos).1 ≤ cC p.2 * (s.size + 2) ^ dC p.2 :=
  ⟨matchAtT_result s p.2 pos, matchAtT_poly s p.2 (parser_regexes_safe p hp) pos⟩

/-- the degrees are small: the PO string-list item is quadratic (today `18 * (len+2)^2`), the worst one of
    the table is `DTDParser.reKey` (five repeats in sequence, today `73 * (len+2)^5`) -/
example : dC Gen.Pat.PoParser_reListItem ≤ 2 ∧ ∀ p ∈ parserRegexes, dC p.2 ≤ 5 := by decide

/-- the seeded regression class: `[ \t\r\n]*"((?:\\[\\trn"]|[^"\n\\]+)*)"` (a `+` inside the starred
    alternation of `PoParser.reListItem`) is rejected by the criterion -/
example : Safe (.seq (.rep 0 none true (.cls false [.ch 32, .ch 9, .ch 13, .ch 10])) (.seq (.lit 34) (.seq (.group 1
    (.rep 0 none true (.alt (.seq (.lit 92) (.cls false [.ch 92, .ch 116, .ch 114, .ch 110, .ch 34]))
      (.rep 1 none true (.cls true [.ch 34, .ch 10, .ch 92]))))) (.lit 34)))) = false := by decide

/-- and it really is exponential for the engine: on `"` + k × `a` + `!` (no closing quote) the search tree
    of that regex doubles with every `a`, while the real regex grows linearly -/
example :
    let bad : Re := .seq (.lit 34) (.seq (.rep 0 none true (.alt (.seq (.lit 92) (.cls false [.ch 92]))
      (.rep 1 none true (.cls true [.ch 34, .ch 10, .ch 92])))) (.lit 34))
    let good : Re := .seq (.lit 34) (.seq (.rep 0 none true (.alt (.seq (.lit 92) (.cls false [.ch 92]))
      (.cls true [.ch 34, .ch 10, .ch 92]))) (.lit 34))
    (steps #[34, 97, 97, 97, 97, 33] bad ⟨0, []⟩, steps #[34, 97, 97, 97, 97, 97, 33] bad ⟨0, []⟩,
     steps #[34, 97, 97, 97, 97, 97, 97, 33] bad ⟨0, []⟩) = (289, 577, 1153) ∧
    (steps #[34, 97, 97, 97, 97, 33] good ⟨0, []⟩, steps #[34, 97, 97, 97, 97, 97, 33] good ⟨0, []⟩,
     steps #[34, 97, 97, 97, 97, 97, 97, 33] good ⟨0, []⟩) = (39, 45, 51) := by decide +kernel

/-- NOT covered by the criterion: `DTDParser.rePE` ends with `(?:[ \t]*(?:<!--…-->[ \t\r\n]*)*\n?)?`, a
    repeat whose body ends with an undelimited `[ \t\r\n]*` (and contains the comment's lazy repeat, which is
    delimited by the two characters `--`, not one).  Only its nesting depth is pinned. -/
example : Safe Gen.Pat.DTDParser_rePE = false := by decide

/-- nesting depth of unbounded repeats -/
def repDepth : Re → Nat
  | .seq a b | .alt a b => max (repDepth a) (repDepth b)
  | .group _ r | .look _ _ r => repDepth r
  | .rep _ mx _ r => (if mx = none then 1 else 0) + repDepth r
  | _ => 0

example : repDepth Gen.Pat.DTDParser_rePE = 2 ∧ ∀ p ∈ parserRegexes, repDepth p.2 ≤ 2 := by decide

/-! ## Round 5: `walk()` / `__iter__` as generator objects — partial consumption, abandoned passes, interleaving

`C01M.stepG` models ONE parser object with every mutable component explicit: the `Context` objects ever created
(`heap`: contents + `filter_empty_lines`), `parser.ctx` (`cur`) and the generator objects ever returned by `walk()` /
`iter()` (`gens`: not started / suspended at the `yield` with its captured context and `next_offset` / finished).
`view f t loc` is what a fresh parser shows for text `t` (`loc` = localizable-only view).
A regression that memoises yielded entries on the Context (or on the parser) while a pass is running — so that an
abandoned first pass leaves a truncated list which later passes replay — contradicts `partial_walk_leaves_context`
(a pass writes nothing but `filter_empty_lines`) and `walk_after_partial_is_fresh`. -/

/-- No operation on generator objects — creating one, `k` × `next`, `list(g)`, closing or abandoning it — changes
    which Context the parser holds or the contents of any Context; for the four formats whose walk keeps no state
    outside its frame the Context objects are not written at all.  (`.inc`: only `filter_empty_lines` is written.) -/
theorem partial_walk_leaves_context (f : Fmt) (σ : Obj) (op : Op) (h : ∀ t, op ≠ .read t) :
    (stepG f σ op).1.cur = σ.cur ∧
    (stepG f σ op).1.heap.map CtxO.s = σ.heap.map CtxO.s ∧
    (f ≠ .inc → (stepG f σ op).1.heap = σ.heap) :=
  let h := stepG_frame f σ op h
  ⟨h.cur, h.contents, h.heap⟩

/-- the same for any history without `readUnicode` (any number of partial, complete, interleaved, abandoned passes) -/
theorem passes_leave_context (f : Fmt) (σ : Obj) (ops : List Op) (h : ∀ op ∈ ops, ∀ t, op ≠ .read t) :
    (execG f σ ops).cur = σ.cur ∧
    (execG f σ ops).heap.map CtxO.s = σ.heap.map CtxO.s ∧
    (f ≠ .inc → (execG f σ ops).heap = σ.heap) :=
  let h := execG_frame f ops σ h
  ⟨h.cur, h.contents, h.heap⟩

/-- A COMPLETE pass (`list(p.walk())`, `list(p)`, `p.parse()`) on a parser object in ANY state — whatever
    generators exist, wherever they are suspended, whatever `filter_empty_lines` an abandoned `.inc` pass left on any
    Context — shows exactly what a fresh parser shows for the contents of the current Context.  All five formats,
    all texts. -/
theorem walk_after_partial_is_fresh (f : Fmt) (σ : Obj) (cid : Nat) (c : CtxO) (loc : Bool)
    (hcur : σ.cur = some cid) (hc : σ.heap[cid]? = some c) :
    runG f σ [.mk loc, .drain σ.gens.length] = [.full (view f c.s loc)] := by
  rw [fresh_pass, hcur]
  simp only [hc]

/-- … and a parser that holds no Context shows nothing, in any state -/
theorem gen_noctx (f : Fmt) (σ : Obj) (loc : Bool) (hcur : σ.cur = none) :
    runG f σ [.mk loc, .drain σ.gens.length] = [.full (.done [])] := by
  rw [fresh_pass, hcur]

/-- History form: after ANY history `h` on a new parser object (reads, generators created, partially consumed,
    interleaved, drained, closed, abandoned — in any order), a complete pass shows the fresh parse of the text of the
    LAST `readUnicode` of `h` (nothing if there was none). -/
theorem complete_pass_after_any_history (f : Fmt) (h : List Op) (loc : Bool) :
    runG f (execG f {} h) [.mk loc, .drain (countMk h)] =
      [.full (match lastRead h none with | some t => view f t loc | none => .done [])] :=
  complete_pass f h loc

/-- A pass abandoned after `k` entries shows a PREFIX of the complete pass (exactly `k` entries when there are that
    many, otherwise all of them), and resuming the same generator shows exactly the remaining suffix: nothing is
    lost, duplicated or reordered by suspending a pass.  Any object state, all five formats. -/
theorem partial_pass_is_prefix (f : Fmt) (σ : Obj) (loc : Bool) (k : Nat) :
    ∃ es o, runG f σ [.mk loc, .drain σ.gens.length] = [.full (.done es)] ∧
      runG f σ [.mk loc, .next σ.gens.length k, .drain σ.gens.length] =
        [o, .full (.done (es.drop o.entries.length))] ∧
      o.entries = es.take o.entries.length ∧
      ((o = .part (es.take k) ∧ k ≤ es.length) ∨ o = .full (.done es)) :=
  partial_pass f σ loc k

/-- what `next`/`list` show of a generator is always the front of what remained of it, and what remains afterwards
    is the rest (`remaining` = the walk from the generator's own `next_offset` on its own captured Context) -/
theorem next_shows_front_of_remaining (f : Fmt) (k : Nat) (σ : Obj) (g : Nat) :
    (∀ es, (nextK f k σ g).2 = .part es →
      es.length = k ∧ remaining f σ g = prepend es (remaining f (nextK f k σ g).1 g)) ∧
    (∀ r, (nextK f k σ g).2 = .full r → r = remaining f σ g ∧ remaining f (nextK f k σ g).1 g = .done []) :=
  nextK_spec f k σ g

theorem list_shows_remaining (f : Fmt) (σ : Obj) (g : Nat) :
    (drainG f σ g).2 = .full (remaining f σ g) ∧ remaining f (drainG f σ g).1 g = .done [] :=
  drainG_spec f σ g

/-- INTERLEAVED passes, properties / DTD / ini / PO: what remains of generator `g` is unchanged by every operation
    on other generators (created, consumed, drained, closed), so — with `next_shows_front_of_remaining` — the
    concatenation of everything `g` shows, under any interleaving, is what remained when it was created. -/
theorem interleaved_walks_independent (f : Fmt) (hf : f ≠ .inc) (σ : Obj) (g : Nat) (op : Op) (hg : g < σ.gens.length)
    (hnr : ∀ t, op ≠ .read t) (ht : target op ≠ some g) :
    remaining f (stepG f σ op).1 g = remaining f σ g :=
  stepG_other f hf σ g op hg hnr ht

/-- non-vacuity / the shape of the missed regression: `a=b⏎c=d⏎`; a full pass abandoned after ONE entry, a
    localizable pass abandoned after ZERO entries, then `list(p)` and `list(p.walk())`: both complete and fresh -/
example :
    runG .properties {} [.read #[97, 61, 98, 10, 99, 61, 100, 10],
      .mk false, .next 0 1, .close 0, .mk true, .next 1 0, .mk true, .drain 2, .mk false, .drain 3] =
    [.part [{ kind := .entity, full := 0, s := 0, e := 3, ks := 0, ke := 1, vs := 2, ve := 3 }],
     .part [],
     .full (.done [{ kind := .entity, full := 0, s := 0, e := 3, ks := 0, ke := 1, vs := 2, ve := 3 },
                   { kind := .entity, full := 4, s := 4, e := 7, ks := 4, ke := 5, vs := 6, ve := 7 }]),
     .full (.done [{ kind := .entity, full := 0, s := 0, e := 3, ks := 0, ke := 1, vs := 2, ve := 3 },
                   { kind := .whitespace, full := 3, s := 3, e := 4, ks := 3, ke := 4, vs := 3, ve := 4 },
                   { kind := .entity, full := 4, s := 4, e := 7, ks := 4, ke := 5, vs := 6, ve := 7 },
                   { kind := .whitespace, full := 7, s := 7, e := 8, ks := 7, ke := 8, vs := 7, ve := 8 }])] := by
  decide +kernel

/-- negation witness for `hf` in `interleaved_walks_independent`: `.inc` passes share `ctx.filter_empty_lines`.
    `#define x⏎#filter emptyLines⏎⏎`: pass 0 has gone past `#filter emptyLines`; starting pass 1 resets the flag
    (`DefinesParser.walk`); pass 0 then reports the blank line as Junk, where a fresh parse has white-space.
    (The real code does the same: candidate finding C01-inc-interleaved-walks-share-filter-flag, see NOTES.) -/
example :
    runG .inc {} [.read #[35, 100, 101, 102, 105, 110, 101, 32, 120, 10, 35, 102, 105, 108, 116, 101, 114, 32, 101, 109, 112, 116, 121, 76, 105, 110, 101, 115, 10, 10],
      .mk false, .next 0 3, .mk true, .next 1 1, .drain 0] =
    [.part [{ kind := .entity, full := 0, s := 0, e := 9, ks := 8, ke := 9 },
            { kind := .whitespace, full := 9, s := 9, e := 10, ks := 9, ke := 10, vs := 9, ve := 10 },
            { kind := .instruction, full := 10, s := 10, e := 28, ks := 11, ke := 28, vs := 11, ve := 28 }],
     .part [{ kind := .entity, full := 0, s := 0, e := 9, ks := 8, ke := 9 }],
     .full (.done [{ kind := .junk, full := 28, s := 28, e := 30 }])] ∧
    walk .inc #[35, 100, 101, 102, 105, 110, 101, 32, 120, 10, 35, 102, 105, 108, 116, 101, 114, 32, 101, 109, 112, 116, 121, 76, 105, 110, 101, 115, 10, 10] =
      .done [{ kind := .entity, full := 0, s := 0, e := 9, ks := 8, ke := 9 },
             { kind := .whitespace, full := 9, s := 9, e := 10, ks := 9, ke := 10, vs := 9, ve := 10 },
             { kind := .instruction, full := 10, s := 10, e := 28, ks := 11, ke := 28, vs := 11, ve := 28 },
             { kind := .whitespace, full := 28, s := 28, e := 30, ks := 28, ke := 30, vs := 28, ve := 30 }] := by
  decide +kernel

end C01
